(* Lemmas about the Maven resolver model: one BFS step preserves the invariants, lifted by
   induction on fuel to a pass and through the retry loop to resolve. *)
From Coq Require Import Lia.
From DepsDev Require Import Lib.Base Gen.MavenResTables Resolve.MavenRes.

(* ------------------------------------------------------------------ lists, maps *)

Lemma memb_In {A} (dec : forall a b : A, {a = b} + {a <> b}) x l : memb dec x l = true <-> In x l.
Proof.
  unfold memb. rewrite existsb_exists. split.
  - intros [y [Hy E]]. destruct (dec x y); [subst; auto | discriminate].
  - intros H. exists x. split; auto. destruct (dec x x); auto.
Qed.

Lemma memb_not_In {A} (dec : forall a b : A, {a = b} + {a <> b}) x l : memb dec x l = false <-> ~ In x l.
Proof.
  rewrite <- (memb_In dec). destruct (memb dec x l); split; intros H.
  - discriminate.
  - exfalso. apply H. reflexivity.
  - intros H'. discriminate.
  - reflexivity.
Qed.

Definition prefix {A} (l l' : list A) : Prop := exists t, l' = l ++ t.

Lemma prefix_refl {A} (l : list A) : prefix l l.
Proof. exists []. now rewrite app_nil_r. Qed.
Lemma prefix_trans {A} (a b c : list A) : prefix a b -> prefix b c -> prefix a c.
Proof. intros [t ->] [u ->]. exists (t ++ u). now rewrite app_assoc. Qed.
Lemma prefix_app {A} (l t : list A) : prefix l (l ++ t).
Proof. now exists t. Qed.
Lemma prefix_nil {A} (l : list A) : prefix [] l.
Proof. now exists l. Qed.
Lemma prefix_In {A} (l l' : list A) x : prefix l l' -> In x l -> In x l'.
Proof. intros [t ->] H. apply in_or_app; auto. Qed.
Lemma prefix_length {A} (l l' : list A) : prefix l l' -> (length l <= length l')%nat.
Proof. intros [t ->]. rewrite app_length. lia. Qed.
Lemma prefix_hd {A} (l l' : list A) x : prefix l l' -> hd_error l = Some x -> hd_error l' = Some x.
Proof. intros [t ->]. destruct l; simpl; auto. discriminate. Qed.

Section AListLemmas.
  Context {K V : Type} (dec : forall a b : K, {a = b} + {a <> b}).

  Lemma aget_aset_same (m : list (K * V)) k v : aget dec (aset dec m k v) k = Some v.
  Proof.
    induction m as [|[k' v'] m IH]; simpl.
    - destruct (dec k k); congruence.
    - destruct (dec k k') eqn:E; simpl; rewrite ?E; auto.
      destruct (dec k k); congruence.
  Qed.

  Lemma aget_aset_other (m : list (K * V)) k v k' : k' <> k -> aget dec (aset dec m k v) k' = aget dec m k'.
  Proof.
    intros N. induction m as [|[k0 v0] m IH]; simpl.
    - destruct (dec k' k); congruence.
    - destruct (dec k k0); simpl.
      + subst. destruct (dec k' k0); congruence.
      + destruct (dec k' k0); auto.
  Qed.

  Lemma aget_app_some (m m' : list (K * V)) k v : aget dec m k = Some v -> aget dec (m ++ m') k = Some v.
  Proof.
    induction m as [|[k0 v0] m IH]; simpl; [discriminate|].
    destruct (dec k k0); auto.
  Qed.

  Lemma aget_app_none (m m' : list (K * V)) k : aget dec m k = None -> aget dec (m ++ m') k = aget dec m' k.
  Proof.
    induction m as [|[k0 v0] m IH]; simpl; auto.
    destruct (dec k k0); [discriminate | auto].
  Qed.

  Lemma aget_none_keys (m : list (K * V)) k : ~ In k (map fst m) -> aget dec m k = None.
  Proof.
    induction m as [|[k0 v0] m IH]; simpl; auto.
    intros H. destruct (dec k k0); [subst; tauto | apply IH; tauto].
  Qed.

  Lemma aget_some_keys (m : list (K * V)) k v : aget dec m k = Some v -> In k (map fst m).
  Proof.
    induction m as [|[k0 v0] m IH]; simpl; [discriminate|].
    destruct (dec k k0); [subst; auto | auto].
  Qed.
End AListLemmas.

(* ------------------------------------------------------------------ dependency types *)

Lemma pairs_set_other l k v k' : k' <> k -> aget N.eq_dec (pairs_set l k v) k' = aget N.eq_dec l k'.
Proof.
  intros N0. induction l as [|[a b] l IH]; simpl.
  - destruct (N.eq_dec k' k); congruence.
  - destruct (k <? a) eqn:L; simpl.
    + destruct (N.eq_dec k' k); congruence.
    + destruct (k =? a) eqn:E; simpl.
      * apply N.eqb_eq in E. subst. destruct (N.eq_dec k' a); congruence.
      * destruct (N.eq_dec k' a); auto.
Qed.

Lemma ty_get_set_other t k v k' : k' <> k -> ty_get (ty_set t k v) k' = ty_get t k'.
Proof. intros. unfold ty_get, ty_set; simpl. now apply pairs_set_other. Qed.

Lemma ty_flag_set t k v m : ty_flag (ty_set t k v) m = ty_flag t m.
Proof. reflexivity. Qed.

Lemma warish_selector t : warish (ty_set t depkey_Selector []) = warish t.
Proof. unfold warish. rewrite ty_get_set_other; [reflexivity | discriminate]. Qed.

Lemma mkey_for_selector pk t : mkey_for pk (ty_set t depkey_Selector []) = mkey_for pk t.
Proof. unfold mkey_for. rewrite !ty_get_set_other; [reflexivity | discriminate | discriminate]. Qed.

Definition excl_of_type (t : dtype) : option (list bytes) :=
  match ty_get t depkey_MavenExclusions with Some s => parse_exclusions s | None => None end.

Lemma excl_of_type_selector t : excl_of_type (ty_set t depkey_Selector []) = excl_of_type t.
Proof. unfold excl_of_type. rewrite ty_get_set_other; [reflexivity | discriminate]. Qed.

(* what a dependency followed from a non-root node cannot be *)
Definition transitive_ok (t : dtype) : Prop :=
  ty_flag t depkey_Test_mask = false /\ ty_flag t depkey_Opt_mask = false /\ ty_get t depkey_Scope <> Some b_provided.

Lemma import_kept_0 t : import_kept 0 t = true -> transitive_ok t.
Proof.
  unfold import_kept, opt_has. simpl N.land. simpl negb. simpl orb.
  rewrite !andb_true_iff, !negb_true_iff. intros [[[H1 H2] _] H4]. repeat split; auto.
  intros E. rewrite E in H4. destruct (bytes_dec b_provided b_provided); congruence.
Qed.

Lemma transitive_ok_selector t : transitive_ok t -> transitive_ok (ty_set t depkey_Selector []).
Proof.
  unfold transitive_ok. rewrite !ty_flag_set, ty_get_set_other; [auto | discriminate].
Qed.

(* ------------------------------------------------------------------ the resolver *)
Section Proofs.
  Variable c_version : vkey -> res version.
  Variable c_versions : pkey -> res (list version).
  Variable c_requirements : vkey -> res (list reqver).
  Variable is_simple : bytes -> res bool.
  Variable cmatch : bytes -> bytes -> bool.
  Variable vless : vkey -> vkey -> bool.

  Notation find_match := (find_match c_version c_versions is_simple cmatch vless).
  Notation process_dep := (process_dep c_version c_versions is_simple cmatch vless).
  Notation process_deps := (process_deps c_version c_versions is_simple cmatch vless).
  Notation step := (step c_version c_versions c_requirements is_simple cmatch vless).
  Notation bfs := (bfs c_version c_versions c_requirements is_simple cmatch vless).
  Notation pass := (pass c_version c_versions c_requirements is_simple cmatch vless).
  Notation retry := (retry c_version c_versions c_requirements is_simple cmatch vless).
  Notation resolve_full := (resolve_full c_version c_versions c_requirements is_simple cmatch vless).
  Notation resolve := (resolve c_version c_versions c_requirements is_simple cmatch vless).
  Notation imports := (imports c_requirements).
  Notation fm_scan := (fm_scan c_versions is_simple cmatch vless).
  Notation fm_pick := (fm_pick c_version cmatch).
  Notation fm_open := (fm_open c_versions vless).

  (* ---------------------------------------------------------------- findMatch *)

  (* the hard list collected by the scan is exactly the non-simple requirement strings *)
  Lemma fm_open_hard i r a a1 : fm_open i r a = Ok a1 -> fm_hard a1 = fm_hard a /\ fm_soft a1 = fm_soft a.
  Proof.
    unfold MavenRes.fm_open. destruct (fm_hidx a); [intros H; inversion H; auto|].
    destruct (c_versions (vk_pk r)) as [vs| | |]; simpl; try discriminate.
    destruct (versions_desc vless vs); simpl; try discriminate. intros H; inversion H; auto.
  Qed.

  Lemma fm_scan_hard : forall reqs i a a',
      fm_scan i reqs a = Ok a' ->
      forall h, In h (fm_hard a') <->
                (In h (fm_hard a) \/ exists r, In r reqs /\ is_simple (vk_ver r) = Ok false /\ h = vk_ver r).
  Proof.
    induction reqs as [|r reqs IH]; intros i a a'; simpl.
    - intros H h. inversion H; subst. split; auto. intros [?|[r [[] _]]]; auto.
    - destruct (is_simple (vk_ver r)) as [s| | |] eqn:S; simpl; try discriminate.
      destruct s.
      + intros H h. apply IH with (h := h) in H. simpl in H. rewrite H. split.
        * intros [?|[r' [I [S' E]]]]; auto. right. exists r'. auto.
        * intros [?|[r' [[->|I] [S' E]]]]; auto; [congruence|]. right. exists r'. auto.
      + destruct (fm_open i r a) as [a1| | |] eqn:O; simpl; try discriminate.
        destruct (existsb _ (fm_vers a1)); [|discriminate].
        intros H h. apply IH with (h := h) in H. simpl in H. rewrite H.
        destruct (fm_open_hard _ _ _ _ O) as [Hh _].
        rewrite in_app_iff, Hh. simpl. split.
        * intros [[?|[<-|[]]]|[r' [I [S' E]]]]; auto.
          -- right. exists r. auto.
          -- right. exists r'. auto.
        * intros [?|[r' [[->|I] [S' E]]]]; auto. right. exists r'. auto.
  Qed.

  Lemma fm_scan_soft : forall reqs i a a',
      fm_scan i reqs a = Ok a' ->
      (forall r, In r reqs -> is_simple (vk_ver r) = Ok true) ->
      fm_hidx a' = fm_hidx a /\ fm_hard a' = fm_hard a /\
      fm_soft a' = fm_soft a ++ map (fun r => set_vt r vtype_Concrete) reqs.
  Proof.
    induction reqs as [|r reqs IH]; intros i a a' H All; simpl in H.
    - inversion H; subst. rewrite app_nil_r. auto.
    - rewrite (All r (or_introl eq_refl)) in H. simpl in H.
      apply IH in H; [|intros; apply All; simpl; auto]. simpl in H.
      destruct H as [H1 [H2 H3]]. repeat split; auto.
      rewrite H3, <- app_assoc. reflexivity.
  Qed.

  Lemma first_listed_sound a v : first_listed cmatch a = Some v -> matches_all cmatch (fm_hard a) (vk_ver (v_vk v)) = true.
  Proof. unfold first_listed. intros H. apply find_some in H. tauto. Qed.

  Definition version_faithful : Prop := forall k v, c_version k = Ok v -> v_vk v = k.

  Lemma fm_pick_sound : version_faithful -> forall softs i a v,
      fm_pick i softs a = Ok v -> matches_all cmatch (fm_hard a) (vk_ver (v_vk v)) = true.
  Proof.
    intros VF. induction softs as [|s softs IH]; intros i a v H; simpl in H.
    - destruct (at_hard a i); [|discriminate].
      destruct (first_listed cmatch a) eqn:F; [|discriminate]. inversion H; subst. now apply first_listed_sound.
    - destruct (if at_hard a i then first_listed cmatch a else None) eqn:F.
      + inversion H; subst. destruct (at_hard a i); [|discriminate]. now apply first_listed_sound.
      + destruct (matches_all cmatch (fm_hard a) (vk_ver s)) eqn:M.
        * apply VF in H. rewrite H. exact M.
        * eapply IH; eauto.
  Qed.

  (* C07 range clause, at the level of findMatch: the selected version satisfies every
     non-simple requirement of the list *)
  Lemma find_match_sound : version_faithful -> forall l v r,
      find_match l = Ok v -> In r l -> is_simple (vk_ver r) = Ok false ->
      cmatch (vk_ver r) (vk_ver (v_vk v)) = true.
  Proof.
    intros VF l v r H I S. revert H. unfold MavenRes.find_match.
    destruct l as [|r0 rest]; [discriminate|].
    destruct (existsb _ rest); [discriminate|].
    destruct (fm_scan 0 (r0 :: rest) (mkFm [] [] None [])) as [a| | |] eqn:Sc; simpl; try discriminate.
    intros H. apply fm_pick_sound in H; auto.
    unfold matches_all in H. rewrite forallb_forall in H. apply H.
    apply (fm_scan_hard _ _ _ _ Sc). right. exists r. auto.
  Qed.

  (* all requirements soft: the first one is selected, whatever else is in the list *)
  Lemma find_match_all_soft : forall r0 rest,
      (forall r, In r (r0 :: rest) -> is_simple (vk_ver r) = Ok true) ->
      (forall r, In r rest -> vk_pk r = vk_pk r0) ->
      find_match (r0 :: rest) = c_version (set_vt r0 vtype_Concrete).
  Proof.
    intros r0 rest All Same. unfold MavenRes.find_match.
    assert (E : existsb (fun r => if pkey_dec (vk_pk r) (vk_pk r0) then false else true) rest = false).
    { apply not_true_is_false. intros H. apply existsb_exists in H. destruct H as [x [Hx Hd]].
      rewrite (Same x Hx) in Hd. destruct (pkey_dec (vk_pk r0) (vk_pk r0)); congruence. }
    rewrite E.
    destruct (fm_scan 0 (r0 :: rest) (mkFm [] [] None [])) as [a| | |] eqn:Sc.
    - destruct (fm_scan_soft _ _ _ _ Sc All) as [H1 [H2 H3]]. simpl in *.
      rewrite H3. simpl. unfold at_hard. rewrite H1, H2. reflexivity.
    - exfalso. revert Sc All. generalize (mkFm [] [] None []) 0%nat (r0 :: rest). intros a i l. revert a i.
      induction l as [|x l IH]; intros a i Sc All; simpl in Sc; [discriminate|].
      rewrite (All x (or_introl eq_refl)) in Sc. simpl in Sc. eapply IH; eauto. intros; apply All; simpl; auto.
    - exfalso. revert Sc All. generalize (mkFm [] [] None []) 0%nat (r0 :: rest). intros a i l. revert a i.
      induction l as [|x l IH]; intros a i Sc All; simpl in Sc; [discriminate|].
      rewrite (All x (or_introl eq_refl)) in Sc. simpl in Sc. eapply IH; eauto. intros; apply All; simpl; auto.
    - exfalso. revert Sc All. generalize (mkFm [] [] None []) 0%nat (r0 :: rest). intros a i l. revert a i.
      induction l as [|x l IH]; intros a i Sc All; simpl in Sc; [discriminate|].
      rewrite (All x (or_introl eq_refl)) in Sc. simpl in Sc. eapply IH; eauto. intros; apply All; simpl; auto.
  Qed.

  (* ---------------------------------------------------------------- one declaration *)
  Section OneRoot.
  Variable root : vkey.
  Variable mgt : list (mkey * vkey).

  Definition dep_k (d : dependency) : mkey := mkey_for (vk_pk (d_vk d)) (d_ty d).
  Definition dep_dvk (first : bool) (d : dependency) : vkey := managed first mgt (dep_k d) (d_vk d).
  Definition dep_st1 (first : bool) (st : pst) (d : dependency) : pst :=
    set_reqs st (note_req (s_reqs st) (dep_k d) (dep_dvk first d)).
  Definition dep_l (first : bool) (st : pst) (d : dependency) : list vkey :=
    reqs_of (s_reqs (dep_st1 first st d)) (dep_k d).
  Definition dep_name (d : dependency) : bytes := pk_name (vk_pk (d_vk d)).

  Definition dep_edge (first : bool) (cur : node) (d : dependency) (m : version) (kind : ekind) : edge :=
    mkEdge (n_vk cur) (v_vk m) (vk_ver (dep_dvk first d))
           (match kind with ECreated => ty_set (d_ty d) depkey_Selector [] | _ => d_ty d end)
           (dep_dvk first d) (dep_k d) kind.

  Inductive dep_go (first : bool) (cur : node) (st : pst) (d : dependency) : pst -> Prop :=
  | DG_excluded :
      is_excluded (n_excl cur) (dep_name d) = Ok true ->
      dep_go first cur st d st
  | DG_nomatch :
      is_excluded (n_excl cur) (dep_name d) = Ok false ->
      find_match (dep_l first st d) = Err ENoMatch ->
      dep_go first cur st d
             (set_g (dep_st1 first st d)
                    (g_add_err (s_g st) (mkNErr (n_vk cur) (dep_dvk first d) (dep_k d))))
  | DG_existing m :
      is_excluded (n_excl cur) (dep_name d) = Ok false ->
      find_match (dep_l first st d) = Ok m ->
      In (dep_k d, v_vk m) (s_conc st) ->
      dep_go first cur st d
             (set_g (dep_st1 first st d) (g_add_edge (s_g st) (dep_edge first cur d m EExisting)))
  | DG_shared m :
      is_excluded (n_excl cur) (dep_name d) = Ok false ->
      find_match (dep_l first st d) = Ok m ->
      ~ In (dep_k d, v_vk m) (s_conc st) ->
      ~ In (dep_k d) (s_resolved st) ->
      In (v_vk m) (g_nodes (s_g st)) ->
      dep_go first cur st d
             (set_g (dep_st1 first st d) (g_add_edge (s_g st) (dep_edge first cur d m EShared)))
  | DG_created m :
      is_excluded (n_excl cur) (dep_name d) = Ok false ->
      find_match (dep_l first st d) = Ok m ->
      ~ In (dep_k d, v_vk m) (s_conc st) ->
      ~ In (dep_k d) (s_resolved st) ->
      ~ In (v_vk m) (g_nodes (s_g st)) ->
      dep_go first cur st d
             (mkSt (s_reqs (dep_st1 first st d))
                   (g_add_edge (g_add_node (s_g st) (v_vk m) (merge_excl (d_excl d) (n_excl cur)))
                               (dep_edge first cur d m ECreated))
                   (s_todo st ++ [mkNode (dep_k d) (v_vk m) (warish (d_ty d)) (merge_excl (d_excl d) (n_excl cur))])
                   (s_resolved st ++ [dep_k d]) (s_conc st ++ [(dep_k d, v_vk m)])).

  Lemma process_dep_go first cur st d st' :
    process_dep first cur mgt st d = (st', Go) -> dep_go first cur st d st'.
  Proof.
    unfold MavenRes.process_dep.
    fold (dep_name d). fold (dep_k d). fold (dep_dvk first d). fold (dep_st1 first st d).
    fold (dep_l first st d).
    destruct (is_excluded (n_excl cur) (dep_name d)) as [[|]| | |] eqn:X; try (intros H; discriminate).
    - intros H; inversion H; subst. now apply DG_excluded.
    - destruct (find_match (dep_l first st d)) as [m|e| |] eqn:F; try (intros H; discriminate).
      + destruct (memb mvkey_dec (dep_k d, v_vk m) (s_conc (dep_st1 first st d))) eqn:C.
        * intros H; inversion H; subst. apply memb_In in C. now apply DG_existing with (m := m).
        * destruct (memb mkey_dec (dep_k d) (s_resolved (dep_st1 first st d))) eqn:R; [intros H; discriminate|].
          destruct (v_registries m); [intros H; discriminate|].
          apply memb_not_In in C. apply memb_not_In in R.
          destruct (memb vkey_dec (v_vk m) (g_nodes (s_g (dep_st1 first st d)))) eqn:Nd.
          -- intros H; inversion H; subst. apply memb_In in Nd. now apply DG_shared with (m := m).
          -- intros H; inversion H; subst. apply memb_not_In in Nd. now apply DG_created with (m := m).
      + destruct (e =? ENoMatch) eqn:E; [|intros H; discriminate].
        apply N.eqb_eq in E. subst. intros H; inversion H; subst. now apply DG_nomatch.
  Qed.

  (* ---------------------------------------------------------------- requirements only grow *)
  Definition reqs_extends (r r' : reqmap) : Prop := forall k, prefix (reqs_of r k) (reqs_of r' k).

  Lemma reqs_extends_refl r : reqs_extends r r.
  Proof. intros k. apply prefix_refl. Qed.
  Lemma reqs_extends_trans a b c : reqs_extends a b -> reqs_extends b c -> reqs_extends a c.
  Proof. intros H1 H2 k. eapply prefix_trans; eauto. Qed.

  Lemma reqs_of_aset_same r k l : reqs_of (aset mkey_dec r k l) k = l.
  Proof. unfold reqs_of. now rewrite aget_aset_same. Qed.
  Lemma reqs_of_aset_other r k l k' : k' <> k -> reqs_of (aset mkey_dec r k l) k' = reqs_of r k'.
  Proof. intros. unfold reqs_of. now rewrite aget_aset_other. Qed.

  Lemma aset_append_extends r k t : reqs_extends r (aset mkey_dec r k (reqs_of r k ++ t)).
  Proof.
    intros k'. destruct (mkey_dec k' k) as [->|N].
    - rewrite reqs_of_aset_same. apply prefix_app.
    - rewrite reqs_of_aset_other; auto. apply prefix_refl.
  Qed.

  Lemma note_req_extends r k v : reqs_extends r (note_req r k v).
  Proof.
    unfold note_req. destruct (memb vkey_dec v (reqs_of r k)).
    - apply reqs_extends_refl.
    - apply aset_append_extends.
  Qed.

  Lemma note_req_in r k v : In v (reqs_of (note_req r k v) k).
  Proof.
    unfold note_req. destruct (memb vkey_dec v (reqs_of r k)) eqn:M.
    - now apply memb_In in M.
    - rewrite reqs_of_aset_same. apply in_or_app. right. simpl. auto.
  Qed.

  Lemma note_req_other r k v k' : k' <> k -> reqs_of (note_req r k v) k' = reqs_of r k'.
  Proof.
    intros. unfold note_req. destruct (memb vkey_dec v (reqs_of r k)); auto.
    now apply reqs_of_aset_other.
  Qed.

  Lemma dep_l_in first st d : In (dep_dvk first d) (dep_l first st d).
  Proof. unfold dep_l, dep_st1. simpl. apply note_req_in. Qed.

  Lemma dep_st1_extends first st d : reqs_extends (s_reqs st) (s_reqs (dep_st1 first st d)).
  Proof. unfold dep_st1. simpl. apply note_req_extends. Qed.

  Lemma process_dep_reqs first cur st d st' f :
    process_dep first cur mgt st d = (st', f) -> reqs_extends (s_reqs st) (s_reqs st').
  Proof.
    unfold MavenRes.process_dep.
    fold (dep_name d). fold (dep_k d). fold (dep_dvk first d). fold (dep_st1 first st d).
    fold (dep_l first st d).
    pose proof (dep_st1_extends first st d) as E1.
    destruct (is_excluded (n_excl cur) (dep_name d)) as [[|]| | |];
      try (intros H; inversion H; subst; apply reqs_extends_refl).
    destruct (find_match (dep_l first st d)) as [m|e| |]; try (intros H; inversion H; subst; exact E1).
    - destruct (memb mvkey_dec _ _); [intros H; inversion H; subst; exact E1|].
      destruct (memb mkey_dec _ _).
      + intros H; inversion H; subst. simpl. eapply reqs_extends_trans; [exact E1|].
        unfold dep_l. apply aset_append_extends.
      + destruct (v_registries m); [intros H; inversion H; subst; exact E1|].
        destruct (memb vkey_dec _ _); intros H; inversion H; subst; exact E1.
    - destruct (e =? ENoMatch); intros H; inversion H; subst; exact E1.
  Qed.

  Lemma process_dep_incompat first cur st d st' :
    process_dep first cur mgt st d = (st', Stop EIncompat) ->
    (exists k, length (reqs_of (s_reqs st) k) < length (reqs_of (s_reqs st') k))%nat
    \/ is_excluded (n_excl cur) (dep_name d) = Err EIncompat
    \/ find_match (dep_l first st d) = Err EIncompat.
  Proof.
    unfold MavenRes.process_dep.
    fold (dep_name d). fold (dep_k d). fold (dep_dvk first d). fold (dep_st1 first st d).
    fold (dep_l first st d).
    pose proof (dep_st1_extends first st d (dep_k d)) as E1.
    destruct (is_excluded (n_excl cur) (dep_name d)) as [[|]|e| |]; try (intros H; discriminate).
    - destruct (find_match (dep_l first st d)) as [m|e| |]; try (intros H; discriminate).
      + destruct (memb mvkey_dec _ _); [intros H; discriminate|].
        destruct (memb mkey_dec _ _).
        * intros H; inversion H; subst. left. exists (dep_k d). simpl.
          rewrite reqs_of_aset_same, app_length. simpl.
          apply prefix_length in E1. unfold dep_l. lia.
        * destruct (v_registries m); [intros H; discriminate|].
          destruct (memb vkey_dec _ _); intros H; discriminate.
      + destruct (e =? ENoMatch); [intros H; discriminate|].
        intros H; inversion H; subst. right. right. reflexivity.
    - intros H; inversion H; subst. right. left. reflexivity.
  Qed.

  Lemma process_deps_reqs first cur : forall ds st st' f,
      process_deps first cur mgt st ds = (st', f) -> reqs_extends (s_reqs st) (s_reqs st').
  Proof.
    induction ds as [|d ds IH]; intros st st' f H; simpl in H.
    - inversion H; subst. apply reqs_extends_refl.
    - destruct (process_dep first cur mgt st d) as [st1 f1] eqn:P.
      apply process_dep_reqs in P. destruct f1.
      + eapply reqs_extends_trans; eauto.
      + inversion H; subst. exact P.
  Qed.

  Lemma step_reqs first cur st st' f : step first mgt cur st = (st', f) -> reqs_extends (s_reqs st) (s_reqs st').
  Proof.
    unfold MavenRes.step. destruct (n_incl cur); [intros H; inversion H; subst; apply reqs_extends_refl|].
    destruct (imports _ _); try (intros H; inversion H; subst; apply reqs_extends_refl).
    apply process_deps_reqs.
  Qed.

  Lemma bfs_reqs : forall fuel first st st' f,
      bfs fuel first mgt st = (st', f) -> reqs_extends (s_reqs st) (s_reqs st').
  Proof.
    induction fuel as [|fuel IH]; intros first st st' f H; simpl in H.
    - destruct (s_todo st); inversion H; subst; apply reqs_extends_refl.
    - destruct (s_todo st) as [|cur rest]; [inversion H; subst; apply reqs_extends_refl|].
      destruct (step first mgt cur (set_todo st rest)) as [st1 f1] eqn:S.
      apply step_reqs in S. simpl in S. destruct f1.
      + eapply reqs_extends_trans; eauto.
      + inversion H; subst. exact S.
  Qed.

  (* ---------------------------------------------------------------- generic lifting *)
  Definition dep_ok (first : bool) (d : dependency) : Prop :=
    d_excl d = excl_of_type (d_ty d) /\ (first = false -> transitive_ok (d_ty d)).

  Lemma imports_ok (first : bool) vk ds :
    imports vk (if first then all_imports else 0) = Ok ds -> Forall (dep_ok first) ds.
  Proof.
    unfold MavenRes.imports. destruct (c_requirements vk) as [imps| | |]; simpl; try discriminate.
    intros H; inversion H; subst. clear H. apply Forall_forall. intros d Hd.
    apply in_map_iff in Hd. destruct Hd as [r [<- Hr]]. apply filter_In in Hr. destruct Hr as [_ K].
    split; [reflexivity|]. intros ->. simpl. now apply import_kept_0.
  Qed.

  Section Lift.
    Variable I : pst -> Prop.
    Variable C : bool -> node -> pst -> Prop.
    Hypothesis Hdep : forall first cur st d st',
        I st -> C first cur st -> dep_ok first d -> dep_go first cur st d st' -> I st' /\ C first cur st'.
    Hypothesis Hpop : forall st cur rest,
        I st -> s_todo st = cur :: rest ->
        I (set_todo st rest) /\ (n_incl cur = false -> C false cur (set_todo st rest)).

    Lemma lift_deps first cur : forall ds st st',
        Forall (dep_ok first) ds -> I st -> C first cur st ->
        process_deps first cur mgt st ds = (st', Go) -> I st' /\ C first cur st'.
    Proof.
      induction ds as [|d ds IH]; intros st st' F Hi Hc H; simpl in H.
      - inversion H; subst. auto.
      - inversion F; subst.
        destruct (process_dep first cur mgt st d) as [st1 f1] eqn:P. destruct f1; [|discriminate].
        apply process_dep_go in P. destruct (Hdep _ _ _ _ _ Hi Hc H2 P) as [Hi1 Hc1].
        eapply IH; eauto.
    Qed.

    Lemma lift_step first cur st st' :
      I st -> (n_incl cur = false -> C first cur st) -> step first mgt cur st = (st', Go) -> I st'.
    Proof.
      intros Hi Hc. unfold MavenRes.step. destruct (n_incl cur) eqn:Inc; [intros H; inversion H; subst; auto|].
      destruct (imports (n_vk cur) _) as [ds| | |] eqn:Im; try discriminate.
      intros H. apply imports_ok in Im.
      eapply (lift_deps first cur ds st st' Im Hi (Hc eq_refl)) in H. tauto.
    Qed.

    Lemma lift_bfs : forall fuel st st', I st -> bfs fuel false mgt st = (st', Go) -> I st'.
    Proof.
      induction fuel as [|fuel IH]; intros st st' Hi H; simpl in H.
      - destruct (s_todo st); inversion H; subst; auto.
      - destruct (s_todo st) as [|cur rest] eqn:T; [inversion H; subst; auto|].
        destruct (Hpop _ _ _ Hi T) as [Hi0 Hc0].
        destruct (step false mgt cur (set_todo st rest)) as [st1 f1] eqn:S. destruct f1; [|discriminate].
        apply (lift_step false cur _ _ Hi0 Hc0) in S. eauto.
    Qed.

    Lemma lift_bfs_first fuel reqs st' :
      let st0 := set_todo (init_st root reqs) [] in
      I st0 -> C true (mkNode (root_mkey root) root false None) st0 ->
      bfs fuel true mgt (init_st root reqs) = (st', Go) -> I st'.
    Proof.
      intros st0 Hi Hc H. destruct fuel as [|fuel]; simpl in H; [discriminate|].
      fold st0 in H.
      destruct (step true mgt (mkNode (root_mkey root) root false None) st0) as [st1 f1] eqn:S.
      destruct f1; [|discriminate].
      apply (lift_step true _ _ _ Hi (fun _ => Hc)) in S. eapply lift_bfs; eauto.
    Qed.
  End Lift.

  (* ================================================================ invariant 1: structure *)
  Definition nonfirst_ok (e : edge) : Prop :=
    transitive_ok (e_ty e) /\ (forall mv, aget mkey_dec mgt (e_mk e) = Some mv -> e_req e = vk_ver mv).

  Record Inv1 (st : pst) : Prop := {
    i1_root : In root (g_nodes (s_g st));
    i1_nodup : NoDup (g_nodes (s_g st));
    i1_todo_nodes : forall t, In t (s_todo st) -> In (n_vk t) (g_nodes (s_g st));
    i1_todo_nonroot : forall t, In t (s_todo st) -> n_vk t <> root;
    i1_conc_fun : forall k v v', In (k, v) (s_conc st) -> In (k, v') (s_conc st) -> v = v';
    i1_conc_res : forall k v, In (k, v) (s_conc st) -> In k (s_resolved st);
    i1_conc_root : In (root_mkey root, root) (s_conc st);
    i1_conc_nodes : forall k v, In (k, v) (s_conc st) -> In v (g_nodes (s_g st));
    i1_edge_from : forall e, In e (g_edges (s_g st)) -> In (e_from e) (g_nodes (s_g st));
    i1_edge_to : forall e, In e (g_edges (s_g st)) -> In (e_to e) (g_nodes (s_g st));
    i1_edge_conc : forall e, In e (g_edges (s_g st)) -> e_kind e <> EShared -> In (e_mk e, e_to e) (s_conc st);
    i1_created_nonroot : forall s, In s (g_edges (s_g st)) -> e_kind s = ECreated -> e_to s <> root;
    i1_created_uniq : forall s1 s2, In s1 (g_edges (s_g st)) -> In s2 (g_edges (s_g st)) ->
                                    e_kind s1 = ECreated -> e_kind s2 = ECreated -> e_to s1 = e_to s2 -> s1 = s2;
    i1_node_created : forall v, In v (g_nodes (s_g st)) -> v <> root ->
                                exists s, In s (g_edges (s_g st)) /\ e_kind s = ECreated /\ e_to s = v;
    i1_edge_first : forall e, In e (g_edges (s_g st)) -> e_from e <> root -> nonfirst_ok e;
    i1_edge_mk : forall e, In e (g_edges (s_g st)) ->
                           e_mk e = mkey_for (vk_pk (e_dvk e)) (e_ty e) /\ e_req e = vk_ver (e_dvk e)
  }.

  Definition Cur1 (first : bool) (cur : node) (st : pst) : Prop :=
    In (n_vk cur) (g_nodes (s_g st)) /\ (first = true -> n_vk cur = root) /\ (first = false -> n_vk cur <> root).

  Ltac inapp H := apply in_app_or in H; destruct H as [H|[H|[]]].

  Lemma managed_pk first k v : vk_pk (managed first mgt k v) = vk_pk v.
  Proof. unfold managed. destruct first; auto. destruct (aget mkey_dec mgt k); auto. Qed.

  Lemma dep_edge_nonfirst first cur d m kind st :
    Cur1 first cur st -> dep_ok first d -> e_from (dep_edge first cur d m kind) <> root ->
    nonfirst_ok (dep_edge first cur d m kind).
  Proof.
    intros [_ [Ht Hf]] [_ Hok] Hne. simpl in Hne. destruct first.
    - exfalso. apply Hne. auto.
    - specialize (Hok eq_refl). split.
      + simpl. destruct kind; auto. now apply transitive_ok_selector.
      + intros mv Hm. simpl in *. unfold dep_dvk, managed. fold (dep_k d). rewrite Hm. reflexivity.
  Qed.

  Lemma dep_edge_mk first cur d m kind :
    e_mk (dep_edge first cur d m kind) = mkey_for (vk_pk (e_dvk (dep_edge first cur d m kind))) (e_ty (dep_edge first cur d m kind))
    /\ e_req (dep_edge first cur d m kind) = vk_ver (e_dvk (dep_edge first cur d m kind)).
  Proof.
    split; [|reflexivity]. simpl. unfold dep_dvk. rewrite managed_pk. unfold dep_k.
    destruct kind; auto. now rewrite mkey_for_selector.
  Qed.

  Lemma Inv1_add_edge st R1 e first cur :
    Inv1 st -> Cur1 first cur st -> e_from e = n_vk cur -> In (e_to e) (g_nodes (s_g st)) ->
    (e_kind e <> EShared -> In (e_mk e, e_to e) (s_conc st)) -> e_kind e <> ECreated ->
    (e_from e <> root -> nonfirst_ok e) ->
    (e_mk e = mkey_for (vk_pk (e_dvk e)) (e_ty e) /\ e_req e = vk_ver (e_dvk e)) ->
    Inv1 (set_g (set_reqs st R1) (g_add_edge (s_g st) e)).
  Proof.
    intros Hi [Hc _] Hfrom Hto Hconc Hk Hnf Hmk. destruct Hi. constructor; simpl; auto.
    - intros x Hx. inapp Hx; auto. subst. now rewrite Hfrom.
    - intros x Hx. inapp Hx; auto. now subst.
    - intros x Hx. inapp Hx; auto. now subst.
    - intros x Hx. inapp Hx; auto. subst. intros; contradiction.
    - intros s1 s2 H1 H2. inapp H1; inapp H2; subst; auto; intros; try contradiction.
    - intros v Hv Hr. destruct (i1_node_created0 v Hv Hr) as [s [Hs Hs']]. exists s. split; auto.
      apply in_or_app; auto.
    - intros x Hx. inapp Hx; auto. now subst.
    - intros x Hx. inapp Hx; auto. now subst.
  Qed.

  Lemma NoDup_snoc {A} (l : list A) x : NoDup l -> ~ In x l -> NoDup (l ++ [x]).
  Proof.
    induction l as [|a l IH]; simpl; intros Hn Hx.
    - repeat constructor; auto.
    - inversion Hn; subst. constructor.
      + intros H. apply in_app_or in H. destruct H as [H|[H|[]]]; [tauto | subst; tauto].
      + apply IH; auto.
  Qed.

  Lemma Inv1_dep first cur st d st' :
    Inv1 st -> Cur1 first cur st -> dep_ok first d -> dep_go first cur st d st' -> Inv1 st' /\ Cur1 first cur st'.
  Proof.
    intros Hi Hc Hok Hgo. inversion Hgo; subst; clear Hgo.
    - auto.
    - split; [|exact Hc]. destruct Hi. constructor; simpl; auto.
    - split; [|exact Hc].
      apply (Inv1_add_edge st _ (dep_edge first cur d m EExisting) first cur); auto.
      + eapply (i1_conc_nodes _ Hi); eauto.
      + discriminate.
      + now apply dep_edge_nonfirst with (st := st).
      + apply dep_edge_mk.
    - split; [|exact Hc].
      apply (Inv1_add_edge st _ (dep_edge first cur d m EShared) first cur); auto.
      + intros N. exfalso. apply N. reflexivity.
      + discriminate.
      + now apply dep_edge_nonfirst with (st := st).
      + apply dep_edge_mk.
    - assert (Hmr : v_vk m <> root) by (intros E; apply H3; rewrite E; apply (i1_root _ Hi)).
      destruct Hc as [Hc1 [Hc2 Hc3]].
      split; [|split; [simpl; apply in_or_app; auto | auto]].
      pose proof (dep_edge_nonfirst first cur d m ECreated st (conj Hc1 (conj Hc2 Hc3)) Hok) as Hnf.
      destruct Hi. constructor; simpl.
      + apply in_or_app; auto.
      + now apply NoDup_snoc.
      + intros t Ht. inapp Ht; [apply in_or_app; auto|]. subst. simpl. apply in_or_app; simpl; auto.
      + intros t Ht. inapp Ht; auto. subst. simpl. auto.
      + intros k v v' H5 H6. inapp H5; inapp H6; eauto.
        * inversion H6; subst. exfalso. apply H2. eapply i1_conc_res0; eauto.
        * inversion H5; subst. exfalso. apply H2. eapply i1_conc_res0; eauto.
        * congruence.
      + intros k v H5. inapp H5; [apply in_or_app; eauto|]. inversion H5; subst. apply in_or_app; simpl; auto.
      + apply in_or_app; auto.
      + intros k v H5. inapp H5; [apply in_or_app; eauto|]. inversion H5; subst. apply in_or_app; simpl; auto.
      + intros x Hx. inapp Hx; [apply in_or_app; auto|]. subst. simpl. apply in_or_app; auto.
      + intros x Hx. inapp Hx; [apply in_or_app; auto|]. subst. simpl. apply in_or_app; simpl; auto.
      + intros x Hx Hk. inapp Hx; [apply in_or_app; auto|]. subst. simpl. apply in_or_app; simpl; auto.
      + intros x Hx Hk. inapp Hx; auto. subst. simpl. auto.
      + intros s1 s2 H5 H6 K1 K2 E. inapp H5; inapp H6; subst; auto.
        * exfalso. apply H3. simpl in E. rewrite <- E. auto.
        * exfalso. apply H3. simpl in E. rewrite E. auto.
      + intros v Hv Hr. inapp Hv.
        * destruct (i1_node_created0 v Hv Hr) as [s [Hs Hs']]. exists s. split; auto. apply in_or_app; auto.
        * subst. exists (dep_edge first cur d m ECreated). split; [apply in_or_app; simpl; auto|]. auto.
      + intros x Hx. inapp Hx; auto. now subst.
      + intros x Hx. inapp Hx; auto. subst. apply dep_edge_mk.
  Qed.

  Lemma Inv1_pop st cur rest :
    Inv1 st -> s_todo st = cur :: rest ->
    Inv1 (set_todo st rest) /\ (n_incl cur = false -> Cur1 false cur (set_todo st rest)).
  Proof.
    intros Hi T. split.
    - destruct Hi. constructor; simpl; auto.
      + intros t Ht. apply i1_todo_nodes0. rewrite T. simpl; auto.
      + intros t Ht. apply i1_todo_nonroot0. rewrite T. simpl; auto.
    - intros _. unfold Cur1. simpl. split; [|split].
      + apply (i1_todo_nodes _ Hi). rewrite T. simpl; auto.
      + discriminate.
      + intros _. apply (i1_todo_nonroot _ Hi). rewrite T. simpl; auto.
  Qed.

  Lemma Inv1_init reqs :
    let st0 := set_todo (init_st root reqs) [] in
    Inv1 st0 /\ Cur1 true (mkNode (root_mkey root) root false None) st0.
  Proof.
    simpl. split.
    - constructor; simpl; auto; try (intros; contradiction).
      + constructor; auto. constructor.
      + intros k v v' [H|[]] [H'|[]]. congruence.
      + intros k v [H|[]]. inversion H; auto.
      + intros k v [H|[]]. inversion H; auto.
      + intros v [H|[]] N. congruence.
    - unfold Cur1. simpl. split; auto. split; auto. discriminate.
  Qed.

  (* ================================================================ invariant 3: war/ear/rar *)
  Definition Inv3 (st : pst) : Prop :=
    forall s, In s (g_edges (s_g st)) -> e_kind s = ECreated -> warish (e_ty s) = true ->
      (forall e, In e (g_edges (s_g st)) -> e_from e <> e_to s) /\
      (forall t, In t (s_todo st) -> n_vk t = e_to s -> n_incl t = true).
  Definition Cur3 (cur : node) (st : pst) : Prop :=
    forall s, In s (g_edges (s_g st)) -> e_kind s = ECreated -> warish (e_ty s) = true -> e_to s <> n_vk cur.

  Lemma Inv3_add_edge st R1 e cur :
    Inv3 st -> Cur3 cur st -> e_from e = n_vk cur -> e_kind e <> ECreated ->
    Inv3 (set_g (set_reqs st R1) (g_add_edge (s_g st) e)) /\ Cur3 cur (set_g (set_reqs st R1) (g_add_edge (s_g st) e)).
  Proof.
    intros Hi Hc Hf Hk. split.
    - intros s Hs K W. simpl in Hs. inapp Hs; [|subst; contradiction].
      destruct (Hi s Hs K W) as [A B]. split; simpl; auto.
      intros x Hx. inapp Hx; auto. subst. rewrite Hf. intros E. eapply Hc; eauto.
    - intros s Hs K W. simpl in Hs. inapp Hs; [|subst; contradiction]. eapply Hc; eauto.
  Qed.

  Lemma Inv3_dep first cur st d st' :
    Inv1 st -> Cur1 first cur st -> Inv3 st -> Cur3 cur st -> dep_go first cur st d st' -> Inv3 st' /\ Cur3 cur st'.
  Proof.
    intros H1 [Hcn _] Hi Hc Hgo. inversion Hgo; subst; clear Hgo.
    - auto.
    - split; auto.
    - apply Inv3_add_edge; auto. discriminate.
    - apply Inv3_add_edge; auto. discriminate.
    - assert (Hcur : v_vk m <> n_vk cur) by (intros E; apply H4; rewrite E; exact Hcn).
      split.
      + intros s Hs K W. simpl in Hs. inapp Hs.
        * destruct (Hi s Hs K W) as [A B]. split.
          -- intros x Hx. simpl in Hx. inapp Hx; auto. subst. simpl. intros E. eapply Hc; eauto.
          -- intros t Ht E. simpl in Ht. inapp Ht; auto. subst. simpl in E. exfalso. apply H4.
             rewrite E. apply (i1_edge_to _ H1). exact Hs.
        * subst. simpl in *. rewrite warish_selector in W. split.
          -- intros x Hx. inapp Hx.
             ++ intros E. apply H4. rewrite <- E. apply (i1_edge_from _ H1). exact Hx.
             ++ subst. simpl. auto.
          -- intros t Ht E. inapp Ht.
             ++ exfalso. apply H4. rewrite <- E. apply (i1_todo_nodes _ H1). exact Ht.
             ++ subst. simpl. exact W.
      + intros s Hs K W. simpl in Hs. inapp Hs; [eapply Hc; eauto|]. subst. simpl. exact Hcur.
  Qed.

  Lemma Inv3_pop st cur rest :
    Inv3 st -> s_todo st = cur :: rest ->
    Inv3 (set_todo st rest) /\ (n_incl cur = false -> Cur3 cur (set_todo st rest)).
  Proof.
    intros Hi T. split.
    - intros s Hs K W. destruct (Hi s Hs K W) as [A B]. split; auto.
      intros t Ht. apply B. rewrite T. simpl; auto.
    - intros Inc s Hs K W E. simpl in Hs. destruct (Hi s Hs K W) as [_ B].
      rewrite (B cur) in Inc; [discriminate| rewrite T; simpl; auto | auto].
  Qed.

  (* ================================================================ invariant 4: exclusions *)
  Notation nexcl st := (g_nexcl (s_g st)).
  Record Inv4 (st : pst) : Prop := {
    i4_keys : map fst (nexcl st) = g_nodes (s_g st);
    i4_todo : forall t, In t (s_todo st) -> aget vkey_dec (nexcl st) (n_vk t) = Some (n_excl t);
    i4_root : aget vkey_dec (nexcl st) root = Some None;
    i4_edge : forall e, In e (g_edges (s_g st)) ->
                        exists ex, aget vkey_dec (nexcl st) (e_from e) = Some ex /\
                                   is_excluded ex (pk_name (vk_pk (e_dvk e))) = Ok false;
    i4_created : forall s, In s (g_edges (s_g st)) -> e_kind s = ECreated ->
                           exists exf, aget vkey_dec (nexcl st) (e_from s) = Some exf /\
                                       aget vkey_dec (nexcl st) (e_to s) = Some (merge_excl (excl_of_type (e_ty s)) exf)
  }.
  Definition Cur4 (cur : node) (st : pst) : Prop := aget vkey_dec (nexcl st) (n_vk cur) = Some (n_excl cur).

  Lemma dep_dvk_name first d : pk_name (vk_pk (dep_dvk first d)) = dep_name d.
  Proof. unfold dep_dvk. now rewrite managed_pk. Qed.

  Lemma Inv4_add_edge st R1 e cur :
    Inv4 st -> Cur4 cur st -> e_from e = n_vk cur -> e_kind e <> ECreated ->
    is_excluded (n_excl cur) (pk_name (vk_pk (e_dvk e))) = Ok false ->
    Inv4 (set_g (set_reqs st R1) (g_add_edge (s_g st) e)).
  Proof.
    intros Hi Hc Hf Hk Hx. destruct Hi. constructor; simpl; auto.
    - intros x Hin. inapp Hin; auto. subst. exists (n_excl cur). rewrite Hf. auto.
    - intros x Hin K. inapp Hin; auto. subst. contradiction.
  Qed.

  Lemma Inv4_dep first cur st d st' :
    Inv4 st -> Cur4 cur st -> dep_ok first d -> dep_go first cur st d st' -> Inv4 st' /\ Cur4 cur st'.
  Proof.
    intros Hi Hc [Hex _] Hgo. inversion Hgo; subst; clear Hgo.
    - auto.
    - split; [|exact Hc]. destruct Hi. constructor; simpl; auto.
    - split; [|exact Hc]. apply Inv4_add_edge with (cur := cur); auto; [discriminate|].
      simpl. now rewrite dep_dvk_name.
    - split; [|exact Hc]. apply Inv4_add_edge with (cur := cur); auto; [discriminate|].
      simpl. now rewrite dep_dvk_name.
    - assert (Hnone : aget vkey_dec (nexcl st) (v_vk m) = None).
      { apply aget_none_keys. rewrite (i4_keys _ Hi). exact H3. }
      assert (Hnew : forall ex, aget vkey_dec (nexcl st ++ [(v_vk m, ex)]) (v_vk m) = Some ex).
      { intros ex. rewrite aget_app_none; auto. simpl. destruct (vkey_dec (v_vk m) (v_vk m)); congruence. }
      split; [|unfold Cur4; simpl; now apply aget_app_some].
      destruct Hi. constructor; simpl.
      + rewrite map_app. simpl. now rewrite i4_keys0.
      + intros t Ht. inapp Ht; [apply aget_app_some; auto|]. subst. simpl. apply Hnew.
      + now apply aget_app_some.
      + intros x Hin. inapp Hin.
        * destruct (i4_edge0 x Hin) as [ex [A B]]. exists ex. split; auto. now apply aget_app_some.
        * subst. simpl. exists (n_excl cur). split; [now apply aget_app_some|]. now rewrite dep_dvk_name.
      + intros x Hin K. inapp Hin.
        * destruct (i4_created0 x Hin K) as [exf [A B]]. exists exf. split; now apply aget_app_some.
        * subst. simpl. exists (n_excl cur). split; [now apply aget_app_some|].
          rewrite excl_of_type_selector, <- Hex. apply Hnew.
  Qed.

  Lemma Inv4_pop st cur rest :
    Inv4 st -> s_todo st = cur :: rest ->
    Inv4 (set_todo st rest) /\ (n_incl cur = false -> Cur4 cur (set_todo st rest)).
  Proof.
    intros Hi T. split.
    - destruct Hi. constructor; simpl; auto. intros t Ht. apply i4_todo0. rewrite T. simpl; auto.
    - intros _. unfold Cur4. simpl. apply (i4_todo _ Hi). rewrite T. simpl; auto.
  Qed.

  Lemma Inv4_init reqs :
    let st0 := set_todo (init_st root reqs) [] in
    Inv4 st0 /\ Cur4 (mkNode (root_mkey root) root false None) st0.
  Proof.
    simpl. assert (E : aget vkey_dec [(root, @None (list bytes))] root = Some None).
    { simpl. destruct (vkey_dec root root); congruence. }
    split; [|exact E]. constructor; simpl; auto; intros; contradiction.
  Qed.

  (* ================================================================ invariant 5: every edge and node error is justified
     by findMatch on a prefix of the requirement list of its artifact key *)
  Definition on_k (k : mkey) (e : edge) : bool := if mkey_dec (e_mk e) k then true else false.
  Definition reqs_wf (R : reqmap) : Prop := forall k r, In r (reqs_of R k) -> vk_pk r = mk_pk k.

  Section Inv5.
  Variable R0 : reqmap.

  Record Inv5 (st : pst) : Prop := {
    i5_ext : reqs_extends R0 (s_reqs st);
    i5_wf : reqs_wf (s_reqs st);
    i5_edge : forall e, In e (g_edges (s_g st)) ->
                        exists l m, prefix l (reqs_of (s_reqs st) (e_mk e)) /\ find_match l = Ok m /\
                                    In (e_dvk e) l /\ e_to e = v_vk m;
    i5_err : forall ne, In ne (g_errs (s_g st)) ->
                        exists l, prefix l (reqs_of (s_reqs st) (ne_mk ne)) /\ In (ne_req ne) l /\
                                  find_match l = Err ENoMatch;
    i5_first : forall k, reqs_of R0 k = [] -> (forall ne, In ne (g_errs (s_g st)) -> ne_mk ne <> k) ->
                         forall e0 rest, filter (on_k k) (g_edges (s_g st)) = e0 :: rest ->
                                         hd_error (reqs_of (s_reqs st) k) = Some (e_dvk e0);
    i5_none : forall k, reqs_of R0 k = [] -> (forall ne, In ne (g_errs (s_g st)) -> ne_mk ne <> k) ->
                        (forall e, In e (g_edges (s_g st)) -> e_mk e <> k) -> reqs_of (s_reqs st) k = []
  }.

  Lemma filter_snoc {A} (f : A -> bool) l x : filter f (l ++ [x]) = filter f l ++ (if f x then [x] else []).
  Proof. rewrite filter_app. simpl. destruct (f x); reflexivity. Qed.

  Lemma filter_nil_all {A} (f : A -> bool) l : filter f l = [] -> forall x, In x l -> f x = false.
  Proof.
    induction l as [|a l IH]; simpl; intros H x Hx; [contradiction|].
    destruct (f a) eqn:E; [discriminate|]. destruct Hx as [<-|Hx]; auto.
  Qed.

  Lemma note_req_hd r k v : reqs_of r k = [] -> reqs_of (note_req r k v) k = [v].
  Proof.
    intros E. unfold note_req. rewrite E. simpl. now rewrite reqs_of_aset_same.
  Qed.

  Lemma note_req_wf r k v : reqs_wf r -> vk_pk v = mk_pk k -> reqs_wf (note_req r k v).
  Proof.
    intros W E k' x Hx. destruct (mkey_dec k' k) as [->|N].
    - unfold note_req in Hx. destruct (memb vkey_dec v (reqs_of r k)); [now apply W|].
      rewrite reqs_of_aset_same in Hx. apply in_app_or in Hx. destruct Hx as [Hx|[<-|[]]]; auto.
    - rewrite note_req_other in Hx; auto.
  Qed.

  Lemma dep_dvk_pk first d : vk_pk (dep_dvk first d) = mk_pk (dep_k d).
  Proof. unfold dep_dvk. rewrite managed_pk. reflexivity. Qed.

  Lemma Inv5_add_edge st R1 e g' todo' res' conc' :
    Inv5 st -> reqs_extends (s_reqs st) R1 -> reqs_wf R1 ->
    (forall k', k' <> e_mk e -> reqs_of R1 k' = reqs_of (s_reqs st) k') ->
    (exists m, find_match (reqs_of R1 (e_mk e)) = Ok m /\ e_to e = v_vk m) ->
    In (e_dvk e) (reqs_of R1 (e_mk e)) ->
    (reqs_of (s_reqs st) (e_mk e) = [] -> reqs_of R1 (e_mk e) = [e_dvk e]) ->
    g_edges g' = g_edges (s_g st) ++ [e] -> g_errs g' = g_errs (s_g st) ->
    Inv5 (mkSt R1 g' todo' res' conc').
  Proof.
    intros Hi Hext Hwf Hoth [m [Hfm Hto]] Hin Hhd Hedges Herrs. destruct Hi.
    constructor; simpl; rewrite ?Hedges, ?Herrs.
    - eapply reqs_extends_trans; eauto.
    - exact Hwf.
    - intros x Hx. inapp Hx.
      + destruct (i5_edge0 x Hx) as [l [m' [A B]]]. exists l, m'. split; auto.
        eapply prefix_trans; [exact A | apply Hext].
      + subst x. exists (reqs_of R1 (e_mk e)), m. repeat split; auto. apply prefix_refl.
    - intros ne Hne. destruct (i5_err0 ne Hne) as [l [A B]]. exists l. split; auto.
      eapply prefix_trans; [exact A | apply Hext].
    - intros k HR0 Hnoerr e0 rest. rewrite filter_snoc. unfold on_k at 2.
      destruct (mkey_dec (e_mk e) k) as [Ek|Nk].
      + destruct (filter (on_k k) (g_edges (s_g st))) as [|e0' rest'] eqn:F; simpl.
        * intros E; inversion E; subst e0 rest. subst k.
          rewrite Hhd; [reflexivity|]. apply i5_none0; auto.
          intros x Hx Ex. apply (filter_nil_all _ _ F) in Hx. unfold on_k in Hx.
          destruct (mkey_dec (e_mk x) (e_mk e)); congruence.
        * intros E; inversion E; subst e0'. eapply prefix_hd; [apply Hext|]. eapply i5_first0; eauto.
      + rewrite app_nil_r. intros F. rewrite Hoth; auto. eapply i5_first0; eauto.
    - intros k HR0 Hnoerr Hnoedge.
      assert (Nk : k <> e_mk e) by (intros ->; apply (Hnoedge e); [apply in_or_app; simpl; auto | reflexivity]).
      rewrite Hoth; auto. apply i5_none0; auto. intros x Hx. apply Hnoedge. apply in_or_app; auto.
  Qed.

  Lemma Inv5_dep first cur st d st' :
    Inv5 st -> dep_go first cur st d st' -> Inv5 st'.
  Proof.
    intros Hi Hgo.
    pose proof (dep_st1_extends first st d) as Hext.
    assert (Hwf : reqs_wf (s_reqs (dep_st1 first st d))).
    { unfold dep_st1; simpl. apply note_req_wf; [apply (i5_wf _ Hi) | apply dep_dvk_pk]. }
    assert (Hoth : forall k', k' <> dep_k d -> reqs_of (s_reqs (dep_st1 first st d)) k' = reqs_of (s_reqs st) k').
    { intros k' N. unfold dep_st1; simpl. now apply note_req_other. }
    assert (Hhd : reqs_of (s_reqs st) (dep_k d) = [] -> reqs_of (s_reqs (dep_st1 first st d)) (dep_k d) = [dep_dvk first d]).
    { intros E. unfold dep_st1; simpl. now apply note_req_hd. }
    inversion Hgo; subst; clear Hgo.
    - exact Hi.
    - (* node error *)
      destruct Hi. constructor; simpl.
      + eapply reqs_extends_trans; eauto.
      + exact Hwf.
      + intros x Hx. destruct (i5_edge0 x Hx) as [l [m' [A B]]]. exists l, m'. split; auto.
        eapply prefix_trans; [exact A | apply Hext].
      + intros ne Hne. inapp Hne.
        * destruct (i5_err0 ne Hne) as [l [A B]]. exists l. split; auto. eapply prefix_trans; [exact A | apply Hext].
        * subst. simpl. exists (dep_l first st d). split; [apply prefix_refl|]. split; auto. apply dep_l_in.
      + intros k HR0 Hnoerr e0 rest F.
        assert (Nk : k <> dep_k d).
        { intros ->. apply (Hnoerr (mkNErr (n_vk cur) (dep_dvk first d) (dep_k d))); [apply in_or_app; simpl; auto | reflexivity]. }
        rewrite Hoth; auto. eapply i5_first0; eauto. intros ne Hne. apply Hnoerr. apply in_or_app; auto.
      + intros k HR0 Hnoerr Hnoedge.
        assert (Nk : k <> dep_k d).
        { intros ->. apply (Hnoerr (mkNErr (n_vk cur) (dep_dvk first d) (dep_k d))); [apply in_or_app; simpl; auto | reflexivity]. }
        rewrite Hoth; auto. apply i5_none0; auto. intros ne Hne. apply Hnoerr. apply in_or_app; auto.
    - eapply Inv5_add_edge with (e := dep_edge first cur d m EExisting); eauto; try reflexivity;
        try (exists m; split; [exact H0 | reflexivity]); try apply dep_l_in.
    - eapply Inv5_add_edge with (e := dep_edge first cur d m EShared); eauto; try reflexivity;
        try (exists m; split; [exact H0 | reflexivity]); try apply dep_l_in.
    - eapply Inv5_add_edge with (e := dep_edge first cur d m ECreated); eauto; try reflexivity;
        try (exists m; split; [exact H0 | reflexivity]); try apply dep_l_in.
  Qed.

  (* invariant 9 (passes that start from empty requirement lists): the first edge of an artifact key was
     decided by findMatch on the one-element list of its own declaration *)
  Definition Inv9 (st : pst) : Prop :=
    forall k, reqs_of R0 k = [] -> (forall ne, In ne (g_errs (s_g st)) -> ne_mk ne <> k) ->
      forall e0 rest, filter (on_k k) (g_edges (s_g st)) = e0 :: rest ->
        exists m, find_match [e_dvk e0] = Ok m /\ e_to e0 = v_vk m.

  Lemma Inv9_add_edge st st' e m :
    Inv5 st -> Inv9 st ->
    g_edges (s_g st') = g_edges (s_g st) ++ [e] -> g_errs (s_g st') = g_errs (s_g st) ->
    e_to e = v_vk m -> (reqs_of (s_reqs st) (e_mk e) = [] -> find_match [e_dvk e] = Ok m) -> Inv9 st'.
  Proof.
    intros I5 I9 He Hr Hto Hfm k HR0 Hnoerr e0 rest. rewrite He, filter_snoc. rewrite Hr in Hnoerr.
    unfold on_k at 2. destruct (mkey_dec (e_mk e) k) as [Ek|Nk].
    - destruct (filter (on_k k) (g_edges (s_g st))) as [|e0' rest'] eqn:F; simpl.
      + intros E; inversion E; subst e0 rest. exists m. split; auto. apply Hfm. subst k.
        apply (i5_none _ I5); auto. intros x Hx Ex. apply (filter_nil_all _ _ F) in Hx. unfold on_k in Hx.
        destruct (mkey_dec (e_mk x) (e_mk e)); congruence.
      + intros E; inversion E; subst e0'. eapply I9; eauto.
    - rewrite app_nil_r. intros F. eapply I9; eauto.
  Qed.

  Lemma Inv9_dep first cur st d st' : Inv5 st -> Inv9 st -> dep_go first cur st d st' -> Inv9 st'.
  Proof.
    intros I5 I9 Hgo.
    assert (Hone : forall m, find_match (dep_l first st d) = Ok m ->
                             reqs_of (s_reqs st) (dep_k d) = [] -> find_match [dep_dvk first d] = Ok m).
    { intros m Fm E. unfold dep_l, dep_st1 in Fm. simpl in Fm. rewrite note_req_hd in Fm; auto. }
    inversion Hgo; subst; clear Hgo.
    - exact I9.
    - intros k HR0 Hnoerr e0 rest F. simpl in *. eapply I9; eauto.
      intros ne Hne. apply Hnoerr. apply in_or_app; auto.
    - apply (Inv9_add_edge st _ (dep_edge first cur d m EExisting) m); auto; try (apply Hone; auto).
    - apply (Inv9_add_edge st _ (dep_edge first cur d m EShared) m); auto; try (apply Hone; auto).
    - apply (Inv9_add_edge st _ (dep_edge first cur d m ECreated) m); auto; try (apply Hone; auto).
  Qed.

  Lemma Inv5_pop st rest : Inv5 st -> Inv5 (set_todo st rest).
  Proof. intros []. constructor; auto. Qed.

  Lemma Inv5_init : reqs_wf R0 -> Inv5 (set_todo (init_st root R0) []).
  Proof.
    intros W. constructor; simpl; auto; try (intros; contradiction).
    - apply reqs_extends_refl.
    - intros k _ _ e0 rest F. discriminate.
  Qed.
  End Inv5.

  (* ================================================================ invariant 10: the LAST edge of an artifact key
     was decided by findMatch on the whole current requirement list of the key (requirement lists change only when
     a declaration of the key is processed); holds for every pass, whatever the lists it starts from *)
  Definition Inv10 (st : pst) : Prop :=
    forall k, (forall ne, In ne (g_errs (s_g st)) -> ne_mk ne <> k) ->
      forall es el, filter (on_k k) (g_edges (s_g st)) = es ++ [el] ->
        exists m, find_match (reqs_of (s_reqs st) k) = Ok m /\ e_to el = v_vk m.

  Lemma Inv10_add_edge st st' e m :
    Inv10 st ->
    (forall k', k' <> e_mk e -> reqs_of (s_reqs st') k' = reqs_of (s_reqs st) k') ->
    find_match (reqs_of (s_reqs st') (e_mk e)) = Ok m -> e_to e = v_vk m ->
    g_edges (s_g st') = g_edges (s_g st) ++ [e] -> g_errs (s_g st') = g_errs (s_g st) -> Inv10 st'.
  Proof.
    intros I10 Hoth Hfm Hto He Hr k Hnoerr es el. rewrite He, filter_snoc. rewrite Hr in Hnoerr.
    unfold on_k at 2. destruct (mkey_dec (e_mk e) k) as [Ek|Nk].
    - intros E. apply app_inj_tail in E. destruct E as [_ <-]. subst k. exists m. auto.
    - rewrite app_nil_r. intros F. rewrite Hoth; auto. eapply I10; eauto.
  Qed.

  Lemma Inv10_dep first cur st d st' : Inv10 st -> dep_go first cur st d st' -> Inv10 st'.
  Proof.
    intros I10 Hgo.
    assert (Hoth : forall k', k' <> dep_k d -> reqs_of (s_reqs (dep_st1 first st d)) k' = reqs_of (s_reqs st) k').
    { intros k' N. unfold dep_st1; simpl. now apply note_req_other. }
    inversion Hgo; subst; clear Hgo.
    - exact I10.
    - intros k Hnoerr es el F. simpl in *.
      assert (Nk : k <> dep_k d).
      { intros ->. apply (Hnoerr (mkNErr (n_vk cur) (dep_dvk first d) (dep_k d))); [apply in_or_app; simpl; auto | reflexivity]. }
      rewrite (Hoth k Nk). eapply I10; eauto. intros ne Hne. apply Hnoerr. apply in_or_app; auto.
    - apply (Inv10_add_edge st _ (dep_edge first cur d m EExisting) m); auto.
    - apply (Inv10_add_edge st _ (dep_edge first cur d m EShared) m); auto.
    - apply (Inv10_add_edge st _ (dep_edge first cur d m ECreated) m); auto.
  Qed.

  Lemma bfs_first_inv10 R0 fuel st' :
    bfs fuel true mgt (init_st root R0) = (st', Go) -> Inv10 st'.
  Proof.
    intros H.
    apply (lift_bfs_first Inv10 (fun _ _ _ => True)) with (fuel := fuel) (reqs := R0); auto.
    - intros first cur st d st1 I10 _ Hok Hgo. split; [eapply Inv10_dep; eauto | exact I].
    - intros k _ es el F. simpl in F. destruct es; discriminate.
  Qed.

  (* ================================================================ all invariants together, for one pass *)
  Definition InvAll (R0 : reqmap) (st : pst) : Prop := Inv1 st /\ Inv3 st /\ Inv4 st /\ Inv5 R0 st.
  Definition CurAll (first : bool) (cur : node) (st : pst) : Prop := Cur1 first cur st /\ Cur3 cur st /\ Cur4 cur st.

  Lemma bfs_first_inv R0 fuel st' :
    reqs_wf R0 -> bfs fuel true mgt (init_st root R0) = (st', Go) -> InvAll R0 st'.
  Proof.
    intros W H.
    apply (lift_bfs_first (InvAll R0) CurAll) with (fuel := fuel) (reqs := R0); auto.
    - intros first cur st d st1 [I1 [I3 [I4 I5]]] [C1 [C3 C4]] Hok Hgo.
      destruct (Inv1_dep _ _ _ _ _ I1 C1 Hok Hgo) as [I1' C1'].
      destruct (Inv3_dep _ _ _ _ _ I1 C1 I3 C3 Hgo) as [I3' C3'].
      destruct (Inv4_dep _ _ _ _ _ I4 C4 Hok Hgo) as [I4' C4'].
      pose proof (Inv5_dep R0 _ _ _ _ _ I5 Hgo) as I5'.
      unfold InvAll, CurAll. tauto.
    - intros st cur rest [I1 [I3 [I4 I5]]] T.
      destruct (Inv1_pop _ _ _ I1 T) as [I1' C1'].
      destruct (Inv3_pop _ _ _ I3 T) as [I3' C3'].
      destruct (Inv4_pop _ _ _ I4 T) as [I4' C4'].
      pose proof (Inv5_pop R0 st rest I5) as I5'.
      unfold InvAll, CurAll. tauto.
    - destruct (Inv1_init R0) as [A _]. destruct (Inv4_init R0) as [B _].
      pose proof (Inv5_init R0 W) as D.
      assert (E : Inv3 (set_todo (init_st root R0) [])) by (intros s []).
      unfold InvAll. tauto.
    - destruct (Inv1_init R0) as [_ A]. destruct (Inv4_init R0) as [_ B].
      assert (E : Cur3 (mkNode (root_mkey root) root false None) (set_todo (init_st root R0) [])) by (intros s []).
      unfold CurAll. tauto.
  Qed.

  (* ================================================================ invariant 8: what a shared-node edge is.
     An edge made through the nodes[match.VersionKey] shortcut points to a node that was created for ANOTHER
     artifact key (or to the root, for a key that is not the root's). *)
  Definition shared_other (g : graph) (e : edge) : Prop :=
    (e_to e = root /\ e_mk e <> root_mkey root) \/
    (exists s, In s (g_edges g) /\ e_kind s = ECreated /\ e_to s = e_to e /\ e_mk s <> e_mk e).
  Definition Inv8 (st : pst) : Prop :=
    forall e, In e (g_edges (s_g st)) -> e_kind e = EShared -> shared_other (s_g st) e.

  Lemma shared_other_mono g g' e : incl (g_edges g) (g_edges g') -> shared_other g e -> shared_other g' e.
  Proof.
    intros Hi [H|[s [A B]]]; [left; auto|]. right. exists s. split; auto.
  Qed.

  Lemma Inv8_dep first cur st d st' :
    Inv1 st -> Inv8 st -> dep_go first cur st d st' -> Inv8 st'.
  Proof.
    intros I1 I8 Hgo. inversion Hgo; subst; clear Hgo.
    - exact I8.
    - intros e He K. simpl in He. apply (I8 e He K).
    - intros e He K. simpl in He. inapp He.
      + eapply shared_other_mono; [|apply (I8 e He K)]. simpl. apply incl_appl, incl_refl.
      + subst e. discriminate.
    - intros e He K. simpl in He. inapp He.
      + eapply shared_other_mono; [|apply (I8 e He K)]. simpl. apply incl_appl, incl_refl.
      + subst e. simpl.
        destruct (vkey_dec (v_vk m) root) as [Er|Nr].
        * left. split; auto. simpl. intros Ek. apply H1. rewrite Ek, Er. apply (i1_conc_root _ I1).
        * right. destruct (i1_node_created _ I1 (v_vk m) H3 Nr) as [s [Hs [Ks Ts]]].
          exists s. split; [simpl; apply in_or_app; auto|]. split; auto. split; auto.
          simpl. intros Ek. apply H1. rewrite <- Ek, <- Ts. apply (i1_edge_conc _ I1); auto. rewrite Ks. discriminate.
    - intros e He K. simpl in He. inapp He.
      + eapply shared_other_mono; [|apply (I8 e He K)]. simpl. apply incl_appl, incl_refl.
      + subst e. discriminate.
  Qed.

  Lemma bfs_first_inv8 R0 fuel st' :
    bfs fuel true mgt (init_st root R0) = (st', Go) -> Inv8 st'.
  Proof.
    intros H.
    assert (G : Inv1 st' /\ Inv8 st'); [|tauto].
    apply (lift_bfs_first (fun st => Inv1 st /\ Inv8 st) Cur1) with (fuel := fuel) (reqs := R0); auto.
    - intros first cur st d st1 [I1 I8] C1 Hok Hgo.
      destruct (Inv1_dep _ _ _ _ _ I1 C1 Hok Hgo) as [I1' C1'].
      pose proof (Inv8_dep _ _ _ _ _ I1 I8 Hgo). tauto.
    - intros st cur rest [I1 I8] T.
      destruct (Inv1_pop _ _ _ I1 T) as [I1' C1']. split; [split; auto|auto].
    - destruct (Inv1_init R0) as [A _]. split; auto. intros e [].
    - destruct (Inv1_init R0) as [_ A]. exact A.
  Qed.

  Lemma bfs_first_inv9 R0 fuel st' :
    reqs_wf R0 -> bfs fuel true mgt (init_st root R0) = (st', Go) -> Inv5 R0 st' /\ Inv9 R0 st'.
  Proof.
    intros W H.
    apply (lift_bfs_first (fun st => Inv5 R0 st /\ Inv9 R0 st) (fun _ _ _ => True)) with (fuel := fuel) (reqs := R0); auto.
    - intros first cur st d st1 [I5 I9] _ Hok Hgo. split; [split|exact I]; [eapply Inv5_dep | eapply Inv9_dep]; eauto.
    - intros st cur rest [I5 I9] T. split; [split|auto]; [now apply Inv5_pop | exact I9].
    - split; [now apply Inv5_init|]. intros k _ _ e0 rest F. discriminate.
  Qed.

  (* requirement lists stay well formed through any step, whatever the outcome *)
  Lemma aset_wf r k l : reqs_wf r -> (forall x, In x l -> vk_pk x = mk_pk k) -> reqs_wf (aset mkey_dec r k l).
  Proof.
    intros W H k' x Hx. destruct (mkey_dec k' k) as [->|N].
    - rewrite reqs_of_aset_same in Hx. auto.
    - rewrite reqs_of_aset_other in Hx; auto.
  Qed.

  Lemma process_dep_wf first cur st d st' f :
    reqs_wf (s_reqs st) -> process_dep first cur mgt st d = (st', f) -> reqs_wf (s_reqs st').
  Proof.
    intros W. unfold MavenRes.process_dep.
    fold (dep_name d). fold (dep_k d). fold (dep_dvk first d). fold (dep_st1 first st d).
    fold (dep_l first st d).
    assert (W1 : reqs_wf (s_reqs (dep_st1 first st d))).
    { unfold dep_st1; simpl. apply note_req_wf; auto. apply dep_dvk_pk. }
    destruct (is_excluded (n_excl cur) (dep_name d)) as [[|]| | |];
      try (intros H; inversion H; subst; exact W).
    destruct (find_match (dep_l first st d)) as [m|e| |]; try (intros H; inversion H; subst; exact W1).
    - destruct (memb mvkey_dec _ _); [intros H; inversion H; subst; exact W1|].
      destruct (memb mkey_dec _ _).
      + intros H; inversion H; subst. simpl. apply aset_wf; auto.
        intros x Hx. apply in_app_or in Hx. destruct Hx as [Hx|[<-|[]]].
        * apply (W1 _ _ Hx).
        * apply dep_dvk_pk.
      + destruct (v_registries m); [intros H; inversion H; subst; exact W1|].
        destruct (memb vkey_dec _ _); intros H; inversion H; subst; exact W1.
    - destruct (e =? ENoMatch); intros H; inversion H; subst; exact W1.
  Qed.

  Lemma process_deps_wf first cur : forall ds st st' f,
      reqs_wf (s_reqs st) -> process_deps first cur mgt st ds = (st', f) -> reqs_wf (s_reqs st').
  Proof.
    induction ds as [|d ds IH]; intros st st' f W H; simpl in H.
    - inversion H; subst. exact W.
    - destruct (process_dep first cur mgt st d) as [st1 f1] eqn:P.
      apply process_dep_wf in P; auto. destruct f1.
      + eapply IH; eauto.
      + inversion H; subst. exact P.
  Qed.

  Lemma step_wf first cur st st' f : reqs_wf (s_reqs st) -> step first mgt cur st = (st', f) -> reqs_wf (s_reqs st').
  Proof.
    intros W. unfold MavenRes.step. destruct (n_incl cur); [intros H; inversion H; subst; exact W|].
    destruct (imports _ _); try (intros H; inversion H; subst; exact W).
    now apply process_deps_wf.
  Qed.

  Lemma bfs_wf : forall fuel first st st' f,
      reqs_wf (s_reqs st) -> bfs fuel first mgt st = (st', f) -> reqs_wf (s_reqs st').
  Proof.
    induction fuel as [|fuel IH]; intros first st st' f W H; simpl in H.
    - destruct (s_todo st); inversion H; subst; exact W.
    - destruct (s_todo st) as [|cur rest]; [inversion H; subst; exact W|].
      destruct (step first mgt cur (set_todo st rest)) as [st1 f1] eqn:S.
      apply step_wf in S; auto. destruct f1.
      + eapply IH; eauto.
      + inversion H; subst. exact S.
  Qed.
  End OneRoot.

  (* ================================================================ completeness: every kept, non-excluded
     declaration of every traversed node is represented in the graph by an edge or a node error *)
  Section Complete.
  Variable root : vkey.
  Variable mgt : list (mkey * vkey).
  Notation nexcl st := (g_nexcl (s_g st)).

  Definition represented (first : bool) (x : vkey) (d : dependency) (g : graph) : Prop :=
    (exists e, In e (g_edges g) /\ e_from e = x /\ e_dvk e = dep_dvk mgt first d /\ e_mk e = dep_k d /\
               (e_ty e = d_ty d \/ e_ty e = ty_set (d_ty d) depkey_Selector []))
    \/ (exists ne, In ne (g_errs g) /\ ne_node ne = x /\ ne_req ne = dep_dvk mgt first d /\ ne_mk ne = dep_k d).

  Definition g_le (g g' : graph) : Prop := incl (g_edges g) (g_edges g') /\ incl (g_errs g) (g_errs g').

  Lemma represented_mono first x d g g' : g_le g g' -> represented first x d g -> represented first x d g'.
  Proof.
    intros [Le Lr] [[e [He R]]|[ne [Hne R]]].
    - left. exists e. split; auto.
    - right. exists ne. split; auto.
  Qed.

  Definition st_le (st st' : pst) : Prop :=
    g_le (s_g st) (s_g st') /\
    (forall x v, aget vkey_dec (nexcl st) x = Some v -> aget vkey_dec (nexcl st') x = Some v) /\
    incl (s_todo st) (s_todo st') /\
    (forall x, In x (g_nodes (s_g st')) -> In x (g_nodes (s_g st)) \/ exists t, In t (s_todo st') /\ n_vk t = x).

  Lemma st_le_refl st : st_le st st.
  Proof. repeat split; auto using incl_refl. Qed.

  Lemma st_le_trans a b c : st_le a b -> st_le b c -> st_le a c.
  Proof.
    intros [[E1 R1] [X1 [T1 N1]]] [[E2 R2] [X2 [T2 N2]]]. repeat split.
    - eapply incl_tran; eauto.
    - eapply incl_tran; eauto.
    - auto.
    - eapply incl_tran; eauto.
    - intros x Hx. destruct (N2 x Hx) as [H|H]; auto. destruct (N1 x H) as [H'|[t [Ht Et]]]; auto.
      right. exists t. split; auto.
  Qed.

  Lemma dep_go_le first cur st d st' : dep_go mgt first cur st d st' -> st_le st st'.
  Proof.
    intros Hgo. inversion Hgo; subst; clear Hgo.
    - apply st_le_refl.
    - repeat split; simpl; auto using incl_refl, incl_appl.
    - repeat split; simpl; auto using incl_refl, incl_appl.
    - repeat split; simpl; auto using incl_refl, incl_appl.
    - repeat split; simpl; auto using incl_refl, incl_appl.
      + intros x v Hx. now apply aget_app_some.
      + intros x Hx. apply in_app_or in Hx. destruct Hx as [Hx|[Hx|[]]]; auto.
        right. eexists. split; [apply in_or_app; right; simpl; left; reflexivity|]. simpl. auto.
  Qed.

  Lemma dep_go_repr first cur st d st' :
    dep_go mgt first cur st d st' -> is_excluded (n_excl cur) (dep_name d) = Ok false ->
    represented first (n_vk cur) d (s_g st').
  Proof.
    intros Hgo X. inversion Hgo; subst; clear Hgo.
    - congruence.
    - right. eexists. split; [simpl; apply in_or_app; right; simpl; left; reflexivity|]. simpl. auto.
    - left. exists (dep_edge mgt first cur d m EExisting). split; [simpl; apply in_or_app; simpl; auto|]. simpl. auto.
    - left. exists (dep_edge mgt first cur d m EShared). split; [simpl; apply in_or_app; simpl; auto|]. simpl. auto.
    - left. exists (dep_edge mgt first cur d m ECreated). split; [simpl; apply in_or_app; simpl; auto|]. simpl. auto.
  Qed.

  Lemma process_deps_repr first cur : forall ds st st',
      process_deps first cur mgt st ds = (st', Go) ->
      st_le st st' /\
      forall d, In d ds -> is_excluded (n_excl cur) (dep_name d) = Ok false -> represented first (n_vk cur) d (s_g st').
  Proof.
    induction ds as [|d ds IH]; intros st st' H; simpl in H.
    - inversion H; subst. split; [apply st_le_refl | intros d []].
    - destruct (process_dep first cur mgt st d) as [st1 f1] eqn:P. destruct f1; [|discriminate].
      apply process_dep_go in P. destruct (IH _ _ H) as [Le R]. split.
      + eapply st_le_trans; [eapply dep_go_le; eauto | exact Le].
      + intros d' [<-|Hd] X; auto. eapply represented_mono; [apply Le|]. eapply dep_go_repr; eauto.
  Qed.

  Definition is_first (x : vkey) : bool := if vkey_dec x root then true else false.

  Definition node_done (t : node) (g : graph) : Prop :=
    n_incl t = true \/
    exists ds, imports (n_vk t) (if is_first (n_vk t) then all_imports else 0) = Ok ds /\
               forall d, In d ds -> is_excluded (n_excl t) (dep_name d) = Ok false ->
                         represented (is_first (n_vk t)) (n_vk t) d g.

  Definition Inv6 (st : pst) : Prop :=
    forall x, In x (g_nodes (s_g st)) ->
      (exists t, In t (s_todo st) /\ n_vk t = x) \/
      (exists t, n_vk t = x /\ aget vkey_dec (nexcl st) x = Some (n_excl t) /\ node_done t (s_g st) /\
                 ((x = root /\ n_incl t = false) \/
                  exists s, In s (g_edges (s_g st)) /\ e_kind s = ECreated /\ e_to s = x /\ n_incl t = warish (e_ty s))).

  (* every queued node knows whether its creating edge is war/ear/rar *)
  Definition Inv7 (st : pst) : Prop :=
    forall t, In t (s_todo st) ->
      (n_vk t = root /\ n_incl t = false) \/
      exists s, In s (g_edges (s_g st)) /\ e_kind s = ECreated /\ e_to s = n_vk t /\ n_incl t = warish (e_ty s).

  Lemma Inv7_dep first cur st d st' : Inv7 st -> dep_go mgt first cur st d st' -> Inv7 st'.
  Proof.
    intros Hi Hgo. inversion Hgo; subst; clear Hgo.
    - exact Hi.
    - intros t Ht. destruct (Hi t Ht) as [Hr|[s [A B]]]; [left; auto|]. right. exists s. split; auto.
    - intros t Ht. destruct (Hi t Ht) as [Hr|[s [A B]]]; [left; auto|]. right. exists s. split; auto. simpl. apply in_or_app; auto.
    - intros t Ht. destruct (Hi t Ht) as [Hr|[s [A B]]]; [left; auto|]. right. exists s. split; auto. simpl. apply in_or_app; auto.
    - intros t Ht. simpl in Ht. apply in_app_or in Ht. destruct Ht as [Ht|[Ht|[]]].
      + destruct (Hi t Ht) as [Hr|[s [A B]]]; [left; auto|]. right. exists s. split; auto. simpl. apply in_or_app; auto.
      + subst t. right. exists (dep_edge mgt first cur d m ECreated). split; [simpl; apply in_or_app; simpl; auto|].
        simpl. rewrite warish_selector. auto.
  Qed.

  Lemma Inv7_deps first cur : forall ds st st',
      Inv7 st -> process_deps first cur mgt st ds = (st', Go) -> Inv7 st'.
  Proof.
    induction ds as [|d ds IH]; intros st st' Hi H; simpl in H.
    - inversion H; subst; auto.
    - destruct (process_dep first cur mgt st d) as [st1 f1] eqn:P. destruct f1; [|discriminate].
      apply process_dep_go in P. eapply IH; [|eauto]. eapply Inv7_dep; eauto.
  Qed.

  Lemma node_done_mono t g g' : g_le g g' -> node_done t g -> node_done t g'.
  Proof.
    intros Le [H|[ds [A B]]]; [left; auto|]. right. exists ds. split; auto.
    intros d Hd X. eapply represented_mono; eauto.
  Qed.

  Lemma step_inv67 first cur rest st st' :
    Inv4 root st -> Inv6 st -> Inv7 st -> s_todo st = cur :: rest ->
    first = is_first (n_vk cur) ->
    step first mgt cur (set_todo st rest) = (st', Go) -> Inv6 st' /\ Inv7 st'.
  Proof.
    intros I4 I6 I7 T Hf Hs.
    assert (I7r : Inv7 (set_todo st rest)).
    { intros t Ht. apply I7. rewrite T. simpl; auto. }
    assert (Hcur : (n_vk cur = root /\ n_incl cur = false) \/
                   exists s0, In s0 (g_edges (s_g st)) /\ e_kind s0 = ECreated /\ e_to s0 = n_vk cur /\ n_incl cur = warish (e_ty s0)).
    { apply I7. rewrite T. simpl; auto. }
    assert (Hex : aget vkey_dec (nexcl st) (n_vk cur) = Some (n_excl cur)).
    { apply (i4_todo _ _ I4). rewrite T. simpl; auto. }
    (* what the step does *)
    assert (Hle : st_le (set_todo st rest) st' /\ Inv7 st' /\ node_done cur (s_g st')).
    { revert Hs. unfold MavenRes.step. destruct (n_incl cur) eqn:Inc.
      - intros H; inversion H; subst. split; [apply st_le_refl|]. split; auto. left; auto.
      - destruct (imports (n_vk cur) (if first then all_imports else 0)) as [ds| | |] eqn:Im; try discriminate.
        intros H. destruct (process_deps_repr _ _ _ _ _ H) as [Le R]. split; auto. split.
        + eapply Inv7_deps; eauto.
        + right. exists ds. rewrite <- Hf. split; auto. }
    destruct Hle as [[Gle [Xle [Tle Nle]]] [I7' Done]]. split; auto.
    intros x Hx. destruct (Nle x Hx) as [Hold|Hnew]; [|left; exact Hnew].
    simpl in Hold. destruct (I6 x Hold) as [[t [Ht Et]]|[t [Et [Ex [Dn Cr]]]]].
    - rewrite T in Ht. destruct Ht as [<-|Ht].
      + right. exists cur. split; auto. subst x. split; [apply Xle; exact Hex|]. split; auto.
        destruct Hcur as [Hr|[s0 [A [B [C D]]]]]; [left; auto|]. right. exists s0. split; [apply Gle; exact A|]. auto.
      + left. exists t. split; auto.
    - right. exists t. split; auto. split; [apply Xle; exact Ex|]. split; [eapply node_done_mono; eauto; exact Gle|].
      destruct Cr as [Cr|[s [A B]]]; [left; auto|]. right. exists s. split; [apply Gle; exact A | exact B].
  Qed.

  Lemma bfs_inv67 R0 : forall fuel st st',
      InvAll root mgt R0 st -> Inv6 st -> Inv7 st ->
      (forall t, In t (s_todo st) -> n_vk t <> root) ->
      bfs fuel false mgt st = (st', Go) -> Inv6 st' /\ Inv7 st' /\ s_todo st' = [].
  Proof.
    induction fuel as [|fuel IH]; intros st st' IA I6 I7 Hnr; simpl.
    - destruct (s_todo st) eqn:T; intros H; inversion H; subst; auto.
    - destruct (s_todo st) as [|cur rest] eqn:T; [intros H; inversion H; subst; auto|].
      destruct (step false mgt cur (set_todo st rest)) as [st1 f1] eqn:S. destruct f1; [|discriminate]. intros H.
      assert (Hf : false = is_first (n_vk cur)).
      { unfold is_first. destruct (vkey_dec (n_vk cur) root) as [E|]; auto. exfalso. apply (Hnr cur); [simpl; auto | exact E]. }
      destruct IA as [I1 [I3 [I4 I5]]].
      destruct (step_inv67 _ _ _ _ _ I4 I6 I7 T Hf S) as [I6' I7'].
      assert (IA1 : InvAll root mgt R0 st1).
      { destruct (Inv1_pop _ _ _ _ _ I1 T) as [I1' C1']. destruct (Inv3_pop _ _ _ I3 T) as [I3' C3'].
        destruct (Inv4_pop _ _ _ _ I4 T) as [I4' C4'].
        apply (lift_step root mgt (InvAll root mgt R0) (CurAll root)) with (first := false) (cur := cur) (st := set_todo st rest); auto.
        - intros first0 cur0 st0 d st2 [J1 [J3 [J4 J5]]] [D1 [D3 D4]] Hok Hgo.
          destruct (Inv1_dep _ _ _ _ _ _ _ J1 D1 Hok Hgo) as [J1' D1'].
          destruct (Inv3_dep _ _ _ _ _ _ _ J1 D1 J3 D3 Hgo) as [J3' D3'].
          destruct (Inv4_dep _ _ _ _ _ _ _ J4 D4 Hok Hgo) as [J4' D4'].
          pose proof (Inv5_dep _ R0 _ _ _ _ _ J5 Hgo) as J5'.
          unfold InvAll, CurAll. tauto.
        - pose proof (Inv5_pop R0 st rest I5). unfold InvAll. tauto.
        - intros Inc. unfold CurAll. tauto. }
      eapply IH; eauto. destruct IA1 as [J1 _]. apply (i1_todo_nonroot _ _ _ J1).
  Qed.
  End Complete.

  (* ================================================================ a pass, the retry loop, resolve *)
  Lemma pass_ok_inv fuel root R0 R g :
    pass fuel root R0 = (R, Ok g) ->
    exists ver imps st, c_version root = Ok ver /\ c_requirements (v_vk ver) = Ok imps /\
      bfs fuel true (mgt_of imps) (init_st root R0) = (st, Go) /\ s_reqs st = R /\ s_g st = g.
  Proof.
    unfold MavenRes.pass.
    destruct (negb (pk_sys (vk_pk root) =? system_Maven)); [intros H; inversion H|].
    destruct (negb (vk_vt root =? vtype_Concrete)); [intros H; inversion H|].
    destruct (c_version root) as [ver| | |] eqn:Cv; try (intros H; inversion H; fail).
    destruct (v_registries ver); [intros H; inversion H|].
    unfold dependency_management.
    destruct (c_requirements (v_vk ver)) as [imps| | |] eqn:Rq; simpl; try (intros H; inversion H; fail).
    destruct (bfs fuel true (mgt_of imps) (init_st root R0)) as [st f] eqn:B.
    destruct f as [|e]; simpl.
    - intros H; inversion H; subst. exists ver, imps, st. auto.
    - destruct (e =? EFuel); intros H; inversion H.
  Qed.

  Definition pass_good (root : vkey) (R0 R : reqmap) (g : graph) : Prop :=
    exists ver imps st, c_version root = Ok ver /\ c_requirements (v_vk ver) = Ok imps /\
      InvAll root (mgt_of imps) R0 st /\ s_reqs st = R /\ s_g st = g.

  Lemma pass_good_of fuel root R0 R g : reqs_wf R0 -> pass fuel root R0 = (R, Ok g) -> pass_good root R0 R g.
  Proof.
    intros W H. apply pass_ok_inv in H. destruct H as [ver [imps [st [A [B [C [D E]]]]]]].
    exists ver, imps, st. split; [exact A|]. split; [exact B|].
    split; [eapply bfs_first_inv; eauto|]. auto.
  Qed.

  Lemma pass_wf_ext fuel root R0 R r :
    reqs_wf R0 -> pass fuel root R0 = (R, r) -> reqs_wf R /\ reqs_extends R0 R.
  Proof.
    intros W. unfold MavenRes.pass.
    assert (T : reqs_wf R0 /\ reqs_extends R0 R0) by (split; [exact W | apply reqs_extends_refl]).
    destruct (negb (pk_sys (vk_pk root) =? system_Maven)); [intros H; inversion H; subst; exact T|].
    destruct (negb (vk_vt root =? vtype_Concrete)); [intros H; inversion H; subst; exact T|].
    destruct (c_version root) as [ver| | |]; try (intros H; inversion H; subst; exact T).
    destruct (v_registries ver); [intros H; inversion H; subst; exact T|].
    destruct (dependency_management c_requirements (v_vk ver)) as [mgt| | |];
      try (intros H; inversion H; subst; exact T).
    destruct (bfs fuel true mgt (init_st root R0)) as [st f] eqn:B.
    intros H; inversion H; subst. split.
    - eapply bfs_wf in B; eauto.
    - eapply bfs_reqs in B; eauto.
  Qed.

  Lemma reqs_wf_nil : reqs_wf [].
  Proof. intros k r []. Qed.

  Lemma retry_ok fuel root : forall n R r R' g,
      reqs_wf R -> retry n fuel root R r = (R', Ok g) ->
      (r = Ok g /\ R' = R) \/ exists Ra, reqs_wf Ra /\ pass fuel root Ra = (R', Ok g).
  Proof.
    induction n as [|n IH]; intros R r R' g W H; simpl in H.
    - inversion H; subst; auto.
    - destruct (is_incompat r) eqn:E.
      + destruct (pass fuel root R) as [R1 r1] eqn:P.
        apply IH in H; [|eapply pass_wf_ext; eauto].
        destruct H as [[-> ->]|H]; right; eauto.
      + inversion H; subst; auto.
  Qed.

  Lemma resolve_full_ok fuel root R g :
    resolve_full fuel root = (R, Ok g) -> exists Ra, reqs_wf Ra /\ pass fuel root Ra = (R, Ok g).
  Proof.
    unfold MavenRes.resolve_full. destruct (pass fuel root []) as [R1 r1] eqn:P. intros H.
    apply retry_ok in H; [|eapply pass_wf_ext; eauto using reqs_wf_nil].
    destruct H as [[-> ->]|H]; eauto using reqs_wf_nil.
  Qed.

  Lemma resolve_ok fuel root g :
    resolve fuel root = Ok g -> exists Ra R, reqs_wf Ra /\ pass fuel root Ra = (R, Ok g) /\ resolve_full fuel root = (R, Ok g).
  Proof.
    unfold MavenRes.resolve. destruct (resolve_full fuel root) as [R r] eqn:F. simpl. intros ->.
    destruct (resolve_full_ok _ _ _ _ F) as [Ra [W P]]. eauto.
  Qed.

  Lemma resolve_good fuel root g :
    resolve fuel root = Ok g -> exists Ra R, reqs_wf Ra /\ pass_good root Ra R g /\ resolve_full fuel root = (R, Ok g).
  Proof.
    intros H. destruct (resolve_ok _ _ _ H) as [Ra [R [W [P F]]]]. exists Ra, R. split; auto. split; auto.
    eapply pass_good_of; eauto.
  Qed.

  (* a successful first pass is the result *)
  Lemma resolve_first_pass fuel root R g :
    pass fuel root [] = (R, Ok g) -> resolve_full fuel root = (R, Ok g).
  Proof.
    intros P. unfold MavenRes.resolve_full. rewrite P. unfold maven_max_retries. reflexivity.
  Qed.

  Lemma bfs_first_complete root mgt R0 fuel st' :
    reqs_wf R0 -> bfs fuel true mgt (init_st root R0) = (st', Go) ->
    Inv6 root mgt st' /\ s_todo st' = [].
  Proof.
    intros W H. destruct fuel as [|fuel]; simpl in H; [discriminate|].
    set (rn := mkNode (root_mkey root) root false None) in *.
    set (st0 := init_st root R0) in *.
    destruct (step true mgt rn (set_todo st0 [])) as [st1 f1] eqn:S. destruct f1; [|discriminate].
    assert (E : aget vkey_dec [(root, @None (list bytes))] root = Some None).
    { simpl. destruct (vkey_dec root root); congruence. }
    assert (I4 : Inv4 root st0).
    { constructor; simpl; auto; try (intros; contradiction). intros t [<-|[]]. exact E. }
    assert (I6 : Inv6 root mgt st0).
    { intros x [<-|[]]. left. exists rn. simpl. auto. }
    assert (I7 : Inv7 root st0).
    { intros t [<-|[]]. left. simpl. auto. }
    assert (Hf : true = is_first root (n_vk rn)).
    { unfold is_first. simpl. destruct (vkey_dec root root); congruence. }
    destruct (step_inv67 root mgt true rn [] st0 st1 I4 I6 I7 eq_refl Hf S) as [I6' I7'].
    assert (IA1 : InvAll root mgt R0 st1).
    { apply (lift_step root mgt (InvAll root mgt R0) (CurAll root)) with (first := true) (cur := rn) (st := set_todo st0 []); auto.
      - intros first0 cur0 st2 d st3 [J1 [J3 [J4 J5]]] [D1 [D3 D4]] Hok Hgo.
        destruct (Inv1_dep _ _ _ _ _ _ _ J1 D1 Hok Hgo) as [J1' D1'].
        destruct (Inv3_dep _ _ _ _ _ _ _ J1 D1 J3 D3 Hgo) as [J3' D3'].
        destruct (Inv4_dep _ _ _ _ _ _ _ J4 D4 Hok Hgo) as [J4' D4'].
        pose proof (Inv5_dep _ R0 _ _ _ _ _ J5 Hgo) as J5'.
        unfold InvAll, CurAll. tauto.
      - destruct (Inv1_init root mgt R0) as [A _]. destruct (Inv4_init root R0) as [B _].
        pose proof (Inv5_init root R0 W) as D.
        assert (E3 : Inv3 (set_todo (init_st root R0) [])) by (intros s []).
        unfold InvAll. tauto.
      - intros _. destruct (Inv1_init root mgt R0) as [_ A]. destruct (Inv4_init root R0) as [_ B].
        assert (E3 : Cur3 rn (set_todo (init_st root R0) [])) by (intros s []).
        unfold CurAll. tauto. }
    assert (Hnr : forall t, In t (s_todo st1) -> n_vk t <> root).
    { destruct IA1 as [J1 _]. apply (i1_todo_nonroot _ _ _ J1). }
    destruct (bfs_inv67 root mgt R0 fuel st1 st' IA1 I6' I7' Hnr H) as [A [_ B]]. auto.
  Qed.

  (* every node of the returned graph was popped from the queue, and unless it was created
     through a war/ear/rar dependency its requirements were asked and every kept declaration the
     node's exclusion set does not exclude has an edge or a node error *)
  Lemma thm_complete fuel root g :
    resolve fuel root = Ok g ->
    forall ver imps0, c_version root = Ok ver -> c_requirements (v_vk ver) = Ok imps0 ->
    forall x, In x (g_nodes g) ->
    exists t, n_vk t = x /\ aget vkey_dec (g_nexcl g) x = Some (n_excl t) /\
              ((x = root /\ n_incl t = false) \/
               exists s, In s (g_edges g) /\ e_kind s = ECreated /\ e_to s = x /\ n_incl t = warish (e_ty s)) /\
              (n_incl t = true \/
               exists ds, imports x (if is_first root x then all_imports else 0) = Ok ds /\
                          forall d, In d ds -> is_excluded (n_excl t) (dep_name d) = Ok false ->
                                    represented (mgt_of imps0) (is_first root x) x d g).
  Proof.
    intros H ver imps0 Hv Hr x Hx.
    destruct (resolve_ok _ _ _ H) as [Ra [R [W [P _]]]].
    apply pass_ok_inv in P. destruct P as [ver' [imps' [st [A [B [C [D E]]]]]]].
    rewrite Hv in A. inversion A; subst ver'. rewrite Hr in B. inversion B; subst imps'.
    destruct (bfs_first_complete _ _ _ _ _ W C) as [I6 Tn]. subst g.
    destruct (I6 x Hx) as [[t [Ht _]]|[t [Et [Ex [Dn Cr]]]]]; [rewrite Tn in Ht; contradiction|].
    exists t. split; auto. split; auto. split; auto.
    unfold node_done in Dn. rewrite Et in Dn. exact Dn.
  Qed.

  (* ================================================================ the clauses of C07 *)

  (* at most one version per artifact key, for edges not made through the shared-node shortcut *)
  Lemma thm_one_version fuel root g :
    resolve fuel root = Ok g ->
    (forall e1 e2, In e1 (g_edges g) -> In e2 (g_edges g) -> e_mk e1 = e_mk e2 ->
                   e_kind e1 <> EShared -> e_kind e2 <> EShared -> e_to e1 = e_to e2)
    /\ (forall e, In e (g_edges g) -> e_mk e = root_mkey root -> e_kind e <> EShared -> e_to e = root)
    /\ NoDup (g_nodes g)
    /\ (forall v, In v (g_nodes g) -> v <> root ->
                  exists s, In s (g_edges g) /\ e_kind s = ECreated /\ e_to s = v /\
                            forall s', In s' (g_edges g) -> e_kind s' = ECreated -> e_to s' = v -> s' = s).
  Proof.
    intros H. destruct (resolve_good _ _ _ H) as [Ra [R [W [[ver [imps [st [A [B [[I1 _] [D E]]]]]]] _]]]].
    subst g. repeat split.
    - intros e1 e2 H1 H2 Ek K1 K2.
      eapply (i1_conc_fun _ _ _ I1); [apply (i1_edge_conc _ _ _ I1); eauto|].
      rewrite Ek. apply (i1_edge_conc _ _ _ I1); auto.
    - intros e H1 Ek K. eapply (i1_conc_fun _ _ _ I1); [apply (i1_edge_conc _ _ _ I1); eauto|].
      rewrite Ek. apply (i1_conc_root _ _ _ I1).
    - apply (i1_nodup _ _ _ I1).
    - intros v Hv Hr. destruct (i1_node_created _ _ _ I1 v Hv Hr) as [s [Hs [Ks Ts]]].
      exists s. repeat split; auto. intros s' Hs' Ks' Ts'.
      apply (i1_created_uniq _ _ _ I1); auto. congruence.
  Qed.

  (* every edge whose requirement is a range points to a version inside the range *)
  Lemma thm_range_edges fuel root g :
    version_faithful -> resolve fuel root = Ok g ->
    forall e, In e (g_edges g) -> is_simple (e_req e) = Ok false -> cmatch (e_req e) (vk_ver (e_to e)) = true.
  Proof.
    intros VF H e He S.
    destruct (resolve_good _ _ _ H) as [Ra [R [W [[ver [imps [st [A [B [[I1 [_ [_ I5]]] [D E]]]]]]] _]]]].
    subst g. destruct (i5_edge _ _ I5 e He) as [l [m [_ [Fm [Hin Hto]]]]].
    destruct (i1_edge_mk _ _ _ I1 e He) as [_ Hreq]. rewrite Hreq in *. rewrite Hto.
    eapply find_match_sound; eauto.
  Qed.

  (* test, optional and provided dependencies are followed only from the root;
     the root's dependencyManagement overrides the version of every transitive declaration *)
  Lemma thm_nonroot_edges fuel root g :
    resolve fuel root = Ok g ->
    forall ver imps, c_version root = Ok ver -> c_requirements (v_vk ver) = Ok imps ->
    forall e, In e (g_edges g) -> e_from e <> root ->
              transitive_ok (e_ty e) /\
              (forall mv, aget mkey_dec (mgt_of imps) (e_mk e) = Some mv -> e_req e = vk_ver mv).
  Proof.
    intros H ver imps Hv Hr e He Hne.
    destruct (resolve_good _ _ _ H) as [Ra [R [W [[ver' [imps' [st [A [B [[I1 _] [D E]]]]]]] _]]]].
    rewrite Hv in A. inversion A; subst ver'. rewrite Hr in B. inversion B; subst imps'. subst g.
    apply (i1_edge_first _ _ _ I1 e He Hne).
  Qed.

  (* a node created through a war/ear/rar dependency has no outgoing edge *)
  Lemma thm_no_traverse_war fuel root g :
    resolve fuel root = Ok g ->
    forall s, In s (g_edges g) -> e_kind s = ECreated -> warish (e_ty s) = true ->
              forall e, In e (g_edges g) -> e_from e <> e_to s.
  Proof.
    intros H s Hs K Wr.
    destruct (resolve_good _ _ _ H) as [Ra [R [W [[ver [imps [st [A [B [[_ [I3 _]] [D E]]]]]]] _]]]].
    subst g. apply (I3 s Hs K Wr).
  Qed.

  (* exclusions: the set attached to a node is the one accumulated along its creating path,
     and no edge leaves a node towards a name that set excludes *)
  Lemma thm_exclusions fuel root g :
    resolve fuel root = Ok g ->
    aget vkey_dec (g_nexcl g) root = Some None
    /\ (forall s, In s (g_edges g) -> e_kind s = ECreated ->
                  exists exf, aget vkey_dec (g_nexcl g) (e_from s) = Some exf /\
                              aget vkey_dec (g_nexcl g) (e_to s) = Some (merge_excl (excl_of_type (e_ty s)) exf))
    /\ (forall e, In e (g_edges g) ->
                  exists ex, aget vkey_dec (g_nexcl g) (e_from e) = Some ex /\
                             is_excluded ex (pk_name (vk_pk (e_dvk e))) = Ok false).
  Proof.
    intros H.
    destruct (resolve_good _ _ _ H) as [Ra [R [W [[ver [imps [st [A [B [[_ [_ [I4 _]]] [D E]]]]]]] _]]]].
    subst g. split; [apply (i4_root _ _ I4)|]. split; [apply (i4_created _ _ I4) | apply (i4_edge _ _ I4)].
  Qed.

  Definition all_soft (l : list vkey) : Prop := forall r, In r l -> is_simple (vk_ver r) = Ok true.

  Lemma prefix_cons_hd {A} (l l' : list A) x : prefix l l' -> In x l -> exists r0 t t', l = r0 :: t /\ l' = r0 :: t'.
  Proof.
    intros [u ->] Hx. destruct l as [|r0 t]; [contradiction|]. exists r0, t, (t ++ u). auto.
  Qed.

  (* nearest wins, in terms of the requirement lists: when every requirement accumulated for an
     artifact key is soft, every edge for that key points to the version named by the first one *)
  Lemma thm_nearest_reqs fuel root R g :
    resolve_full fuel root = (R, Ok g) ->
    forall k, all_soft (reqs_of R k) ->
    forall e, In e (g_edges g) -> e_mk e = k ->
    exists r0 v, hd_error (reqs_of R k) = Some r0 /\ c_version (set_vt r0 vtype_Concrete) = Ok v /\ e_to e = v_vk v.
  Proof.
    intros F k Soft e He Ek.
    destruct (resolve_full_ok _ _ _ _ F) as [Ra [W P]].
    destruct (pass_good_of _ _ _ _ _ W P) as [ver [imps [st [A [B [[_ [_ [_ I5]]] [D E]]]]]]].
    subst g R. destruct (i5_edge _ _ I5 e He) as [l [m [Pre [Fm [Hin Hto]]]]]. rewrite Ek in Pre.
    destruct (prefix_cons_hd _ _ _ Pre Hin) as [r0 [t [t' [El ER]]]].
    exists r0, m. rewrite ER. split; [reflexivity|]. split; auto.
    subst l. rewrite find_match_all_soft in Fm; auto.
    - intros r Hr. apply Soft. eapply prefix_In; eauto.
    - intros r Hr. rewrite (i5_wf _ _ I5 k r), (i5_wf _ _ I5 k r0); auto.
      + rewrite ER. simpl; auto.
      + eapply prefix_In; eauto. simpl; auto.
  Qed.

  (* errors a client cannot produce: errNoMatch is private to the resolver *)
  Definition version_errs_sane : Prop := forall k e, c_version k = Err e -> e <> ENoMatch.

  (* nearest wins on the final graph when the first pass succeeds: the first declaration of the
     artifact key in creation (breadth-first) order decides *)
  Lemma thm_nearest_single_pass fuel root R g :
    version_errs_sane ->
    pass fuel root [] = (R, Ok g) ->
    resolve fuel root = Ok g /\
    forall k, all_soft (reqs_of R k) ->
    forall e0 rest, filter (on_k k) (g_edges g) = e0 :: rest ->
    exists v, c_version (set_vt (e_dvk e0) vtype_Concrete) = Ok v /\
              forall e, In e (e0 :: rest) -> e_to e = v_vk v.
  Proof.
    intros Sane P. pose proof (resolve_first_pass _ _ _ _ P) as F.
    split; [unfold MavenRes.resolve; now rewrite F|].
    intros k Soft e0 rest Fil.
    destruct (pass_good_of _ _ _ _ _ reqs_wf_nil P) as [ver [imps [st [A [B [[_ [_ [_ I5]]] [D E]]]]]]].
    assert (Hnoerr : forall ne, In ne (g_errs (s_g st)) -> ne_mk ne <> k).
    { intros ne Hne Ek. destruct (i5_err _ _ I5 ne Hne) as [l [Pre [Hin Fm]]]. rewrite Ek, D in Pre.
      destruct (prefix_cons_hd _ _ _ Pre Hin) as [r0 [t [t' [El ER]]]]. subst l.
      rewrite find_match_all_soft in Fm.
      - apply Sane in Fm. congruence.
      - intros r Hr. apply Soft. eapply prefix_In; eauto.
      - intros r Hr. rewrite <- D in ER. rewrite (i5_wf _ _ I5 k r), (i5_wf _ _ I5 k r0); auto.
        + rewrite ER. simpl; auto.
        + rewrite ER. destruct Pre as [u Eu]. rewrite <- D in Eu. rewrite ER in Eu. inversion Eu; subst.
          simpl. right. apply in_or_app; auto. }
    assert (Hhd : hd_error (reqs_of R k) = Some (e_dvk e0)).
    { rewrite <- D. apply (i5_first _ _ I5 k) with (rest := rest); auto. rewrite <- E in Fil. exact Fil. }
    assert (He0 : In e0 (g_edges g) /\ e_mk e0 = k).
    { assert (I0 : In e0 (filter (on_k k) (g_edges g))) by (rewrite Fil; simpl; auto).
      apply filter_In in I0. destruct I0 as [I0 K]. split; auto. unfold on_k in K.
      destruct (mkey_dec (e_mk e0) k); congruence. }
    destruct He0 as [He0 Ek0].
    destruct (thm_nearest_reqs _ _ _ _ F k Soft e0 He0 Ek0) as [r0 [v [Hr0 [Hv Hto]]]].
    rewrite Hhd in Hr0. inversion Hr0; subst r0. exists v. split; auto.
    intros e He. assert (I1 : In e (filter (on_k k) (g_edges g))) by (rewrite Fil; exact He).
    apply filter_In in I1. destruct I1 as [I1 K]. unfold on_k in K.
    destruct (mkey_dec (e_mk e) k) as [Ek|]; [|discriminate].
    destruct (thm_nearest_reqs _ _ _ _ F k Soft e I1 Ek) as [r1 [v1 [Hr1 [Hv1 Hto1]]]].
    rewrite Hhd in Hr1. inversion Hr1; subst r1. rewrite Hv in Hv1. inversion Hv1; subst. exact Hto1.
  Qed.

  (* every edge and every node error of the returned graph is what findMatch answered on the
     requirement list accumulated when the declaration was processed *)
  Lemma thm_justified fuel root R g :
    resolve_full fuel root = (R, Ok g) ->
    (forall e, In e (g_edges g) ->
               exists l m, prefix l (reqs_of R (e_mk e)) /\ In (e_dvk e) l /\ find_match l = Ok m /\ e_to e = v_vk m)
    /\ (forall ne, In ne (g_errs g) ->
                   exists l, prefix l (reqs_of R (ne_mk ne)) /\ In (ne_req ne) l /\ find_match l = Err ENoMatch).
  Proof.
    intros F. destruct (resolve_full_ok _ _ _ _ F) as [Ra [W P]].
    destruct (pass_good_of _ _ _ _ _ W P) as [ver [imps [st [A [B [[_ [_ [_ I5]]] [D E]]]]]]].
    subst g R. split.
    - intros e He. destruct (i5_edge _ _ I5 e He) as [l [m [X [Y [Z T]]]]]. exists l, m. auto.
    - apply (i5_err _ _ I5).
  Qed.

  (* one declaration: no version satisfies the accumulated requirements -> a node error is
     recorded and the pass goes on; never an edge *)
  Lemma thm_no_match_step mgt first cur st d :
    is_excluded (n_excl cur) (dep_name d) = Ok false ->
    find_match (dep_l mgt first st d) = Err ENoMatch ->
    process_dep first cur mgt st d =
    (set_g (dep_st1 mgt first st d) (g_add_err (s_g st) (mkNErr (n_vk cur) (dep_dvk mgt first d) (dep_k d))), Go).
  Proof.
    intros X Fm. unfold MavenRes.process_dep.
    fold (dep_name d). fold (dep_k d). fold (dep_dvk mgt first d). fold (dep_st1 mgt first st d).
    fold (dep_l mgt first st d). rewrite X, Fm. reflexivity.
  Qed.

  (* errors a client cannot produce: errIncompatible is private to the resolver *)
  Definition client_sane : Prop :=
    (forall k e, c_version k = Err e -> e <> EIncompat) /\
    (forall k e, c_versions k = Err e -> e <> EIncompat) /\
    (forall k e, c_requirements k = Err e -> e <> EIncompat) /\
    (forall s e, is_simple s = Err e -> e <> EIncompat).

  Lemma is_excluded_err ex n e : is_excluded ex n = Err e -> e = EOther.
  Proof.
    unfold is_excluded. destruct ex as [l|]; [|discriminate].
    destruct (in_excl b_star_star l); [discriminate|]. destruct (in_excl n l); [discriminate|].
    destruct (split_on c_colon n []) as [|g [|a [|x y]]]; intros H; inversion H; reflexivity.
  Qed.

  Lemma fm_open_err i r a e : client_sane -> fm_open i r a = Err e -> e <> EIncompat.
  Proof.
    intros [_ [Sv _]]. unfold MavenRes.fm_open. destruct (fm_hidx a); [discriminate|].
    destruct (c_versions (vk_pk r)) as [vs|e'| |] eqn:V; simpl; try discriminate.
    - unfold versions_desc. destruct (12 <? N.of_nat (length vs)); simpl; [|discriminate].
      intros H; inversion H; subst. discriminate.
    - intros H; inversion H; subst. eapply Sv; eauto.
  Qed.

  Lemma fm_scan_err : client_sane -> forall reqs i a e, fm_scan i reqs a = Err e -> e <> EIncompat.
  Proof.
    intros Sane. induction reqs as [|r reqs IH]; intros i a e; simpl; [discriminate|].
    destruct (is_simple (vk_ver r)) as [s|e'| |] eqn:S; simpl; try discriminate.
    - destruct s; [apply IH|].
      destruct (fm_open i r a) as [a1|e'| |] eqn:O; simpl; try discriminate.
      + destruct (existsb _ (fm_vers a1)); [apply IH|]. intros H; inversion H; subst. discriminate.
      + intros H; inversion H; subst. eapply fm_open_err; eauto.
    - intros H; inversion H; subst. destruct Sane as [_ [_ [_ Ss]]]. eapply Ss; eauto.
  Qed.

  Lemma fm_pick_err : client_sane -> forall softs i a e, fm_pick i softs a = Err e -> e <> EIncompat.
  Proof.
    intros Sane. induction softs as [|s softs IH]; intros i a e; simpl.
    - destruct (at_hard a i); [destruct (first_listed cmatch a)|]; intros H; inversion H; subst; discriminate.
    - destruct (if at_hard a i then first_listed cmatch a else None); [discriminate|].
      destruct (matches_all cmatch (fm_hard a) (vk_ver s)); [|apply IH].
      destruct Sane as [Sc _]. apply Sc.
  Qed.

  Lemma find_match_err l e : client_sane -> find_match l = Err e -> e <> EIncompat.
  Proof.
    intros Sane. unfold MavenRes.find_match. destruct l as [|r0 rest]; [intros H; inversion H; subst; discriminate|].
    destruct (existsb _ rest); [intros H; inversion H; subst; discriminate|].
    destruct (fm_scan 0 (r0 :: rest) (mkFm [] [] None [])) as [a|e'| |] eqn:Sc; simpl; try discriminate.
    - now apply fm_pick_err.
    - intros H; inversion H; subst. eapply fm_scan_err; eauto.
  Qed.

  Definition grows (R R' : reqmap) : Prop := exists k, (length (reqs_of R k) < length (reqs_of R' k))%nat.

  Lemma grows_ext_r R R' R'' : grows R R' -> reqs_extends R' R'' -> grows R R''.
  Proof. intros [k H] E. exists k. specialize (E k). apply prefix_length in E. lia. Qed.
  Lemma grows_ext_l R R' R'' : reqs_extends R R' -> grows R' R'' -> grows R R''.
  Proof. intros E [k H]. exists k. specialize (E k). apply prefix_length in E. lia. Qed.

  Lemma process_deps_incompat mgt first cur : client_sane -> forall ds st st',
      process_deps first cur mgt st ds = (st', Stop EIncompat) -> grows (s_reqs st) (s_reqs st').
  Proof.
    intros Sane. induction ds as [|d ds IH]; intros st st' H; simpl in H; [discriminate|].
    destruct (process_dep first cur mgt st d) as [st1 f1] eqn:P. destruct f1.
    - apply process_dep_reqs in P. eapply grows_ext_l; eauto.
    - inversion H; subst. destruct (process_dep_incompat _ _ _ _ _ _ P) as [G|[X|F]]; auto.
      + apply is_excluded_err in X. discriminate.
      + exfalso. eapply find_match_err; eauto.
  Qed.

  Lemma step_incompat mgt first cur st st' : client_sane ->
      step first mgt cur st = (st', Stop EIncompat) -> grows (s_reqs st) (s_reqs st').
  Proof.
    intros Sane. unfold MavenRes.step. destruct (n_incl cur); [discriminate|].
    unfold MavenRes.imports. destruct (c_requirements (n_vk cur)) as [imps|e| |] eqn:Rq; simpl.
    - now apply process_deps_incompat.
    - intros H; inversion H; subst. exfalso. destruct Sane as [_ [_ [Sr _]]]. eapply Sr; eauto.
    - discriminate.
    - discriminate.
  Qed.

  Lemma bfs_incompat mgt : client_sane -> forall fuel first st st',
      bfs fuel first mgt st = (st', Stop EIncompat) -> grows (s_reqs st) (s_reqs st').
  Proof.
    intros Sane. induction fuel as [|fuel IH]; intros first st st' H; simpl in H.
    - destruct (s_todo st); discriminate.
    - destruct (s_todo st) as [|cur rest]; [discriminate|].
      destruct (step first mgt cur (set_todo st rest)) as [st1 f1] eqn:S. destruct f1.
      + apply step_reqs in S. simpl in S. eapply grows_ext_l; eauto.
      + inversion H; subst. apply step_incompat in S; auto.
  Qed.

  (* the retry loop: an incompatible pass strictly lengthens some requirement list *)
  Lemma thm_pass_incompat_grows fuel root R0 R :
    client_sane -> pass fuel root R0 = (R, Err EIncompat) -> grows R0 R.
  Proof.
    intros Sane. unfold MavenRes.pass.
    destruct (negb (pk_sys (vk_pk root) =? system_Maven)); [discriminate|].
    destruct (negb (vk_vt root =? vtype_Concrete)); [discriminate|].
    destruct (c_version root) as [ver|e| |] eqn:Cv; try discriminate.
    - destruct (v_registries ver); [discriminate|].
      unfold dependency_management.
      destruct (c_requirements (v_vk ver)) as [imps|e| |] eqn:Rq; simpl; try discriminate.
      + destruct (bfs fuel true (mgt_of imps) (init_st root R0)) as [st f] eqn:B.
        destruct f as [|e]; simpl; [discriminate|].
        destruct (e =? EFuel) eqn:Ef; [discriminate|].
        intros H; inversion H; subst. apply bfs_incompat in B; auto.
      + intros H; inversion H; subst. exfalso. destruct Sane as [_ [_ [Sr _]]]. eapply Sr; eauto.
    - intros H; inversion H; subst. exfalso. destruct Sane as [Sc _]. eapply Sc; eauto.
  Qed.

  (* ================================================================ the artifact key read off the observable edge:
     for clients that answer with the package they were asked about, the target of an edge is a
     version of the declared package *)
  Definition versions_faithful : Prop :=
    forall pk vs, c_versions pk = Ok vs -> forall v, In v vs -> vk_pk (v_vk v) = pk.

  Lemma insert_right_in v x : forall rp, In x (insert_right vless v rp) -> x = v \/ In x rp.
  Proof.
    induction rp as [|y rp IH]; simpl.
    - intros [H|[]]; auto.
    - destruct (vless (v_vk v) (v_vk y)); simpl.
      + intros [H|H]; auto. apply IH in H. tauto.
      + intros [H|[H|H]]; auto.
  Qed.

  Lemma versions_desc_in vs ds x : versions_desc vless vs = Ok ds -> In x ds -> In x vs.
  Proof.
    unfold versions_desc. destruct (12 <? N.of_nat (length vs)); [discriminate|].
    intros H; inversion H; subst; clear H.
    assert (G : forall l acc, In x (fold_left (fun rp v => insert_right vless v rp) l acc) -> In x l \/ In x acc).
    { induction l as [|a l IH]; simpl; auto. intros acc H. apply IH in H. destruct H as [H|H]; auto.
      apply insert_right_in in H. destruct H as [->|H]; auto. }
    intros H. apply G in H. destruct H as [H|[]]; auto.
  Qed.

  Lemma fm_scan_vers pk : versions_faithful -> forall reqs i a a',
      (forall r, In r reqs -> vk_pk r = pk) ->
      (forall v, In v (fm_vers a) -> vk_pk (v_vk v) = pk) ->
      (forall s, In s (fm_soft a) -> vk_pk s = pk) ->
      fm_scan i reqs a = Ok a' ->
      (forall v, In v (fm_vers a') -> vk_pk (v_vk v) = pk) /\ (forall s, In s (fm_soft a') -> vk_pk s = pk).
  Proof.
    intros VsF. induction reqs as [|r reqs IH]; intros i a a' Hr Hv Hs; simpl.
    - intros H; inversion H; subst; auto.
    - destruct (is_simple (vk_ver r)) as [s| | |] eqn:S; simpl; try discriminate.
      destruct s.
      + apply IH; simpl; auto.
        * intros; apply Hr; simpl; auto.
        * intros x Hx. apply in_app_or in Hx. destruct Hx as [Hx|[<-|[]]]; auto. simpl. apply Hr; simpl; auto.
      + destruct (fm_open i r a) as [a1| | |] eqn:O; simpl; try discriminate.
        destruct (existsb _ (fm_vers a1)); [|discriminate].
        assert (Hv1 : forall v, In v (fm_vers a1) -> vk_pk (v_vk v) = pk).
        { revert O. unfold MavenRes.fm_open. destruct (fm_hidx a); [intros O; inversion O; subst; auto|].
          destruct (c_versions (vk_pk r)) as [vs| | |] eqn:V; simpl; try discriminate.
          destruct (versions_desc vless vs) as [ds| | |] eqn:D; simpl; try discriminate.
          intros O; inversion O; subst; simpl. intros v Hin. apply (versions_desc_in _ _ _ D) in Hin.
          rewrite (VsF _ _ V v Hin). apply Hr; simpl; auto. }
        destruct (fm_open_hard _ _ _ _ O) as [_ Hsoft].
        apply IH; simpl; auto.
        * intros; apply Hr; simpl; auto.
        * rewrite Hsoft. auto.
  Qed.

  Lemma fm_pick_pk pk : version_faithful -> forall softs i a v,
      (forall x, In x (fm_vers a) -> vk_pk (v_vk x) = pk) -> (forall s, In s softs -> vk_pk s = pk) ->
      fm_pick i softs a = Ok v -> vk_pk (v_vk v) = pk.
  Proof.
    intros VF. induction softs as [|s softs IH]; intros i a v Hv Hs; simpl.
    - destruct (at_hard a i); [|discriminate].
      destruct (first_listed cmatch a) eqn:F; [|discriminate]. intros H; inversion H; subst.
      apply Hv. unfold first_listed in F. apply find_some in F. tauto.
    - destruct (if at_hard a i then first_listed cmatch a else None) eqn:F.
      + intros H; inversion H; subst. destruct (at_hard a i); [|discriminate].
        apply Hv. unfold first_listed in F. apply find_some in F. tauto.
      + destruct (matches_all cmatch (fm_hard a) (vk_ver s)).
        * intros H. apply VF in H. rewrite H. apply Hs; simpl; auto.
        * apply IH; auto. intros; apply Hs; simpl; auto.
  Qed.

  Lemma find_match_pk pk l m : version_faithful -> versions_faithful ->
    (forall r, In r l -> vk_pk r = pk) -> find_match l = Ok m -> vk_pk (v_vk m) = pk.
  Proof.
    intros VF VsF Hr. unfold MavenRes.find_match. destruct l as [|r0 rest]; [discriminate|].
    destruct (existsb _ rest); [discriminate|].
    destruct (fm_scan 0 (r0 :: rest) (mkFm [] [] None [])) as [a| | |] eqn:Sc; simpl; try discriminate.
    assert (E1 : forall v, In v (fm_vers (mkFm [] [] None [])) -> vk_pk (v_vk v) = pk) by (intros v []).
    assert (E2 : forall s, In s (fm_soft (mkFm [] [] None [])) -> vk_pk s = pk) by (intros s []).
    destruct (fm_scan_vers pk VsF _ _ _ _ Hr E1 E2 Sc) as [Hv Hs].
    now apply fm_pick_pk.
  Qed.

  (* ghost fields against observable fields *)
  Lemma thm_ghost fuel root g :
    resolve fuel root = Ok g ->
    forall e, In e (g_edges g) ->
      e_mk e = mkey_for (vk_pk (e_dvk e)) (e_ty e) /\ e_req e = vk_ver (e_dvk e) /\
      (version_faithful -> versions_faithful -> vk_pk (e_to e) = vk_pk (e_dvk e)).
  Proof.
    intros H e He.
    destruct (resolve_good _ _ _ H) as [Ra [R [W [[ver [imps [st [A [B [[I1 [_ [_ I5]]] [D E]]]]]]] _]]]].
    subst g. destruct (i1_edge_mk _ _ _ I1 e He) as [Hmk Hreq]. repeat split; auto.
    intros VF VsF. destruct (i5_edge _ _ I5 e He) as [l [m [Pre [Fm [Hin Hto]]]]].
    rewrite Hto. assert (Hl : forall r, In r l -> vk_pk r = mk_pk (e_mk e)).
    { intros r Hr. apply (i5_wf _ _ I5). eapply prefix_In; eauto. }
    rewrite (find_match_pk _ _ _ VF VsF Hl Fm). symmetry. apply Hl. exact Hin.
  Qed.

  (* one version per artifact, stated on what the Go graph shows: target package, classifier, type *)
  Lemma thm_one_version_observable fuel root g :
    version_faithful -> versions_faithful -> resolve fuel root = Ok g ->
    forall e1 e2, In e1 (g_edges g) -> In e2 (g_edges g) ->
      mkey_for (vk_pk (e_to e1)) (e_ty e1) = mkey_for (vk_pk (e_to e2)) (e_ty e2) ->
      e_kind e1 <> EShared -> e_kind e2 <> EShared -> e_to e1 = e_to e2.
  Proof.
    intros VF VsF H e1 e2 H1 H2 Ek K1 K2.
    destruct (thm_ghost _ _ _ H e1 H1) as [M1 [_ P1]]. destruct (thm_ghost _ _ _ H e2 H2) as [M2 [_ P2]].
    destruct (thm_one_version _ _ _ H) as [T _]. apply T; auto.
    rewrite M1, M2, <- (P1 VF VsF), <- (P2 VF VsF). exact Ek.
  Qed.

  (* what the shared-node edges of a returned graph are *)
  Lemma thm_shared_target fuel root g :
    resolve fuel root = Ok g ->
    forall e, In e (g_edges g) -> e_kind e = EShared -> shared_other root g e.
  Proof.
    intros H e He K. destruct (resolve_ok _ _ _ H) as [Ra [R [W [P _]]]].
    apply pass_ok_inv in P. destruct P as [ver [imps [st [A [B [C [D E]]]]]]]. subst g.
    apply (bfs_first_inv8 _ _ _ _ _ C); auto.
  Qed.

  (* every package occurs in the graph with one (classifier, type) only, and the root's package with the root's *)
  Definition single_variant (root : vkey) (g : graph) : Prop :=
    (forall e1 e2, In e1 (g_edges g) -> In e2 (g_edges g) ->
                   mk_pk (e_mk e1) = mk_pk (e_mk e2) -> e_mk e1 = e_mk e2) /\
    (forall e, In e (g_edges g) -> mk_pk (e_mk e) = vk_pk root -> e_mk e = root_mkey root).

  (* one version per artifact WITHOUT the exception for shared-node edges, when no package occurs with two
     (classifier, type) variants: there is then no shared-node edge at all *)
  Lemma thm_one_version_single_variant fuel root g :
    version_faithful -> versions_faithful -> resolve fuel root = Ok g -> single_variant root g ->
    (forall e, In e (g_edges g) -> e_kind e <> EShared) /\
    (forall e1 e2, In e1 (g_edges g) -> In e2 (g_edges g) -> e_mk e1 = e_mk e2 -> e_to e1 = e_to e2) /\
    (forall e, In e (g_edges g) -> e_mk e = root_mkey root -> e_to e = root).
  Proof.
    intros VF VsF H [SV1 SV2].
    assert (Pk : forall e, In e (g_edges g) -> mk_pk (e_mk e) = vk_pk (e_to e)).
    { intros e He. destruct (thm_ghost _ _ _ H e He) as [M [_ P]]. rewrite M, (P VF VsF). reflexivity. }
    assert (NS : forall e, In e (g_edges g) -> e_kind e <> EShared).
    { intros e He K. destruct (thm_shared_target _ _ _ H e He K) as [[Er Nk]|[s [Hs [Ks [Ts Nk]]]]].
      - apply Nk. apply SV2; [exact He | rewrite (Pk e He), Er; reflexivity].
      - apply Nk. apply SV1; [exact Hs | exact He | rewrite (Pk s Hs), (Pk e He), Ts; reflexivity]. }
    destruct (thm_one_version _ _ _ H) as [T1 [T2 _]]. split; [exact NS|]. split.
    - intros e1 e2 H1 H2 Ek. apply T1; auto.
    - intros e He Ek. apply T2; auto.
  Qed.

  (* when the first pass succeeds, the FIRST declaration of an artifact key decides alone: its edge points to
     what findMatch answers on that single requirement (a soft requirement: that version; a range: the first
     listed version inside it), and every other edge of the key that is not a shared-node edge follows it *)
  Lemma thm_first_decides fuel root R g :
    pass fuel root [] = (R, Ok g) ->
    resolve fuel root = Ok g /\
    forall k, (forall ne, In ne (g_errs g) -> ne_mk ne <> k) ->
    forall e0 rest, filter (on_k k) (g_edges g) = e0 :: rest ->
      (exists m, find_match [e_dvk e0] = Ok m /\ e_to e0 = v_vk m) /\
      (e_kind e0 <> EShared -> forall e, In e rest -> e_kind e <> EShared -> e_to e = e_to e0).
  Proof.
    intros P. pose proof (resolve_first_pass _ _ _ _ P) as F.
    assert (Hres : resolve fuel root = Ok g) by (unfold MavenRes.resolve; now rewrite F).
    split; auto. intros k Hnoerr e0 rest Fil.
    apply pass_ok_inv in P. destruct P as [ver [imps [st [A [B [C [D E]]]]]]]. subst g.
    destruct (bfs_first_inv9 _ _ _ _ _ reqs_wf_nil C) as [_ I9]. split.
    - apply (I9 k eq_refl Hnoerr e0 rest Fil).
    - intros K0 e He Ke. destruct (thm_one_version _ _ _ Hres) as [T _].
      assert (In0 : In e0 (filter (on_k k) (g_edges (s_g st)))) by (rewrite Fil; simpl; auto).
      assert (In1 : In e (filter (on_k k) (g_edges (s_g st)))) by (rewrite Fil; simpl; auto).
      apply filter_In in In0. apply filter_In in In1. destruct In0 as [A0 B0]. destruct In1 as [A1 B1].
      unfold on_k in B0, B1. destruct (mkey_dec (e_mk e0) k); [|discriminate]. destruct (mkey_dec (e_mk e) k); [|discriminate].
      apply T; auto. congruence.
  Qed.

  (* for EVERY number of passes: the last edge of an artifact key points to what findMatch answers on the FINAL
     requirement list of the key, and so does every other edge of the key that is not a shared-node edge *)
  Lemma thm_final_list_decides fuel root R g :
    resolve_full fuel root = (R, Ok g) ->
    forall k, (forall ne, In ne (g_errs g) -> ne_mk ne <> k) ->
    forall es el, filter (on_k k) (g_edges g) = es ++ [el] ->
      exists m, find_match (reqs_of R k) = Ok m /\ e_to el = v_vk m /\
                (e_kind el <> EShared -> forall e, In e es -> e_kind e <> EShared -> e_to e = v_vk m).
  Proof.
    intros F k Hnoerr es el Fil.
    assert (Hres : resolve fuel root = Ok g) by (unfold MavenRes.resolve; now rewrite F).
    destruct (resolve_full_ok _ _ _ _ F) as [Ra [W P]].
    apply pass_ok_inv in P. destruct P as [ver [imps [st [A [B [C [D E]]]]]]]. subst g R.
    destruct (bfs_first_inv10 _ _ _ _ _ C k Hnoerr es el Fil) as [m [Fm Hto]].
    exists m. split; auto. split; auto. intros Kl e He Ke. rewrite <- Hto.
    destruct (thm_one_version _ _ _ Hres) as [T _].
    assert (In0 : In el (filter (on_k k) (g_edges (s_g st)))) by (rewrite Fil; apply in_or_app; simpl; auto).
    assert (In1 : In e (filter (on_k k) (g_edges (s_g st)))) by (rewrite Fil; apply in_or_app; auto).
    apply filter_In in In0. apply filter_In in In1. destruct In0 as [A0 B0]. destruct In1 as [A1 B1].
    unfold on_k in B0, B1. destruct (mkey_dec (e_mk el) k); [|discriminate]. destruct (mkey_dec (e_mk e) k); [|discriminate].
    apply T; auto. congruence.
  Qed.

  (* the retry loop: a pass only appends to the requirement lists *)
  Lemma thm_pass_extends fuel root R0 R r :
    reqs_wf R0 -> pass fuel root R0 = (R, r) -> reqs_extends R0 R.
  Proof. intros W P. eapply pass_wf_ext; eauto. Qed.
  (* ================================================================ totality: with enough fuel a resolution
     returns a graph or an error: never Panic, never OutOfFuel.
     Measure of one pass: (length of the queue) + (number of distinct version keys of U that are not yet nodes),
     where U is a finite list containing every version key the client can answer with.  Popping an entry lowers
     the first term; the only way the queue grows is the creation of a node, whose key is an answer of the client
     (in U) and is not yet a node, which lowers the second term by as much.  The retry loop runs the same pass at
     most maxRetries + 1 times with the same fuel. *)
  Section Total.
  Variable U : list vkey.

  Definition answers_in : Prop :=
    (forall k v, c_version k = Ok v -> In (v_vk v) U) /\
    (forall pk vs, c_versions pk = Ok vs -> forall v, In v vs -> In (v_vk v) U).

  (* an answer of the client: a value or an error that is not the model's own fuel marker; a client that
     panics makes Resolve panic (the panic is the client's), so totality is about clients that do not *)
  Definition res_plain {A} (r : res A) : Prop :=
    match r with Ok _ => True | Err e => e <> EFuel | Panic _ => False | OutOfFuel => False end.
  Definition client_total : Prop :=
    (forall k, res_plain (c_version k)) /\ (forall k, res_plain (c_versions k)) /\
    (forall k, res_plain (c_requirements k)) /\ (forall s, res_plain (is_simple s)).

  Lemma is_excluded_plain ex n : res_plain (is_excluded ex n).
  Proof.
    unfold is_excluded. destruct ex as [l|]; simpl; auto.
    destruct (in_excl b_star_star l); simpl; auto. destruct (in_excl n l); simpl; auto.
    destruct (split_on c_colon n []) as [|g [|a [|x y]]]; simpl; auto; discriminate.
  Qed.

  Lemma fm_open_plain i r a : client_total -> res_plain (fm_open i r a).
  Proof.
    intros [_ [Tv _]]. unfold MavenRes.fm_open. destruct (fm_hidx a); simpl; auto.
    specialize (Tv (vk_pk r)). destruct (c_versions (vk_pk r)) as [vs|e| |]; simpl in *; auto.
    unfold versions_desc. destruct (12 <? N.of_nat (length vs)); simpl; auto. discriminate.
  Qed.

  Lemma fm_scan_plain : client_total -> forall reqs i a, res_plain (fm_scan i reqs a).
  Proof.
    intros T. induction reqs as [|r reqs IH]; intros i a; simpl; auto.
    destruct T as [Tc [Tv [Tr Ts]]]. pose proof (Ts (vk_ver r)) as Hs.
    destruct (is_simple (vk_ver r)) as [s|e| |]; simpl in *; auto.
    destruct s; [apply IH|].
    pose proof (fm_open_plain i r a (conj Tc (conj Tv (conj Tr Ts)))) as Ho.
    destruct (fm_open i r a) as [a1|e| |]; simpl in *; auto.
    destruct (existsb _ (fm_vers a1)); [apply IH|]. simpl. discriminate.
  Qed.

  Lemma fm_pick_plain : client_total -> forall softs i a, res_plain (fm_pick i softs a).
  Proof.
    intros T. induction softs as [|s softs IH]; intros i a; simpl.
    - destruct (at_hard a i); [destruct (first_listed cmatch a)|]; simpl; auto; discriminate.
    - destruct (if at_hard a i then first_listed cmatch a else None); simpl; auto.
      destruct (matches_all cmatch (fm_hard a) (vk_ver s)); [|apply IH].
      destruct T as [Tc _]. apply Tc.
  Qed.

  Lemma find_match_plain l : client_total -> res_plain (find_match l).
  Proof.
    intros T. unfold MavenRes.find_match. destruct l as [|r0 rest]; [simpl; discriminate|].
    destruct (existsb _ rest); [simpl; discriminate|].
    pose proof (fm_scan_plain T (r0 :: rest) 0%nat (mkFm [] [] None [])) as Hs.
    destruct (fm_scan 0 (r0 :: rest) (mkFm [] [] None [])) as [a|e| |]; [|exact Hs|exact Hs|exact Hs].
    unfold bind. now apply fm_pick_plain.
  Qed.

  Lemma fm_scan_U : answers_in -> forall reqs i a a',
      (forall v, In v (fm_vers a) -> In (v_vk v) U) ->
      fm_scan i reqs a = Ok a' -> forall v, In v (fm_vers a') -> In (v_vk v) U.
  Proof.
    intros [_ Av]. induction reqs as [|r reqs IH]; intros i a a' Hv; simpl.
    - intros H; inversion H; subst; auto.
    - destruct (is_simple (vk_ver r)) as [s| | |]; simpl; try discriminate.
      destruct s; [apply IH; auto|].
      destruct (fm_open i r a) as [a1| | |] eqn:O; simpl; try discriminate.
      destruct (existsb _ (fm_vers a1)); [|discriminate].
      apply IH; simpl.
      revert O. unfold MavenRes.fm_open. destruct (fm_hidx a); [intros O; inversion O; subst; auto|].
      destruct (c_versions (vk_pk r)) as [vs| | |] eqn:V; simpl; try discriminate.
      destruct (versions_desc vless vs) as [ds| | |] eqn:D; simpl; try discriminate.
      intros O; inversion O; subst; simpl. intros v Hin. apply (versions_desc_in _ _ _ D) in Hin.
      eapply Av; eauto.
  Qed.

  Lemma fm_pick_U : answers_in -> forall softs i a v,
      (forall x, In x (fm_vers a) -> In (v_vk x) U) -> fm_pick i softs a = Ok v -> In (v_vk v) U.
  Proof.
    intros [Ac _]. induction softs as [|s softs IH]; intros i a v Hv; simpl.
    - destruct (at_hard a i); [|discriminate].
      destruct (first_listed cmatch a) eqn:F; [|discriminate]. intros H; inversion H; subst.
      apply Hv. unfold first_listed in F. apply find_some in F. tauto.
    - destruct (if at_hard a i then first_listed cmatch a else None) eqn:F.
      + intros H; inversion H; subst. destruct (at_hard a i); [|discriminate].
        apply Hv. unfold first_listed in F. apply find_some in F. tauto.
      + destruct (matches_all cmatch (fm_hard a) (vk_ver s)); [apply Ac | apply IH; auto].
  Qed.

  Lemma find_match_U l m : answers_in -> find_match l = Ok m -> In (v_vk m) U.
  Proof.
    intros A. unfold MavenRes.find_match. destruct l as [|r0 rest]; [discriminate|].
    destruct (existsb _ rest); [discriminate|].
    destruct (fm_scan 0 (r0 :: rest) (mkFm [] [] None [])) as [a| | |] eqn:Sc; simpl; try discriminate.
    apply fm_pick_U; auto. eapply fm_scan_U; eauto. intros v [].
  Qed.

  Lemma imports_plain vk opt : client_total -> res_plain (imports vk opt).
  Proof.
    intros [_ [_ [Tr _]]]. unfold MavenRes.imports. specialize (Tr vk).
    destruct (c_requirements vk); simpl in *; auto.
  Qed.

  (* the three places where the model turns a Panic / OutOfFuel outcome into an error are unreachable *)
  Lemma absorbed_unreachable : client_total ->
    (forall ex n, res_plain (is_excluded ex n)) /\ (forall l, res_plain (find_match l)) /\
    (forall vk opt, res_plain (imports vk opt)).
  Proof.
    intros T. split; [intros; apply is_excluded_plain|]. split; [intros; now apply find_match_plain|].
    intros; now apply imports_plain.
  Qed.

  (* the measure *)
  Definition notin (nodes : list vkey) (u : vkey) : bool := negb (memb vkey_dec u nodes).
  Definition ufree (nodes : list vkey) : nat := length (filter (notin nodes) (nodup vkey_dec U)).
  Definition mu (st : pst) : nat := (length (s_todo st) + ufree (g_nodes (s_g st)))%nat.

  Lemma filter_snoc_count (L : list vkey) : NoDup L -> forall nodes x, In x L -> ~ In x nodes ->
    S (length (filter (notin (nodes ++ [x])) L)) = length (filter (notin nodes) L).
  Proof.
    induction 1 as [|a L Ha Hn IH]; intros nodes x Hx Hnx; [contradiction|].
    simpl. assert (Eother : forall y, y <> x -> notin (nodes ++ [x]) y = notin nodes y).
    { intros y Hy. unfold notin. f_equal. destruct (memb vkey_dec y nodes) eqn:M.
      - apply memb_In. apply memb_In in M. apply in_or_app; auto.
      - apply memb_not_In. apply memb_not_In in M. intros H. apply in_app_or in H. destruct H as [H|[H|[]]]; auto. }
    destruct Hx as [->|Hx].
    - assert (E1 : notin (nodes ++ [x]) x = false).
      { unfold notin. apply negb_false_iff. apply memb_In. apply in_or_app; simpl; auto. }
      assert (E2 : notin nodes x = true).
      { unfold notin. apply negb_true_iff. now apply memb_not_In. }
      rewrite E1, E2. simpl. f_equal.
      f_equal. apply filter_ext_in. intros y Hy. apply Eother. intros ->. contradiction.
    - assert (Hax : a <> x) by (intros ->; contradiction).
      rewrite (Eother a Hax). destruct (notin nodes a); simpl; [f_equal|]; apply IH; auto.
  Qed.

  Lemma ufree_snoc nodes x : In x U -> ~ In x nodes -> S (ufree (nodes ++ [x])) = ufree nodes.
  Proof.
    intros Hx Hn. unfold ufree. apply filter_snoc_count; auto.
    - apply NoDup_nodup.
    - now apply nodup_In.
  Qed.

  Lemma nodup_length_le (l : list vkey) : (length (nodup vkey_dec l) <= length l)%nat.
  Proof. induction l as [|a l IH]; simpl; auto. destruct (in_dec vkey_dec a l); simpl; lia. Qed.

  Lemma filter_length_le' {A} (f : A -> bool) l : (length (filter f l) <= length l)%nat.
  Proof. induction l as [|a l IH]; simpl; auto. destruct (f a); simpl; lia. Qed.

  Lemma ufree_le nodes : (ufree nodes <= length U)%nat.
  Proof. unfold ufree. eapply Nat.le_trans; [apply filter_length_le' | apply nodup_length_le]. Qed.

  Section OnePass.
  Variable mgt : list (mkey * vkey).
  Hypothesis A : answers_in.
  Hypothesis T : client_total.

  Lemma dep_go_mu first cur st d st' : dep_go mgt first cur st d st' -> (mu st' <= mu st)%nat.
  Proof.
    intros Hgo. inversion Hgo; subst; clear Hgo; unfold mu; simpl; auto.
    rewrite app_length. simpl.
    pose proof (ufree_snoc (g_nodes (s_g st)) (v_vk m) (find_match_U _ _ A H0) H3). lia.
  Qed.

  Lemma process_dep_nofuel first cur st d st' f :
    process_dep first cur mgt st d = (st', f) -> f <> Stop EFuel.
  Proof.
    unfold MavenRes.process_dep.
    pose proof (is_excluded_plain (n_excl cur) (pk_name (vk_pk (d_vk d)))) as Hx.
    destruct (is_excluded (n_excl cur) (pk_name (vk_pk (d_vk d)))) as [[|]|e| |]; simpl in Hx;
      try contradiction; try (intros H; inversion H; subst; discriminate).
    - set (l := reqs_of _ _). pose proof (find_match_plain l T) as Hf.
      destruct (find_match l) as [m|e| |]; simpl in Hf; try contradiction.
      + destruct (memb mvkey_dec _ _); [intros H; inversion H; discriminate|].
        destruct (memb mkey_dec _ _); [intros H; inversion H; discriminate|].
        destruct (v_registries m); [intros H; inversion H; discriminate|].
        destruct (memb vkey_dec _ _); intros H; inversion H; discriminate.
      + destruct (e =? ENoMatch); intros H; inversion H; subst; [discriminate|].
        intros E; inversion E; subst. apply Hf; reflexivity.
    - intros H; inversion H; subst. intros E; inversion E; subst. apply Hx; reflexivity.
  Qed.

  Lemma process_deps_mu first cur : forall ds st st' f,
      process_deps first cur mgt st ds = (st', f) -> f <> Stop EFuel /\ (f = Go -> (mu st' <= mu st)%nat).
  Proof.
    induction ds as [|d ds IH]; intros st st' f H; simpl in H.
    - inversion H; subst. split; [discriminate | auto].
    - destruct (process_dep first cur mgt st d) as [st1 f1] eqn:P. destruct f1.
      + destruct (IH _ _ _ H) as [N M]. split; auto. intros E.
        apply process_dep_go in P. apply dep_go_mu in P. specialize (M E). lia.
      + inversion H; subst. split; [eapply process_dep_nofuel; eauto | discriminate].
  Qed.

  Lemma step_mu first cur st st' f :
    step first mgt cur st = (st', f) -> f <> Stop EFuel /\ (f = Go -> (mu st' <= mu st)%nat).
  Proof.
    unfold MavenRes.step. destruct (n_incl cur); [intros H; inversion H; subst; split; [discriminate | auto]|].
    unfold MavenRes.imports. destruct T as [_ [_ [Tr _]]]. specialize (Tr (n_vk cur)).
    destruct (c_requirements (n_vk cur)) as [imps|e| |]; simpl in *; try contradiction.
    - apply process_deps_mu.
    - intros H; inversion H; subst. split; [|discriminate]. intros E; inversion E; subst. apply Tr; reflexivity.
  Qed.

  Lemma bfs_total : forall fuel first st st' f,
      (mu st <= fuel)%nat -> bfs fuel first mgt st = (st', f) -> f <> Stop EFuel.
  Proof.
    induction fuel as [|fuel IH]; intros first st st' f Hm; simpl.
    - destruct (s_todo st) eqn:Td; [intros H; inversion H; discriminate|].
      unfold mu in Hm. rewrite Td in Hm. simpl in Hm. lia.
    - destruct (s_todo st) as [|cur rest] eqn:Td; [intros H; inversion H; discriminate|].
      destruct (step first mgt cur (set_todo st rest)) as [st1 f1] eqn:S.
      destruct (step_mu _ _ _ _ _ S) as [N M]. destruct f1.
      + apply IH. specialize (M eq_refl). unfold mu in *. rewrite Td in Hm. simpl in *. lia.
      + intros H; inversion H; subst. exact N.
  Qed.
  End OnePass.

  Definition good (r : res graph) : Prop := match r with Panic _ => False | OutOfFuel => False | _ => True end.

  Lemma pass_total fuel root R : answers_in -> client_total -> (S (length U) <= fuel)%nat ->
    good (snd (pass fuel root R)).
  Proof.
    intros A T Hf. unfold MavenRes.pass.
    destruct (negb (pk_sys (vk_pk root) =? system_Maven)); simpl; auto.
    destruct (negb (vk_vt root =? vtype_Concrete)); simpl; auto.
    destruct T as [Tc [Tv [Tr Ts]]]. pose proof (Tc root) as Hc.
    destruct (c_version root) as [ver|e| |]; simpl in *; auto.
    destruct (v_registries ver); simpl; auto.
    unfold dependency_management. pose proof (Tr (v_vk ver)) as Hr.
    destruct (c_requirements (v_vk ver)) as [imps|e| |]; simpl in *; auto.
    destruct (bfs fuel true (mgt_of imps) (init_st root R)) as [st f] eqn:B. simpl.
    apply bfs_total in B; auto.
    - destruct f as [|e]; simpl; auto. destruct (e =? EFuel) eqn:E; simpl; auto.
      apply N.eqb_eq in E. subst. apply B. reflexivity.
    - repeat split; auto.
    - unfold mu. simpl. pose proof (ufree_le [root]). lia.
  Qed.

  Lemma retry_total fuel root : answers_in -> client_total -> (S (length U) <= fuel)%nat ->
    forall n R r, good r -> good (snd (retry n fuel root R r)).
  Proof.
    intros A T Hf. induction n as [|n IH]; intros R r G; simpl; auto.
    destruct (is_incompat r); simpl; auto.
    pose proof (pass_total fuel root R A T Hf) as P.
    destruct (pass fuel root R) as [R1 r1]. simpl in P. apply IH. exact P.
  Qed.

  Lemma thm_resolve_total root : answers_in -> client_total ->
    forall fuel, (S (length U) <= fuel)%nat -> good (resolve fuel root).
  Proof.
    intros A T fuel Hf. unfold MavenRes.resolve, MavenRes.resolve_full.
    pose proof (pass_total fuel root [] A T Hf) as P.
    destruct (pass fuel root []) as [R1 r1]. simpl in P. now apply retry_total.
  Qed.
  End Total.
End Proofs.
