(* Lemmas about the data structures of the PyPI resolver model: keys, sets, criteria,
   versionMap, filterSlice, insertion sort, intersect, the update map. *)
From Coq Require Import List NArith ZArith Bool Lia Permutation.
From DepsDev Require Import Lib.Base Gen.PypiTables Resolve.Pypi.
Import ListNotations.

(* ---------- equality tests ---------- *)
Lemma bytes_eqb_eq a b : bytes_eqb a b = true <-> a = b.
Proof.
  revert b; induction a as [|x a IH]; intros [|y b]; simpl; split; intros H; try congruence; try discriminate; auto.
  - apply andb_true_iff in H as [H1 H2]. apply N.eqb_eq in H1. apply IH in H2. congruence.
  - inversion H; subst. rewrite N.eqb_refl. simpl. apply IH; auto.
Qed.

Lemma bytes_eqb_refl a : bytes_eqb a a = true.
Proof. apply bytes_eqb_eq; auto. Qed.

Lemma bytes_eqb_neq a b : bytes_eqb a b = false <-> a <> b.
Proof.
  split; intros H.
  - intros E. apply bytes_eqb_eq in E. congruence.
  - destruct (bytes_eqb a b) eqn:E; auto. apply bytes_eqb_eq in E. contradiction.
Qed.

Lemma bytes_eqb_sym a b : bytes_eqb a b = bytes_eqb b a.
Proof.
  destruct (bytes_eqb a b) eqn:E; symmetry.
  - apply bytes_eqb_eq in E. subst. apply bytes_eqb_refl.
  - apply bytes_eqb_neq. apply bytes_eqb_neq in E. congruence.
Qed.

Lemma vkey_eqb_eq a b : vkey_eqb a b = true <-> a = b.
Proof.
  unfold vkey_eqb. destruct a as [n1 t1 v1], b as [n2 t2 v2]; simpl. split.
  - intros H. apply andb_true_iff in H as [H H3]. apply andb_true_iff in H as [H1 H2].
    apply bytes_eqb_eq in H1, H3. apply N.eqb_eq in H2. congruence.
  - intros H; inversion H; subst. rewrite !bytes_eqb_refl, N.eqb_refl. reflexivity.
Qed.

Lemma vkey_eqb_refl a : vkey_eqb a a = true.
Proof. apply vkey_eqb_eq; auto. Qed.

Lemma vkey_eqb_neq a b : vkey_eqb a b = false <-> a <> b.
Proof.
  split; intros H.
  - intros E. apply vkey_eqb_eq in E. congruence.
  - destruct (vkey_eqb a b) eqn:E; auto. apply vkey_eqb_eq in E. contradiction.
Qed.

Lemma vkey_eq_dec (a b : vkey) : {a = b} + {a <> b}.
Proof.
  destruct (vkey_eqb a b) eqn:E; [left; apply vkey_eqb_eq; auto | right; apply vkey_eqb_neq; auto].
Qed.

Lemma deptype_eqb_eq a b : deptype_eqb a b = true <-> a = b.
Proof.
  revert b; induction a as [|[k v] a IH]; intros [|[k' v'] b]; simpl; split; intros H; try congruence; try discriminate; auto.
  - apply andb_true_iff in H as [H H3]. apply andb_true_iff in H as [H1 H2].
    apply Z.eqb_eq in H1. apply bytes_eqb_eq in H2. apply IH in H3. congruence.
  - inversion H; subst. rewrite Z.eqb_refl, bytes_eqb_refl. simpl. apply IH; auto.
Qed.

Lemma vk_mem_In v l : vk_mem v l = true <-> In v l.
Proof.
  induction l as [|x l IH]; simpl; split; intros H; try discriminate; try contradiction.
  - apply orb_true_iff in H as [H|H]; [left; symmetry; apply vkey_eqb_eq; auto | right; apply IH; auto].
  - apply orb_true_iff. destruct H as [H|H]; [left; apply vkey_eqb_eq; auto | right; apply IH; auto].
Qed.

Lemma vk_mem_false v l : vk_mem v l = false <-> ~ In v l.
Proof.
  split; intros H.
  - intros I. apply vk_mem_In in I. congruence.
  - destruct (vk_mem v l) eqn:E; auto. apply vk_mem_In in E. contradiction.
Qed.

(* ---------- vk_union ---------- *)
Lemma union_step_In (acc : list vkey) l x :
  In x (fold_left (fun acc v => if vk_mem v acc then acc else acc ++ [v]) l acc) <-> In x acc \/ In x l.
Proof.
  revert acc; induction l as [|y l IH]; intros acc; simpl.
  - tauto.
  - rewrite IH. destruct (vk_mem y acc) eqn:E.
    + apply vk_mem_In in E. split; intros [H|H]; auto. destruct H as [H|H]; subst; auto.
    + rewrite in_app_iff. simpl. tauto.
Qed.

Lemma vk_union_In a b x : In x (vk_union a b) <-> In x a \/ In x b.
Proof.
  unfold vk_union. rewrite union_step_In, union_step_In. simpl. tauto.
Qed.

(* ---------- criteria ---------- *)
Lemma crit_get_put_same cs n c : crit_get (crit_put cs n c) n = Some c.
Proof.
  induction cs as [|[m d] r IH]; simpl.
  - rewrite bytes_eqb_refl; auto.
  - destruct (bytes_eqb m n) eqn:E.
    + simpl. rewrite bytes_eqb_refl; auto.
    + destruct (bytes_compare m n); simpl; rewrite ?bytes_eqb_refl; auto.
      rewrite E. auto.
Qed.

Lemma crit_get_put_other cs n c m : m <> n -> crit_get (crit_put cs n c) m = crit_get cs m.
Proof.
  intros Hne. induction cs as [|[k d] r IH]; simpl.
  - replace (bytes_eqb n m) with false; auto. symmetry. apply bytes_eqb_neq. congruence.
  - assert (Hnm : bytes_eqb n m = false) by (apply bytes_eqb_neq; congruence).
    destruct (bytes_eqb k n) eqn:E.
    + apply bytes_eqb_eq in E. subst k. simpl. rewrite Hnm. auto.
    + destruct (bytes_compare k n); simpl; rewrite ?Hnm; auto.
      destruct (bytes_eqb k m); auto.
Qed.

Lemma crit_get_In cs n c : crit_get cs n = Some c -> In (n, c) cs.
Proof.
  induction cs as [|[m d] r IH]; simpl; intros H; try discriminate.
  destruct (bytes_eqb m n) eqn:E.
  - apply bytes_eqb_eq in E. inversion H; subst. auto.
  - auto.
Qed.

(* ---------- versionMap ---------- *)
Lemma vm_get_In m p v : vm_get m p = Some v -> In (p, v) m.
Proof.
  induction m as [|[q w] r IH]; simpl; intros H; try discriminate.
  destruct (bytes_eqb q p) eqn:E.
  - apply bytes_eqb_eq in E. inversion H; subst; auto.
  - auto.
Qed.

Lemma vm_get_None m p : vm_get m p = None <-> ~ In p (map fst m).
Proof.
  induction m as [|[q w] r IH]; simpl.
  - tauto.
  - destruct (bytes_eqb q p) eqn:E.
    + apply bytes_eqb_eq in E. subst. split; [discriminate | intros H; exfalso; apply H; auto].
    + apply bytes_eqb_neq in E. rewrite IH. tauto.
Qed.

Lemma In_vm_get m p v : NoDup (map fst m) -> In (p, v) m -> vm_get m p = Some v.
Proof.
  induction m as [|[q w] r IH]; simpl; intros ND H; try contradiction.
  inversion ND as [|? ? Hn ND']; subst.
  destruct H as [H|H].
  - inversion H; subst. rewrite bytes_eqb_refl. auto.
  - destruct (bytes_eqb q p) eqn:E.
    + apply bytes_eqb_eq in E. subst. exfalso. apply Hn. apply (in_map fst) in H. auto.
    + auto.
Qed.

Lemma vm_remove_keys m p x : In x (map fst (vm_remove m p)) -> In x (map fst m).
Proof.
  induction m as [|[q w] r IH]; simpl; auto.
  destruct (bytes_eqb q p); simpl; intros H; auto. destruct H; auto.
Qed.

Lemma vm_remove_nodup m p : NoDup (map fst m) -> NoDup (map fst (vm_remove m p)) /\ ~ In p (map fst (vm_remove m p)).
Proof.
  induction m as [|[q w] r IH]; simpl; intros ND.
  - split; [constructor | tauto].
  - inversion ND as [|? ? Hn ND']; subst.
    destruct (bytes_eqb q p) eqn:E.
    + apply bytes_eqb_eq in E. subst. split; auto.
    + apply bytes_eqb_neq in E. destruct (IH ND') as [A B]. simpl. split.
      * constructor; auto. intros H. apply Hn. eapply vm_remove_keys; eauto.
      * intros [H|H]; auto.
Qed.

Lemma nodup_snoc {A} (l : list A) x : NoDup l -> ~ In x l -> NoDup (l ++ [x]).
Proof.
  induction l as [|y l IH]; simpl; intros ND Hn.
  - constructor; [tauto | constructor].
  - inversion ND as [|? ? Hy ND']; subst. constructor.
    + rewrite in_app_iff. simpl. intros [H|[H|[]]]; [contradiction | subst; tauto].
    + apply IH; auto.
Qed.

Lemma vm_set_nodup m p v : NoDup (map fst m) -> NoDup (map fst (vm_set m p v)).
Proof.
  intros ND. unfold vm_set. rewrite map_app. simpl.
  destruct (vm_remove_nodup m p ND) as [A B].
  apply nodup_snoc; auto.
Qed.

Lemma vm_get_app m1 m2 p : vm_get (m1 ++ m2) p = match vm_get m1 p with Some v => Some v | None => vm_get m2 p end.
Proof.
  induction m1 as [|[q w] r IH]; simpl; auto. destruct (bytes_eqb q p); auto.
Qed.

Lemma vm_get_remove_other m p q : q <> p -> vm_get (vm_remove m p) q = vm_get m q.
Proof.
  intros Hne. induction m as [|[k w] r IH]; simpl; auto.
  destruct (bytes_eqb k p) eqn:E.
  - apply bytes_eqb_eq in E. subst. replace (bytes_eqb p q) with false; auto.
    symmetry; apply bytes_eqb_neq; congruence.
  - simpl. destruct (bytes_eqb k q); auto.
Qed.

Lemma vm_get_set_same m p v : NoDup (map fst m) -> vm_get (vm_set m p v) p = Some v.
Proof.
  intros ND. unfold vm_set. rewrite vm_get_app.
  destruct (vm_remove_nodup m p ND) as [_ B]. apply vm_get_None in B. rewrite B. simpl.
  rewrite bytes_eqb_refl; auto.
Qed.

Lemma vm_get_set_other m p v q : q <> p -> vm_get (vm_set m p v) q = vm_get m q.
Proof.
  intros Hne. unfold vm_set. rewrite vm_get_app, vm_get_remove_other; auto.
  destruct (vm_get m q); auto. simpl.
  replace (bytes_eqb p q) with false; auto. symmetry; apply bytes_eqb_neq; congruence.
Qed.

(* ---------- filterSlice ---------- *)
Lemma last_removelast_perm {A} (l : list A) d : l <> [] -> Permutation (last l d :: removelast l) l.
Proof.
  intros H. rewrite (app_removelast_last d H) at 3.
  apply Permutation_cons_append.
Qed.

Lemma filter_slice_spec {A} (pred : A -> res bool) : forall fuel l r,
  (length l <= fuel)%nat -> filter_slice fuel pred l = Ok r ->
  (forall x, In x r <-> In x l /\ pred x = Ok true) /\
  (forall B (f : A -> B), NoDup (map f l) -> NoDup (map f r)).
Proof.
  induction fuel as [|fuel IH]; intros l r Hlen H.
  - destruct l; simpl in *; [|lia]. inversion H; subst. split; [intros; simpl; tauto | auto].
  - destruct l as [|x rest]; simpl in H.
    + inversion H; subst. split; [intros; simpl; tauto | auto].
    + simpl in Hlen. destruct (pred x) as [b| | |] eqn:Px; simpl in H; try discriminate.
      destruct b.
      * destruct (filter_slice fuel pred rest) as [r'| | |] eqn:Fr; simpl in H; try discriminate.
        inversion H; subst. destruct (IH rest r' ltac:(lia) Fr) as [I1 I2]. split.
        -- intros y. simpl. rewrite I1. split.
           ++ intros [E|[E1 E2]]; subst; auto.
           ++ intros [[E|E] P]; subst; auto.
        -- intros B f ND. simpl in *. inversion ND as [|? ? Hn ND']; subst. constructor; auto.
           intros Hin. apply Hn. apply in_map_iff in Hin as [y [Ey Hy]]. apply I1 in Hy as [Hy _].
           apply in_map_iff. eauto.
      * destruct rest as [|y rest'].
        -- inversion H; subst. split.
           ++ intros z. simpl. split; [tauto|]. intros [[E|[]] P]. subst. congruence.
           ++ intros; constructor.
        -- assert (Hp : Permutation (last (y :: rest') y :: removelast (y :: rest')) (y :: rest'))
             by (apply last_removelast_perm; discriminate).
           assert (Hl : length (last (y :: rest') y :: removelast (y :: rest')) = length (y :: rest'))
             by (apply Permutation_length; auto).
           assert (Hlen' : (length (last (y :: rest') y :: removelast (y :: rest')) <= fuel)%nat)
             by (rewrite Hl; simpl in Hlen |- *; lia).
           destruct (IH _ r Hlen' H) as [I1 I2]. split.
           ++ intros z. rewrite I1. split.
              ** intros [Hin P]. split; auto. right. eapply Permutation_in; eauto.
              ** intros [[E|Hin] P]; [subst; congruence|]. split; auto.
                 eapply Permutation_in; [apply Permutation_sym; eauto | auto].
           ++ intros B f ND. apply I2. inversion ND as [|? ? Hn ND']; subst.
              eapply Permutation_NoDup; [apply Permutation_sym; apply Permutation_map; eauto | auto].
Qed.

(* ---------- insertion sort ---------- *)
Lemma ins_rev_In {A} (less : A -> A -> bool) x rl y : In y (ins_rev less x rl) <-> y = x \/ In y rl.
Proof.
  induction rl as [|z r IH]; simpl.
  - intuition.
  - destruct (less x z); simpl; rewrite ?IH; intuition.
Qed.

Lemma isort_In {A} (less : A -> A -> bool) l y : In y (isort less l) <-> In y l.
Proof.
  unfold isort. rewrite <- in_rev.
  assert (G : forall acc, In y (fold_left (fun acc x => ins_rev less x acc) l acc) <-> In y acc \/ In y l).
  { induction l as [|x l IH]; intros acc; simpl; [tauto|]. rewrite IH, ins_rev_In. intuition. }
  rewrite G. simpl. tauto.
Qed.

(* ---------- intersect ---------- *)
Lemma find_after_spec av b b' : find_after av b = Some b' -> In av b /\ incl b' b.
Proof.
  revert b'; induction b as [|bv r IH]; simpl; intros b' H; try discriminate.
  destruct (vkey_eqb av bv) eqn:E.
  - apply vkey_eqb_eq in E. inversion H; subst. split; auto. intros x Hx; right; auto.
  - destruct (IH _ H) as [A B]. split; auto. intros x Hx; right; auto.
Qed.

Lemma intersect_In a : forall b x, In x (intersect a b) -> In x a /\ In x b.
Proof.
  induction a as [|av ar IH]; simpl; intros b x H; try contradiction.
  destruct (find_after av b) as [b'|] eqn:F.
  - destruct (find_after_spec _ _ _ F) as [A B]. destruct H as [H|H].
    + subst. auto.
    + destruct (IH _ _ H) as [C D]. auto.
  - destruct (IH _ _ H); auto.
Qed.

(* ---------- the update map of getCriteriaToUpdate ---------- *)
Fixpoint upd_get (u : list (bytes * criterion)) (n : bytes) : option criterion :=
  match u with
  | [] => None
  | (m, c) :: r => if bytes_eqb m n then Some c else upd_get r n
  end.

Lemma upd_get_put_same u n c : upd_get (upd_put u n c) n = Some c.
Proof.
  induction u as [|[m d] r IH]; simpl.
  - rewrite bytes_eqb_refl; auto.
  - destruct (bytes_eqb m n) eqn:E; simpl; rewrite E; auto.
Qed.

Lemma upd_get_put_other u n c m : m <> n -> upd_get (upd_put u n c) m = upd_get u m.
Proof.
  intros Hne. induction u as [|[k d] r IH]; simpl.
  - replace (bytes_eqb n m) with false; auto. symmetry; apply bytes_eqb_neq; congruence.
  - destruct (bytes_eqb k n) eqn:E; simpl.
    + apply bytes_eqb_eq in E. subst k.
      replace (bytes_eqb n m) with false; auto. symmetry; apply bytes_eqb_neq; congruence.
    + destruct (bytes_eqb k m); auto.
Qed.

Lemma upd_put_keys u n c x : In x (map fst (upd_put u n c)) <-> x = n \/ In x (map fst u).
Proof.
  induction u as [|[k d] r IH]; simpl.
  - intuition.
  - destruct (bytes_eqb k n) eqn:E; simpl.
    + apply bytes_eqb_eq in E. subst. intuition.
    + rewrite IH. intuition.
Qed.

Lemma upd_put_nodup u n c : NoDup (map fst u) -> NoDup (map fst (upd_put u n c)).
Proof.
  induction u as [|[k d] r IH]; simpl; intros ND.
  - constructor; [tauto | constructor].
  - inversion ND as [|? ? Hn ND']; subst.
    destruct (bytes_eqb k n) eqn:E; simpl.
    + constructor; auto.
    + constructor; auto. rewrite upd_put_keys. intros [H|H]; auto.
      apply bytes_eqb_neq in E. congruence.
Qed.

Lemma upd_get_None u n : upd_get u n = None <-> ~ In n (map fst u).
Proof.
  induction u as [|[k d] r IH]; simpl.
  - tauto.
  - destruct (bytes_eqb k n) eqn:E.
    + apply bytes_eqb_eq in E. subst. split; [discriminate | intros H; exfalso; apply H; auto].
    + apply bytes_eqb_neq in E. rewrite IH. tauto.
Qed.

(* criteria after the puts of attemptToPinCriterion *)
Lemma fold_put_get (u : list (bytes * criterion)) : forall cs n,
  NoDup (map fst u) ->
  crit_get (fold_left (fun cs e => crit_put cs (fst e) (snd e)) u cs) n =
  match upd_get u n with Some c => Some c | None => crit_get cs n end.
Proof.
  induction u as [|[k d] r IH]; intros cs n ND; simpl; auto.
  inversion ND as [|? ? Hn ND']; subst.
  rewrite IH; auto.
  destruct (bytes_eqb k n) eqn:E.
  - apply bytes_eqb_eq in E. subst k.
    assert (upd_get r n = None) as -> by (apply upd_get_None; auto).
    apply crit_get_put_same.
  - destruct (upd_get r n); auto. apply crit_get_put_other. apply bytes_eqb_neq in E. congruence.
Qed.

(* ---------- ids, conn ---------- *)
Lemma ids_get_None ids p : ids_get ids p = None <-> ~ In p (map fst ids).
Proof.
  induction ids as [|[q i] r IH]; simpl.
  - tauto.
  - destruct (bytes_eqb q p) eqn:E.
    + apply bytes_eqb_eq in E. subst. split; [discriminate | intros H; exfalso; apply H; auto].
    + apply bytes_eqb_neq in E. rewrite IH. tauto.
Qed.

Lemma ids_get_In ids p i : ids_get ids p = Some i -> In (p, i) ids.
Proof.
  induction ids as [|[q j] r IH]; simpl; intros H; try discriminate.
  destruct (bytes_eqb q p) eqn:E.
  - apply bytes_eqb_eq in E. inversion H; subst; auto.
  - auto.
Qed.

Lemma ids_get_app ids1 ids2 p :
  ids_get (ids1 ++ ids2) p = match ids_get ids1 p with Some i => Some i | None => ids_get ids2 p end.
Proof.
  induction ids1 as [|[q j] r IH]; simpl; auto. destruct (bytes_eqb q p); auto.
Qed.

Lemma conn_get_set c v b w : conn_get (conn_set c v b) w = if vkey_eqb v w then Some b else conn_get c w.
Proof.
  induction c as [|[x b'] r IH]; simpl.
  - destruct (vkey_eqb v w); auto.
  - destruct (vkey_eqb x v) eqn:E; simpl.
    + apply vkey_eqb_eq in E. subst x. destruct (vkey_eqb v w); auto.
    + rewrite IH. destruct (vkey_eqb x w) eqn:E2; auto.
      apply vkey_eqb_eq in E2. subst x. replace (vkey_eqb v w) with false; auto.
      symmetry. apply vkey_eqb_neq. apply vkey_eqb_neq in E. congruence.
Qed.
