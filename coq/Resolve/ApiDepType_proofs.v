From Coq Require Import Lia.
From DepsDev Require Import Lib.Base Gen.AttrTables Resolve.ApiClient.
From DepsDev Require Import Resolve.Attr Resolve.Attr_proofs Resolve.ApiDepType.

(* the regenerated key numbers have the shape the proofs need *)
Example dep_keys_ok :
  (kd_dev < 0)%Z /\ (kd_opt < 0)%Z /\ (0 <= kd_scope < 64)%Z /\ (0 <= kd_known_as < 64)%Z /\ kd_scope <> kd_known_as.
Proof. vm_compute. repeat split; try discriminate; intro H; discriminate. Qed.

(* ---------------------------------------------------------------- value semantics of the heap model *)

Definition aval := (N * (N -> option bytes))%type.
Definition view (s : state) : nat -> aval := fun v => (flags s v, content s v).

Definition veq (e1 e2 : nat -> aval) : Prop :=
  forall w, fst (e1 w) = fst (e2 w) /\ forall k, snd (e1 w) k = snd (e2 w) k.

Definition vstep (e : nat -> aval) (o : op) : nat -> aval :=
  match o with
  | OSet v key val =>
      if (key <? 0)%Z then upd e v (N.lor (fst (e v)) (mask_of_key key), snd (e v))
      else if (64 <=? key)%Z then e
      else upd e v (fst (e v), fun k => if N.eqb k (Z.to_N key) then Some val else snd (e v) k)
  | OClone d s => upd e d (e s)
  | OAssign d s => upd e d (e s)
  end.

Lemma veq_refl e : veq e e.
Proof. intro w. split; auto. Qed.

Lemma veq_trans e1 e2 e3 : veq e1 e2 -> veq e2 e3 -> veq e1 e3.
Proof.
  intros A B w. destruct (A w) as [A1 A2]. destruct (B w) as [B1 B2]. split; [congruence|].
  intro k. rewrite A2. apply B2.
Qed.

Lemma vstep_proper e1 e2 o : veq e1 e2 -> veq (vstep e1 o) (vstep e2 o).
Proof.
  intros E w. destruct o as [v key val|d s|d s]; simpl.
  - destruct (key <? 0)%Z.
    + unfold upd. destruct (Nat.eqb w v); [|apply E]. destruct (E v) as [E1 E2]. simpl. split; [congruence|auto].
    + destruct (64 <=? key)%Z; [apply E|].
      unfold upd. destruct (Nat.eqb w v); [|apply E]. destruct (E v) as [E1 E2]. simpl. split; auto.
      intro k. destruct (N.eqb k (Z.to_N key)); auto.
  - unfold upd. destruct (Nat.eqb w d); apply E.
  - unfold upd. destruct (Nat.eqb w d); apply E.
Qed.

Lemma step_view s o : Inv s -> no_assign o -> veq (view (fst (step s o))) (vstep (view s) o).
Proof.
  intros I NA w. destruct o as [v key val|d src|d src]; [| |contradiction].
  - unfold vstep. destruct (Z.ltb_spec key 0) as [Hn|Hp].
    + destruct (step_set_neg s v key val Hn) as (_ & F & C & O).
      unfold view, upd. destruct (Nat.eqb_spec w v) as [->|Hw]; simpl.
      * split; auto.
      * destruct (O w Hw). split; auto.
    + destruct (Z.leb_spec 64 key) as [Hb|Hs].
      * rewrite step_set_panic by auto. simpl. split; auto.
      * destruct (step_set_pos s v key val I ltac:(lia)) as (_ & F & C & O).
        unfold view, upd. destruct (Nat.eqb_spec w v) as [->|Hw]; simpl.
        -- split; auto.
        -- destruct (O w Hw). split; auto.
  - destruct (step_clone s d src I) as (_ & F & C & O).
    unfold vstep, view, upd. destruct (Nat.eqb_spec w d) as [->|Hw]; simpl.
    + split; auto.
    + destruct (O w Hw). split; auto.
Qed.

Lemma run_view_from ops : forall s, Inv s -> Forall no_assign ops ->
  veq (view (fold_left (fun s o => fst (step s o)) ops s)) (fold_left vstep ops (view s)).
Proof.
  induction ops as [|o ops IH]; simpl; intros s I NA.
  - apply veq_refl.
  - inversion NA; subst.
    eapply veq_trans; [apply IH; auto; apply step_inv; auto|].
    assert (G : forall l e1 e2, veq e1 e2 -> veq (fold_left vstep l e1) (fold_left vstep l e2)).
    { induction l; simpl; intros; auto. apply IHl. apply vstep_proper. auto. }
    apply G. apply step_view; auto.
Qed.

Definition vzero : nat -> aval := fun _ => (0, fun _ => None).

Lemma run_view ops : Forall no_assign ops -> veq (view (run ops)) (fold_left vstep ops vzero).
Proof.
  intro NA. unfold run. eapply veq_trans; [apply run_view_from; auto; apply inv_init|].
  assert (veq (view init) vzero) by (intro w; split; auto).
  assert (G : forall l e1 e2, veq e1 e2 -> veq (fold_left vstep l e1) (fold_left vstep l e2)).
  { induction l; simpl; intros; auto. apply IHl. apply vstep_proper. auto. }
  apply G. auto.
Qed.

(* two variables with the same flags and contents cannot be told apart *)
Lemma obs_of_same_value s a b : Inv s -> same_value s a s b -> obs_equal s a b.
Proof.
  intros I [F C]. unfold obs_equal. repeat split.
  - destruct (is_regular s (vars s a)) eqn:Ea; destruct (is_regular s (vars s b)) eqn:Eb; auto.
    + apply is_regular_view in Ea. destruct Ea as [Ea1 Ea2].
      assert (is_regular s (vars s b) = true) by (apply is_regular_view; split; [congruence|intro k; rewrite <- C; auto]).
      congruence.
    + apply is_regular_view in Eb. destruct Eb as [Eb1 Eb2].
      assert (is_regular s (vars s a) = true) by (apply is_regular_view; split; [congruence|intro k; rewrite C; auto]).
      congruence.
  - intro key. rewrite !get_attr_view. rewrite F. rewrite C. auto.
  - apply compare_eq_iff; auto.
  - apply compare_eq_iff; auto; try (split; [congruence|intro k; rewrite C; auto]).
Qed.

Lemma build_ops_no_assign v t : Forall no_assign (build_ops v t).
Proof.
  unfold build_ops.
  apply Forall_app; split; [destruct (dt_dev t); repeat constructor|].
  apply Forall_app; split; [destruct (dt_opt t); repeat constructor|].
  apply Forall_app; split; [destruct (dt_scope t); repeat constructor|].
  destruct (dt_known_as t); repeat constructor.
Qed.

Lemma ops_no_assign t d : Forall no_assign (api_type_ops t d ++ build_ops 2 (rv_type (add_dep t d))).
Proof.
  unfold api_type_ops.
  apply Forall_app; split; [|apply build_ops_no_assign].
  apply Forall_app; split; [apply build_ops_no_assign|].
  apply Forall_app; split; [repeat constructor|].
  destruct (has_prefix _ _); repeat constructor.
Qed.

(* the main fact: same flags, same contents *)
Lemma both_same_value t d : In t section_types ->
  same_value (both_types t d) 1 (both_types t d) 2.
Proof.
  intro Ht. unfold both_types.
  pose proof (run_view _ (ops_no_assign t d)) as V.
  destruct (V 1%nat) as [F1 C1]. destruct (V 2%nat) as [F2 C2]. unfold view in *. cbn [fst snd] in F1, F2, C1, C2.
  split.
  - rewrite F1, F2. clear V F1 F2 C1 C2.
    unfold api_type_ops, add_dep.
    destruct d as [n r]. cbn [d_req d_name].
    simpl in Ht. destruct Ht as [<-|[<-|[<-|[<-|[]]]]];
      destruct (has_prefix s_npm_colon r); try destruct (last_index c_at (skipn 4 r)); vm_compute; reflexivity.
  - intro k. rewrite C1, C2. clear V F1 F2 C1 C2.
    unfold api_type_ops, add_dep.
    destruct d as [n r]. cbn [d_req d_name].
    simpl in Ht. destruct Ht as [<-|[<-|[<-|[<-|[]]]]];
      destruct (has_prefix s_npm_colon r); try destruct (last_index c_at (skipn 4 r)); vm_compute; reflexivity.
Qed.

Theorem dep_type_obs_equal t d : In t section_types -> obs_equal (both_types t d) 1 2.
Proof.
  intro Ht. apply obs_of_same_value.
  - unfold both_types. apply run_inv. apply ops_no_assign.
  - apply both_same_value. auto.
Qed.

(* a plain entry of the dependencies section: its cloned, allocated-but-empty type is regular *)
Theorem plain_dependency_regular d : has_prefix s_npm_colon (d_req d) = false ->
  is_regular (both_types dt_regular d) (vars (both_types dt_regular d) 1) = true.
Proof.
  intro H. destruct (dep_type_obs_equal dt_regular d) as [R _]; [simpl; auto|]. rewrite R.
  unfold both_types, api_type_ops, add_dep. rewrite H. vm_compute. reflexivity.
Qed.

(* bundleDependencies entries carry the bundle type itself (no Clone): nothing to prove beyond the
   fact that it is built like the LocalClient-side one *)
Theorem bundle_type_obs_equal :
  let s := run (build_ops 1 dt_bundle ++ build_ops 2 dt_bundle) in obs_equal s 1 2.
Proof.
  intro s. apply obs_of_same_value.
  - apply run_inv. apply Forall_app. split; apply build_ops_no_assign.
  - subst s. pose proof (run_view (build_ops 1 dt_bundle ++ build_ops 2 dt_bundle)) as V.
    assert (NA : Forall no_assign (build_ops 1 dt_bundle ++ build_ops 2 dt_bundle))
      by (apply Forall_app; split; apply build_ops_no_assign).
    destruct (V NA 1%nat) as [F1 C1]. destruct (V NA 2%nat) as [F2 C2]. unfold view in *. cbn [fst snd] in F1, F2, C1, C2.
    split; [rewrite F1, F2; vm_compute; reflexivity | intro k; rewrite C1, C2; vm_compute; reflexivity].
Qed.
