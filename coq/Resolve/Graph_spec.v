(* The vocabulary of property C13 (definitions only): well-formed graphs and the relation
   "g' is g with the non-root nodes renumbered by pi and the edges and the per-node
   errors reordered". *)
From Coq Require Import Permutation.
From DepsDev Require Import Lib.Base Lib.Order Lib.SortZ Resolve.Attr Resolve.Graph.

(* dependency types in canonical form: Compare = 0 only between identical values *)
Definition types_canonical (ts : list dtype) : Prop :=
  forall a b, In a ts -> In b ts -> dtype_compare a b = 0%Z -> a = b.

Definition in_range (n : nat) (es : list edge) : Prop := Forall (fun e => e_from e < n /\ e_to e < n)%nat es.

(* what AddEdge guarantees (ids inside the graph) and what a dep.Type value is *)
Definition graph_wf (g : graph) : Prop :=
  in_range (length (g_nodes g)) (g_edges g) /\ types_canonical (map e_type (g_edges g)).

(* a pure dep.Type value in canonical form: keys strictly increasing and below 64 *)
Fixpoint keys_increasing (lo : option N) (m : amap) : Prop :=
  match m with
  | [] => True
  | (k, _) :: t => (match lo with Some l => (l < k)%N | None => True end) /\ (k < 64)%N /\ keys_increasing (Some k) t
  end.
Definition dtype_wf (d : dtype) : Prop := keys_increasing None (snd d).

(* same version, same errors up to order *)
Definition node_equiv (a b : node) : Prop := n_ver a = n_ver b /\ Permutation (n_errs a) (n_errs b).

(* same nodes position by position (errors reordered), same edges up to order, same graph error *)
Definition shuffled (g g' : graph) : Prop :=
  Forall2 node_equiv (g_nodes g) (g_nodes g') /\ Permutation (g_edges g) (g_edges g') /\ g_error g = g_error g'.

Definition is_perm (m : list nat) (n : nat) : Prop := Permutation m (seq 0 n).
Definition fixes_root (pi : list nat) : Prop := match pi with [] => True | x :: _ => x = O end.

(* pi lists, for every old index, the new index *)
Definition iso (pi : list nat) (g g' : graph) : Prop :=
  is_perm pi (length (g_nodes g)) /\ fixes_root pi /\
  exists g0, relabel pi g = Ok g0 /\ shuffled g0 g'.
