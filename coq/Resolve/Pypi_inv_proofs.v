(* The state invariant of the PyPI resolver model and its preservation by pinning,
   backtracking and the main loop, for every client and every oracle. *)
From Coq Require Import List NArith ZArith Bool Lia Permutation.
From DepsDev Require Import Lib.Base Gen.PypiTables Resolve.Pypi Resolve.Pypi_lists_proofs.
Import ListNotations.

Lemma client_err_Ok {A} (r : res A) a : client_err r = Ok a -> r = Ok a.
Proof. destruct r; simpl; intros H; try discriminate; auto. Qed.

Lemma ext_insert_incl e l x : In x l -> In x (ext_insert e l).
Proof.
  induction l as [|y r IH]; simpl; intros H; try contradiction.
  destruct (bytes_compare e y); simpl; auto. destruct H; auto.
Qed.

Lemma union_extras_incl ex t : incl ex (union_extras ex t).
Proof.
  unfold union_extras. destruct (dt_get t dep_key_enabled_dependencies) as [es|]; [|apply incl_refl].
  generalize (split_on 44 es []). intros l. revert ex.
  induction l as [|e l IH]; intros ex; simpl; [apply incl_refl|].
  intros x Hx. apply IH. apply ext_insert_incl; auto.
Qed.

(* the extras a dependency type requests (the raw items of its EnabledDependencies attribute) *)
Definition extras_of_type (t : deptype) : list bytes :=
  match dt_get t dep_key_enabled_dependencies with
  | None => []
  | Some es => split_on 44 es []
  end.

Lemma ext_insert_In e l x : In x (ext_insert e l) -> x = e \/ In x l.
Proof.
  induction l as [|y r IH]; simpl; intros H.
  - destruct H as [H|[]]; auto.
  - destruct (bytes_compare e y).
    + right. exact H.
    + destruct H as [H|H]; [right; left; exact H|]. destruct (IH H) as [A|A]; [left | right; right]; auto.
    + destruct H as [H|H]; [left; symmetry; exact H | right; exact H].
Qed.

Lemma union_extras_In ex t x : In x (union_extras ex t) -> In x ex \/ In x (extras_of_type t).
Proof.
  unfold union_extras, extras_of_type. destruct (dt_get t dep_key_enabled_dependencies) as [es|]; auto.
  generalize (split_on 44 es []). intros l. revert ex.
  induction l as [|e l IH]; intros ex H; simpl in *; auto.
  destruct (IH _ H) as [A|A]; auto. destruct (ext_insert_In _ _ _ A); subst; auto.
Qed.

Section Inv.
  Variable c_versions : bytes -> res (list vkey).
  Variable c_requirements : vkey -> res (list req).
  Variable c_matching : vkey -> res (list vkey).
  Variable marker_true : bytes -> list bytes -> res bool.
  Variable has_pre : bytes -> bool.
  Variable constraint_ok : bytes -> bool.
  Variable match_pre : bytes -> bytes -> bool.
  Variable ver_lt : bytes -> bytes -> bool.
  Variable root : vkey.

  Local Notation MV := (matching_versions c_matching root).
  Local Notation MVP := (matching_versions_pre c_versions c_matching has_pre constraint_ok match_pre ver_lt root).
  Local Notation GM := (gm c_versions c_matching has_pre constraint_ok match_pre ver_lt root).
  Local Notation ANYPRE := (any_pre has_pre).
  Local Notation INTER := (inter_all c_versions c_matching has_pre constraint_ok match_pre ver_lt root).
  Local Notation FIND := (find_matches c_versions c_matching has_pre constraint_ok match_pre ver_lt root).
  Local Notation KEEP := (keep marker_true).
  Local Notation DEPS := (get_dependencies c_requirements marker_true).
  Local Notation MERGE := (merge_into_criterion c_versions c_matching has_pre constraint_ok match_pre ver_lt root).
  Local Notation MERGEDEPS := (merge_deps c_versions c_matching has_pre constraint_ok match_pre ver_lt root).
  Local Notation GCU := (get_criteria_to_update c_versions c_requirements c_matching marker_true has_pre constraint_ok match_pre ver_lt root).
  Local Notation TRY := (try_candidates c_versions c_requirements c_matching marker_true has_pre constraint_ok match_pre ver_lt root).
  Local Notation ATTEMPT := (attempt_to_pin c_versions c_requirements c_matching marker_true has_pre constraint_ok match_pre ver_lt root).
  Local Notation ROUNDS := (rounds c_versions c_requirements c_matching marker_true has_pre constraint_ok match_pre ver_lt root).
  Local Notation ROUNDSCNT := (rounds_cnt c_versions c_requirements c_matching marker_true has_pre constraint_ok match_pre ver_lt root).
  Local Notation INIT := (init_criteria c_versions c_matching has_pre constraint_ok match_pre ver_lt root).
  Local Notation ROOTDEPS := (root_deps c_requirements marker_true root).
  Local Notation RESOLVE_STATE := (resolve_state_fuel c_versions c_requirements c_matching marker_true has_pre constraint_ok match_pre ver_lt root).

  (* A client is well formed when it answers about the package it was asked about and hands
     out requirement keys of type Requirement.  LocalClient built from a universe is. *)
  Definition client_wf : Prop :=
    (forall k l v, c_matching k = Ok l -> In v l -> vk_name v = vk_name k) /\
    (forall p l v, c_versions p = Ok l -> In v l -> vk_name v = p) /\
    (forall v l d, c_requirements v = Ok l -> In d l -> vk_type (rq_key d) = version_type_requirement).

  Definition reqs_of (c : criterion) : list req := map fst (c_info c).

  (* v is admitted by every requirement of the list, under the matching mode findMatches uses
     for that list *)
  Definition allowed (reqs : list req) (v : vkey) : Prop :=
    forall r, In r reqs -> exists l, GM (ANYPRE reqs) (rq_key r) = Ok l /\ In v l.

  (* d is a requirement of par that getDependencies keeps for some set of extras *)
  Definition dep_of (par : vkey) (d : req) : Prop :=
    exists E l, c_requirements par = Ok l /\ In d l /\ KEEP E d = Ok true.

  Record crit_ok (n : bytes) (c : criterion) : Prop := {
    co_allowed : forall v, In v (c_cands c) -> allowed (reqs_of c) v;
    co_incompat : forall v, In v (c_cands c) -> ~ In v (c_incompat c);
    co_name : forall d par, In (d, par) (c_info c) -> rq_name d = n;
    co_sound : forall d par, In (d, par) (c_info c) -> dep_of par d;
    co_nonempty : c_info c <> [];
    co_extras : forall e, In e (c_extras c) -> exists d par, In (d, par) (c_info c) /\ In e (extras_of_type (rq_type d))
  }.

  (* ----- provider ----- *)
  Lemma inter_all_spec pre : forall rest m l,
    INTER pre m rest = Ok l ->
    forall v, In v l -> In v m /\ forall r, In r rest -> exists l', GM pre (rq_key r) = Ok l' /\ In v l'.
  Proof.
    induction rest as [|r rs IH]; simpl; intros m l H v Hv.
    - inversion H; subst. split; auto. intros r [].
    - destruct (GM pre (rq_key r)) as [mvs| | |] eqn:G; simpl in H; try discriminate.
      destruct (IH _ _ H v Hv) as [A B]. apply intersect_In in A as [A1 A2]. split; auto.
      intros r' [E|Hr]; [subst; eauto | auto].
  Qed.

  Lemma find_matches_spec reqs inc l :
    FIND reqs inc = Ok l -> forall v, In v l -> allowed reqs v /\ ~ In v inc.
  Proof.
    unfold find_matches. destruct reqs as [|r0 rest]; intros H v Hv.
    - inversion H; subst. contradiction.
    - destruct (GM (ANYPRE (r0 :: rest)) (rq_key r0)) as [mvs| | |] eqn:G; simpl in H; try discriminate.
      destruct (filter (fun mv => negb (vk_mem mv inc)) mvs) as [|m0 ms] eqn:F; try discriminate.
      destruct (inter_all_spec _ _ _ _ H v Hv) as [A B].
      rewrite <- F in A. apply filter_In in A as [A1 A2]. split.
      + intros r [E|Hr]; [subst; eauto | auto].
      + apply negb_true_iff in A2. apply vk_mem_false in A2. auto.
  Qed.

  (* ----- mergeIntoCriterion ----- *)
  Lemma merge_name st rq par nc : MERGE st rq par = Ok nc -> fst nc = rq_name rq.
  Proof.
    unfold merge_into_criterion.
    destruct (existsb _ _); [intros H; inversion H; auto|].
    destruct (FIND _ _) as [m| | |]; simpl; try discriminate.
    destruct m; intros H; inversion H; auto.
  Qed.

  Hypothesis Hwf : client_wf.

  Lemma dep_of_type par d : dep_of par d -> vk_type (rq_key d) = version_type_requirement.
  Proof. intros (E & l & A & B & _). destruct Hwf as (_ & _ & W). eauto. Qed.

  Lemma mv_name_wf rq l v : MV rq = Ok l -> In v l -> vk_name v = vk_name rq.
  Proof.
    unfold matching_versions. intros H Hin.
    destruct (client_err (c_matching rq)) as [mvs| | |] eqn:C; simpl in H; try discriminate.
    apply client_err_Ok in C.
    destruct (negb (bytes_eqb (vk_name rq) (vk_name root))) eqn:E.
    - inversion H; subst. destruct Hwf as (W & _). eauto.
    - apply negb_false_iff in E. apply bytes_eqb_eq in E.
      destruct (vk_mem root mvs); inversion H; subst; simpl in Hin; [|contradiction].
      destruct Hin as [Hin|[]]. subst. auto.
  Qed.

  Lemma gm_name_wf pre rq l v : GM pre rq = Ok l -> In v l -> vk_name v = vk_name rq.
  Proof.
    unfold gm. destruct pre; [|apply mv_name_wf].
    unfold matching_versions_pre. destruct (has_pre (vk_ver rq)); [apply mv_name_wf|].
    intros H Hin.
    destruct (client_err (c_versions (vk_name rq))) as [vs| | |] eqn:C; simpl in H; try discriminate.
    apply client_err_Ok in C.
    destruct (negb (constraint_ok (vk_ver rq))); [inversion H; subst; contradiction|].
    destruct (filter_slice _ _ vs) as [kept| | |] eqn:F; simpl in H; try discriminate.
    inversion H; subst. apply isort_In in Hin.
    destruct (filter_slice_spec _ _ _ _ (le_n _) F) as [I _]. apply I in Hin as [Hin _].
    destruct Hwf as (_ & W & _). eauto.
  Qed.

  (* a candidate of a criterion is a version of the criterion's package *)
  Lemma cand_name_wf n c v : crit_ok n c -> In v (c_cands c) -> vk_name v = n.
  Proof.
    intros [A1 _ A3 _ A5 _] Hin.
    destruct (c_info c) as [|[d par] rest] eqn:Ei; [congruence|].
    assert (Hd : In d (reqs_of c)) by (unfold reqs_of; rewrite Ei; simpl; auto).
    destruct (A1 _ Hin _ Hd) as (l & Gl & Hl).
    rewrite (gm_name_wf _ _ _ _ Gl Hl). apply (A3 d par). rewrite ?Ei. simpl; auto.
  Qed.

  Lemma merge_spec st rq par n' c' :
    (forall c, crit_get (criteria_of st) (rq_name rq) = Some c -> crit_ok (rq_name rq) c) ->
    dep_of par rq ->
    MERGE st rq par = Ok (n', c') ->
    let c := crit_get_or_empty (criteria_of st) (rq_name rq) in
    n' = rq_name rq /\ crit_ok n' c' /\ incl (c_info c) (c_info c') /\ incl (c_extras c) (c_extras c') /\
    In (rq, par) (c_info c') /\ (forall e, In e (c_info c') -> In e (c_info c) \/ e = (rq, par)).
  Proof.
    intros Hold Hdep H c.
    assert (Hn : n' = rq_name rq) by (apply merge_name in H; auto). subst n'.
    split; auto.
    assert (Hpre : forall d p, In (d, p) (c_info c) -> rq_name d = rq_name rq /\ dep_of p d).
    { unfold c, crit_get_or_empty. destruct (crit_get (criteria_of st) (rq_name rq)) as [c0|] eqn:G.
      - intros d p Hin. destruct (Hold c0 eq_refl). split; eauto.
      - simpl. intros d p []. }
    assert (Hex : forall e, In e (c_extras c) -> exists d p, In (d, p) (c_info c) /\ In e (extras_of_type (rq_type d))).
    { unfold c, crit_get_or_empty. destruct (crit_get (criteria_of st) (rq_name rq)) as [c0|] eqn:G.
      - intros e Hin. destruct (Hold c0 eq_refl). eauto.
      - simpl. intros e []. }
    unfold merge_into_criterion in H. fold c in H.
    destruct (existsb (same_info rq par) (c_info c)) eqn:Ex.
    - inversion H; subst c'. clear H.
      assert (Hok : crit_ok (rq_name rq) c).
      { unfold c, crit_get_or_empty in *. destruct (crit_get (criteria_of st) (rq_name rq)) as [c0|] eqn:G; auto.
        simpl in Ex. discriminate. }
      split; auto. split; [apply incl_refl|]. split; [apply incl_refl|].
      split; [|intros e He; auto].
      apply existsb_exists in Ex as [[d p] [Hin Hs]]. unfold same_info in Hs. simpl in Hs.
      apply andb_true_iff in Hs as [Hs H3]. apply andb_true_iff in Hs as [H1 H2].
      apply bytes_eqb_eq in H1. apply deptype_eqb_eq in H2. apply vkey_eqb_eq in H3. subst p.
      destruct (Hpre _ _ Hin) as [Hnm Hd].
      assert (d = rq).
      { pose proof (dep_of_type _ _ Hd) as T1. pose proof (dep_of_type _ _ Hdep) as T2.
        destruct d as [[dn dt dv] dty], rq as [[rn rt rv] rty]. unfold rq_name, rq_ver in *. simpl in *. congruence. }
      subst d. auto.
    - destruct (FIND (map fst (c_info c) ++ [rq]) (c_incompat c)) as [m| | |] eqn:F; simpl in H; try discriminate.
      destruct m as [|m0 ms]; try discriminate. inversion H; subst c'. clear H. simpl.
      split; [|split; [apply incl_appl, incl_refl | split; [apply union_extras_incl |
               split; [apply in_or_app; right; left; auto | intros e He; apply in_app_or in He as [He|[He|[]]]; auto]]]].
      constructor; simpl.
      + intros v Hv. unfold reqs_of. simpl. rewrite map_app. simpl.
        apply (find_matches_spec _ _ _ F v Hv).
      + intros v Hv. apply (find_matches_spec _ _ _ F v Hv).
      + intros d p Hin. apply in_app_or in Hin as [Hin|[E|[]]]; [apply Hpre in Hin; tauto | inversion E; subst; auto].
      + intros d p Hin. apply in_app_or in Hin as [Hin|[E|[]]]; [apply Hpre in Hin; tauto | inversion E; subst; auto].
      + intros E. apply app_eq_nil in E as [_ E]. discriminate.
      + intros e He. apply union_extras_In in He as [He|He].
        * destruct (Hex _ He) as (d & p & A & B). exists d, p. split; auto. apply in_or_app; auto.
        * exists rq, par. split; auto. apply in_or_app; right; left; auto.
  Qed.

  (* ----- getCriteriaToUpdate ----- *)
  Definition last_of (deps : list req) (d : req) : Prop :=
    exists l1 l2, deps = l1 ++ d :: l2 /\ forall d', In d' l2 -> rq_name d' <> rq_name d.

  Lemma nodup_last_of deps d : NoDup (map rq_name deps) -> In d deps -> last_of deps d.
  Proof.
    intros ND Hin. apply in_split in Hin as (l1 & l2 & E). subst deps. exists l1, l2. split; auto.
    intros d' Hd' Heq. rewrite map_app in ND. simpl in ND.
    apply NoDup_remove_2 in ND. apply ND. apply in_or_app. right. rewrite <- Heq. apply in_map; auto.
  Qed.

  Lemma merge_deps_other st cand : forall deps acc upd n,
    MERGEDEPS st cand deps acc = Ok upd ->
    (forall d', In d' deps -> rq_name d' <> n) -> upd_get upd n = upd_get acc n.
  Proof.
    induction deps as [|d ds IH]; simpl; intros acc upd n H Hne.
    - inversion H; auto.
    - destruct (MERGE st d cand) as [nc| | |] eqn:M; simpl in H; try discriminate.
      rewrite (IH _ _ _ H); auto. apply upd_get_put_other.
      rewrite (merge_name _ _ _ _ M). intros E. apply (Hne d); auto.
  Qed.

  Lemma merge_deps_spec st cand : forall deps acc upd,
    MERGEDEPS st cand deps acc = Ok upd -> NoDup (map fst acc) ->
    NoDup (map fst upd) /\
    (forall n c', upd_get upd n = Some c' ->
                  upd_get acc n = Some c' \/ exists d, In d deps /\ MERGE st d cand = Ok (n, c')) /\
    (forall d, last_of deps d -> exists c', upd_get upd (rq_name d) = Some c' /\ MERGE st d cand = Ok (rq_name d, c')).
  Proof.
    induction deps as [|d0 ds IH]; simpl; intros acc upd H ND.
    - inversion H; subst. split; auto. split; auto.
      intros d (l1 & l2 & E & _). destruct l1; discriminate.
    - destruct (MERGE st d0 cand) as [nc| | |] eqn:M; simpl in H; try discriminate.
      pose proof (merge_name _ _ _ _ M) as Hn.
      destruct (IH _ _ H (upd_put_nodup _ _ _ ND)) as (A & B & C). split; auto. split.
      + intros n c' G. destruct (B _ _ G) as [G'|(d & Hd & Md)].
        * destruct (bytes_eqb (fst nc) n) eqn:E.
          -- apply bytes_eqb_eq in E. subst n. rewrite upd_get_put_same in G'. inversion G'; subst.
             right. exists d0. split; auto. destruct nc; auto.
          -- apply bytes_eqb_neq in E. rewrite upd_get_put_other in G'; auto.
        * right. eauto.
      + intros d (l1 & l2 & E & Hl).
        destruct l1 as [|x l1]; simpl in E; inversion E; subst.
        * exists (snd nc). split.
          -- rewrite (merge_deps_other _ _ _ _ _ _ H Hl). rewrite <- Hn. apply upd_get_put_same.
          -- rewrite <- Hn. destruct nc; auto.
        * apply C. exists l1, l2. auto.
  Qed.

  (* ----- extension of criteria: information and extras only grow ----- *)
  Definition ext (cs cs' : criteria) : Prop :=
    forall n c, crit_get cs n = Some c ->
    exists c', crit_get cs' n = Some c' /\ incl (c_info c) (c_info c') /\ incl (c_extras c) (c_extras c').

  Lemma ext_refl cs : ext cs cs.
  Proof. intros n c H. exists c. split; auto. split; apply incl_refl. Qed.

  Lemma ext_trans a b c : ext a b -> ext b c -> ext a c.
  Proof.
    intros H1 H2 n x Hx. destruct (H1 _ _ Hx) as (y & Hy & I1 & I2).
    destruct (H2 _ _ Hy) as (z & Hz & J1 & J2). exists z. split; auto.
    split; eapply incl_tran; eauto.
  Qed.

  (* every pinned version had its kept requirements merged into the criteria *)
  Definition pins_ok (m : vmap) (cs : criteria) : Prop :=
    forall p v, vm_get m p = Some v ->
    exists c, crit_get cs p = Some c /\
    exists E deps, incl E (c_extras c) /\ DEPS v E = Ok deps /\
      forall d, last_of deps d -> exists c', crit_get cs (rq_name d) = Some c' /\ In (d, v) (c_info c').

  Definition root_ok (cs : criteria) : Prop :=
    forall deps, ROOTDEPS = Ok deps ->
    forall d, In d deps -> exists c', crit_get cs (rq_name d) = Some c' /\ In (d, root) (c_info c').

  Lemma pins_ok_ext m cs cs' : pins_ok m cs -> ext cs cs' -> pins_ok m cs'.
  Proof.
    intros P X p v G. destruct (P _ _ G) as (c & Gc & E & deps & IE & D & L).
    destruct (X _ _ Gc) as (c' & Gc' & _ & I2). exists c'. split; auto.
    exists E, deps. split; [eapply incl_tran; eauto|]. split; auto.
    intros d Hd. destruct (L _ Hd) as (c1 & G1 & In1). destruct (X _ _ G1) as (c2 & G2 & I1 & _).
    exists c2. split; auto.
  Qed.

  Lemma root_ok_ext cs cs' : root_ok cs -> ext cs cs' -> root_ok cs'.
  Proof.
    intros R X deps D d Hd. destruct (R _ D _ Hd) as (c1 & G1 & In1).
    destruct (X _ _ G1) as (c2 & G2 & I1 & _). exists c2. split; auto.
  Qed.

  (* where an information entry comes from: its requirement was kept for a set E of extras that
     is empty (direct dependencies) or contained in the extras of the criterion of the parent's
     package (the extras in force when the parent was pinned; extras only grow) *)
  Definition origin_ok (cs : criteria) : Prop :=
    forall n c d par, crit_get cs n = Some c -> In (d, par) (c_info c) ->
    exists E, KEEP E d = Ok true /\
      (E = [] \/ exists cp, crit_get cs (vk_name par) = Some cp /\ incl E (c_extras cp)).

  Lemma origin_step cs cs' :
    origin_ok cs -> ext cs cs' ->
    (forall n c' d par, crit_get cs' n = Some c' -> In (d, par) (c_info c') ->
       (exists c, crit_get cs n = Some c /\ In (d, par) (c_info c)) \/
       (exists E, KEEP E d = Ok true /\
          (E = [] \/ exists cp, crit_get cs' (vk_name par) = Some cp /\ incl E (c_extras cp)))) ->
    origin_ok cs'.
  Proof.
    intros O X H n c' d par G Hin.
    destruct (H _ _ _ _ G Hin) as [(c & Gc & Hc)|New]; auto.
    destruct (O _ _ _ _ Gc Hc) as (E & K & [E0|(cp & Gp & Ip)]).
    - exists E. auto.
    - destruct (X _ _ Gp) as (cp' & Gp' & _ & I2). exists E. split; auto. right. exists cp'. split; auto.
      eapply incl_tran; eauto.
  Qed.

  Record Inv (st : state) : Prop := {
    inv_crit : forall n c, crit_get (criteria_of st) n = Some c -> crit_ok n c;
    inv_pins : pins_ok (mapping st) (criteria_of st);
    inv_root : root_ok (criteria_of st);
    inv_nodup : NoDup (map fst (mapping st));
    inv_origin : origin_ok (criteria_of st)
  }.

  Lemma deps_dep_of v E deps d : DEPS v E = Ok deps -> In d deps -> dep_of v d.
  Proof.
    unfold get_dependencies. intros H Hin.
    destruct (client_err (c_requirements v)) as [l| | |] eqn:C; simpl in H; try discriminate.
    apply client_err_Ok in C.
    destruct (filter_slice_spec _ _ _ _ (le_n _) H) as [I _]. apply I in Hin as [A B].
    exists E, l. auto.
  Qed.

  Lemma deps_keep v E deps d : DEPS v E = Ok deps -> In d deps -> KEEP E d = Ok true.
  Proof.
    unfold get_dependencies. intros H Hin.
    destruct (client_err (c_requirements v)) as [l| | |] eqn:C; simpl in H; try discriminate.
    destruct (filter_slice_spec _ _ _ _ (le_n _) H) as [I _]. apply I in Hin as [A B]. auto.
  Qed.

  (* ----- pinning ----- *)
  Lemma gcu_spec st cand E upd :
    (forall n c, crit_get (criteria_of st) n = Some c -> crit_ok n c) ->
    GCU st cand E = Ok upd ->
    exists deps, DEPS cand E = Ok deps /\ NoDup (map fst upd) /\
    (forall n c', upd_get upd n = Some c' ->
       crit_ok n c' /\ incl (c_info (crit_get_or_empty (criteria_of st) n)) (c_info c') /\
       incl (c_extras (crit_get_or_empty (criteria_of st) n)) (c_extras c') /\
       (forall e, In e (c_info c') ->
          In e (c_info (crit_get_or_empty (criteria_of st) n)) \/ exists d, In d deps /\ e = (d, cand))) /\
    (forall d, last_of deps d -> exists c', upd_get upd (rq_name d) = Some c' /\ In (d, cand) (c_info c')).
  Proof.
    intros Hc H. unfold get_criteria_to_update in H.
    destruct (DEPS cand E) as [deps| | |] eqn:D; simpl in H; try discriminate.
    exists deps. split; auto.
    destruct (merge_deps_spec _ _ _ _ _ H (NoDup_nil _)) as (A & B & C). split; auto. split.
    - intros n c' G. destruct (B _ _ G) as [G'|(d & Hd & Md)]; [simpl in G'; discriminate|].
      pose proof (merge_name _ _ _ _ Md) as Hn. simpl in Hn. subst n.
      destruct (merge_spec _ _ _ _ _ (fun c => Hc _ c) (deps_dep_of _ _ _ _ D Hd) Md) as (_ & K1 & K2 & K3 & _ & K5).
      split; auto. split; auto. split; auto.
      intros e He. destruct (K5 _ He) as [K|K]; auto. right. exists d. auto.
    - intros d Hl. destruct (C _ Hl) as (c' & G & Md). exists c'. split; auto.
      assert (Hd : In d deps) by (destruct Hl as (l1 & l2 & El & _); subst; apply in_or_app; right; left; auto).
      destruct (merge_spec _ _ _ _ _ (fun c => Hc _ c) (deps_dep_of _ _ _ _ D Hd) Md) as (_ & _ & _ & _ & K & _). auto.
  Qed.

  Lemma apply_pin_get st n cand upd m :
    NoDup (map fst upd) ->
    crit_get (criteria_of (apply_pin st n cand upd)) m =
    match upd_get upd m with Some c => Some c | None => crit_get (criteria_of st) m end.
  Proof. intros ND. simpl. apply fold_put_get; auto. Qed.

  Lemma pin_preserves_Inv st n crit cand upd :
    Inv st -> crit_get (criteria_of st) n = Some crit -> In cand (c_cands crit) ->
    GCU st cand (c_extras crit) = Ok upd ->
    Inv (apply_pin st n cand upd).
  Proof.
    intros [Ic Ip Ir In_ Io] Gn Hcand H.
    destruct (gcu_spec _ _ _ _ Ic H) as (deps & D & ND & U1 & U2).
    assert (X : ext (criteria_of st) (criteria_of (apply_pin st n cand upd))).
    { intros m c Gm. rewrite apply_pin_get; auto.
      destruct (upd_get upd m) as [c'|] eqn:G.
      - exists c'. split; auto. destruct (U1 _ _ G) as (_ & K2 & K3 & _).
        unfold crit_get_or_empty in K2, K3. rewrite Gm in K2, K3. auto.
      - exists c. split; auto. split; apply incl_refl. }
    constructor.
    - intros m c Gm. rewrite apply_pin_get in Gm; auto.
      destruct (upd_get upd m) as [c'|] eqn:G.
      + inversion Gm; subst. apply (U1 _ _ G).
      + auto.
    - intros p v Gp. simpl in Gp.
      destruct (bytes_eqb p n) eqn:E.
      + apply bytes_eqb_eq in E. subst p. rewrite vm_get_set_same in Gp; auto. inversion Gp; subst v.
        destruct (X _ _ Gn) as (c' & Gc' & _ & I2). exists c'. split; auto.
        exists (c_extras crit), deps. split; auto. split; auto.
        intros d Hl. destruct (U2 _ Hl) as (c1 & G1 & In1). exists c1. split; auto.
        rewrite apply_pin_get; auto. rewrite G1. auto.
      + apply bytes_eqb_neq in E. rewrite vm_get_set_other in Gp; auto.
        apply (pins_ok_ext _ _ _ Ip X _ _ Gp).
    - apply (root_ok_ext _ _ Ir X).
    - simpl. apply vm_set_nodup; auto.
    - apply (origin_step _ _ Io X). intros m c' d par Gm Hin.
      rewrite apply_pin_get in Gm; auto.
      destruct (upd_get upd m) as [c1|] eqn:G.
      + inversion Gm; subst c1. destruct (U1 _ _ G) as (_ & _ & _ & K4).
        destruct (K4 _ Hin) as [Old|(d0 & Hd0 & E0)].
        * unfold crit_get_or_empty in Old. destruct (crit_get (criteria_of st) m) as [c0|] eqn:G0; [|contradiction].
          left. exists c0. auto.
        * inversion E0; subst d0 par. right. exists (c_extras crit). split; [eapply deps_keep; eauto|].
          right. rewrite (cand_name_wf _ _ _ (Ic _ _ Gn) Hcand).
          destruct (X _ _ Gn) as (c2 & G2 & _ & I2). exists c2. auto.
      + left. exists c'. auto.
  Qed.

  (* ----- backtracking ----- *)
  Lemma patch_preserves_Inv : forall incs st st',
    Inv st -> patch_criteria st incs = Some st' -> Inv st'.
  Proof.
    induction incs as [|[n inc] rest IH]; simpl; intros st st' I H.
    - inversion H; subst; auto.
    - destruct inc as [|i0 inc']; [eauto|].
      destruct (crit_get (criteria_of st) n) as [crit|] eqn:G; [|eauto].
      remember (vk_union (i0 :: inc') (c_incompat crit)) as all.
      destruct (filter (fun c => negb (vk_mem c all)) (c_cands crit)) as [|m0 ms] eqn:F; try discriminate.
      apply IH in H; auto. clear IH H.
      destruct I as [Ic Ip Ir In_ Io].
      set (nc := {| c_info := c_info crit; c_extras := c_extras crit; c_incompat := all; c_cands := m0 :: ms |}).
      assert (X : ext (criteria_of st) (crit_put (criteria_of st) n nc)).
      { intros m c Gm. destruct (bytes_eqb m n) eqn:E.
        - apply bytes_eqb_eq in E. subst m. rewrite crit_get_put_same. exists nc. split; auto.
          rewrite G in Gm. inversion Gm; subst. split; apply incl_refl.
        - apply bytes_eqb_neq in E. rewrite crit_get_put_other; auto. exists c. split; auto. split; apply incl_refl. }
      constructor; simpl.
      + intros m c Gm. destruct (bytes_eqb m n) eqn:E.
        * apply bytes_eqb_eq in E. subst m. rewrite crit_get_put_same in Gm. inversion Gm; subst c.
          destruct (Ic _ _ G) as [A1 A2 A3 A4 A5 A6]. unfold nc. constructor; cbn [c_cands c_info c_extras c_incompat reqs_of]; auto.
          -- intros v Hv. apply A1. rewrite <- F in Hv. apply filter_In in Hv. tauto.
          -- intros v Hv. rewrite <- F in Hv. apply filter_In in Hv as [_ Hv].
             apply negb_true_iff in Hv. apply vk_mem_false in Hv. auto.
        * apply bytes_eqb_neq in E. rewrite crit_get_put_other in Gm; auto.
      + apply (pins_ok_ext _ _ _ Ip X).
      + apply (root_ok_ext _ _ Ir X).
      + auto.
      + apply (origin_step _ _ Io X). intros m c' d par Gm Hin. left.
        destruct (bytes_eqb m n) eqn:E.
        * apply bytes_eqb_eq in E. subst m. rewrite crit_get_put_same in Gm. inversion Gm; subst c'.
          exists crit. auto.
        * apply bytes_eqb_neq in E. rewrite crit_get_put_other in Gm; auto. exists c'. auto.
  Qed.

  Lemma backtrack_preserves_Inv : forall fuel states states',
    Forall Inv states -> backtrack fuel states = Ok (Some states') -> Forall Inv states'.
  Proof.
    induction fuel as [|fuel IH]; simpl; intros states states' F H; try discriminate.
    destruct states as [|top [|broken [|base rest]]]; try discriminate.
    destruct (vm_pop (mapping broken)) as [name cand].
    inversion F as [|? ? _ F1]; subst. inversion F1 as [|? ? _ F2]; subst.
    inversion F2 as [|? ? Ib F3]; subst.
    destruct (patch_criteria base _) as [st'|] eqn:P.
    - inversion H; subst. constructor; auto. eapply patch_preserves_Inv; eauto.
    - apply (IH _ _ (Forall_cons _ Ib F2) H).
  Qed.

  (* ----- the main loop ----- *)
  Lemma try_candidates_spec st n E : forall cands k st' k',
    TRY st n E cands k = Ok (st', k') ->
    st' = st \/ (k' = O /\ exists cand upd, In cand cands /\ GCU st cand E = Ok upd /\ st' = apply_pin st n cand upd).
  Proof.
    induction cands as [|cand rest IH]; simpl; intros k st' k' H.
    - inversion H; auto.
    - destruct (GCU st cand E) as [upd|e| |] eqn:G; try discriminate.
      + inversion H; subst. right. split; auto. exists cand, upd. auto.
      + destruct (N.eqb e EConflict); try discriminate.
        destruct (IH _ _ _ H) as [A|(A & c & u & B & C & D)]; auto.
        right. split; auto. exists c, u. auto.
  Qed.

  Lemma pick_min_In ur st : forall names best bk, In (pick_min ur st best bk names) (best :: names).
  Proof.
    induction names as [|n ns IH]; simpl; intros best bk; auto.
    destruct (pref_less _ _).
    - destruct (IH n (get_preference ur st n)) as [H|H]; auto.
    - destruct (IH best bk) as [H|H]; auto.
  Qed.

  Lemma crit_get_of_key cs n : In n (map fst cs) -> exists c, crit_get cs n = Some c.
  Proof.
    induction cs as [|[m d] r IH]; simpl; intros H; try contradiction.
    destruct (bytes_eqb m n) eqn:E; eauto.
    destruct H as [H|H]; eauto. subst. rewrite bytes_eqb_refl in E. discriminate.
  Qed.

  Lemma unsatisfied_keys st n : In n (unsatisfied st) -> In n (map fst (criteria_of st)).
  Proof.
    unfold unsatisfied. intros H. apply in_map_iff in H as (e & E & H). apply filter_In in H as [H _].
    subst. apply in_map; auto.
  Qed.

  Lemma attempt_preserves_Inv st n r :
    Inv st -> In n (map fst (criteria_of st)) -> ATTEMPT st n = Ok r -> Inv (fst r).
  Proof.
    intros I Hk H. unfold attempt_to_pin in H.
    destruct (crit_get_of_key _ _ Hk) as (crit & G).
    unfold crit_get_or_empty in H. rewrite G in H. destruct r as [st' k'].
    destruct (try_candidates_spec _ _ _ _ _ _ _ H) as [A|(_ & c & u & Hc & B & C)]; simpl; subst; auto.
    apply in_rev in Hc. eapply pin_preserves_Inv; eauto.
  Qed.

  Lemma rounds_cnt_Inv ur : forall fuel states nb st nb',
    Forall Inv states -> ROUNDSCNT ur fuel states nb = Ok (st, nb') -> Inv st /\ unsatisfied st = [].
  Proof.
    induction fuel as [|fuel IH]; intros states nb st nb' F H; [discriminate|].
    cbn [rounds_cnt] in H.
    destruct states as [|st0 below]; try discriminate.
    inversion F as [|? ? I0 Fb]; subst.
    destruct (unsatisfied st0) as [|n0 ns] eqn:U.
    - inversion H; subst. auto.
    - set (name := pick_min ur st0 n0 (get_preference ur st0 n0) ns) in *.
      assert (Hk : In name (map fst (criteria_of st0))).
      { apply unsatisfied_keys. rewrite U. apply pick_min_In. }
      destruct (ATTEMPT st0 name) as [r| | |] eqn:A; cbn [bind] in H; try discriminate.
      pose proof (attempt_preserves_Inv _ _ _ I0 Hk A) as I1.
      destruct (snd r).
      + apply (IH _ _ _ _ (Forall_cons _ I1 (Forall_cons _ I1 Fb)) H).
      + destruct (backtrack (length (st0 :: below)) (st0 :: below)) as [bt| | |] eqn:B; cbn [bind] in H; try discriminate.
        destruct bt as [states'|]; try discriminate.
        apply (IH _ _ _ _ (backtrack_preserves_Inv _ _ _ F B) H).
  Qed.

  Lemma rounds_Inv ur fuel states st :
    Forall Inv states -> ROUNDS ur fuel states = Ok st -> Inv st /\ unsatisfied st = [].
  Proof.
    unfold rounds. intros F H.
    destruct (ROUNDSCNT ur fuel states 0) as [[st' nb']| | |] eqn:R; cbn [bind] in H; try discriminate.
    inversion H; subst. simpl. eapply rounds_cnt_Inv; eauto.
  Qed.

  (* ----- initial criteria ----- *)
  Lemma init_spec : forall deps st st',
    (forall n c, crit_get (criteria_of st) n = Some c -> crit_ok n c) ->
    (forall d, In d deps -> dep_of root d /\ KEEP [] d = Ok true) ->
    origin_ok (criteria_of st) ->
    INIT st deps = Ok st' ->
    (forall n c, crit_get (criteria_of st') n = Some c -> crit_ok n c) /\
    mapping st' = mapping st /\ ext (criteria_of st) (criteria_of st') /\
    (forall d, In d deps -> exists c', crit_get (criteria_of st') (rq_name d) = Some c' /\ In (d, root) (c_info c')) /\
    origin_ok (criteria_of st').
  Proof.
    induction deps as [|d ds IH]; simpl; intros st st' Hc Hd Ho H.
    - inversion H; subst. split; auto. split; auto. split; [apply ext_refl|]. split; auto. intros d [].
    - destruct (MERGE st d root) as [[n c]|e| |] eqn:M; try discriminate.
      2: { destruct (N.eqb e EConflict); discriminate. }
      destruct (merge_spec _ _ _ _ _ (fun c => Hc _ c) (proj1 (Hd d (or_introl eq_refl))) M) as (Hn & K1 & K2 & K3 & K4 & K5).
      subst n. simpl in H.
      set (st1 := {| mapping := mapping st; criteria_of := crit_put (criteria_of st) (rq_name d) c |}) in *.
      assert (X : ext (criteria_of st) (criteria_of st1)).
      { intros m x Gm. simpl. destruct (bytes_eqb m (rq_name d)) eqn:E.
        - apply bytes_eqb_eq in E. subst m. rewrite crit_get_put_same. exists c. split; auto.
          unfold crit_get_or_empty in K2, K3. rewrite Gm in K2, K3. auto.
        - apply bytes_eqb_neq in E. rewrite crit_get_put_other; auto. exists x. split; auto. split; apply incl_refl. }
      assert (Hc1 : forall n x, crit_get (criteria_of st1) n = Some x -> crit_ok n x).
      { intros m x Gm. simpl in Gm. destruct (bytes_eqb m (rq_name d)) eqn:E.
        - apply bytes_eqb_eq in E. subst m. rewrite crit_get_put_same in Gm. inversion Gm; subst; auto.
        - apply bytes_eqb_neq in E. rewrite crit_get_put_other in Gm; auto. }
      assert (Ho1 : origin_ok (criteria_of st1)).
      { apply (origin_step _ _ Ho X). intros m x d0 par Gm Hin. simpl in Gm.
        destruct (bytes_eqb m (rq_name d)) eqn:E.
        - apply bytes_eqb_eq in E. subst m. rewrite crit_get_put_same in Gm. inversion Gm; subst x.
          destruct (K5 _ Hin) as [Old|New].
          + unfold crit_get_or_empty in Old.
            destruct (crit_get (criteria_of st) (rq_name d)) as [c0|] eqn:G0; [|contradiction].
            left. exists c0. auto.
          + inversion New; subst d0 par. right. exists []. split; auto. apply (Hd d (or_introl eq_refl)).
        - apply bytes_eqb_neq in E. rewrite crit_get_put_other in Gm; auto. left. exists x. auto. }
      destruct (IH _ _ Hc1 (fun x Hx => Hd x (or_intror Hx)) Ho1 H) as (A & B & C & D & O').
      split; auto. split; auto. split; [eapply ext_trans; eauto|]. split; auto.
      intros x [E|Hx]; auto. subst x.
      assert (G1 : crit_get (criteria_of st1) (rq_name d) = Some c) by (simpl; apply crit_get_put_same).
      destruct (C _ _ G1) as (c2 & G2 & I1 & _). exists c2. split; auto.
  Qed.

  Theorem resolve_state_Inv fuel st :
    RESOLVE_STATE fuel = Ok st -> Inv st /\ unsatisfied st = [].
  Proof.
    unfold resolve_state_fuel. intros H.
    destruct (negb (N.eqb (vk_type root) version_type_concrete)); try discriminate.
    destruct ROOTDEPS as [deps| | |] eqn:D; simpl in H; try discriminate.
    destruct (INIT empty_state deps) as [st0| | |] eqn:I0; simpl in H; try discriminate.
    assert (Hd : forall d, In d deps -> dep_of root d /\ KEEP [] d = Ok true)
      by (intros d Hin; split; [eapply deps_dep_of; eauto | eapply deps_keep; eauto]).
    assert (He : forall n c, crit_get (criteria_of empty_state) n = Some c -> crit_ok n c)
      by (intros n c G; discriminate).
    assert (Ho : origin_ok (criteria_of empty_state)) by (intros n c d par G; discriminate).
    destruct (init_spec _ _ _ He Hd Ho I0) as (A & B & _ & C & O).
    assert (Inv st0).
    { constructor; auto.
      - rewrite B. intros p v G. discriminate.
      - intros deps' D'. rewrite D in D'. inversion D'; subst. auto.
      - rewrite B. constructor. }
    eapply rounds_Inv; [|eauto]. auto.
  Qed.

  (* every criterion of the returned state is satisfied by its pin *)
  Lemma unsatisfied_nil st n c :
    unsatisfied st = [] -> crit_get (criteria_of st) n = Some c -> is_satisfying st n c = true.
  Proof.
    unfold unsatisfied. intros U G. apply crit_get_In in G.
    destruct (is_satisfying st n c) eqn:S; auto.
    assert (In (n, c) (filter (fun e => negb (is_satisfying st (fst e) (snd e))) (criteria_of st))).
    { apply filter_In. split; auto. simpl. rewrite S. auto. }
    apply (in_map fst) in H. rewrite U in H. contradiction.
  Qed.
End Inv.
