(* Invariants of the npm resolver model that hold for EVERY client (bundled packages and
   aliases included): link between tree nodes and graph nodes, one log entry per edge with
   the reason why the target satisfies the requirement, reachability, and the bookkeeping
   that makes every regular import of every graph node end as an edge or a node error. *)
From Coq Require Import Lia.
From DepsDev Require Import Lib.Base Resolve.Npm Resolve.Npm_lemmas Resolve.Npm_step.
Local Open Scope nat_scope.

Section Inv.
  Variable c_version : vkey -> res version.
  Variable c_requirements : vkey -> res (list req).
  Variable c_matching : vkey -> res (list version).
  Variable sem_match : bytes -> bytes -> res bool.
  Variable rk : vkey.   (* the root key *)
  Variable rvk : vkey.  (* the key of the version the client returned for the root *)

  Notation step_dep := (step_dep c_version c_requirements c_matching sem_match).
  Notation process_deps := (process_deps c_version c_requirements c_matching sem_match).
  Notation outer := (outer c_version c_requirements c_matching sem_match).
  Notation fresh_bundled := (fresh_bundled c_requirements c_matching).
  Notation refused := (refused c_requirements c_matching).
  Notation reuse_ok := (reuse_ok sem_match).
  Notation pick_version := (pick_version c_matching).
  Notation step_out := (step_out c_requirements c_matching sem_match).
  Notation old_or_new := (old_or_new c_requirements c_matching).

  (* the key of the graph node that stands for a tree node *)
  Definition gkey (n : tnode) : vkey :=
    match t_bundled n with Some b => v_key (b_version b) | None => v_key (t_ver n) end.

  Definition ideps_ok (n : tnode) : Prop :=
    exists reqs, c_requirements (gkey n) = Ok reqs /\ t_ideps n = regular_imports c_matching reqs.

  Definition node_ok (g : graph) (i : nat) (n : tnode) : Prop :=
    (t_id n <> 0 -> nth_error (g_nodes g) (t_id n) = Some (gkey n)) /\
    (t_bundled n = None -> t_parent n <> None -> t_id n <> 0) /\
    (t_bundled n <> None -> t_parent n <> None) /\
    ideps_ok n /\
    (forall q, t_parent n = Some q -> q < i) /\
    (t_parent n = None -> i = 0 \/ (t_processed n = false /\ t_id n = 0)) /\
    (t_processed n = true -> i = 0 \/ t_id n <> 0).

  Lemma node_ok_core : forall g i n n', core n' = core n -> node_ok g i n -> node_ok g i n'.
  Proof.
    intros g i n n' C H. apply core_fields in C. destruct C as [C1 [C2 [C3 [C4 [C5 [C6 C7]]]]]].
    unfold node_ok, ideps_ok, gkey in *. rewrite C1, C2, C4, C5, C6, C7. exact H.
  Qed.

  Definition graph_le (g g' : graph) : Prop :=
    (exists l, g_nodes g' = g_nodes g ++ l) /\
    (forall e, In e (g_edges g) -> In e (g_edges g')) /\
    (forall x, In x (g_errors g) -> In x (g_errors g')).

  Lemma node_ok_mono : forall g g' i n, graph_le g g' -> node_ok g i n -> node_ok g' i n.
  Proof.
    intros g g' i n [[l Hl] _] [H1 H2]. split; auto. intro Hid. rewrite Hl. apply nth_error_app_some. auto.
  Qed.

  (* a requirement of a graph node has been dealt with: an edge or a node error *)
  Definition handled (g : graph) (id : nat) (d : req) : Prop :=
    (exists e, In e (g_edges g) /\ e_from e = id /\ e_req e = r_ver d /\
               (e_type e = r_type d \/ e_type e = selector (r_type d))) \/
    (exists x, In x (g_errors g) /\ ne_node x = id /\ ne_req x = r_key d).

  Lemma handled_mono : forall g g' id d, graph_le g g' -> handled g id d -> handled g' id d.
  Proof.
    intros g g' id d [_ [He Hx]] [[e [H1 H2]]|[x [H1 H2]]].
    - left. exists e. split; auto.
    - right. exists x. split; auto.
  Qed.

  Inductive reach (g : graph) : nat -> Prop :=
  | reach_root : reach g 0
  | reach_step : forall a b e, reach g a -> In e (g_edges g) -> e_from e = a -> e_to e = b -> reach g b.

  Lemma reach_mono : forall g g' k, graph_le g g' -> reach g k -> reach g' k.
  Proof.
    intros g g' k [_ [He _]] H. induction H.
    - constructor.
    - eapply reach_step; eauto.
  Qed.

  (* a log entry and the edge recorded with it *)
  Definition ent_ok (tree : list tnode) (l : logent) (e : edge) : Prop :=
    exists x t dvers,
      nth_error tree (l_from l) = Some x /\ nth_error tree (l_to l) = Some t /\
      (l_from l = 0 \/ t_id x <> 0) /\ t_id t <> 0 /\ t_parent t <> None /\
      In (l_req l) (t_ideps x) /\ c_matching (r_key (l_req l)) = Ok dvers /\
      e_from e = t_id x /\ e_to e = t_id t /\ e_req e = r_ver (l_req l) /\
      (e_type e = r_type (l_req l) \/ e_type e = selector (r_type (l_req l))) /\
      (l_fresh l = false -> reuse_ok (l_req l) dvers t) /\
      (l_fresh l = true -> t_bundled t = None /\
         exists wp, last_opt dvers = Some wp /\ t_ver t = pick_version wp dvers).

  Record inv (st : state) : Prop := {
    iv_root : exists rn, nth_error (s_tree st) 0 = Some rn /\ t_parent rn = None /\ t_id rn = 0 /\ gkey rn = rvk;
    iv_g0 : nth_error (g_nodes (s_g st)) 0 = Some rk;
    iv_node : forall i n, nth_error (s_tree st) i = Some n -> node_ok (s_g st) i n;
    iv_gnode : forall k, k <> 0 -> k < length (g_nodes (s_g st)) ->
                 exists i n, nth_error (s_tree st) i = Some n /\ t_id n = k;
    iv_entry : forall p pn c, nth_error (s_tree st) p = Some pn -> entry_of pn c ->
                 exists cn, nth_error (s_tree st) c = Some cn /\ t_parent cn <> None;
    iv_log : Forall2 (ent_ok (s_tree st)) (s_log st) (g_edges (s_g st));
    iv_reach : forall k, k < length (g_nodes (s_g st)) -> reach (s_g st) k
  }.

  (* how the old nodes of the tree look after a step: same core, or the first use of a
     bundled copy, which only receives its graph id *)
  Definition old_kept (k : nat) (tree tree' : list tnode) : Prop :=
    forall i n0, nth_error tree i = Some n0 ->
      exists n, nth_error tree' i = Some n /\
        (core n = core n0 \/ (t_id n0 = 0 /\ t_parent n0 <> None /\ core n = core (set_id k n0))).

  Lemma reuse_ok_core : forall d dvers n n', core n' = core n -> reuse_ok d dvers n -> reuse_ok d dvers n'.
  Proof.
    intros d dvers n n' C H. apply core_fields in C. destruct C as [C1 [C2 [C3 [C4 [C5 [C6 C7]]]]]].
    unfold Npm_lemmas.reuse_ok in *. rewrite C2, C7. exact H.
  Qed.

  Lemma ent_ok_kept : forall k tree tree' l e,
    old_kept k tree tree' -> ent_ok tree l e ->
    (exists rn, nth_error tree 0 = Some rn /\ t_parent rn = None) ->
    ent_ok tree' l e.
  Proof.
    intros k tree tree' l e Hk [x [t [dvers [Hx [Ht [Hxid [Htid [Htp [Hin [Hm [E1 [E2 [E3 [E4 [E5 E6]]]]]]]]]]]]]]] [rn [Hrn Hrp]].
    destruct (Hk _ _ Hx) as [x' [Hx' Cx]]. destruct (Hk _ _ Ht) as [t' [Ht' Ct]].
    assert (Cx' : core x' = core x).
    { destruct Cx as [C|[F1 [F2 _]]]; auto.
      destruct Hxid as [Z|Z]; [|contradiction]. rewrite Z in Hx. rewrite Hrn in Hx. inversion Hx; subst. contradiction. }
    assert (Ct' : core t' = core t).
    { destruct Ct as [C|[F1 _]]; auto; contradiction. }
    pose proof (core_fields _ _ Cx') as [X1 [X2 [X3 [X4 [X5 [X6 X7]]]]]].
    pose proof (core_fields _ _ Ct') as [T1 [T2 [T3 [T4 [T5 [T6 T7]]]]]].
    exists x', t', dvers. repeat split; try congruence.
    - intro F. apply (reuse_ok_core _ _ _ _ Ct'). auto.
    - apply E6 in H. destruct H. congruence.
    - apply E6 in H. destruct H as [_ [wp [W1 W2]]]. exists wp. split; congruence.
  Qed.

  (* ---------- preservation of inv by one step ---------- *)
  Lemma cur_id_valid : forall st i n, inv st -> nth_error (s_tree st) i = Some n ->
    t_id n < length (g_nodes (s_g st)).
  Proof.
    intros st i n I Hn. destruct (Nat.eq_dec (t_id n) 0) as [E|E].
    - rewrite E. apply nth_error_Some. rewrite (iv_g0 _ I). discriminate.
    - apply nth_error_Some. destruct (iv_node _ I _ _ Hn) as [H1 _]. rewrite (H1 E). discriminate.
  Qed.

  Lemma parents_in_range : forall st, inv st ->
    forall i n q, nth_error (s_tree st) i = Some n -> t_parent n = Some q -> q < length (s_tree st).
  Proof.
    intros st I i n q Hn Hq. destruct (iv_node _ I _ _ Hn) as [_ [_ [_ [_ [H5 _]]]]].
    apply H5 in Hq. assert (i < length (s_tree st)) by (apply nth_error_Some; congruence). lia.
  Qed.

  Lemma node_ok_new : forall g tree i n, 0 < length tree -> old_or_new tree i n ->
    (forall n0, nth_error tree i = Some n0 -> node_ok g i n0) -> node_ok g i n.
  Proof.
    intros g tree i n Hl [[n0 [H0 C0]]|[Hi [F|F]]] Hold.
    - eapply node_ok_core; eauto.
    - destruct F as [b [p [F1 [F2 [F3 [F4 [F5 [F6 [reqs [F7 F8]]]]]]]]]].
      unfold node_ok. repeat split; try congruence; try (intros; congruence).
      all: try (exists reqs; unfold gkey; rewrite F1; auto).
    - destruct F as [F1 [F2 [F3 [F4 [reqs [F5 F6]]]]]].
      unfold node_ok. repeat split; try congruence; try (intros; congruence).
      all: try (exists reqs; unfold gkey; rewrite F4; auto).
      all: try (intros _; right; auto).
  Qed.

  Lemma Forall2_impl : forall {A B} (P Q : A -> B -> Prop) l l',
    (forall a b, P a b -> Q a b) -> Forall2 P l l' -> Forall2 Q l l'.
  Proof. intros A B P Q l l' H F. induction F; constructor; auto. Qed.

  Theorem step_dep_inv : forall ifuel st cur curn d insq st' insq',
    inv st ->
    nth_error (s_tree st) cur = Some curn -> t_processed curn = true -> In d (t_ideps curn) ->
    step_dep ifuel st cur d insq = Ok (st', insq') ->
    inv st' /\ graph_le (s_g st) (s_g st') /\ handled (s_g st') (t_id curn) d /\
    step_out st cur curn d insq st' insq'.
  Proof.
    intros ifuel st cur curn d insq st' insq' I Hcur Hproc Hd H.
    pose proof (step_dep_out _ _ _ _ _ _ _ _ _ _ _ _ H Hcur (parents_in_range _ I)) as O.
    pose proof (cur_id_valid _ _ _ I Hcur) as Hcid.
    destruct (iv_root _ I) as [rn [Hrn [Hrp [Hrid Hrk]]]].
    assert (Hl0 : 0 < length (s_tree st)) by (apply nth_error_Some; congruence).
    assert (Hcurid : cur = 0 \/ t_id curn <> 0).
    { destruct (iv_node _ I _ _ Hcur) as [_ [_ [_ [_ [_ [_ H7]]]]]]. auto. }
    assert (Hg1 : 0 < length (g_nodes (s_g st))) by (apply nth_error_Some; rewrite (iv_g0 _ I); discriminate).
    split; [|split; [|split; [|exact O]]].
    - (* inv st' *)
      destruct O.
      + (* node error *)
        assert (GL : graph_le (s_g st) (s_g st')).
        { rewrite Hg. split; [exists []; simpl; rewrite app_nil_r; reflexivity|]. split; simpl; auto. }
        assert (Hfwd : forall i n0, nth_error (s_tree st) i = Some n0 ->
                  exists n, nth_error (s_tree st') i = Some n /\ core n = core n0).
        { intros i n0 H0. assert (Hi : i < length (s_tree st)) by (apply nth_error_Some; congruence).
          destruct (nth_error (s_tree st') i) as [n|] eqn:E; [|apply nth_error_None in E; lia].
          exists n. split; auto. destruct (Hnodes i n E) as [[m [Hm Cm]]|[F _]]; [|lia].
          rewrite H0 in Hm. inversion Hm; subst. exact Cm. }
        constructor.
        * destruct (Hfwd _ _ Hrn) as [n [Hn Cn]]. exists n. apply core_fields in Cn.
          destruct Cn as [_ [C2 [_ [_ [C5 [C6 C7]]]]]]. repeat split; try congruence.
          unfold gkey in *. rewrite C2, C7. exact Hrk.
        * rewrite Hg. simpl. apply (iv_g0 _ I).
        * intros i n Hn. eapply node_ok_mono; [exact GL|].
          eapply node_ok_new; [exact Hl0 | apply Hnodes; exact Hn |]. intros n0 H0. apply (iv_node _ I _ _ H0).
        * intros k Hk Hkl. rewrite Hg in Hkl. simpl in Hkl. destruct (iv_gnode _ I k Hk Hkl) as [i [n0 [H0 Hid]]].
          destruct (Hfwd _ _ H0) as [n [Hn Cn]]. exists i, n. split; auto. apply core_fields in Cn.
          destruct Cn as [_ [_ [_ [_ [_ [C6 _]]]]]]. congruence.
        * intros p pn c Hp Hc. destruct (Hent p pn c Hp Hc) as [[n0 [H0 E0]]|[_ F]]; [|exact F].
          destruct (iv_entry _ I _ _ _ H0 E0) as [cn [Hcn Hcp]]. destruct (Hfwd _ _ Hcn) as [cn' [H1 C1]].
          exists cn'. split; auto. apply core_fields in C1. destruct C1 as [_ [_ [_ [_ [C5 _]]]]]. congruence.
        * rewrite Hlog, Hg. simpl. eapply Forall2_impl; [|apply (iv_log _ I)].
          intros l e He. eapply ent_ok_kept with (k := 0); [|exact He|eauto].
          intros i n0 H0. destruct (Hfwd _ _ H0) as [n [Hn Cn]]. exists n. split; auto.
        * intros k Hk. rewrite Hg in Hk. simpl in Hk. eapply reach_mono; [exact GL|]. apply (iv_reach _ I). exact Hk.
      + (* reuse *)
        destruct Hre as [p [pn [Hp Hpe]]].
        destruct (iv_entry _ I _ _ _ Hp Hpe) as [rn' [Hrn' Hrpar]]. rewrite Hr in Hrn'. inversion Hrn'; subst rn'.
        set (k := length (g_nodes (s_g st))) in *.
        assert (GL : graph_le (s_g st) (s_g st')).
        { split; [|split].
          - destruct Hcase as [[_ [F _]]|[b [_ [_ [_ [F _]]]]]]; rewrite F; [exists []; rewrite app_nil_r|]; eauto.
          - intros x Hx. rewrite Hedges. right. exact Hx.
          - intros x Hx. rewrite Herr. exact Hx. }
        (* the first use of a bundled copy *)
        set (first := exists b, t_id rn0 = 0 /\ t_bundled rn0 = Some b /\
                                g_nodes (s_g st') = g_nodes (s_g st) ++ [v_key (b_version b)]).
        assert (Hback : forall i n, nth_error (s_tree st') i = Some n ->
                  exists n0, nth_error (s_tree st) i = Some n0 /\
                    (core n = core n0 \/ (i = r /\ first /\ core n = core (set_id k rn0)))).
        { intros i n Hn. destruct Hcase as [[_ [_ [_ [_ [_ F]]]]]|[b [F1 [F2 [F3 [F4 [_ [_ F]]]]]]]].
          - destruct (core_nth _ _ _ _ F Hn) as [n0 [H0 C0]]. exists n0. split; auto.
          - destruct (core_nth _ _ _ _ F Hn) as [m [Hmu Cm]]. apply nth_upd in Hmu.
            destruct Hmu as [n0 [H0 [[E1 E2]|[E1 E2]]]]; subst.
            + exists n0. split; auto. rewrite Hr in H0. inversion H0; subst n0. right. split; auto. split; auto.
              exists b. auto.
            + exists n0. split; auto. }
        assert (Hfwd : forall i n0, nth_error (s_tree st) i = Some n0 ->
                  exists n, nth_error (s_tree st') i = Some n /\
                    (core n = core n0 \/ (i = r /\ first /\ core n = core (set_id k rn0)))).
        { intros i n0 H0.
          assert (Hlen : length (s_tree st') = length (s_tree st)).
          { destruct Hcase as [[_ [_ [_ [_ [_ F]]]]]|[b [_ [_ [_ [_ [_ [_ F]]]]]]]];
              apply (f_equal (@length _)) in F; rewrite !map_length in F; rewrite F; [reflexivity | apply upd_length]. }
          assert (Hi : i < length (s_tree st')) by (rewrite Hlen; apply nth_error_Some; congruence).
          destruct (nth_error (s_tree st') i) as [n|] eqn:E; [|apply nth_error_None in E; lia].
          exists n. split; auto. destruct (Hback _ _ E) as [m [Hmu Cm]]. rewrite H0 in Hmu. inversion Hmu; subst. exact Cm. }
        assert (Hkept : old_kept k (s_tree st) (s_tree st')).
        { intros i n0 H0. destruct (Hfwd _ _ H0) as [n [Hn [C|[E [[b [F1 [F2 F3]]] C]]]]]; exists n; split; auto.
          subst i. rewrite Hr in H0. inversion H0; subst n0. right. auto. }
        constructor.
        * destruct (Hkept _ _ Hrn) as [n [Hn Cn]]. exists n.
          destruct Cn as [C|[F1 [F2 C]]]; [| contradiction].
          apply core_fields in C. destruct C as [_ [C2 [_ [_ [C5 [C6 C7]]]]]]. repeat split; try congruence.
          unfold gkey in *. rewrite C2, C7. exact Hrk.
        * destruct GL as [[l Hl] _]. rewrite Hl. apply nth_error_app_some. apply (iv_g0 _ I).
        * intros i n Hn. destruct (Hback _ _ Hn) as [n0 [H0 [C|[E [[b [F1 [F2 F3]]] C]]]]].
          -- eapply node_ok_mono; [exact GL|]. eapply node_ok_core; eauto. apply (iv_node _ I _ _ H0).
          -- subst i. rewrite Hr in H0. inversion H0; subst n0.
             apply core_fields in C. destruct C as [C1 [C2 [C3 [C4 [C5 [C6 C7]]]]]]. simpl in *.
             destruct (iv_node _ I _ _ Hr) as [M1 [M2 [M3 [M4 [M5 [M6 M7]]]]]].
             unfold node_ok. repeat split.
             ++ intros _. rewrite C6, F3. unfold gkey. rewrite C7, F2. unfold k.
                rewrite nth_error_app2; [|lia]. rewrite Nat.sub_diag. reflexivity.
             ++ intros F. congruence.
             ++ intros _. congruence.
             ++ unfold ideps_ok, gkey in *. rewrite C2, C4, C7. exact M4.
             ++ intros q Hqq. apply M5. congruence.
             ++ intros F. congruence.
             ++ intros _. right. rewrite C6. unfold k. lia.
        * intros j Hj Hjl.
          assert (Hcases : j < length (g_nodes (s_g st)) \/ (j = k /\ first)).
          { destruct Hcase as [[_ [F _]]|[b [F1 [_ [F3 [F _]]]]]].
            - left. rewrite F in Hjl. exact Hjl.
            - rewrite F, app_length in Hjl. simpl in Hjl. destruct (Nat.eq_dec j k); [right | left; unfold k in *; lia].
              split; auto. exists b. auto. }
          destruct Hcases as [Hjl'|[E Hf]].
          -- destruct (iv_gnode _ I j Hj Hjl') as [i [n0 [H0 Hid]]].
             destruct (Hfwd _ _ H0) as [n [Hn [C|[E [[b [F1 _]] C]]]]].
             ++ exists i, n. split; auto. apply core_fields in C. destruct C as [_ [_ [_ [_ [_ [C6 _]]]]]]. congruence.
             ++ subst i. rewrite Hr in H0. inversion H0; subst n0. congruence.
          -- subst j. destruct (Hfwd _ _ Hr) as [n [Hn [C|[_ [_ C]]]]].
             ++ exfalso. destruct Hf as [b [F1 [F2 F3]]].
                destruct Hcase as [[[Fa|Fa] _]|[b' [_ [_ [_ [_ [_ [_ Fc]]]]]]]]; try contradiction.
                assert (Hu : nth_error (upd r (set_id k) (s_tree st)) r = Some (set_id k rn0)).
                { rewrite nth_upd_same, Hr. reflexivity. }
                symmetry in Fc. destruct (core_nth _ _ _ _ Fc Hu) as [n2 [Hn2 Cn2]]. rewrite Hn in Hn2. inversion Hn2; subst n2.
                rewrite C in Cn2. apply core_fields in Cn2. destruct Cn2 as [_ [_ [_ [_ [_ [C6 _]]]]]]. simpl in C6.
                unfold k in C6. lia.
             ++ exists r, n. split; auto. apply core_fields in C. destruct C as [_ [_ [_ [_ [_ [C6 _]]]]]]. exact C6.
        * intros q qn c Hqn Hc. destruct (Hent q qn c Hqn Hc) as [[n0 [H0 E0]]|[_ F]]; [|exact F].
          destruct (iv_entry _ I _ _ _ H0 E0) as [cn [Hcn Hcp]]. destruct (Hkept _ _ Hcn) as [cn' [H1 C1]].
          exists cn'. split; auto.
          destruct C1 as [C|[_ [_ C]]]; apply core_fields in C; destruct C as [_ [_ [_ [_ [C5 _]]]]]; simpl in C5; congruence.
        * rewrite Hlog, Hedges. constructor.
          -- (* the new entry *)
             destruct (Hkept _ _ Hcur) as [x' [Hx' Cx]]. destruct (Hfwd _ _ Hr) as [t' [Ht' Ct]].
             assert (Cx' : core x' = core curn).
             { destruct Cx as [C|[F1 [F2 _]]]; auto.
               destruct Hcurid as [Z|Z]; [|contradiction]. subst cur. rewrite Hrn in Hcur. inversion Hcur; subst. contradiction. }
             pose proof (core_fields _ _ Cx') as [X1 [X2 [X3 [X4 [X5 [X6 X7]]]]]].
             exists x', t', dvers. simpl.
             assert (Tcore : t_ver t' = t_ver rn0 /\ t_bundled t' = t_bundled rn0 /\ t_parent t' = t_parent rn0).
             { destruct Ct as [C|[_ [_ C]]]; apply core_fields in C; destruct C as [_ [C2 [_ [_ [C5 [_ C7]]]]]]; simpl in *; auto. }
             destruct Tcore as [TV [TB TP]].
             assert (Tid : t_id t' <> 0 /\ e_to e = t_id t' /\ (e_type e = r_type d \/ e_type e = selector (r_type d))).
             { destruct Hcase as [[Fa [_ [Fb [Fc [_ Fd]]]]]|[b [F1 [F2 [F3 [_ [Fb [Fc Fd]]]]]]]].
               - symmetry in Fd. destruct (core_nth _ _ _ _ Fd Hr) as [n [Hn Cn]]. rewrite Ht' in Hn. inversion Hn; subst n.
                 apply core_fields in Cn. destruct Cn as [_ [_ [_ [_ [_ [C6 _]]]]]].
                 destruct Fa as [Fa|Fa]; [|contradiction]. repeat split; try congruence. auto.
               - symmetry in Fd. assert (Hu : nth_error (upd r (set_id k) (s_tree st)) r = Some (set_id k rn0)).
                 { rewrite nth_upd_same, Hr. reflexivity. }
                 destruct (core_nth _ _ _ _ Fd Hu) as [n [Hn Cn]]. rewrite Ht' in Hn. inversion Hn; subst n.
                 apply core_fields in Cn. destruct Cn as [_ [_ [_ [_ [_ [C6 _]]]]]]. simpl in C6.
                 repeat split; try congruence; [rewrite C6; unfold k; lia | auto]. }
             destruct Tid as [T1 [T2 T3]].
             repeat split; auto; try congruence.
             all: try (destruct Hcurid; [left; auto | right; congruence]).
             all: try discriminate.
             all: try (intros _; unfold Npm_lemmas.reuse_ok in *; rewrite TV, TB; exact Hok).
          -- eapply Forall2_impl; [|apply (iv_log _ I)]. intros l e0 He. eapply ent_ok_kept; eauto.
        * (* reachability *)
          intros j Hj. assert (Rcur : reach (s_g st') (t_id curn)).
          { eapply reach_mono; [exact GL|]. apply (iv_reach _ I). exact Hcid. }
          destruct Hcase as [[_ [F _]]|[b [_ [_ [_ [F [Fe _]]]]]]].
          -- rewrite F in Hj. eapply reach_mono; [exact GL|]. apply (iv_reach _ I). exact Hj.
          -- rewrite F, app_length in Hj. simpl in Hj. destruct (Nat.eq_dec j k) as [E|E].
             ++ subst j. eapply reach_step with (e := e); [exact Rcur | rewrite Hedges; left; reflexivity | exact Hef | exact Fe].
             ++ eapply reach_mono; [exact GL|]. apply (iv_reach _ I). unfold k in E. lia.
      + (* fresh install *)
        set (k := length (g_nodes (s_g st))) in *. set (nid := length (s_tree st)) in *.
        set (pick := pick_version wp dvers) in *.
        assert (GL : graph_le (s_g st) (s_g st')).
        { split; [|split].
          - rewrite Hgn. eauto.
          - intros x Hx. rewrite Hedges. right. exact Hx.
          - intros x Hx. rewrite Herr. exact Hx. }
        assert (Hfwd : forall i n0, nth_error (s_tree st) i = Some n0 ->
                  exists n, nth_error (s_tree st') i = Some n /\ core n = core n0).
        { intros i n0 H0. assert (Hi : i < nid) by (apply nth_error_Some; congruence).
          destruct (nth_error (s_tree st') i) as [n|] eqn:E; [|apply nth_error_None in E; lia].
          exists n. split; auto. destruct (Hnodes i n E) as [[m [Hmu Cm]]|[F _]]; [lia| |unfold nid in *; lia].
          rewrite H0 in Hmu. inversion Hmu; subst. exact Cm. }
        assert (Hkept : old_kept k (s_tree st) (s_tree st')).
        { intros i n0 H0. destruct (Hfwd _ _ H0) as [n [Hn Cn]]. exists n. auto. }
        assert (HC : t_processed nn = false /\ t_ver nn = pick /\ t_pkg nn = vk_name (v_key pick) /\
                     t_ideps nn = regular_imports c_matching reqs /\ t_parent nn = Some p /\ t_id nn = k /\
                     t_bundled nn = None).
        { unfold core in Hcore. inversion Hcore. repeat split; auto. }
        destruct HC as [C1 [C2 [C3 [C4 [C5 [C6 C7]]]]]].
        constructor.
        * destruct (Hfwd _ _ Hrn) as [n [Hn Cn]]. exists n. apply core_fields in Cn.
          destruct Cn as [_ [D2 [_ [_ [D5 [D6 D7]]]]]]. repeat split; try congruence.
          unfold gkey in *. rewrite D2, D7. exact Hrk.
        * rewrite Hgn. apply nth_error_app_some. apply (iv_g0 _ I).
        * intros i n Hn. destruct (Nat.eq_dec i nid) as [E|E].
          -- subst i. rewrite Hnn in Hn. inversion Hn; subst n.
             unfold node_ok. repeat split; try congruence.
             ++ intros _. rewrite C6, Hgn. unfold gkey. rewrite C7, C2. fold k.
                rewrite nth_error_app2; [|lia]. rewrite Nat.sub_diag. reflexivity.
             ++ intros _ _. rewrite C6. unfold k. lia.
             ++ exists reqs. unfold gkey. rewrite C7, C2, C4. auto.
          -- eapply node_ok_mono; [exact GL|].
             eapply node_ok_new; [exact Hl0 | apply Hnodes; auto |]. intros n0 H0. apply (iv_node _ I _ _ H0).
        * intros j Hj Hjl. rewrite Hgn, app_length in Hjl. simpl in Hjl. destruct (Nat.eq_dec j k) as [E|E].
          -- subst j. exists nid, nn. split; auto.
          -- assert (Hjl' : j < length (g_nodes (s_g st))) by (unfold k in E; lia).
             destruct (iv_gnode _ I j Hj Hjl') as [i [n0 [H0 Hid]]]. destruct (Hfwd _ _ H0) as [n [Hn Cn]].
             exists i, n. split; auto. apply core_fields in Cn. destruct Cn as [_ [_ [_ [_ [_ [D6 _]]]]]]. congruence.
        * intros q qn c Hqn Hc. destruct (Hent q qn c Hqn Hc) as [[n0 [H0 E0]]|[_ F]]; [|exact F].
          destruct (iv_entry _ I _ _ _ H0 E0) as [cn [Hcn Hcp]]. destruct (Hfwd _ _ Hcn) as [cn' [H1 D1]].
          exists cn'. split; auto. apply core_fields in D1. destruct D1 as [_ [_ [_ [_ [D5 _]]]]]. congruence.
        * rewrite Hlog, Hedges. constructor.
          -- destruct (Hfwd _ _ Hcur) as [x' [Hx' Cx']].
             pose proof (core_fields _ _ Cx') as [X1 [X2 [X3 [X4 [X5 [X6 X7]]]]]].
             exists x', nn, dvers. simpl. repeat split; auto; try congruence.
             all: try (destruct Hcurid; [left; auto | right; congruence]).
             all: try discriminate.
             all: try (rewrite C6; unfold k; lia).
             all: try (exists wp; split; auto).
          -- eapply Forall2_impl; [|apply (iv_log _ I)]. intros l e0 He. eapply ent_ok_kept; eauto.
        * intros j Hj. assert (Rcur : reach (s_g st') (t_id curn)).
          { eapply reach_mono; [exact GL|]. apply (iv_reach _ I). exact Hcid. }
          rewrite Hgn, app_length in Hj. simpl in Hj. destruct (Nat.eq_dec j k) as [E|E].
          -- subst j. eapply reach_step; [exact Rcur | rewrite Hedges; left; reflexivity | reflexivity | reflexivity].
          -- eapply reach_mono; [exact GL|]. apply (iv_reach _ I). unfold k in E. lia.
    - (* graph_le *)
      destruct O.
      + rewrite Hg. split; [exists []; simpl; rewrite app_nil_r; reflexivity|]. split; simpl; auto.
      + split; [|split].
        * destruct Hcase as [[_ [F _]]|[b [_ [_ [_ [F _]]]]]]; rewrite F; [exists []; rewrite app_nil_r|]; eauto.
        * intros x Hx. rewrite Hedges. right. exact Hx.
        * intros x Hx. rewrite Herr. exact Hx.
      + split; [|split].
        * rewrite Hgn. eauto.
        * intros x Hx. rewrite Hedges. right. exact Hx.
        * intros x Hx. rewrite Herr. exact Hx.
    - (* handled *)
      destruct O.
      + right. rewrite Hg. simpl. eexists. split; [left; reflexivity|]. simpl. auto.
      + left. exists e. rewrite Hedges. split; [left; reflexivity|]. repeat split; auto.
        destruct Hcase as [[_ [_ [_ [F _]]]]|[b [_ [_ [_ [_ [_ [F _]]]]]]]]; auto.
      + left. eexists. rewrite Hedges. split; [left; reflexivity|]. simpl. auto.
  Qed.
End Inv.
