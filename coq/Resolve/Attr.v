(* Model of util/resolve/internal/attr (Set), dep.Type, version.AttrSet and the
   deptest/versiontest text forms.  Models only: proofs are in Attr_proofs.v.

   Go's attr.Set holds a map (a pointer).  Plain assignment of a Set copies the
   pointer, so aliasing is observable; the model therefore has an explicit heap
   of attribute maps (DESIGN 3.4). *)
From DepsDev Require Import Lib.Base Gen.AttrTables.

(* ---------- attribute maps: association lists sorted by key ---------- *)
Definition amap := list (N * bytes).

Fixpoint alookup (m : amap) (k : N) : option bytes :=
  match m with
  | [] => None
  | (k', v) :: m' => if N.eqb k k' then Some v else alookup m' k
  end.

(* insert or replace, keeping the list sorted by key *)
Fixpoint ainsert (m : amap) (k : N) (v : bytes) : amap :=
  match m with
  | [] => [(k, v)]
  | (k', v') :: m' =>
      if N.ltb k k' then (k, v) :: m
      else if N.eqb k k' then (k, v) :: m'
      else (k', v') :: ainsert m' k v
  end.

(* Go's m[k] on a map whose values are strings: "" when absent (also for a nil map) *)
Definition aget (m : amap) (k : N) : bytes :=
  match alookup m k with Some v => v | None => [] end.

(* ---------- the Set value and the heap ---------- *)
Record aset := { mask : N; attrs : option nat; abits : N }.
Definition zero_set : aset := {| mask := 0; attrs := None; abits := 0 |}.

Record state := { vars : nat -> aset; heap : nat -> amap; next : nat }.
Definition init : state := {| vars := fun _ => zero_set; heap := fun _ => []; next := O |}.

Definition upd {A} (f : nat -> A) (i : nat) (x : A) : nat -> A :=
  fun j => if Nat.eqb j i then x else f j.

Definition map_of (s : state) (a : aset) : amap :=
  match attrs a with None => [] | Some l => heap s l end.

Inductive op :=
| OSet (v : nat) (key : Z) (val : bytes)   (* dep.Type.AddAttr / version.AttrSet.SetAttr *)
| OClone (dst src : nat)                   (* dst = src.Clone() *)
| OAssign (dst src : nat).                 (* dst = src (plain Go assignment; outside C19's quantifier) *)

(* attr.Mask(-key) for a negative int8 key *)
Definition mask_of_key (key : Z) : N := Z.to_N ((- key) mod 256).

(* One operation.  The boolean is "the call panicked" (key >= 64). *)
Definition step (s : state) (o : op) : state * bool :=
  match o with
  | OSet v key val =>
      let a := vars s v in
      if (key <? 0)%Z then
        ({| vars := upd (vars s) v {| mask := N.lor (mask a) (mask_of_key key); attrs := attrs a; abits := abits a |};
            heap := heap s; next := next s |}, false)
      else if (64 <=? key)%Z then (s, true)
      else
        let k := Z.to_N key in
        match attrs a with
        | None =>
            let l := next s in
            ({| vars := upd (vars s) v {| mask := mask a; attrs := Some l; abits := N.lor (abits a) (N.shiftl 1 k) |};
                heap := upd (heap s) l (ainsert [] k val); next := S l |}, false)
        | Some l =>
            ({| vars := upd (vars s) v {| mask := mask a; attrs := Some l; abits := N.lor (abits a) (N.shiftl 1 k) |};
                heap := upd (heap s) l (ainsert (heap s l) k val); next := next s |}, false)
        end
  | OClone dst src =>
      let a := vars s src in
      let l := next s in
      ({| vars := upd (vars s) dst {| mask := mask a; attrs := Some l; abits := abits a |};
          heap := upd (heap s) l (map_of s a); next := S l |}, false)
  | OAssign dst src =>
      ({| vars := upd (vars s) dst (vars s src); heap := heap s; next := next s |}, false)
  end.

Definition run (ops : list op) : state := fold_left (fun s o => fst (step s o)) ops init.

(* ---------- observations ---------- *)
Definition key_range : list N := map N.of_nat (seq 0 64).

Fixpoint compare_attrs (ma mb : amap) (bits : N) (keys : list N) : Z :=
  match keys with
  | [] => 0%Z
  | k :: ks =>
      if N.testbit bits k then
        let c := bytes_compare (aget ma k) (aget mb k) in
        if (c =? 0)%Z then compare_attrs ma mb bits ks else c
      else compare_attrs ma mb bits ks
  end.

(* attr.Set.Compare *)
Definition set_compare (s : state) (a b : aset) : Z :=
  if mask a <? mask b then (-1)%Z
  else if mask b <? mask a then 1%Z
  else if abits a <? abits b then (-1)%Z
  else if abits b <? abits a then 1%Z
  else compare_attrs (map_of s a) (map_of s b) (abits a) key_range.

(* GetAttr *)
Definition get_attr (s : state) (a : aset) (key : Z) : bytes * bool :=
  if (key <? 0)%Z then ([], negb (N.land (mask a) (mask_of_key key) =? 0))
  else match alookup (map_of s a) (Z.to_N (key mod 256)) with
       | Some v => (v, true)
       | None => ([], false)
       end.

(* IsRegular / Empty *)
Definition is_regular (s : state) (a : aset) : bool :=
  (mask a =? 0) && Nat.eqb (length (map_of s a)) 0.

(* ---------- key names (stringer) ---------- *)
Fixpoint key_name_in (tbl : list (bytes * Z)) (k : Z) : option bytes :=
  match tbl with
  | [] => None
  | (n, v) :: t => if (v =? k)%Z then Some n else key_name_in t k
  end.
Definition s_AttrKey : bytes := [65;116;116;114;75;101;121;40]. (* "AttrKey(" *)
Definition key_name (tbl : list (bytes * Z)) (k : Z) : bytes :=
  match key_name_in tbl k with
  | Some n => n
  | None => s_AttrKey ++ Z_to_dec k ++ [41]
  end.

(* ---------- strconv.Quote on ASCII ---------- *)
Definition hexdig (n : N) : N := if n <? 10 then 48 + n else 87 + n.
Definition quote_char (c : N) : bytes :=
  if c =? 34 then [92; 34]
  else if c =? 92 then [92; 92]
  else if (32 <=? c) && (c <=? 126) then [c]
  else if c =? 7 then [92; 97]
  else if c =? 8 then [92; 98]
  else if c =? 12 then [92; 102]
  else if c =? 10 then [92; 110]
  else if c =? 13 then [92; 114]
  else if c =? 9 then [92; 116]
  else if c =? 11 then [92; 118]
  else [92; 120; hexdig (c / 16); hexdig (c mod 16)].
Definition is_ascii (s : bytes) : bool := forallb (fun c => c <? 128) s.
(* None: outside the modelled fragment (non-ASCII needs Go's Unicode tables) *)
Definition quote (s : bytes) : option bytes :=
  if is_ascii s then Some (34 :: flat_map quote_char s ++ [34]) else None.

Fixpoint join (sep : bytes) (l : list bytes) : bytes :=
  match l with
  | [] => []
  | [x] => x
  | x :: t => x ++ sep ++ join sep t
  end.

(* ---------- dep.Type.String ---------- *)
Definition s_reg : bytes := [114;101;103].
Definition s_dev : bytes := [100;101;118].
Definition s_opt : bytes := [111;112;116].
Definition s_test : bytes := [116;101;115;116].

Fixpoint opt_concat (l : list (option bytes)) : option bytes :=
  match l with
  | [] => Some []
  | None :: _ => None
  | Some x :: t => match opt_concat t with Some r => Some (x ++ r) | None => None end
  end.

Definition dep_string (s : state) (a : aset) : option bytes :=
  let head :=
    if mask a =? 0 then s_reg
    else join [124]
           ((if N.testbit (mask a) 0 then [s_dev] else []) ++
            (if N.testbit (mask a) 1 then [s_opt] else []) ++
            (if N.testbit (mask a) 2 then [s_test] else [])) in
  let m := map_of s a in
  match opt_concat
          (map (fun k => if N.testbit (abits a) k
                         then match quote (aget m k) with
                              | Some q => Some (124 :: key_name dep_keys (Z.of_N k) ++ 61 :: q)
                              | None => None
                              end
                         else Some []) key_range) with
  | Some tail => Some (head ++ tail)
  | None => None
  end.

(* ---------- version.AttrSet.String ---------- *)
Definition ver_string (s : state) (a : aset) : option bytes :=
  if is_regular s a then Some [123; 125]
  else
    let flags :=
      if mask a =? 0 then []
      else flat_map (fun bit => if N.testbit (mask a) bit
                                then [Some (key_name ver_keys (- Z.of_N (N.shiftl 1 bit)))]
                                else [])
                    (map N.of_nat (seq 0 (Z.to_nat ver_mask_len))) in
    let m := map_of s a in
    let items :=
      flat_map (fun k => if N.testbit (abits a) k
                         then let v := aget m k in
                              match v with
                              | [] => [Some (key_name ver_keys (Z.of_N k))]
                              | _ => match quote v with
                                     | Some q => [Some (key_name ver_keys (Z.of_N k) ++ 61 :: q)]
                                     | None => [None]
                                     end
                              end
                         else []) key_range in
    let fix sequence (l : list (option bytes)) : option (list bytes) :=
      match l with
      | [] => Some []
      | None :: _ => None
      | Some x :: t => match sequence t with Some r => Some (x :: r) | None => None end
      end in
    match sequence (flags ++ items) with
    | Some parts => Some (123 :: join [44] parts ++ [125])
    | None => None
    end.

(* ---------- the pure value view (what a user of value semantics expects) ---------- *)
Definition absval : Type := (N * amap)%type.
Definition abs (s : state) (v : nat) : absval := (mask (vars s v), map_of s (vars s v)).

(* ---------- text forms ---------- *)
Definition is_space (c : N) : bool :=
  (c =? 32) || (c =? 9) || (c =? 10) || (c =? 11) || (c =? 12) || (c =? 13).

(* strings.Fields restricted to ASCII input *)
Fixpoint fields_aux (s : bytes) (cur : bytes) : list bytes :=
  match s with
  | [] => match cur with [] => [] | _ => [rev cur] end
  | c :: t => if is_space c
              then match cur with [] => fields_aux t [] | _ => rev cur :: fields_aux t [] end
              else fields_aux t (c :: cur)
  end.
Definition fields (s : bytes) : list bytes := fields_aux s [].

Definition unhex (c : N) : option N :=
  if is_digit c then Some (c - 48)
  else if (97 <=? c) && (c <=? 102) then Some (c - 87)
  else if (65 <=? c) && (c <=? 70) then Some (c - 55)
  else None.
Definition unoct (c : N) : option N := if (48 <=? c) && (c <=? 55) then Some (c - 48) else None.

Inductive uq := UqOk (b : bytes) | UqErr | UqOom.

(* body of a double-quoted Go string (without the outer quotes), ASCII input *)
Fixpoint unquote_dq (fuel : nat) (s : bytes) : uq :=
  match fuel with
  | O => UqOom
  | S f =>
      match s with
      | [] => UqOk []
      | c :: t =>
          if (c =? 34) || (c =? 10) then UqErr
          else if c =? 92 then
            match t with
            | [] => UqErr
            | e :: t' =>
                let simple (b : N) := match unquote_dq f t' with UqOk r => UqOk (b :: r) | x => x end in
                if e =? 97 then simple 7 else if e =? 98 then simple 8
                else if e =? 102 then simple 12 else if e =? 110 then simple 10
                else if e =? 114 then simple 13 else if e =? 116 then simple 9
                else if e =? 118 then simple 11 else if e =? 92 then simple 92
                else if e =? 34 then simple 34
                else if e =? 120 then
                  match t' with
                  | h1 :: h2 :: t'' =>
                      match unhex h1, unhex h2 with
                      | Some a, Some b =>
                          match unquote_dq f t'' with UqOk r => UqOk ((16 * a + b) :: r) | x => x end
                      | _, _ => UqErr
                      end
                  | _ => UqErr
                  end
                else if (e =? 117) || (e =? 85) then UqOom   (* \u \U: needs UTF-8 encoding *)
                else match unoct e with
                     | Some a =>
                         match t' with
                         | o2 :: o3 :: t'' =>
                             match unoct o2, unoct o3 with
                             | Some b, Some c' =>
                                 let v := 64 * a + 8 * b + c' in
                                 if 255 <? v then UqErr
                                 else match unquote_dq f t'' with UqOk r => UqOk (v :: r) | x => x end
                             | _, _ => UqErr
                             end
                         | _ => UqErr
                         end
                     | None => UqErr
                     end
            end
          else match unquote_dq f t with UqOk r => UqOk (c :: r) | x => x end
      end
  end.

Definition last_byte (s : bytes) : option N := last (map Some s) None.

(* strconv.Unquote, for inputs starting with a double quote or a backquote (ASCII) *)
Definition unquote (s : bytes) : uq :=
  if negb (is_ascii s) then UqOom else
  match s with
  | q :: rest =>
      match rev rest with
      | q' :: body_rev =>
          if negb (q =? q') then UqErr
          else let body := rev body_rev in
               if q =? 34 then unquote_dq (S (length body)) body
               else if q =? 96 then
                 if existsb (fun c => c =? 96) body then UqErr
                 else UqOk (filter (fun c => negb (c =? 13)) body)
               else if q =? 39 then UqOom   (* rune literals: not produced by the joiner *)
               else UqErr
      | [] => UqErr
      end
  | [] => UqErr
  end.

Definition ends_with_bs_quote (s : bytes) : bool :=
  match rev s with
  | 34 :: 92 :: _ => true
  | _ => false
  end.

(* deptest.ParseString: the loop joining quoted fields back together.
   [inq] is the list of fields collected since the opening quote (most recent last). *)
Inductive pres (A : Type) := PVal (a : A) | PErr | POom.
Arguments PVal {A} a. Arguments PErr {A}. Arguments POom {A}.

Fixpoint join_quoted (items : list bytes) (quoted : list bytes) (inq : bool) (acc : list bytes)
  : pres (list bytes) :=
  match items with
  | [] => if inq then PErr (* unterminated quotes *) else PVal (rev acc)
  | it :: rest =>
      if inq || (match it with 34 :: _ => true | _ => false end) then
        let quoted' := quoted ++ [it] in
        if (match last_byte it with Some 34 => true | _ => false end)
           && negb (ends_with_bs_quote it && Nat.leb 2 (length it)) then
          match unquote (join [32] quoted') with
          | UqOk u => join_quoted rest [] false (u :: acc)
          | UqErr => PErr
          | UqOom => POom
          end
        else join_quoted rest quoted' true acc
      else join_quoted rest [] false (it :: acc)
  end.

Fixpoint key_of_token (tbl : list (bytes * Z)) (allk : list Z) (tok : bytes) : option Z :=
  match tbl with
  | [] => None
  | (n, v) :: t =>
      if bytes_eqb (to_lower n) tok && existsb (Z.eqb v) allk then Some v
      else key_of_token t allk tok
  end.

Definition pairs := list (Z * bytes).

Fixpoint parse_items (tbl : list (bytes * Z)) (allk flagk : list Z) (fuel : nat) (items : list bytes)
  : pres pairs :=
  match fuel with
  | O => POom
  | S f =>
      match items with
      | [] => PVal []
      | it :: rest =>
          match key_of_token tbl allk (to_lower it) with
          | None => PErr
          | Some k =>
              if existsb (Z.eqb k) flagk then
                match parse_items tbl allk flagk f rest with
                | PVal r => PVal ((k, []) :: r) | x => x end
              else match rest with
                   | [] => PErr
                   | v :: rest' =>
                       match parse_items tbl allk flagk f rest' with
                       | PVal r => PVal ((k, v) :: r) | x => x end
                   end
          end
      end
  end.

(* The parsers return the list of (key, value) additions performed, in order. *)
Definition dep_parse (s : bytes) : pres pairs :=
  if negb (is_ascii s) then POom else
  match join_quoted (fields s) [] false [] with
  | PVal items => parse_items dep_keys deptest_all_keys deptest_flag_keys (S (length items)) items
  | PErr => PErr
  | POom => POom
  end.

Definition ver_parse (s : bytes) : pres pairs :=
  if negb (is_ascii s) then POom else
  let items := fields s in
  parse_items ver_keys vertest_all_keys vertest_flag_keys (S (length items)) items.

Fixpoint drop_spaces (s : bytes) : bytes :=
  match s with
  | c :: t => if is_space c then drop_spaces t else s
  | [] => []
  end.
Definition trim_space (s : bytes) : bytes := rev (drop_spaces (rev (drop_spaces s))).

Fixpoint cut_space (s : bytes) (acc : bytes) : bytes * option bytes :=
  match s with
  | [] => (rev acc, None)
  | c :: t => if c =? 32 then (rev acc, Some t) else cut_space t (c :: acc)
  end.

Definition ver_parse_single (s : bytes) : pres pairs :=
  if negb (is_ascii s) then POom else
  let '(key, valo) := cut_space (trim_space s) [] in
  let valr :=
    match valo with
    | None => PVal []
    | Some v0 =>
        let v := trim_space v0 in
        match v with
        | c :: _ => if (c =? 34) || (c =? 96)
                    then match unquote v with UqOk u => PVal u | UqErr => PErr | UqOom => POom end
                    else PVal v
        | [] => PVal []
        end
    end in
  match valr with
  | PVal v => match key_of_token ver_keys vertest_all_keys (to_lower key) with
              | Some k => PVal [(k, v)]
              | None => PErr
              end
  | PErr => PErr
  | POom => POom
  end.

(* versiontest.String *)
Definition ver_write (s : state) (a : aset) : bytes :=
  join [32]
    (flat_map (fun key =>
                 match get_attr s a key with
                 | (v, true) => to_lower (key_name ver_keys key) :: (match v with [] => [] | _ => [v] end)
                 | (_, false) => []
                 end) vertest_all_keys).

(* The schema-syntax writer for dependency types (the inverse documented by
   deptest.ParseString: lower-cased key, then the quoted value). *)
Definition dep_write (s : state) (a : aset) : option bytes :=
  let parts :=
    map (fun key =>
           match get_attr s a key with
           | (v, true) =>
               if existsb (Z.eqb key) deptest_flag_keys then Some [to_lower (key_name dep_keys key)]
               else match quote v with
                    | Some q => Some [to_lower (key_name dep_keys key); q]
                    | None => None
                    end
           | (_, false) => Some []
           end) deptest_all_keys in
  let fix sequence (l : list (option (list bytes))) : option (list bytes) :=
    match l with
    | [] => Some []
    | None :: _ => None
    | Some x :: t => match sequence t with Some r => Some (x ++ r) | None => None end
    end in
  match sequence parts with
  | Some l => Some (join [32] l)
  | None => None
  end.

(* Build a set in variable 0 of the initial state from a list of additions. *)
Definition build (ps : pairs) : state :=
  fold_left (fun s p => fst (step s (OSet 0 (fst p) (snd p)))) ps init.

(* dump: the observation used by the harness (GetAttr over single-bit flag keys and 0..127) *)
Definition flag_probe : list Z := [-1; -2; -4; -8; -16; -32; -64; -128]%Z.
Definition dump (s : state) (a : aset) : list (Z * bytes) :=
  flat_map (fun k => match get_attr s a k with (v, true) => [(k, v)] | _ => [] end)
           (flag_probe ++ map Z.of_nat (seq 0 128)).
