(* The PyPI resolver model of C08 (Resolve/Pypi.v) instantiated with the marker model of C16:
   which requirements are followed, stated with packaging's evaluation instead of the abstract
   marker oracle.  Nothing of the C08 development is changed; its theorems are used as they are. *)
From Coq Require Import Lia.
From DepsDev Require Import Lib.Base Gen.PypiEnvTables Gen.PypiTables Pypi.PyStr Resolve.Markers Resolve.Markers_proofs
  Resolve.Markers_spec_proofs Resolve.Pypi Resolve.Pypi_lists_proofs Resolve.Pypi_inv_proofs Resolve.Pypi_proofs
  Spec.Pep508Spec Spec.Pep508Domain.

Section Followed.
  Variable c_versions : bytes -> res (list vkey).
  Variable c_requirements : vkey -> res (list Pypi.req).
  Variable c_matching : vkey -> res (list vkey).
  Variable has_pre constraint_ok : bytes -> bool.
  Variable match_pre ver_lt : bytes -> bytes -> bool.
  Variable root : vkey.
  (* the PEP 440 oracles of the marker model and of the spec, tied by the C03 interface *)
  Variable valid : bytes -> bool.
  Variable sat : N -> bytes -> bytes -> res bool.
  Variable spec_sat : N -> bytes -> bytes -> option bool.
  Hypothesis sat_agree : forall o rhs lhs b, is_word_op o = false -> valid lhs = true -> valid rhs = true ->
    spec_sat (cop_num o) rhs lhs = Some b -> sat (cop_num o) rhs lhs = Ok b.
  Hypothesis sat_total : forall o a b, sat o a b <> OutOfFuel.

  Let marker_true := marker_result valid sat.
  Let Resolve := resolve_fuel c_versions c_requirements c_matching marker_true has_pre constraint_ok match_pre ver_lt root.
  Let WF := client_wf c_versions c_requirements c_matching.

  (* a requirement whose marker is the text of a well-formed tree inside the proved domain for E *)
  Definition guarded_by (d : Pypi.req) (E : list bytes) (m : mtree) : Prop :=
    exists wt, dt_get (rq_type d) dep_key_environment = Some (print_marker m wt) /\
               wf_tree m = true /\ in_domain target_env valid spec_sat E m = true.

  Lemma keep_true_iff : forall d E m, guarded_by d E m ->
    (keep marker_true E d = Ok true <-> Pep508Spec.eval target_env spec_sat E m = Some true).
  Proof.
    intros d E m [wt [G [W D]]].
    pose proof (marker_agrees valid sat spec_sat sat_agree sat_total m wt E W D) as A.
    unfold keep. rewrite G. fold marker_true. unfold marker_true.
    destruct (marker_result valid sat (print_marker m wt) E) as [b|e|p|];
      destruct (Pep508Spec.eval target_env spec_sat E m) as [b'|]; cbn in A; try contradiction.
    - subst. split; intros H; inversion H; reflexivity.
    - split; intros H; discriminate.
  Qed.

  (* getDependencies keeps exactly the requirements whose marker packaging evaluates to true for
     the extras E (requirements without a marker are all kept) *)
  Theorem get_dependencies_exact : forall v E deps,
    get_dependencies c_requirements marker_true v E = Ok deps ->
    exists l, client_err (c_requirements v) = Ok l /\
      forall d, (In d deps <-> In d l /\ keep marker_true E d = Ok true) /\
                (dt_get (rq_type d) dep_key_environment = None -> (In d deps <-> In d l)) /\
                (forall m, guarded_by d E m ->
                   (In d deps <-> In d l /\ Pep508Spec.eval target_env spec_sat E m = Some true)).
  Proof.
    intros v E deps H. unfold get_dependencies in H.
    destruct (client_err (c_requirements v)) as [l| | |] eqn:C; cbn [bind] in H; try discriminate.
    exists l. split; [reflexivity|]. intros d.
    destruct (filter_slice_spec (keep marker_true E) (length l) l deps (le_n _) H) as [S _].
    split; [exact (S d)|]. split.
    - intros N. rewrite (S d). unfold keep. rewrite N. tauto.
    - intros m G. rewrite (S d). rewrite (keep_true_iff d E m G). tauto.
  Qed.

  (* ONLY IF, at the level of the resolved graph: every edge carries a requirement of (a version
     of) its source whose marker, when it is a printed tree in the domain, packaging evaluates to
     true for a set E of extras each of which some requirement on the source's package requests.
     (That E may contain extras requested only by versions no longer in the graph is C08's
     finding F-C08-3.) *)
  Theorem edge_only_if_marker_true : forall fuel g f t rqv ty,
    WF -> Resolve fuel = Ok g -> In (f, t, rqv, ty) (g_edges g) ->
    exists fv tv par d E l,
      nth_error (g_nodes g) f = Some fv /\ nth_error (g_nodes g) t = Some tv /\
      (vk_name par = vk_name fv \/ (par = vkey_zero /\ fv = root)) /\
      c_requirements par = Ok l /\ In d l /\
      rq_ver d = rqv /\ rq_type d = ty /\ rq_name d = vk_name tv /\
      (forall m, guarded_by d E m -> Pep508Spec.eval target_env spec_sat E m = Some true) /\
      (forall e, In e E -> exists par' d' l', c_requirements par' = Ok l' /\ In d' l' /\
                            rq_name d' = vk_name par /\ In e (extras_of_type (rq_type d'))).
  Proof.
    intros fuel g f t rqv ty W H He.
    destruct (false_marker_nothing _ _ _ _ _ _ _ _ _ W fuel g f t rqv ty H He)
      as (fv & tv & par & d & E & l & A1 & A2 & A3 & A4 & A5 & A6 & A7 & A8 & K & X).
    exists fv, tv, par, d, E, l. repeat split; try assumption.
    intros m G. apply (keep_true_iff d E m G). exact K.
  Qed.

  (* IF, at the level of the resolved graph: for every node there is a set E of extras such that the
     requirements of that node which packaging's evaluation for E keeps (and the unguarded ones) are
     exactly the list deps for which the graph is complete: each of them that is the last one for its
     package has its edge to the selected version of that package. *)
  Theorem edges_if_marker_true : forall fuel g,
    WF -> Resolve fuel = Ok g ->
    forall i v, nth_error (g_nodes g) i = Some v -> v <> root -> v <> vkey_zero ->
    exists E deps l,
      client_err (c_requirements v) = Ok l /\
      (forall d m, guarded_by d E m ->
         (In d deps <-> In d l /\ Pep508Spec.eval target_env spec_sat E m = Some true)) /\
      (forall d, dt_get (rq_type d) dep_key_environment = None -> (In d deps <-> In d l)) /\
      complete_for c_versions c_matching has_pre constraint_ok match_pre ver_lt root g i deps.
  Proof.
    intros fuel g W H i v Hi Hr Hz.
    destruct (edges_complete_partial _ _ _ _ _ _ _ _ _ W fuel g H) as [_ P].
    destruct (P i v Hi Hr Hz) as (E & deps & D & C).
    destruct (get_dependencies_exact v E deps D) as (l & L & S).
    exists E, deps, l. split; [exact L|]. split; [|split; [|exact C]].
    - intros d m G. exact (proj2 (proj2 (S d)) m G).
    - intros d N. exact (proj1 (proj2 (S d)) N).
  Qed.
End Followed.
