(* Lemmas about Resolve/MatchReq.v (sorting and matching), for every semver oracle that
   satisfies the stated hypotheses. *)
From Coq Require Import List ZArith NArith Lia Bool Sorting.Sorted Sorting.Permutation.
From DepsDev Require Import Lib.Base Lib.Order Lib.Sort Lib.SortUniq Gen.ResolveTables
  Resolve.Attr Resolve.Attr_proofs Resolve.MatchReq.
Import ListNotations.
Local Open Scope Z_scope.

(* ---------- equality tests ---------- *)
Lemma bytes_eqb_eq a : forall b, bytes_eqb a b = true <-> a = b.
Proof.
  induction a as [|x a IH]; intros [|y b]; simpl; split; intros H; try discriminate; auto.
  - apply andb_true_iff in H as [H1 H2]. apply N.eqb_eq in H1. apply IH in H2. congruence.
  - inversion H; subst. rewrite N.eqb_refl. simpl. apply IH; auto.
Qed.

Lemma bytes_eqb_refl a : bytes_eqb a a = true.
Proof. apply bytes_eqb_eq; auto. Qed.

Lemma bytes_eqb_false a b : bytes_eqb a b = false <-> a <> b.
Proof.
  split.
  - intros H E. apply bytes_eqb_eq in E. congruence.
  - intros H. destruct (bytes_eqb a b) eqn:E; auto. apply bytes_eqb_eq in E. contradiction.
Qed.

Lemma pkey_eqb_eq a b : pkey_eqb a b = true <-> a = b.
Proof.
  destruct a as [s n], b as [s' n']; unfold pkey_eqb; simpl. rewrite andb_true_iff, N.eqb_eq, bytes_eqb_eq.
  split; [intros [-> ->]; auto | intros H; inversion H; auto].
Qed.

Lemma vkey_eqb_eq a b : vkey_eqb a b = true <-> a = b.
Proof.
  destruct a as [p t v], b as [p' t' v']; unfold vkey_eqb; simpl.
  rewrite !andb_true_iff, N.eqb_eq, bytes_eqb_eq, pkey_eqb_eq.
  split; [intros [[-> ->] ->]; auto | intros H; inversion H; auto].
Qed.

Lemma vkey_eqb_refl a : vkey_eqb a a = true.
Proof. apply vkey_eqb_eq; auto. Qed.
Lemma pkey_eqb_refl a : pkey_eqb a a = true.
Proof. apply pkey_eqb_eq; auto. Qed.

Lemma vkey_eqb_false a b : vkey_eqb a b = false <-> a <> b.
Proof.
  split.
  - intros H E. apply vkey_eqb_eq in E. congruence.
  - intros H. destruct (vkey_eqb a b) eqn:E; auto. apply vkey_eqb_eq in E. contradiction.
Qed.
Lemma pkey_eqb_false a b : pkey_eqb a b = false <-> a <> b.
Proof.
  split.
  - intros H E. apply pkey_eqb_eq in E. congruence.
  - intros H. destruct (pkey_eqb a b) eqn:E; auto. apply pkey_eqb_eq in E. contradiction.
Qed.

Lemma vkey_eqb_sym a b : vkey_eqb a b = vkey_eqb b a.
Proof.
  destruct (vkey_eqb a b) eqn:E.
  - apply vkey_eqb_eq in E. subst. symmetry. apply vkey_eqb_refl.
  - symmetry. apply vkey_eqb_false. apply vkey_eqb_false in E. congruence.
Qed.

(* ---------- two more comparator combinators ---------- *)
Section MoreComb.
  Context {A B : Type}.

  Definition sum_cmp (ca : A -> A -> Z) (cb : B -> B -> Z) (x y : A + B) : Z :=
    match x, y with
    | inl a, inl b => ca a b
    | inl _, inr _ => -1
    | inr _, inl _ => 1
    | inr a, inr b => cb a b
    end.
  Definition sum_P (PA : A -> Prop) (PB : B -> Prop) (x : A + B) : Prop :=
    match x with inl a => PA a | inr b => PB b end.

  Lemma core_sum PA PB ca cb : cmp_core PA ca -> cmp_core PB cb -> cmp_core (sum_P PA PB) (sum_cmp ca cb).
  Proof.
    intros [R1 S1 T1 C1] [R2 S2 T2 C2]; split; unfold sum_cmp, sum_P.
    - intros [a|b]; auto.
    - intros [a|a] [b|b]; intros; auto.
    - intros [a|a] [b|b] [x|x]; intros; try lia; eauto.
    - intros [a|a] [b|b] [x|x]; intros; try lia; auto.
  Qed.

  Lemma core_flip (P : A -> Prop) c : cmp_core P c -> cmp_core P (fun a b => c b a).
  Proof.
    intros [R S T C]; split.
    - auto.
    - intros a b Pa Pb. rewrite (S b a) by auto. lia.
    - intros a b x Pa Pb Px H1 H2. apply (T x b a); auto.
    - intros a b x Pa Pb Px E.
      assert (E' : c a b = 0) by (pose proof (S a b Pa Pb); lia).
      pose proof (C a b x Pa Pb Px E'). pose proof (S a x Pa Px). pose proof (S b x Pb Px). lia.
  Qed.
End MoreComb.

Lemma str_lt_cmp a b : str_lt a b = (bytes_compare a b <? 0).
Proof. reflexivity. Qed.

(* ---------- generic list facts ---------- *)
Lemma split_last_some {A} (p : A -> bool) l pre y post :
  split_last p l = Some (pre, y, post) ->
  l = pre ++ y :: post /\ p y = true /\ forallb (fun x => negb (p x)) post = true.
Proof.
  revert pre y post. induction l as [|x t IH]; intros pre y post; simpl; [discriminate|].
  destruct (split_last p t) as [[[pre' y'] post']|] eqn:E.
  - intros H; inversion H; subst. destruct (IH _ _ _ eq_refl) as (-> & Hy & Hp). auto.
  - destruct (p x) eqn:Px; [|discriminate]. intros H; inversion H; subst.
    repeat split; auto.
    clear -E. induction post as [|z t IH]; simpl in *; auto.
    destruct (split_last p t) as [[[? ?] ?]|]; [discriminate|].
    destruct (p z); [discriminate|]. simpl. auto.
Qed.

Lemma split_last_none {A} (p : A -> bool) l :
  split_last p l = None -> forallb (fun x => negb (p x)) l = true.
Proof.
  induction l as [|x t IH]; simpl; auto.
  destruct (split_last p t) as [[[? ?] ?]|]; [discriminate|].
  destruct (p x); [discriminate|]. simpl. auto.
Qed.

Lemma filter_sorted {A} (R : A -> A -> Prop) f l :
  StronglySorted R l -> StronglySorted R (filter f l).
Proof.
  induction 1 as [|x t Ht IH Hx]; simpl; [constructor|].
  destruct (f x); auto. constructor; auto.
  rewrite Forall_forall in *. intros y Hy. apply filter_In in Hy as [Hy _]. auto.
Qed.

Lemma NoDup_map_inj_in {A B} (f : A -> B) l a b :
  NoDup (map f l) -> In a l -> In b l -> f a = f b -> a = b.
Proof.
  induction l as [|x t IH]; simpl; intros ND Ha Hb E; [contradiction|].
  inversion ND as [|? ? Hnin ND']; subst.
  destruct Ha as [->|Ha], Hb as [->|Hb]; auto.
  - exfalso. apply Hnin. rewrite E. apply in_map; auto.
  - exfalso. apply Hnin. rewrite <- E. apply in_map; auto.
Qed.

Lemma find_firstn_filter {A} (p : A -> bool) l :
  match find p l with Some v => [v] | None => [] end = firstn 1 (filter p l).
Proof.
  induction l as [|x t IH]; simpl; auto.
  destruct (p x); simpl; auto.
Qed.

(* ====================================================================== *)
Section WithOracle.
  Variable C : mcfg.
  Variable O : oracle.

  (* ---------- npm ---------- *)
  Definition npm_parses (s : bytes) : Prop := o_parses O sys_npm s = true.
  Definition nkey (v : version) : bytes + bytes :=
    if o_parses O sys_npm (ver v) then inl (ver v) else inr (ver v).
  (* parsable before unparsable; semver, then the spelling; unparsable by spelling *)
  Definition npm_cmp (a b : version) : Z :=
    sum_cmp (lex (o_compare O sys_npm) bytes_compare) bytes_compare (nkey a) (nkey b).
  Definition npm_le (a b : version) : Prop := npm_cmp a b <= 0.

  Lemma npm_less_cmp a b : npm_less O a b = (npm_cmp a b <? 0).
  Proof.
    unfold npm_less, npm_cmp, nkey, sum_cmp, lex.
    destruct (o_parses O sys_npm (ver a)), (o_parses O sys_npm (ver b)); simpl; auto.
    destruct (Z.eqb_spec (o_compare O sys_npm (ver a) (ver b)) 0); simpl; auto.
  Qed.

  Lemma npm_cmp_eq0 a b : npm_cmp a b = 0 -> ver a = ver b.
  Proof.
    unfold npm_cmp, nkey, sum_cmp.
    destruct (o_parses O sys_npm (ver a)), (o_parses O sys_npm (ver b)); try discriminate.
    - intros H. apply lex_eq0 in H as [_ H]. apply bytes_compare_eq; auto.
    - apply bytes_compare_eq.
  Qed.

  (* parsable versions come first *)
  Lemma npm_le_parsable_first a b :
    npm_le a b -> o_parses O sys_npm (ver b) = true -> o_parses O sys_npm (ver a) = true.
  Proof.
    unfold npm_le, npm_cmp, nkey, sum_cmp.
    destruct (o_parses O sys_npm (ver a)), (o_parses O sys_npm (ver b)); auto; lia.
  Qed.

  Section NpmLaws.
    Hypothesis Hcmp : cmp_laws npm_parses (o_compare O sys_npm).

    Lemma npm_cmp_core : cmp_core (fun _ : version => True) npm_cmp.
    Proof.
      unfold npm_cmp.
      apply (core_pullback nkey (fun _ => True) (sum_P npm_parses (fun _ => True))).
      - intros a _. unfold nkey, sum_P. destruct (o_parses O sys_npm (ver a)) eqn:E; auto.
      - apply core_sum.
        + apply core_lex; [apply laws_core; auto|].
          apply (core_weaken (fun _ => True)); [intros; exact I | apply bytes_core].
        + apply bytes_core.
    Qed.

    Lemma npm_cmp_laws : cmp_laws (fun _ : version => True) npm_cmp.
    Proof. apply core_laws, npm_cmp_core. Qed.

    Lemma all_true {A} (l : list A) : Forall (fun _ => True) l.
    Proof. apply Forall_forall; auto. Qed.

    Lemma isort_npm_sorted l : StronglySorted npm_le (isort (npm_less O) l).
    Proof.
      apply (isort_sorted (fun _ => True) npm_cmp (npm_less O) npm_cmp_laws).
      - intros; apply npm_less_cmp.
      - apply all_true.
    Qed.

    Lemma npm_separates l : NoDup (map ver l) ->
      forall a b, In a l -> In b l -> npm_cmp a b = 0 -> a = b.
    Proof.
      intros ND a b Ha Hb E. apply npm_cmp_eq0 in E.
      eapply NoDup_map_inj_in; eauto.
    Qed.

    Lemma isort_npm_perm_unique l l' :
      NoDup (map ver l) -> Permutation l l' -> isort (npm_less O) l = isort (npm_less O) l'.
    Proof.
      intros ND Hp.
      apply (isort_perm_unique (fun _ => True) npm_cmp (npm_less O) npm_cmp_laws); auto.
      - intros; apply npm_less_cmp.
      - apply all_true.
      - apply npm_separates; auto.
    Qed.

    (* the order sortNPMVersions produces does not depend on the order of its input *)
    Lemma sort_npm_perm_unique l l' :
      NoDup (map ver l) -> Permutation l l' -> sort_npm C O l = sort_npm C O l'.
    Proof. intros; unfold sort_npm. f_equal. apply isort_npm_perm_unique; auto. Qed.

    (* any other correct sorting algorithm (pdqsort on more than 12 elements) agrees *)
    Lemma isort_npm_is_the_sorted_perm l s :
      NoDup (map ver l) -> Permutation s l -> StronglySorted npm_le s -> s = isort (npm_less O) l.
    Proof.
      intros ND Hp Hs.
      apply (isort_is_the_sorted_perm (fun _ => True) npm_cmp (npm_less O) npm_cmp_laws); auto.
      - intros; apply npm_less_cmp.
      - apply all_true.
      - apply npm_separates; auto.
    Qed.
  End NpmLaws.

  Lemma reposition_perm base : Permutation (reposition C O base) base.
  Proof.
    unfold reposition.
    destruct (split_last (has_latest C) base) as [[[pre y] post]|] eqn:E; auto.
    destruct (is_pre O y && negb (forallb (is_pre O) base)); auto.
    apply split_last_some in E as (-> & _ & _).
    apply Permutation_app_head. symmetry. apply Permutation_cons_append.
  Qed.

  Lemma sort_npm_perm l : Permutation (sort_npm C O l) l.
  Proof. unfold sort_npm. rewrite reposition_perm. apply isort_perm. Qed.

  (* what the repositioning does, case by case *)
  Lemma reposition_no_latest base :
    forallb (fun v => negb (has_latest C v)) base = true -> reposition C O base = base.
  Proof.
    intros H. unfold reposition.
    destruct (split_last (has_latest C) base) as [[[pre y] post]|] eqn:E; auto.
    apply split_last_some in E as (-> & Hy & _).
    rewrite forallb_app in H. simpl in H. rewrite Hy in H. simpl in H.
    rewrite andb_false_r in H. discriminate.
  Qed.

  Lemma reposition_latest base pre y post :
    base = pre ++ y :: post -> has_latest C y = true ->
    forallb (fun v => negb (has_latest C v)) post = true ->
    reposition C O base =
      if is_pre O y && existsb (fun v => negb (is_pre O v)) base then base else pre ++ post ++ [y].
  Proof.
    intros -> Hy Hpost. unfold reposition.
    assert (E : split_last (has_latest C) (pre ++ y :: post) = Some (pre, y, post)).
    { clear -Hy Hpost. induction pre as [|x t IH]; simpl.
      - assert (N : split_last (has_latest C) post = None).
        { clear -Hpost. induction post as [|z t IH]; simpl in *; auto.
          apply andb_true_iff in Hpost as [Hz Ht]. rewrite (IH Ht).
          destruct (has_latest C z); [discriminate|auto]. }
        rewrite N, Hy. auto.
      - rewrite IH. auto. }
    rewrite E.
    assert (X : negb (forallb (is_pre O) (pre ++ y :: post)) = existsb (fun v => negb (is_pre O v)) (pre ++ y :: post)).
    { generalize (pre ++ y :: post). intros l. induction l as [|a t IH]; simpl; auto.
      rewrite negb_andb, IH. auto. }
    rewrite X. auto.
  Qed.

  (* ---------- Maven, PyPI and the other systems ---------- *)
  Definition gen_parses (sys : N) (v : version) : Prop := o_parses O sys (ver v) = true.
  (* with the tie-break: semver, then the spelling *)
  Definition gen_cmp (sys : N) (a b : version) : Z :=
    if tie_break C
    then lex (fun x y => o_compare O sys (ver x) (ver y)) (fun x y => bytes_compare (ver x) (ver y)) a b
    else o_compare O sys (ver a) (ver b).
  Definition gen_le (sys : N) (a b : version) : Prop := gen_cmp sys a b <= 0.

  Lemma gen_less_cmp sys a b : gen_parses sys a -> gen_parses sys b ->
    gen_less C O sys a b = (gen_cmp sys a b <? 0).
  Proof.
    unfold gen_less, gen_parses, gen_cmp, lex. intros -> ->. simpl.
    destruct (tie_break C); simpl; auto.
    destruct (Z.eqb_spec (o_compare O sys (ver a) (ver b)) 0); auto.
  Qed.

  Lemma gen_cmp_ver sys a b a' b' : ver a = ver a' -> ver b = ver b' -> gen_cmp sys a b = gen_cmp sys a' b'.
  Proof. unfold gen_cmp, lex. intros -> ->. reflexivity. Qed.

  (* ascending in the refined order is ascending by semver *)
  Lemma gen_le_semver sys a b : gen_le sys a b -> o_compare O sys (ver a) (ver b) <= 0.
  Proof.
    unfold gen_le, gen_cmp, lex. destruct (tie_break C); auto.
    destruct (Z.eqb_spec (o_compare O sys (ver a) (ver b)) 0); lia.
  Qed.

  (* no two different spellings compare equal (the side condition of F-C12-1) *)
  Definition no_equal_distinct (sys : N) (l : list version) : Prop :=
    forall a b, In a l -> In b l -> o_compare O sys (ver a) (ver b) = 0 -> ver a = ver b.

  (* the comparator of SortVersions separates the versions of l: always once it breaks ties
     by the strings, otherwise under the side condition *)
  Definition separated (sys : N) (l : list version) : Prop :=
    tie_break C = true \/ no_equal_distinct sys l.

  Section GenLaws.
    Variable sys : N.
    Hypothesis Hcmp : cmp_laws (fun s => o_parses O sys s = true) (o_compare O sys).

    Lemma gen_cmp_laws : cmp_laws (gen_parses sys) (gen_cmp sys).
    Proof.
      apply core_laws. unfold gen_cmp, gen_parses.
      assert (H1 : cmp_core (fun v : version => o_parses O sys (ver v) = true)
                            (fun x y => o_compare O sys (ver x) (ver y))).
      { apply (core_pullback ver _ (fun s => o_parses O sys s = true)); auto. apply laws_core; auto. }
      destruct (tie_break C); auto.
      apply core_lex; auto.
      apply (core_pullback ver _ (fun _ => True)); auto. apply bytes_core.
    Qed.

    Lemma isort_gen_sorted l : Forall (gen_parses sys) l -> StronglySorted (gen_le sys) (isort (gen_less C O sys) l).
    Proof.
      intros H. apply (isort_sorted (gen_parses sys) (gen_cmp sys) (gen_less C O sys) gen_cmp_laws); auto.
      intros; apply gen_less_cmp; auto.
    Qed.

    Lemma gen_separates l : NoDup (map ver l) -> separated sys l ->
      forall a b, In a l -> In b l -> gen_cmp sys a b = 0 -> a = b.
    Proof.
      intros ND Sep a b Ha Hb E. eapply NoDup_map_inj_in; eauto.
      unfold gen_cmp in E. destruct (tie_break C) eqn:T.
      - apply lex_eq0 in E as [_ E]. apply bytes_compare_eq; auto.
      - destruct Sep as [Sep|Sep]; [congruence | auto].
    Qed.

    Lemma isort_gen_perm_unique l l' :
      Forall (gen_parses sys) l -> NoDup (map ver l) -> separated sys l ->
      Permutation l l' -> isort (gen_less C O sys) l = isort (gen_less C O sys) l'.
    Proof.
      intros HP ND NE Hp.
      apply (isort_perm_unique (gen_parses sys) (gen_cmp sys) (gen_less C O sys) gen_cmp_laws); auto.
      - intros; apply gen_less_cmp; auto.
      - apply gen_separates; auto.
    Qed.

    Lemma gen_sorted_unique l1 l2 :
      Forall (gen_parses sys) l1 -> NoDup (map ver l1) -> separated sys l1 ->
      StronglySorted (gen_le sys) l1 -> StronglySorted (gen_le sys) l2 -> Permutation l1 l2 -> l1 = l2.
    Proof.
      intros HP ND NE S1 S2 Hp.
      apply (sorted_perm_unique (gen_parses sys) (gen_cmp sys) gen_cmp_laws); auto.
      apply gen_separates; auto.
    Qed.
  End GenLaws.

  (* ---------- sort_versions as a whole ---------- *)
  Lemma sort_versions_perm l : Permutation (sort_versions C O l) l.
  Proof.
    unfold sort_versions. destruct l as [|v0 t]; auto.
    destruct (N.eqb (v_sys v0) sys_npm); [apply sort_npm_perm | apply isort_perm].
  Qed.

  (* ---------- matching ---------- *)
  (* what it means for a version to satisfy a requirement string *)
  Definition satisfies (sys : N) (req : bytes) (v : version) : bool :=
    if o_constraint O sys req then o_match O sys req (ver v)
    else if N.eqb sys sys_npm then npm_exact req v
    else bytes_eqb req (ver v).

  Lemma match_npm_spec req l :
    match_npm C O req l =
      if o_constraint O sys_npm req then filter (satisfies sys_npm req) (sort_npm C O l)
      else firstn 1 (filter (satisfies sys_npm req) (sort_npm C O l)).
  Proof.
    unfold match_npm, satisfies. rewrite N.eqb_refl.
    destruct (o_constraint O sys_npm req); auto.
    apply find_firstn_filter.
  Qed.

  (* the list matchRequirement filters: a sorted copy once it sorts, the input before *)
  Definition match_input (l : list version) : list version :=
    if match_sorts C then sort_versions C O l else l.

  Lemma match_input_perm l : Permutation (match_input l) l.
  Proof. unfold match_input. destruct (match_sorts C); auto. apply sort_versions_perm. Qed.

  Lemma match_generic_spec sys req l :
    N.eqb sys sys_npm = false ->
    match_generic C O sys req l = filter (satisfies sys req) (match_input l).
  Proof.
    intros H. unfold match_generic, satisfies, match_input. rewrite H.
    destruct (o_constraint O sys req); auto.
  Qed.

  (* exactness: the result holds exactly the satisfying versions of the list
     (constraints of every system, and string requirements outside npm) *)
  Lemma match_requirement_exact rk l v :
    (N.eqb (pk_sys (vk_pkg rk)) sys_npm = true -> o_constraint O sys_npm (vk_ver rk) = true) ->
    In v (match_requirement C O rk l) <-> In v l /\ satisfies (pk_sys (vk_pkg rk)) (vk_ver rk) v = true.
  Proof.
    intros Hc. unfold match_requirement.
    destruct (N.eqb (pk_sys (vk_pkg rk)) sys_npm) eqn:E.
    - apply N.eqb_eq in E. rewrite E. rewrite match_npm_spec, (Hc eq_refl).
      rewrite filter_In. split; intros [H1 H2]; split; auto.
      + eapply Permutation_in; [apply sort_npm_perm|]; auto.
      + eapply Permutation_in; [symmetry; apply sort_npm_perm|]; auto.
    - rewrite match_generic_spec by auto. rewrite filter_In.
      split; intros [H1 H2]; split; auto.
      + eapply Permutation_in; [apply match_input_perm|]; auto.
      + eapply Permutation_in; [symmetry; apply match_input_perm|]; auto.
  Qed.

  (* an npm requirement that is not a range: the first version, in npm order, whose string
     or one of whose tags equals it; nothing when there is none *)
  Lemma match_npm_exact_string req l :
    o_constraint O sys_npm req = false ->
    match_npm C O req l = firstn 1 (filter (npm_exact req) (sort_npm C O l)).
  Proof.
    intros H. rewrite match_npm_spec, H. f_equal.
    apply filter_ext. intros v. unfold satisfies. rewrite H, N.eqb_refl. auto.
  Qed.
End WithOracle.

(* ---------- sortNPMDependencies ---------- *)
Definition dkey (d : reqver) : Z * (bytes * bytes) :=
  ((if dep_is_dev (r_type d) then 1 else 0), (to_lower (dep_name d), dep_name d)).
Definition dep_cmp (a b : reqver) : Z :=
  lex (fun x y => cmpZ (fst x) (fst y))
      (lex (fun x y => bytes_compare (fst (snd x)) (fst (snd y)))
           (fun x y => bytes_compare (snd (snd y)) (snd (snd x))))
      (dkey a) (dkey b).
Definition dep_le (a b : reqver) : Prop := dep_cmp a b <= 0.

Lemma dep_cmp_core : cmp_core (fun _ : reqver => True) dep_cmp.
Proof.
  unfold dep_cmp.
  apply (core_pullback dkey (fun _ => True) (fun _ => True)); auto.
  apply core_lex; [|apply core_lex].
  - apply (core_pullback fst (fun _ => True) (fun _ => True)); auto. apply cmpZ_core.
  - apply (core_pullback (fun x : Z * (bytes * bytes) => fst (snd x)) (fun _ => True) (fun _ => True)); auto.
    apply bytes_core.
  - apply (core_flip (fun _ => True) (fun x y : Z * (bytes * bytes) => bytes_compare (snd (snd x)) (snd (snd y)))).
    apply (core_pullback (fun x : Z * (bytes * bytes) => snd (snd x)) (fun _ => True) (fun _ => True)); auto.
    apply bytes_core.
Qed.

Lemma dep_less_cmp a b : dep_less a b = (dep_cmp a b <? 0).
Proof.
  unfold dep_less, dep_cmp, dkey, lex; simpl.
  destruct (dep_is_dev (r_type a)), (dep_is_dev (r_type b)); simpl; auto.
  - destruct (bytes_eqb (to_lower (dep_name a)) (to_lower (dep_name b))) eqn:E.
    + apply bytes_eqb_eq in E. rewrite E.
      rewrite (proj2 (bytes_compare_eq _ _) eq_refl). simpl. auto.
    + apply bytes_eqb_false in E.
      destruct (Z.eqb_spec (bytes_compare (to_lower (dep_name a)) (to_lower (dep_name b))) 0) as [E'|E'].
      * apply bytes_compare_eq in E'. contradiction.
      * simpl. auto.
  - destruct (bytes_eqb (to_lower (dep_name a)) (to_lower (dep_name b))) eqn:E.
    + apply bytes_eqb_eq in E. rewrite E.
      rewrite (proj2 (bytes_compare_eq _ _) eq_refl). simpl. auto.
    + apply bytes_eqb_false in E.
      destruct (Z.eqb_spec (bytes_compare (to_lower (dep_name a)) (to_lower (dep_name b))) 0) as [E'|E'].
      * apply bytes_compare_eq in E'. contradiction.
      * simpl. auto.
Qed.

Lemma sort_deps_perm ds : Permutation (sort_deps ds) ds.
Proof.
  unfold sort_deps. destruct ds as [|d0 t]; auto.
  destruct (N.eqb (r_sys d0) sys_npm); auto. apply isort_perm.
Qed.

(* npm resolution order: development-only dependencies last; by lower-cased name, a lower
   case spelling before an upper case one *)
Lemma sort_deps_npm_sorted d0 t :
  N.eqb (r_sys d0) sys_npm = true -> StronglySorted dep_le (sort_deps (d0 :: t)).
Proof.
  intros H. unfold sort_deps. rewrite H.
  apply (isort_sorted (fun _ => True) dep_cmp dep_less (core_laws _ _ dep_cmp_core)).
  - intros; apply dep_less_cmp.
  - apply Forall_forall; auto.
Qed.

Lemma sort_deps_other d0 t : N.eqb (r_sys d0) sys_npm = false -> sort_deps (d0 :: t) = d0 :: t.
Proof. intros H. unfold sort_deps. rewrite H. auto. Qed.

(* ====================================================================== *)
(* statements assembled for Properties/C12.v *)
Section Assembled.
  Variable C : mcfg.
  Variable O : oracle.

  (* ascending npm order: semver then spelling, unparsable after parsable, then the
     repositioning of the version tagged latest *)
  Lemma sort_npm_spec l :
    cmp_laws (npm_parses O) (o_compare O sys_npm) ->
    exists base,
      Permutation base l /\ StronglySorted (npm_le O) base /\
      (forall a b, npm_le O a b -> o_parses O sys_npm (ver b) = true -> o_parses O sys_npm (ver a) = true) /\
      sort_npm C O l = reposition C O base.
  Proof.
    intros HL. exists (isort (npm_less O) l). repeat split.
    - apply isort_perm.
    - apply isort_npm_sorted; auto.
    - apply npm_le_parsable_first.
  Qed.

  (* once repaired, the version that is repositioned is one that carries the tag latest *)
  Lemma has_latest_exact v :
    latest_exact C = true -> has_latest C v = existsb (bytes_eqb s_latest) (split_on 44 (tags v)).
  Proof. intros H. unfold has_latest. rewrite H. auto. Qed.

  Lemma match_npm_perm req l l' :
    cmp_laws (npm_parses O) (o_compare O sys_npm) ->
    NoDup (map ver l) -> Permutation l l' -> match_npm C O req l = match_npm C O req l'.
  Proof.
    intros HL ND Hp. unfold match_npm. rewrite (sort_npm_perm_unique C O HL l l' ND Hp). auto.
  Qed.

  Lemma match_requirement_npm_perm rk l l' :
    N.eqb (pk_sys (vk_pkg rk)) sys_npm = true ->
    cmp_laws (npm_parses O) (o_compare O sys_npm) ->
    NoDup (map ver l) -> Permutation l l' ->
    match_requirement C O rk l = match_requirement C O rk l'.
  Proof.
    intros Hs HL ND Hp. unfold match_requirement. rewrite Hs.
    rewrite (match_npm_perm (vk_ver rk) l l' HL ND Hp). auto.
  Qed.

  (* a match over a slice that is in ascending order is in ascending order *)
  Lemma match_generic_sorted sys req l :
    match_sorts C = false ->
    StronglySorted (gen_le C O sys) l -> StronglySorted (gen_le C O sys) (match_generic C O sys req l).
  Proof.
    intros M H. unfold match_generic. rewrite M. destruct (o_constraint O sys req); apply filter_sorted; auto.
  Qed.

  Lemma sort_versions_gen_eq sys l :
    N.eqb sys sys_npm = false -> Forall (fun v => v_sys v = sys) l ->
    sort_versions C O l = isort (gen_less C O sys) l.
  Proof.
    intros Hn H. destruct l as [|v0 t]; [reflexivity|]. unfold sort_versions.
    inversion H; subst. rewrite Hn. auto.
  Qed.

  Lemma sort_versions_gen_spec sys v0 t :
    v_sys v0 = sys -> N.eqb sys sys_npm = false ->
    cmp_laws (fun s => o_parses O sys s = true) (o_compare O sys) ->
    Forall (gen_parses O sys) (v0 :: t) ->
    Permutation (sort_versions C O (v0 :: t)) (v0 :: t) /\ StronglySorted (gen_le C O sys) (sort_versions C O (v0 :: t)).
  Proof.
    intros Hs Hn HL HP. split; [apply sort_versions_perm|].
    unfold sort_versions. rewrite Hs, Hn. apply isort_gen_sorted; auto.
  Qed.

  Lemma sort_versions_gen_perm_unique sys l l' :
    N.eqb sys sys_npm = false ->
    cmp_laws (fun s => o_parses O sys s = true) (o_compare O sys) ->
    Forall (fun v => v_sys v = sys) l ->
    Forall (gen_parses O sys) l -> NoDup (map ver l) -> separated C O sys l ->
    Permutation l l' -> sort_versions C O l = sort_versions C O l'.
  Proof.
    intros Hn HL Hsys HP ND NE Hp.
    assert (Hsys' : Forall (fun v => v_sys v = sys) l') by (eapply Permutation_Forall; eauto).
    rewrite (sort_versions_gen_eq sys l), (sort_versions_gen_eq sys l') by auto.
    apply isort_gen_perm_unique; auto.
  Qed.

  (* matchRequirement once it sorts a copy: whatever the order of the input, the result is
     in ascending order ... *)
  Lemma match_generic_sorts sys req l :
    match_sorts C = true -> N.eqb sys sys_npm = false ->
    cmp_laws (fun s => o_parses O sys s = true) (o_compare O sys) ->
    Forall (fun v => v_sys v = sys) l -> Forall (gen_parses O sys) l ->
    StronglySorted (gen_le C O sys) (match_generic C O sys req l).
  Proof.
    intros M Hn HL Hsys HP. rewrite match_generic_spec by auto. unfold match_input. rewrite M.
    apply filter_sorted. rewrite (sort_versions_gen_eq sys l) by auto. apply isort_gen_sorted; auto.
  Qed.

  (* ... and does not depend on that order *)
  Lemma match_generic_perm sys req l l' :
    match_sorts C = true -> N.eqb sys sys_npm = false ->
    cmp_laws (fun s => o_parses O sys s = true) (o_compare O sys) ->
    Forall (fun v => v_sys v = sys) l -> Forall (gen_parses O sys) l ->
    NoDup (map ver l) -> separated C O sys l -> Permutation l l' ->
    match_generic C O sys req l = match_generic C O sys req l'.
  Proof.
    intros M Hn HL Hsys HP ND Sep Hp. rewrite !match_generic_spec by auto. unfold match_input. rewrite M.
    rewrite (sort_versions_gen_perm_unique sys l l'); auto.
  Qed.
End Assembled.

(* ---------- witnesses ---------- *)
Local Open Scope N_scope.
Definition mk_ver (sys : N) (s : bytes) (attrs : list (Z * bytes)) : version :=
  {| v_key := {| vk_pkg := {| pk_sys := sys; pk_name := [112] |}; vk_type := vt_concrete; vk_ver := s |};
     v_attrs := vset_of_pairs attrs |}.

(* every string parses and all versions compare equal: a lawful comparator that separates
   nothing (what 1.0 and 1.0.0 look like to PyPI and Maven) *)
Definition tie_oracle : oracle := {|
  o_parses := fun _ _ => true; o_prerelease := fun _ _ => false;
  o_compare := fun _ _ _ => 0%Z;
  o_constraint := fun _ _ => true; o_match := fun _ _ _ => true |}.

Lemma tie_oracle_laws sys : cmp_laws (fun s => o_parses tie_oracle sys s = true) (o_compare tie_oracle sys).
Proof. split; simpl; intros; auto; lia. Qed.

(* every string parses, versions compare as byte strings, every requirement is a
   constraint that every version matches *)
Definition all_oracle : oracle := {|
  o_parses := fun _ _ => true; o_prerelease := fun _ _ => false;
  o_compare := fun _ a b => bytes_compare a b;
  o_constraint := fun _ _ => true; o_match := fun _ _ _ => true |}.

Lemma all_oracle_laws sys : cmp_laws (fun s => o_parses all_oracle sys s = true) (o_compare all_oracle sys).
Proof. apply core_laws. apply (core_weaken (fun _ => True)); [intros; exact I | apply bytes_core]. Qed.

Definition w_a : version := mk_ver sys_pypi [49; 46; 48] [].          (* 1.0 *)
Definition w_b : version := mk_ver sys_pypi [49; 46; 48; 46; 48] [].  (* 1.0.0 *)

(* F-C12-1: without the tie-break and without the side condition SortVersions depends on the
   order of its input; with the tie-break it does not *)
Lemma sort_tie_witness :
  Permutation [w_a; w_b] [w_b; w_a] /\ NoDup (map ver [w_a; w_b]) /\
  sort_versions cfg_old tie_oracle [w_a; w_b] <> sort_versions cfg_old tie_oracle [w_b; w_a].
Proof.
  split; [apply perm_swap|]. split.
  - repeat constructor; simpl; intuition discriminate.
  - vm_compute. discriminate.
Qed.

Lemma sort_tie_repaired :
  sort_versions cfg_repaired tie_oracle [w_a; w_b] = [w_a; w_b] /\
  sort_versions cfg_repaired tie_oracle [w_b; w_a] = [w_a; w_b].
Proof. split; reflexivity. Qed.

(* F-C12-1b: MatchRequirement outside npm returned the matches in input order *)
Definition w_req : vkey := {| vk_pkg := {| pk_sys := sys_maven; pk_name := [112] |}; vk_type := vt_requirement; vk_ver := [91;48;44;41] |}.
Definition w_m1 : version := mk_ver sys_maven [49; 46; 48] [].   (* 1.0 *)
Definition w_m2 : version := mk_ver sys_maven [48; 46; 57] [].   (* 0.9 *)

Lemma match_raw_witness :
  Permutation [w_m1; w_m2] [w_m2; w_m1] /\ NoDup (map ver [w_m1; w_m2]) /\
  no_equal_distinct all_oracle sys_maven [w_m1; w_m2] /\
  match_requirement cfg_old all_oracle w_req [w_m1; w_m2] = [w_m1; w_m2] /\
  match_requirement cfg_old all_oracle w_req [w_m2; w_m1] = [w_m2; w_m1] /\
  gen_cmp cfg_old all_oracle sys_maven w_m2 w_m1 = (-1)%Z.
Proof.
  split; [apply perm_swap|]. split; [repeat constructor; simpl; intuition discriminate|].
  split; [|repeat split].
  intros a b Ha Hb E. simpl in E. apply bytes_compare_eq in E. auto.
Qed.

Lemma match_raw_repaired :
  match_requirement cfg_repaired all_oracle w_req [w_m1; w_m2] = [w_m2; w_m1] /\
  match_requirement cfg_repaired all_oracle w_req [w_m2; w_m1] = [w_m2; w_m1].
Proof. split; reflexivity. Qed.

(* F-C12-2: a version whose tag list does not hold the tag latest was moved last *)
Definition s_notlatest : bytes := [110;111;116] ++ s_latest.
Definition w_n1 : version := mk_ver sys_npm [49] [(ver_tags, s_notlatest)].
Definition w_n2 : version := mk_ver sys_npm [50] [].

Lemma latest_substring_witness :
  existsb (bytes_eqb s_latest) (split_on 44 (tags w_n1)) = false /\
  npm_cmp all_oracle w_n1 w_n2 = (-1)%Z /\
  sort_npm cfg_old all_oracle [w_n1; w_n2] = [w_n2; w_n1].
Proof. repeat split. Qed.

Lemma latest_exact_repaired :
  sort_npm cfg_repaired all_oracle [w_n1; w_n2] = [w_n1; w_n2].
Proof. reflexivity. Qed.

(* the hypotheses of the npm statements are satisfiable by non-trivial lists: version 1 is
   tagged latest and therefore comes last, whatever the order of the input *)
Definition w_l1 : version := mk_ver sys_npm [49] [(ver_tags, s_latest)].
Definition w_n3 : version := mk_ver sys_npm [51] [].
Lemma npm_example C :
  NoDup (map ver [w_n3; w_l1; w_n2]) /\ sort_npm C all_oracle [w_n3; w_l1; w_n2] = [w_n2; w_n3; w_l1] /\
  sort_npm C all_oracle [w_l1; w_n2; w_n3] = [w_n2; w_n3; w_l1].
Proof.
  split; [repeat constructor; simpl; intuition discriminate|].
  destruct C as [[] m t]; repeat split.
Qed.

(* F-C12-3: one version string twice with different attributes.  No comparator separates the two
   records (they have one key), so even the repaired SortVersions returns them in input order *)
Definition w_r1 : version := mk_ver sys_npm [49] [(ver_tags, [97])].
Definition w_r2 : version := mk_ver sys_npm [49] [(ver_tags, [98])].
Lemma repeated_string_witness :
  Permutation [w_r1; w_r2] [w_r2; w_r1] /\ ver w_r1 = ver w_r2 /\ w_r1 <> w_r2 /\
  sort_versions cfg_repaired all_oracle [w_r1; w_r2] = [w_r1; w_r2] /\
  sort_versions cfg_repaired all_oracle [w_r2; w_r1] = [w_r2; w_r1].
Proof. split; [apply perm_swap|]. repeat split. discriminate. Qed.

(* ---------- the npm resolution order is determined when shown names differ ---------- *)
Lemma dep_cmp_eq0 a b :
  dep_cmp a b = 0%Z <-> dep_is_dev (r_type a) = dep_is_dev (r_type b) /\ dep_name a = dep_name b.
Proof.
  unfold dep_cmp, dkey. rewrite lex_eq0. simpl. rewrite lex_eq0. simpl.
  rewrite !bytes_compare_eq, cmpZ_eq. split.
  - intros (H1 & H2 & H3). split; auto.
    destruct (dep_is_dev (r_type a)), (dep_is_dev (r_type b)); auto; discriminate.
  - intros (H1 & H2). rewrite H1, H2. auto.
Qed.

(* requirements that the order does not separate: same shown name and same dev-alone status *)
Definition deps_separated (ds : list reqver) : Prop :=
  forall a b, In a ds -> In b ds ->
    dep_is_dev (r_type a) = dep_is_dev (r_type b) -> dep_name a = dep_name b -> a = b.

Lemma sort_deps_perm_unique ds ds' :
  Forall (fun d => r_sys d = sys_npm) ds -> deps_separated ds -> Permutation ds ds' ->
  sort_deps ds = sort_deps ds'.
Proof.
  intros Hs Sep Hp.
  assert (Hs' : Forall (fun d => r_sys d = sys_npm) ds') by (eapply Permutation_Forall; eauto).
  destruct ds as [|a t], ds' as [|b t']; auto.
  - apply Permutation_nil in Hp. discriminate.
  - symmetry in Hp. apply Permutation_nil in Hp. discriminate.
  - unfold sort_deps. inversion Hs; inversion Hs'; subst. rewrite H1, H5, N.eqb_refl.
    apply (isort_perm_unique (fun _ => True) dep_cmp dep_less (core_laws _ _ dep_cmp_core)); auto.
    + intros; apply dep_less_cmp.
    + apply Forall_forall; auto.
    + intros x y Hx Hy E. apply dep_cmp_eq0 in E as [E1 E2]. apply Sep; auto.
Qed.

(* whatever sorting algorithm produced an ascending permutation of such a list (sort.Slice
   beyond 12 elements), it is the model's *)
Lemma sort_deps_any_sort d0 t s :
  r_sys d0 = sys_npm -> deps_separated (d0 :: t) ->
  Permutation s (d0 :: t) -> StronglySorted dep_le s -> s = sort_deps (d0 :: t).
Proof.
  intros Hs Sep Hp Ss. unfold sort_deps. rewrite Hs, N.eqb_refl.
  apply (isort_is_the_sorted_perm (fun _ => True) dep_cmp dep_less (core_laws _ _ dep_cmp_core)); auto.
  - intros; apply dep_less_cmp.
  - apply Forall_forall; auto.
  - intros x y Hx Hy E. apply dep_cmp_eq0 in E as [E1 E2]. apply Sep; auto.
Qed.
