(* The dependency types APIClient.flattenNPMDeps builds, at the level of representation
   (attr.Set with its map pointer: the heap model of Resolve/Attr.v), next to the types a
   LocalClient built from the same data holds.  Definitions only; proofs in ApiDepType_proofs.v.

   Resolve/ApiClient.v treats a dependency type as a value (record deptype).  Go builds it by
   t.Clone() of the section type followed, for an alias, by AddAttr(KnownAs): Clone always
   allocates a map, so the API-side type of a plain dependency is an allocated-but-empty set
   where the LocalClient-side type (dep.NewType, deptest.ParseString) has a nil map.  The
   statements of Properties/C18_deptype.v say that no observation the resolvers make
   (IsRegular, HasAttr/GetAttr for every key, Equal, Compare) tells the two apart. *)
From DepsDev Require Import Lib.Base Gen.AttrTables Resolve.ApiClient.
From DepsDev Require Import Resolve.Attr.

Fixpoint dep_key (tbl : list (bytes * Z)) (name : bytes) : Z :=
  match tbl with
  | [] => 0%Z
  | (n, k) :: t => if bytes_eqb n name then k else dep_key t name
  end.

(* the keys APIClient uses, looked up in the table regenerated from dep/key.go *)
Definition kd_dev : Z := dep_key dep_keys [68;101;118].
Definition kd_opt : Z := dep_key dep_keys [79;112;116].
Definition kd_scope : Z := dep_key dep_keys [83;99;111;112;101].
Definition kd_known_as : Z := dep_key dep_keys [75;110;111;119;110;65;115].

(* dep.NewType(flags...) then AddAttr for the valued attributes, on variable v starting from the
   zero value: how a LocalClient-side type comes about (no Clone anywhere) *)
Definition build_ops (v : nat) (t : deptype) : list op :=
  (if dt_dev t then [OSet v kd_dev []] else []) ++
  (if dt_opt t then [OSet v kd_opt []] else []) ++
  (match dt_scope t with Some s => [OSet v kd_scope s] | None => [] end) ++
  (match dt_known_as t with Some n => [OSet v kd_known_as n] | None => [] end).

(* flattenNPMDeps.addDeps for one entry d of a section of type t:
   variable 0 is the section type, variable 1 is typ := t.Clone(), plus AddAttr(KnownAs) for an alias *)
Definition api_type_ops (t : deptype) (d : dependency) : list op :=
  build_ops 0 t ++ [OClone 1 0] ++
  (if has_prefix s_npm_colon (d_req d) then [OSet 1 kd_known_as (d_name d)] else []).

(* both sides in one heap: the API-side type in variable 1, the LocalClient-side type, built from the
   value the model of flattenNPMDeps assigns to this requirement, in variable 2 *)
Definition both_types (t : deptype) (d : dependency) : state :=
  run (api_type_ops t d ++ build_ops 2 (rv_type (add_dep t d))).

(* every observation the resolvers make of a dependency type *)
Definition obs_equal (s : state) (a b : nat) : Prop :=
  is_regular s (vars s a) = is_regular s (vars s b) /\
  (forall key, get_attr s (vars s a) key = get_attr s (vars s b) key) /\     (* GetAttr and HasAttr, every key *)
  set_compare s (vars s a) (vars s b) = 0%Z /\                               (* Compare; Equal is Compare = 0 *)
  set_compare s (vars s b) (vars s a) = 0%Z.

Definition section_types : list deptype := [dt_regular; dt_devtype; dt_opttype; dt_peer].
