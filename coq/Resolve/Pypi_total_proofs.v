(* Totality of the PyPI resolution model: for every client, every oracle, every root and every
   round limit, Resolve returns a value or an error -- never a panic, never out of fuel.
   Each loop of the Go code has its bound made explicit here:
   - the main loop of resolution.resolve is the round counter (the fuel IS maxRounds: at zero the
     model answers Err ETooDeep, which is errTooDeep, not OutOfFuel);
   - backtrack's loop pops at least one state per iteration: fuel (length states) suffices;
   - attemptToPinCriterion, getCriteriaToUpdate, findMatches, intersect, patchCriteria and the
     edge loop of buildGraph recurse structurally on finite lists (candidate lists are finite
     because the client's answers are finite lists);
   - filterSlice examines each element once: fuel (length l) suffices;
   - hasRouteToRoot marks a new pinned version at every level of its recursion: fuel
     (2 + length mapping) suffices (Pypi_fuel_proofs). *)
From Coq Require Import List NArith ZArith Bool Lia Permutation.
From DepsDev Require Import Lib.Base Gen.PypiTables Resolve.Pypi Resolve.Pypi_lists_proofs Resolve.Pypi_fuel_proofs.
Import ListNotations.

(* a result that is a value or an error *)
Definition fine {A} (r : res A) : Prop :=
  match r with Panic _ => False | OutOfFuel => False | _ => True end.

Lemma fine_bind {A B} (r : res A) (f : A -> res B) :
  fine r -> (forall a, r = Ok a -> fine (f a)) -> fine (bind r f).
Proof. destruct r; simpl; auto. Qed.

Lemma fine_client_err {A} (r : res A) : fine (client_err r).
Proof. destruct r; simpl; auto. Qed.

Lemma filter_slice_fine {A} (pred : A -> res bool) :
  (forall x, fine (pred x)) ->
  forall fuel l, (length l <= fuel)%nat -> fine (filter_slice fuel pred l).
Proof.
  intros Hp. induction fuel as [|fuel IH]; intros l Hl.
  - destruct l; simpl in *; [exact I | lia].
  - destruct l as [|x rest]; [exact I|]. cbn [filter_slice]. simpl in Hl.
    apply fine_bind; [apply Hp|]. intros b _. destruct b.
    + apply fine_bind; [apply IH; lia|]. intros; exact I.
    + destruct rest as [|y rest']; [exact I|]. apply IH.
      assert (Hp' : Permutation (last (y :: rest') y :: removelast (y :: rest')) (y :: rest'))
        by (apply last_removelast_perm; discriminate).
      apply Permutation_length in Hp'. simpl in Hp', Hl |- *. lia.
Qed.

Section Total.
  Variable c_versions : bytes -> res (list vkey).
  Variable c_requirements : vkey -> res (list req).
  Variable c_matching : vkey -> res (list vkey).
  Variable marker_true : bytes -> list bytes -> res bool.
  Variable has_pre : bytes -> bool.
  Variable constraint_ok : bytes -> bool.
  Variable match_pre : bytes -> bytes -> bool.
  Variable ver_lt : bytes -> bytes -> bool.
  Variable root : vkey.

  Local Notation MV := (matching_versions c_matching root).
  Local Notation MVP := (matching_versions_pre c_versions c_matching has_pre constraint_ok match_pre ver_lt root).
  Local Notation GM := (gm c_versions c_matching has_pre constraint_ok match_pre ver_lt root).
  Local Notation INTER := (inter_all c_versions c_matching has_pre constraint_ok match_pre ver_lt root).
  Local Notation FIND := (find_matches c_versions c_matching has_pre constraint_ok match_pre ver_lt root).
  Local Notation KEEP := (keep marker_true).
  Local Notation DEPS := (get_dependencies c_requirements marker_true).
  Local Notation MERGE := (merge_into_criterion c_versions c_matching has_pre constraint_ok match_pre ver_lt root).
  Local Notation MERGEDEPS := (merge_deps c_versions c_matching has_pre constraint_ok match_pre ver_lt root).
  Local Notation GCU := (get_criteria_to_update c_versions c_requirements c_matching marker_true has_pre constraint_ok match_pre ver_lt root).
  Local Notation TRY := (try_candidates c_versions c_requirements c_matching marker_true has_pre constraint_ok match_pre ver_lt root).
  Local Notation ATTEMPT := (attempt_to_pin c_versions c_requirements c_matching marker_true has_pre constraint_ok match_pre ver_lt root).
  Local Notation ROUNDSCNT := (rounds_cnt c_versions c_requirements c_matching marker_true has_pre constraint_ok match_pre ver_lt root).
  Local Notation ROUNDS := (rounds c_versions c_requirements c_matching marker_true has_pre constraint_ok match_pre ver_lt root).
  Local Notation INIT := (init_criteria c_versions c_matching has_pre constraint_ok match_pre ver_lt root).
  Local Notation RESOLVE_STATE := (resolve_state_fuel c_versions c_requirements c_matching marker_true has_pre constraint_ok match_pre ver_lt root).
  Local Notation RESOLVE := (resolve_fuel c_versions c_requirements c_matching marker_true has_pre constraint_ok match_pre ver_lt root).

  (* ----- provider ----- *)
  Lemma mv_fine rq : fine (MV rq).
  Proof.
    unfold matching_versions. apply fine_bind; [apply fine_client_err|]. intros mvs _.
    destruct (negb _); [exact I|]. destruct (vk_mem root mvs); exact I.
  Qed.

  Lemma mvp_fine rq : fine (MVP rq).
  Proof.
    unfold matching_versions_pre. destruct (has_pre _); [apply mv_fine|].
    apply fine_bind; [apply fine_client_err|]. intros vs _.
    destruct (negb _); [exact I|].
    apply fine_bind; [apply filter_slice_fine; [intros; exact I | apply le_n]|]. intros; exact I.
  Qed.

  Lemma gm_fine pre rq : fine (GM pre rq).
  Proof. unfold gm. destruct pre; [apply mvp_fine | apply mv_fine]. Qed.

  Lemma inter_all_fine pre : forall rest m, fine (INTER pre m rest).
  Proof.
    induction rest as [|r rs IH]; intros m; cbn [inter_all]; [exact I|].
    apply fine_bind; [apply gm_fine|]. intros; apply IH.
  Qed.

  Lemma find_matches_fine reqs inc : fine (FIND reqs inc).
  Proof.
    unfold find_matches. destruct reqs as [|r0 rest]; [exact I|].
    apply fine_bind; [apply gm_fine|]. intros mvs _.
    destruct (filter _ mvs); [exact I | apply inter_all_fine].
  Qed.

  Lemma keep_fine E d : fine (KEEP E d).
  Proof.
    unfold keep. destruct (dt_get _ _); [|exact I]. destruct (marker_true _ _); exact I.
  Qed.

  Lemma deps_fine v E : fine (DEPS v E).
  Proof.
    unfold get_dependencies. apply fine_bind; [apply fine_client_err|]. intros deps _.
    apply filter_slice_fine; [intros; apply keep_fine | apply le_n].
  Qed.

  (* ----- resolution ----- *)
  Lemma merge_fine st rq par : fine (MERGE st rq par).
  Proof.
    unfold merge_into_criterion. destruct (existsb _ _); [exact I|].
    apply fine_bind; [apply find_matches_fine|]. intros m _. destruct m; exact I.
  Qed.

  Lemma merge_deps_fine st cand : forall deps acc, fine (MERGEDEPS st cand deps acc).
  Proof.
    induction deps as [|d ds IH]; intros acc; cbn [merge_deps]; [exact I|].
    apply fine_bind; [apply merge_fine|]. intros; apply IH.
  Qed.

  Lemma gcu_fine st cand E : fine (GCU st cand E).
  Proof.
    unfold get_criteria_to_update. apply fine_bind; [apply deps_fine|]. intros; apply merge_deps_fine.
  Qed.

  (* the candidate loop: structural on the (finite) candidate list *)
  Lemma try_fine st n E : forall cands k, fine (TRY st n E cands k).
  Proof.
    induction cands as [|c rest IH]; intros k; cbn [try_candidates]; [exact I|].
    pose proof (gcu_fine st c E) as G.
    destruct (GCU st c E) as [upd|e| |]; try contradiction; [exact I|].
    destruct (N.eqb e EConflict); [apply IH | exact I].
  Qed.

  Lemma attempt_fine st n : fine (ATTEMPT st n).
  Proof. unfold attempt_to_pin. apply try_fine. Qed.

  (* the backtracking loop shrinks the state stack *)
  Lemma backtrack_fine : forall fuel states,
    (0 < fuel)%nat -> (length states <= fuel)%nat -> fine (backtrack fuel states).
  Proof.
    induction fuel as [|fuel IH]; intros states Hp Hl; [lia|].
    cbn [backtrack]. destruct states as [|top [|broken [|base rest]]]; try exact I.
    destruct (vm_pop (mapping broken)) as [name cand].
    destruct (patch_criteria base _); [exact I|].
    apply IH; simpl in *; lia.
  Qed.

  (* the main loop: one unit of fuel per round; at zero the answer is errTooDeep *)
  Lemma rounds_cnt_fine ur : forall fuel states nb, fine (ROUNDSCNT ur fuel states nb).
  Proof.
    induction fuel as [|fuel IH]; intros states nb; cbn [rounds_cnt]; [exact I|].
    destruct states as [|st below]; [exact I|].
    destruct (unsatisfied st) as [|n0 ns]; [exact I|].
    apply fine_bind; [apply attempt_fine|]. intros r _.
    destruct (snd r); [apply IH|].
    apply fine_bind; [apply backtrack_fine; simpl; lia|]. intros bt _.
    destruct bt; [apply IH | exact I].
  Qed.

  Lemma rounds_fine ur fuel states : fine (ROUNDS ur fuel states).
  Proof. unfold rounds. apply fine_bind; [apply rounds_cnt_fine|]. intros; exact I. Qed.

  Lemma init_fine : forall deps st, fine (INIT st deps).
  Proof.
    induction deps as [|d ds IH]; intros st; cbn [init_criteria]; [exact I|].
    pose proof (merge_fine st d root) as M.
    destruct (MERGE st d root) as [nc|e| |]; try contradiction; [apply IH|].
    destruct (N.eqb e EConflict); exact I.
  Qed.

  Lemma resolve_state_fine fuel : fine (RESOLVE_STATE fuel).
  Proof.
    unfold resolve_state_fuel. destruct (negb _); [exact I|].
    apply fine_bind; [apply deps_fine|]. intros deps _.
    apply fine_bind; [apply init_fine|]. intros st0 _. apply rounds_fine.
  Qed.

  (* ----- buildGraph, on any state ----- *)
  Lemma add_edges_fine st all : forall todo, fine (add_edges root st all todo).
  Proof.
    induction todo as [|[p to] rest IH]; cbn [add_edges]; [exact I|].
    destruct (crit_get _ p).
    - apply fine_bind; [apply IH|]. intros; exact I.
    - destruct (bytes_eqb _ _); [apply IH | exact I].
  Qed.

  Lemma build_graph_fine st : fine (build_graph root st).
  Proof.
    unfold build_graph.
    destruct (add_nodes_ok st (mapping st) [(root, true)] [root] [(vk_name root, O)] (incl_refl _)) as (r & R).
    rewrite R. cbn [bind].
    apply fine_bind; [apply add_edges_fine|]. intros; exact I.
  Qed.

  (* Resolve: a graph, a graph-level error or a hard error; never a panic, never out of fuel *)
  Theorem resolve_fine fuel : fine (RESOLVE fuel).
  Proof.
    unfold resolve_fuel. apply fine_bind; [apply resolve_state_fine|]. intros; apply build_graph_fine.
  Qed.
End Total.
