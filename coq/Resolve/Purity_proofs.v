(* C05: resolutions over the in-memory client are pure.  A resolver sees the client only
   through the four lookups; in the model of LocalClient (Client.v) no lookup changes the
   store, so by the interleaving theorem every interleaving of the lookups of several
   resolutions returns to each resolution what it returns alone, and leaves the store as it
   was. *)
From Coq Require Import List.
From DepsDev Require Import Lib.Base Lib.Interleave Resolve.MatchReq Resolve.Client Resolve.Client_proofs.
Import ListNotations.

Section Purity.
  Context (O : oracle) (var : variant).

  (* the queries a resolver can make: the lookups of the Client interface *)
  Inductive query :=
  | QVersion (k : vkey) | QVersions (p : pkey) | QRequirements (k : vkey) | QMatching (k : vkey).

  Definition hop_of (q : query) : hop :=
    match q with
    | QVersion k => HVersion k | QVersions p => HVersions p
    | QRequirements k => HRequirements k | QMatching k => HMatching k
    end.

  Definition answer (c : client) (q : query) : option obs := snd (step O var c (hop_of q)).
  Definition after (c : client) (q : query) : client := fst (step O var c (hop_of q)).

  Lemma client_read_only : read_only (St := client) (Q := query) after.
  Proof.
    intros c q. unfold after. apply step_lookup_state.
    intros v d. destruct q; discriminate.
  Qed.

  (* A resolver is any program over client queries (whatever it computes with the answers). *)
  Definition resolver (G : Type) := prog (Q := query) (Ans := option obs) (A := G).

  Theorem resolve_leaves_store G (r : resolver G) c : snd (run_alone answer after r c) = c.
  Proof. apply run_alone_store. apply client_read_only. Qed.

  Theorem resolutions_interleave G sched (rs : list (resolver G)) c j r g :
    nth_error rs j = Some r ->
    nth_error (fst (run_schedule answer after sched (rs, c))) j = Some (Ret g) ->
    g = fst (run_alone answer after r c).
  Proof. apply interleaved_result. apply client_read_only. Qed.

  Theorem interleaving_leaves_store G sched (rs : list (resolver G)) c :
    snd (run_schedule answer after sched (rs, c)) = c.
  Proof. apply interleaving_store. apply client_read_only. Qed.

  (* Asked again, after any other resolutions on the same client: same answer. *)
  Theorem resolve_again G (r other : resolver G) c :
    fst (run_alone answer after r (snd (run_alone answer after other c))) = fst (run_alone answer after r c).
  Proof. rewrite resolve_leaves_store. reflexivity. Qed.
End Purity.
