(* buildGraph is total on the states the resolution returns: the fuel given to hasRouteToRoot
   suffices (its recursion marks a new pinned version at every level) and the unexpected-package
   error of the edge loop cannot occur. *)
From Coq Require Import List NArith ZArith Bool Lia Permutation.
From DepsDev Require Import Lib.Base Gen.PypiTables Resolve.Pypi Resolve.Pypi_lists_proofs Resolve.Pypi_inv_proofs
     Resolve.Pypi_graph_proofs.
Import ListNotations.

Lemma filter_length_le {A} (f g : A -> bool) l :
  (forall x, In x l -> f x = true -> g x = true) -> (length (filter f l) <= length (filter g l))%nat.
Proof.
  induction l as [|x l IH]; simpl; intros H; auto.
  assert (IH' : (length (filter f l) <= length (filter g l))%nat) by (apply IH; intros; apply H; auto).
  destruct (f x) eqn:F.
  - rewrite (H x (or_introl eq_refl) F). simpl. lia.
  - destruct (g x); simpl; lia.
Qed.

Lemma filter_length_lt {A} (f g : A -> bool) l x :
  (forall y, In y l -> f y = true -> g y = true) -> In x l -> f x = false -> g x = true ->
  (length (filter f l) < length (filter g l))%nat.
Proof.
  induction l as [|y l IH]; simpl; intros H Hin Fx Gx; [contradiction|].
  assert (Hle : (length (filter f l) <= length (filter g l))%nat) by (apply filter_length_le; intros; apply H; auto).
  destruct Hin as [E|Hin].
  - subst y. rewrite Fx, Gx. simpl. lia.
  - assert (IH' : (length (filter f l) < length (filter g l))%nat) by (apply IH; auto; intros; apply H; auto).
    destruct (f y) eqn:F.
    + rewrite (H y (or_introl eq_refl) F). simpl. lia.
    + destruct (g y); simpl; lia.
Qed.

Section Fuel.
  Variable st : state.

  Definition unmarked (c : conn) (e : bytes * vkey) : bool :=
    match conn_get c (snd e) with None => true | Some _ => false end.
  Definition unvisited (c : conn) : nat := length (filter (unmarked c) (mapping st)).
  Definition dom_le (c c' : conn) : Prop := forall w, conn_get c w <> None -> conn_get c' w <> None.

  Lemma dom_le_refl c : dom_le c c.
  Proof. intros w H; auto. Qed.

  Lemma dom_le_trans a b c : dom_le a b -> dom_le b c -> dom_le a c.
  Proof. intros H1 H2 w H. auto. Qed.

  Lemma dom_le_set c v b : dom_le c (conn_set c v b).
  Proof. intros w H. rewrite conn_get_set. destruct (vkey_eqb v w); [discriminate | auto]. Qed.

  Lemma unvisited_mono c c' : dom_le c c' -> (unvisited c' <= unvisited c)%nat.
  Proof.
    intros D. apply filter_length_le. intros [p w] _ H. unfold unmarked in *. simpl in *.
    destruct (conn_get c w) eqn:G; auto. exfalso.
    assert (conn_get c' w <> None) by (apply D; congruence).
    destruct (conn_get c' w); [discriminate | congruence].
  Qed.

  Lemma unvisited_mark c v b :
    (exists p, In (p, v) (mapping st)) -> conn_get c v = None ->
    (unvisited (conn_set c v b) < unvisited c)%nat.
  Proof.
    intros (p0 & P) G. apply (filter_length_lt _ _ _ (p0, v)).
    - intros [p w] _ H. unfold unmarked in *. simpl in *.
      rewrite conn_get_set in H. destruct (vkey_eqb v w); [discriminate | auto].
    - exact P.
    - unfold unmarked. simpl. rewrite conn_get_set, vkey_eqb_refl. auto.
    - unfold unmarked. simpl. rewrite G. auto.
  Qed.

  Definition rec_total (f : nat) (rec : vkey -> conn -> res (bool * conn)) : Prop :=
    forall par c, (exists p, In (p, par) (mapping st)) -> (unvisited c < f)%nat ->
    exists r, rec par c = Ok r /\ dom_le c (snd r).

  Lemma route_parents_total f rec v : rec_total f rec ->
    forall parents c, (unvisited c < f)%nat ->
    exists r, route_parents rec st v parents c = Ok r /\ dom_le c (snd r).
  Proof.
    intros Hrec. induction parents as [|par rest IH]; intros c Hc; simpl.
    - exists (false, c). split; auto. apply dom_le_refl.
    - destruct (conn_true c par).
      + eexists. split; [reflexivity|]. simpl. apply dom_le_set.
      + destruct (vm_get (mapping st) (vk_name par)) as [pv|] eqn:Gp; [|apply IH; auto].
        destruct (vkey_eqb pv par) eqn:Ep; [|apply IH; auto].
        apply vkey_eqb_eq in Ep. subst pv.
        destruct (Hrec par c (ex_intro (fun p => In (p, par) (mapping st)) (vk_name par) (vm_get_In _ _ _ Gp)) Hc) as (r & R & D). rewrite R. cbn [bind].
        destruct (fst r).
        * eexists. split; [reflexivity|]. simpl. eapply dom_le_trans; [exact D | apply dom_le_set].
        * assert (Hc' : (unvisited (snd r) < f)%nat) by (pose proof (unvisited_mono _ _ D); lia).
          destruct (IH _ Hc') as (r' & R' & D'). exists r'. split; auto. eapply dom_le_trans; eauto.
  Qed.

  Lemma has_route_total : forall fuel, rec_total fuel (has_route fuel st).
  Proof.
    induction fuel as [|fuel IH]; intros v c P Hc; [lia|]. simpl.
    destruct (conn_get c v) as [b|] eqn:G.
    - exists (b, c). split; auto. apply dom_le_refl.
    - pose proof (unvisited_mark c v false P G) as Hlt.
      assert (Hc1 : (unvisited (conn_set c v false) < fuel)%nat) by lia.
      destruct (crit_get (criteria_of st) (vk_name v)) as [crit|].
      + destruct (route_parents_total _ _ v IH (map snd (c_info crit)) _ Hc1) as (r & R & D).
        exists r. split; auto. eapply dom_le_trans; [apply dom_le_set | exact D].
      + eexists. split; [reflexivity|]. simpl. apply dom_le_set.
  Qed.

  (* the node loop never runs out of fuel, whatever the state *)
  Lemma add_nodes_ok : forall m c nodes ids,
    incl m (mapping st) -> exists r, add_nodes st m c nodes ids = Ok r.
  Proof.
    assert (Hle : forall c, (unvisited c <= length (mapping st))%nat).
    { intros c. unfold unvisited. generalize (mapping st). intros l.
      induction l as [|x l IH]; simpl; auto. destruct (unmarked c x); simpl; lia. }
    induction m as [|[p v] m IH]; intros c nodes ids Hm; cbn [add_nodes].
    - eauto.
    - assert (Hm' : incl m (mapping st)) by (intros x Hx; apply Hm; right; auto).
      destruct (has_route_total (2 + length (mapping st)) v c) as (r & R & _).
      { exists p. apply Hm. left; auto. }
      { pose proof (Hle c). lia. }
      rewrite R. cbn [bind]. destruct (fst r); [|apply IH; auto].
      destruct (ids_get ids p); apply IH; auto.
  Qed.

  Lemma unvisited_le c : (unvisited c <= length (mapping st))%nat.
  Proof.
    unfold unvisited. generalize (mapping st). intros l.
    induction l as [|x l IH]; simpl; auto. destruct (unmarked c x); simpl; lia.
  Qed.
End Fuel.

Section Total.
  Variable c_versions : bytes -> res (list vkey).
  Variable c_requirements : vkey -> res (list req).
  Variable c_matching : vkey -> res (list vkey).
  Variable marker_true : bytes -> list bytes -> res bool.
  Variable has_pre : bytes -> bool.
  Variable constraint_ok : bytes -> bool.
  Variable match_pre : bytes -> bytes -> bool.
  Variable ver_lt : bytes -> bytes -> bool.
  Variable root : vkey.

  Local Notation INV := (Inv c_versions c_requirements c_matching marker_true has_pre constraint_ok match_pre ver_lt root).
  Local Notation WF := (client_wf c_versions c_requirements c_matching).

  Hypothesis Hwf : WF.
  Variable st : state.
  Hypothesis HI : INV st.
  Hypothesis HU : unsatisfied st = [].

  Lemma add_nodes_total : forall m c nodes ids,
    incl m (mapping st) ->
    (forall p, In p (map fst ids) -> p = vk_name root \/ In p (map fst (mapping st))) ->
    exists r, add_nodes st m c nodes ids = Ok r /\
      forall p, In p (map fst (snd r)) -> p = vk_name root \/ In p (map fst (mapping st)).
  Proof.
    induction m as [|[p v] m IH]; intros c nodes ids Hm Hk; cbn [add_nodes].
    - eexists. split; [reflexivity|]. auto.
    - assert (Hin : In (p, v) (mapping st)) by (apply Hm; left; auto).
      assert (Gp : vm_get (mapping st) p = Some v) by (eapply mapping_get; eauto).
      assert (Np : vk_name v = p) by (eapply pin_name; eauto).
      assert (Pv : vm_get (mapping st) (vk_name v) = Some v) by (rewrite Np; auto).
      assert (Hm' : incl m (mapping st)) by (intros x Hx; apply Hm; right; auto).
      destruct (has_route_total st (2 + length (mapping st)) v c (ex_intro (fun q => In (q, v) (mapping st)) p Hin)) as (r & R & _).
      { pose proof (unvisited_le st c). lia. }
      rewrite R. cbn [bind].
      destruct (fst r); [|apply IH; auto].
      destruct (ids_get ids p); [apply IH; auto|].
      apply IH; auto. intros q Hq. rewrite map_app in Hq. apply in_app_or in Hq as [Hq|[Hq|[]]]; auto.
      simpl in Hq. subst q. right. apply (in_map fst) in Hin. auto.
  Qed.

  Lemma add_edges_total all : forall todo,
    (forall p, In p (map fst todo) -> p = vk_name root \/ In p (map fst (mapping st))) ->
    exists es, add_edges root st all todo = Ok es.
  Proof.
    induction todo as [|[p to] rest IH]; intros Hk; cbn [add_edges].
    - eauto.
    - destruct IH as (es & E); [intros q Hq; apply Hk; right; auto|].
      destruct (crit_get (criteria_of st) p) as [crit|] eqn:G.
      + rewrite E. cbn [bind]. eauto.
      + destruct (Hk p (or_introl eq_refl)) as [Ep|Hin].
        * subst p. rewrite bytes_eqb_refl. eauto.
        * exfalso. apply in_map_iff in Hin as ([q w] & Eq & Hin). simpl in Eq. subst q.
          pose proof (mapping_get _ _ _ _ _ _ _ _ _ _ HI _ _ Hin) as Gp.
          destruct (inv_pins _ _ _ _ _ _ _ _ _ _ HI _ _ Gp) as (c & Gc & _). congruence.
  Qed.

  (* buildGraph succeeds on every state the resolution returns *)
  Theorem build_graph_total : exists g, build_graph root st = Ok g.
  Proof.
    unfold build_graph.
    destruct (add_nodes_total (mapping st) [(root, true)] [root] [(vk_name root, O)] (incl_refl _)) as (r & R & K).
    { intros p [E|[]]. left; auto. }
    rewrite R. cbn [bind].
    destruct (add_edges_total (snd r) (snd r) K) as (es & E). rewrite E. cbn [bind]. eauto.
  Qed.
End Total.
