(* Model of util/resolve/pypi/markers.go: parseMarker (recursive descent) and Eval,
   over the regenerated target environment. Definitions only.

   PEP 440 parsing and matching (semver.PyPI.Parse / ParseConstraint / MatchVersion)
   are not modelled here: they enter as two oracles, and every theorem holds for
   every oracle. *)
From DepsDev Require Import Lib.Base Gen.PypiEnvTables Pypi.PyStr.

(* ---- operators (numbers of the Go constants; Markers_proofs checks them against
   the regenerated marker_op_names) *)
Definition OpUnknown : N := 0.
Definition OpLE : N := 1.
Definition OpLT : N := 2.
Definition OpNE : N := 3.
Definition OpEQ : N := 4.
Definition OpGE : N := 5.
Definition OpGT : N := 6.
Definition OpTilde : N := 7.
Definition OpEQ3 : N := 8.
Definition OpIn : N := 9.
Definition OpNotIn : N := 10.

Fixpoint assoc_N {A} (k : N) (l : list (N * A)) : option A :=
  match l with
  | [] => None
  | (k', v) :: r => if k =? k' then Some v else assoc_N k r
  end.
Fixpoint assoc_bytes {A} (k : bytes) (l : list (bytes * A)) : option A :=
  match l with
  | [] => None
  | (k', v) :: r => if bytes_eqb k k' then Some v else assoc_bytes k r
  end.

(* markerOp.String(); out-of-table numbers print as markerOp(n), never needed by the parser *)
Definition op_string (o : N) : bytes :=
  match assoc_N o marker_op_consts with Some s => s | None => [] end.

(* ---- marker variables *)
Record mvar : Type := mkvar { v_name : bytes; v_value : bytes; v_ver : bool }.

Inductive gmarker : Type :=
| GExpr (op : N) (l r : mvar) (has_constraint : bool)
| GAnd (a b : gmarker)
| GOr (a b : gmarker).

Definition EParse : N := 10.
Definition ETildeNeedsVersions : N := 11.
Definition EConstraint : N := 12.
Definition EExtraOp : N := 13.

Definition extra_name : bytes := [101;120;116;114;97].

Section Oracles.
  (* semver.PyPI.Parse(s) succeeds *)
  Variable pep440_valid : bytes -> bool.
  (* op, right value, left value:  ParseConstraint(op ++ right) fails -> Err;
     otherwise Ok (constraint.MatchVersion(Parse(left))) *)
  Variable pep440_satisfies : N -> bytes -> bytes -> res bool.

  Definition mk_var (name value : bytes) : mvar := mkvar name value (pep440_valid value).

  (* environmentVariables is built at package initialisation; platformVar panics
     when a name is missing from internal.Markers. *)
  Fixpoint build_env_vars (l : list (bytes * (bytes * bool))) : res (list (bytes * mvar)) :=
    match l with
    | [] => Ok []
    | (k, (nm, plat)) :: r =>
        v <- (if plat then
                match assoc_bytes nm target_env with
                | Some value => Ok (mk_var nm value)
                | None => Panic PExplicit
                end
              else Ok (mkvar nm [] false)) ;;
        rest <- build_env_vars r ;;
        Ok ((k, v) :: rest)
    end.
  Definition environment_variables : res (list (bytes * mvar)) := build_env_vars marker_env_vars.

  (* parsePythonStr *)
  Fixpoint split_at_byte (q : N) (s : bytes) : option (bytes * bytes) :=
    match s with
    | [] => None
    | c :: r => if c =? q then Some ([], r) else
                match split_at_byte q r with
                | Some (a, b) => Some (c :: a, b)
                | None => None
                end
    end.
  Definition parse_python_str (s : bytes) : option (bytes * bytes) :=
    match s with
    | q :: r => if (q =? 39) || (q =? 34) then split_at_byte q r else None
    | [] => None
    end.

  (* for n, v := range environmentVariables { if p.accept(n) { return v } }
     in the order of the given list (Go: unspecified order) *)
  Fixpoint first_accepting (vars : list (bytes * mvar)) (s : bytes) : option (mvar * bytes) :=
    match vars with
    | [] => None
    | (n, v) :: r =>
        match strip_prefix n s with
        | Some rest => Some (v, rest)
        | None => first_accepting r s
        end
    end.

  Definition parse_marker_var_in (vars : list (bytes * mvar)) (s0 : bytes) : res (mvar * bytes) :=
    let s := trim_left s0 in
    match parse_python_str s with
    | Some (val, rest) => Ok (mk_var [] val, rest)
    | None =>
        match s with
        | c :: _ =>
            if mem_byte c marker_var_first_letters then
              match first_accepting vars s with
              | Some r => Ok r
              | None => Err EParse
              end
            else Err EParse
        | [] => Err EParse
        end
    end.

  Definition parse_marker_var (s : bytes) : res (mvar * bytes) :=
    vars <- environment_variables ;; parse_marker_var_in vars s.

  (* parseMarkerOp *)
  Fixpoint first_op (ops : list (N * bytes)) (s : bytes) : option (N * bytes) :=
    match ops with
    | [] => None
    | (o, t) :: r =>
        match strip_prefix t s with
        | Some rest => Some (o, rest)
        | None => first_op r s
        end
    end.

  Definition kw_not : bytes := [110;111;116].
  Definition kw_in : bytes := [105;110].
  Definition kw_and : bytes := [97;110;100].
  Definition kw_or : bytes := [111;114].

  Definition parse_marker_op (s0 : bytes) : res (N * bytes) :=
    let s := trim_left s0 in
    match first_op marker_op_trial s with
    | Some r => Ok r
    | None =>
        match strip_prefix kw_not s with
        | None => Err EParse
        | Some s1 =>
            let s2 := trim_left s1 in
            if Nat.eqb (length s2) (length s1) then Err EParse   (* skipWsp skipped nothing *)
            else match strip_prefix kw_in s2 with
                 | Some s3 => Ok (OpNotIn, s3)
                 | None => Err EParse
                 end
        end
    end.

  (* the checks parseMarkerExpr makes once both operands and the operator are known *)
  Definition finish_atom (o : N) (l r : mvar) : res gmarker :=
    if (negb (v_ver l) || negb (v_ver r)) && (o =? OpTilde) then Err ETildeNeedsVersions else
    hc <- (if v_ver l && v_ver r && negb (o =? OpEQ3) then
             match pep440_satisfies o (v_value r) (v_value l) with
             | Err _ => Err EConstraint
             | Panic p => Panic p
             | OutOfFuel => OutOfFuel
             | Ok _ => Ok true
             end
           else Ok false) ;;
    if (bytes_eqb (v_name l) extra_name || bytes_eqb (v_name r) extra_name) && negb (o =? OpEQ)
    then Err EExtraOp
    else Ok (GExpr o l r hc).

  (* the body of parseMarkerExpr after the parenthesis test *)
  Definition parse_atom (s : bytes) : res (gmarker * bytes) :=
    lr <- parse_marker_var s ;;
    op_r <- parse_marker_op (snd lr) ;;
    rr <- parse_marker_var (snd op_r) ;;
    g <- finish_atom (fst op_r) (fst lr) (fst rr) ;;
    Ok (g, snd rr).

  Inductive level := LOr | LAnd | LExpr.

  (* parseMarkerOr / parseMarkerAnd / parseMarkerExpr; every call costs one unit of fuel *)
  Fixpoint parse_level (fuel : nat) (lv : level) (s : bytes) : res (gmarker * bytes) :=
    match fuel with
    | O => OutOfFuel
    | S f =>
        match lv with
        | LOr =>
            ar <- parse_level f LAnd s ;;
            let r := trim_left (snd ar) in
            match strip_prefix kw_or r with
            | None => Ok (fst ar, r)
            | Some r2 =>
                br <- parse_level f LOr r2 ;;
                Ok (GOr (fst ar) (fst br), snd br)
            end
        | LAnd =>
            ar <- parse_level f LExpr s ;;
            let r := trim_left (snd ar) in
            match strip_prefix kw_and r with
            | None => Ok (fst ar, r)
            | Some r2 =>
                br <- parse_level f LAnd r2 ;;
                Ok (GAnd (fst ar) (fst br), snd br)
            end
        | LExpr =>
            let s1 := trim_left s in
            match strip_prefix [40] s1 with
            | Some r =>
                mr <- parse_level f LOr r ;;
                match strip_prefix [41] (snd mr) with
                | Some r2 => Ok (fst mr, r2)
                | None => Err EParse
                end
            | None => parse_atom s1
            end
        end
    end.

  (* enough for every input: Markers_proofs.parse_fuel_enough *)
  Definition marker_fuel (s : bytes) : nat := 3 * length s + 4.

  Definition parse_marker (s : bytes) : res gmarker :=
    mr <- parse_level (marker_fuel s) LOr s ;;
    match snd mr with
    | [] => Ok (fst mr)
    | _ :: _ => Err EParse
    end.

  (* ---- Eval *)
  Definition str_le (a b : bytes) : bool := (bytes_compare a b <=? 0)%Z.
  Definition str_lt (a b : bytes) : bool := (bytes_compare a b <? 0)%Z.

  Definition eval_expr (extras : list bytes) (o : N) (l r : mvar) (hc : bool) : res bool :=
    if bytes_eqb (v_name l) extra_name || bytes_eqb (v_name r) extra_name then
      let e := if bytes_eqb (v_name l) extra_name then v_value r else v_value l in
      Ok (existsb (bytes_eqb e) extras)
    else if hc then
      match pep440_satisfies o (v_value r) (v_value l) with
      | Ok b => Ok b
      | Err _ => Panic PNilDeref       (* cannot happen: the constraint was built at parse time *)
      | Panic p => Panic p
      | OutOfFuel => OutOfFuel
      end
    else
      let a := v_value l in
      let b := v_value r in
      if o =? OpLE then Ok (str_le a b)
      else if o =? OpLT then Ok (str_lt a b)
      else if o =? OpNE then Ok (negb (bytes_eqb a b))
      else if (o =? OpEQ) || (o =? OpEQ3) then Ok (bytes_eqb a b)
      else if o =? OpGE then Ok (str_le b a)
      else if o =? OpGT then Ok (str_lt b a)
      else if o =? OpIn then Ok (contains a b)
      else if o =? OpNotIn then Ok (negb (contains a b))
      else Panic PExplicit.          (* default: panic("unknown or invalid op") *)

  Fixpoint geval (extras : list bytes) (g : gmarker) : res bool :=
    match g with
    | GExpr o l r hc => eval_expr extras o l r hc
    | GAnd a b =>
        x <- geval extras a ;;
        if x then geval extras b else Ok false
    | GOr a b =>
        x <- geval extras a ;;
        if x then Ok true else geval extras b
    end.

  (* parse, then evaluate: what getDependencies does with a requirement's marker *)
  Definition marker_result (raw : bytes) (extras : list bytes) : res bool :=
    g <- parse_marker raw ;; geval extras g.

  (* unionExtras on one requirement: strings.Split(attr, ",") when the attribute is present *)
  Definition requested_extras (attr : option bytes) : list bytes :=
    match attr with
    | None => []
    | Some a => split_on 44 a
    end.
End Oracles.
