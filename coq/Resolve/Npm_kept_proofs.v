(* Which requirements of a version the resolver resolves (regularImports), stated against the
   property text: "every non-dev, non-peer requirement".  The exact list of exceptions is part
   of the statement. *)
From DepsDev Require Import Lib.Base Resolve.Npm Resolve.Npm_lemmas.

Section Kept.
  Variable c_matching : vkey -> res (list version).

  Definition not_dev (d : req) : Prop := attr_has K_Dev (r_type d) = false.

  (* a requirement of the version is kept iff it is not dev, not peer-scoped, and
     - is optional, or no optional non-dev requirement names the same package;
     - does not point to the content of a bundle (a derived package);
     - is not bundle-scoped, or no plain (attribute-free) requirement names the same package. *)
  Definition kept (reqs : list req) (d : req) : Prop :=
    In d reqs /\ not_dev d /\
    (attr_has K_Opt (r_type d) = true \/
     ~ exists o, In o reqs /\ not_dev o /\ attr_has K_Opt (r_type o) = true /\ r_name o = r_name d) /\
    get_bundled c_matching d = None /\
    (forall sc, attr_get K_Scope (r_type d) = Some sc ->
       sc <> s_peer /\
       (sc = s_bundle -> ~ exists o, In o reqs /\ not_dev o /\ is_regular (r_type o) = true /\ r_name o = r_name d)).

  Lemma memb_names : forall (P : req -> bool) reqs x,
    memb x (map r_name (filter P reqs)) = true <-> exists o, In o reqs /\ P o = true /\ r_name o = x.
  Proof.
    intros P reqs x. rewrite memb_In, in_map_iff. split.
    - intros [o [E Ho]]. apply filter_In in Ho. exists o. tauto.
    - intros [o [H1 [H2 H3]]]. exists o. split; auto. apply filter_In. auto.
  Qed.

  Lemma memb_names_nd : forall (P : req -> bool) reqs x,
    memb x (map r_name (filter P (filter (fun d => negb (attr_has K_Dev (r_type d))) reqs))) = true <->
    exists o, In o reqs /\ not_dev o /\ P o = true /\ r_name o = x.
  Proof.
    intros P reqs x. rewrite memb_names. split.
    - intros [o [H1 [H2 H3]]]. apply filter_In in H1. destruct H1 as [H1 H4]. exists o.
      unfold not_dev. destruct (attr_has K_Dev (r_type o)); [discriminate | auto].
    - intros [o [H1 [H2 [H3 H4]]]]. exists o. split; auto. apply filter_In. unfold not_dev in H2. rewrite H2. auto.
  Qed.

  Theorem regular_imports_spec : forall reqs d, In d (regular_imports c_matching reqs) <-> kept reqs d.
  Proof.
    intros reqs d. unfold regular_imports. rewrite filter_In. unfold keep_import, kept, not_dev.
    set (nd := filter (fun d => negb (attr_has K_Dev (r_type d))) reqs).
    pose proof (memb_names_nd (fun d => attr_has K_Opt (r_type d)) reqs (r_name d)) as Ho.
    pose proof (memb_names_nd (fun d => is_regular (r_type d)) reqs (r_name d)) as Hr.
    fold nd in Ho, Hr.
    split.
    - intros [Hin H]. apply andb_prop in H. destruct H as [H H4]. apply andb_prop in H. destruct H as [H H3].
      apply andb_prop in H. destruct H as [H1 H2].
      split; auto. split; [destruct (attr_has K_Dev (r_type d)); [discriminate | reflexivity]|].
      split; [|split].
      + destruct (attr_has K_Opt (r_type d)); [left; reflexivity|]. right. simpl in H2.
        intro F. apply Ho in F. rewrite F in H2. discriminate.
      + destruct (get_bundled c_matching d); [discriminate | reflexivity].
      + intros sc Hsc. rewrite Hsc in H4. destruct (bytes_eqb sc s_bundle) eqn:Eb.
        * apply bytes_eqb_eq in Eb. subst sc. split; [discriminate|]. intros _ F. apply Hr in F. rewrite F in H4. discriminate.
        * split.
          -- intro E. subst sc. rewrite bytes_eqb_refl in H4. discriminate.
          -- intro E. subst sc. rewrite bytes_eqb_refl in Eb. discriminate.
    - intros [Hin [H1 [H2 [H3 H4]]]]. split; auto. rewrite H1, H3. simpl.
      apply andb_true_intro. split.
      + destruct H2 as [H2|H2]; [rewrite H2; reflexivity|].
        destruct (attr_has K_Opt (r_type d)); [reflexivity|]. simpl.
        destruct (memb (r_name d) (map r_name (filter (fun d0 => attr_has K_Opt (r_type d0)) nd))) eqn:E; [|reflexivity].
        exfalso. apply H2. apply Ho. reflexivity.
      + destruct (attr_get K_Scope (r_type d)) as [sc|] eqn:Es; [|reflexivity].
        destruct (H4 sc eq_refl) as [Hp Hb]. destruct (bytes_eqb sc s_bundle) eqn:Eb.
        * apply bytes_eqb_eq in Eb.
          destruct (memb (r_name d) (map r_name (filter (fun d0 => is_regular (r_type d0)) nd))) eqn:E; [|reflexivity].
          exfalso. apply (Hb Eb). apply Hr. reflexivity.
        * destruct (bytes_eqb sc s_peer) eqn:Ep; [|reflexivity]. apply bytes_eqb_eq in Ep. contradiction.
  Qed.
End Kept.
