(* Lemmas about Resolve/Client.v: the store refines a map from version keys to what was last
   added, over all histories. *)
From Coq Require Import List ZArith NArith Lia Bool Sorting.Sorted Sorting.Permutation.
From DepsDev Require Import Lib.Base Lib.Order Lib.Sort Lib.SortUniq Gen.ResolveTables
  Resolve.Attr Resolve.Attr_proofs Resolve.MatchReq Resolve.MatchReq_proofs Resolve.Client.
Import ListNotations.
Local Open Scope Z_scope.

(* ---------- the association lists ---------- *)
Lemma pkg_list_set_pkg c p vs p' :
  pkg_list (set_pkg c p vs) p' = if pkey_eqb p p' then Some vs else pkg_list c p'.
Proof. reflexivity. Qed.
Lemma pkg_list_set_imports c k ds p : pkg_list (set_imports c k ds) p = pkg_list c p.
Proof. reflexivity. Qed.
Lemma imports_set_pkg c p vs : c_imports (set_pkg c p vs) = c_imports c.
Proof. reflexivity. Qed.
Lemma imports_set_imports c k ds k' :
  lookup vkey_eqb (c_imports (set_imports c k ds)) k' = if vkey_eqb k k' then Some ds else lookup vkey_eqb (c_imports c) k'.
Proof. reflexivity. Qed.

Lemma register_pkg_list c d p :
  pkg_list (register_pkg c d) p =
    match pkg_list c p with
    | Some vs => Some vs
    | None => if pkey_eqb (r_pkg d) p then Some [] else None
    end.
Proof.
  unfold register_pkg. destruct (pkg_list c (r_pkg d)) eqn:E.
  - destruct (pkg_list c p) eqn:E'; auto.
    destruct (pkey_eqb (r_pkg d) p) eqn:Ep; auto.
    apply pkey_eqb_eq in Ep. subst. congruence.
  - rewrite pkg_list_set_pkg. destruct (pkey_eqb (r_pkg d) p) eqn:Ep.
    + apply pkey_eqb_eq in Ep. subst. rewrite E. auto.
    + destruct (pkg_list c p); auto.
Qed.
Lemma register_imports c d : c_imports (register_pkg c d) = c_imports c.
Proof. unfold register_pkg. destruct (pkg_list c (r_pkg d)); auto. Qed.

Lemma register_all_list ds : forall c p,
  pkg_list (fold_left register_pkg ds c) p =
    match pkg_list c p with
    | Some vs => Some vs
    | None => if existsb (fun d => pkey_eqb (r_pkg d) p) ds then Some [] else None
    end.
Proof.
  induction ds as [|d t IH]; intros c p; simpl.
  - destruct (pkg_list c p); auto.
  - rewrite IH, register_pkg_list.
    destruct (pkg_list c p); auto.
    destruct (pkey_eqb (r_pkg d) p); simpl; auto.
Qed.
Lemma register_all_imports ds : forall c, c_imports (fold_left register_pkg ds c) = c_imports c.
Proof. induction ds as [|d t IH]; intros c; simpl; auto. rewrite IH. apply register_imports. Qed.

Lemma existsb_perm {A} (f : A -> bool) l l' : Permutation l l' -> existsb f l = existsb f l'.
Proof.
  induction 1; simpl; auto.
  - congruence.
  - destruct (f x), (f y); auto.
  - congruence.
Qed.

(* ---------- finding a version by key in a slice with distinct keys ---------- *)
Definition find_ver (vs : list version) (k : vkey) : option version := find (same_key k) vs.

Lemma same_key_true k w : same_key k w = true <-> v_key w = k.
Proof. unfold same_key. apply vkey_eqb_eq. Qed.
Lemma same_key_false k w : same_key k w = false <-> v_key w <> k.
Proof. unfold same_key. apply vkey_eqb_false. Qed.

Lemma find_ver_some vs k w : NoDup (map v_key vs) ->
  (find_ver vs k = Some w <-> In w vs /\ v_key w = k).
Proof.
  unfold find_ver. induction vs as [|x t IH]; simpl; intros ND.
  - split; [discriminate | intros [[] _]].
  - inversion ND as [|? ? Hnin ND']; subst.
    destruct (same_key k x) eqn:E.
    + apply same_key_true in E. split.
      * intros H; inversion H; subst; auto.
      * intros [[->|Hin] Hk]; auto.
        exfalso. apply Hnin. rewrite E, <- Hk. apply in_map; auto.
    + apply same_key_false in E. rewrite (IH ND'). split.
      * intros [H1 H2]; auto.
      * intros [[->|Hin] Hk]; [contradiction | auto].
Qed.

Lemma find_ver_none vs k : find_ver vs k = None <-> forall w, In w vs -> v_key w <> k.
Proof.
  unfold find_ver. split.
  - intros H w Hw. apply (find_none _ _ H) in Hw. apply same_key_false; auto.
  - intros H. induction vs as [|x t IH]; simpl; auto.
    destruct (same_key k x) eqn:E.
    + apply same_key_true in E. exfalso. apply (H x); simpl; auto.
    + apply IH. intros; apply H; simpl; auto.
Qed.

Lemma find_ver_perm vs vs' k : NoDup (map v_key vs) -> Permutation vs vs' -> find_ver vs k = find_ver vs' k.
Proof.
  intros ND Hp.
  assert (ND' : NoDup (map v_key vs')) by (eapply Permutation_NoDup; [apply Permutation_map; eauto | auto]).
  destruct (find_ver vs k) as [w|] eqn:E.
  - apply (find_ver_some _ _ _ ND) in E as [Hin Hk].
    symmetry. apply (find_ver_some _ _ _ ND'). split; auto. eapply Permutation_in; eauto.
  - symmetry. apply find_ver_none. intros w Hw.
    rewrite find_ver_none in E. apply E. eapply Permutation_in; [symmetry|]; eauto.
Qed.

Lemma NoDup_map_filter {A B} (f : A -> B) p l : NoDup (map f l) -> NoDup (map f (filter p l)).
Proof.
  induction l as [|x t IH]; simpl; intros ND; auto.
  inversion ND as [|? ? Hnin ND']; subst.
  destruct (p x); simpl; auto.
  constructor; auto. intros Hin. apply Hnin.
  apply in_map_iff in Hin as (y & Hy & Hin). apply filter_In in Hin as [Hin _].
  rewrite <- Hy. apply in_map; auto.
Qed.

Definition other_key (k : vkey) (w : version) : bool := negb (same_key k w).

Lemma filter_other_all vs k : (forall w, In w vs -> v_key w <> k) -> filter (other_key k) vs = vs.
Proof.
  induction vs as [|x t IH]; simpl; intros H; auto.
  unfold other_key at 1. rewrite (proj2 (same_key_false k x)) by (apply H; simpl; auto). simpl.
  rewrite IH by (intros; apply H; simpl; auto). reflexivity.
Qed.

(* replacing the (unique) entry of key k by v: v and the entries of other keys *)
Lemma map_replace_perm vs k (v : version) :
  NoDup (map v_key vs) -> existsb (same_key k) vs = true ->
  Permutation (map (fun w => if same_key k w then v else w) vs) (v :: filter (other_key k) vs).
Proof.
  induction vs as [|x t IH]; simpl; intros ND Hex; [discriminate|].
  inversion ND as [|? ? Hnin ND']; subst.
  unfold other_key at 1.
  destruct (same_key k x) eqn:E; simpl.
  - apply same_key_true in E.
    assert (Hall : forall w, In w t -> v_key w <> k).
    { intros w Hw Hk. apply Hnin. rewrite E, <- Hk. apply in_map; auto. }
    rewrite (filter_other_all t k Hall).
    replace (map (fun w => if same_key k w then v else w) t) with t; auto.
    clear -Hall. induction t as [|y t IH]; simpl; auto.
    rewrite (proj2 (same_key_false k y)) by (apply Hall; simpl; auto).
    f_equal. apply IH. intros; apply Hall; simpl; auto.
  - rewrite (IH ND' Hex). apply perm_swap.
Qed.

Lemma map_replace_none vs k (f : version -> version) :
  existsb (same_key k) vs = false -> map (fun w => if same_key k w then f w else w) vs = vs.
Proof.
  induction vs as [|x t IH]; simpl; intros H; auto.
  apply orb_false_iff in H as [H1 H2]. rewrite H1, IH; auto.
Qed.

Lemma existsb_same_key_false vs k : existsb (same_key k) vs = false -> forall w, In w vs -> v_key w <> k.
Proof.
  intros H w Hw. apply same_key_false.
  destruct (same_key k w) eqn:E; auto.
  assert (existsb (same_key k) vs = true) by (apply existsb_exists; eauto). congruence.
Qed.

Lemma variant_eq_current (v : addvar) : {v = Current} + {v <> Current}.
Proof. destruct v; [left | right | right]; congruence. Qed.
Lemma variant_eq_sort (v : addvar) : {v = FixAssignSort} + {v <> FixAssignSort}.
Proof. destruct v; [right | right | left]; congruence. Qed.

Section WithOracle.
  Variable O : oracle.
  Variable var : variant.

  (* ---------- the replace-or-insert step on one slice ---------- *)
  Lemma add_to_list_perm_fixed vs v :
    v_add var <> Current -> NoDup (map v_key vs) ->
    Permutation (add_to_list O var vs v) (v :: filter (other_key (v_key v)) vs).
  Proof.
    intros Hv ND. unfold add_to_list.
    destruct (existsb (same_key (v_key v)) vs) eqn:Ex.
    - assert (Hm : Permutation (map (fun w => if same_key (v_key v) w then v else w) vs)
                               (v :: filter (other_key (v_key v)) vs))
        by (apply map_replace_perm; auto).
      destruct (v_add var); [contradiction | exact Hm | rewrite sort_versions_perm; exact Hm].
    - rewrite sort_versions_perm.
      assert (Hm : map (fun w => if same_key (v_key v) w then match v_add var with Current => w | _ => v end else w) vs = vs).
      { apply (map_replace_none vs (v_key v) (fun w => match v_add var with Current => w | _ => v end)); auto. }
      rewrite Hm.
      rewrite (filter_other_all vs (v_key v)) by (apply existsb_same_key_false; auto).
      symmetry. apply Permutation_cons_append.
  Qed.

  (* the code before the repair: a repeated key leaves the slice as it was *)
  Lemma add_to_list_current vs v :
    v_add var = Current -> add_to_list O var vs v =
      if existsb (same_key (v_key v)) vs then vs else sort_versions (v_cfg var) O (vs ++ [v]).
  Proof.
    intros Hc. unfold add_to_list. rewrite Hc.
    assert (Hm : map (fun w => if same_key (v_key v) w then w else w) vs = vs).
    { clear. induction vs as [|x t IH]; simpl; auto. destruct (same_key (v_key v) x); f_equal; auto. }
    rewrite Hm. auto.
  Qed.

  Lemma add_to_list_perm_current vs v :
    v_add var = Current ->
    Permutation (add_to_list O var vs v) (if existsb (same_key (v_key v)) vs then vs else v :: vs).
  Proof.
    intros Hv. rewrite add_to_list_current by auto.
    destruct (existsb (same_key (v_key v)) vs); auto.
    rewrite sort_versions_perm. symmetry. apply Permutation_cons_append.
  Qed.

  Lemma add_to_list_nodup vs v : NoDup (map v_key vs) -> NoDup (map v_key (add_to_list O var vs v)).
  Proof.
    intros ND.
    destruct (variant_eq_current (v_add var)) as [Hc|Hc].
    - eapply Permutation_NoDup; [symmetry; apply Permutation_map, add_to_list_perm_current; auto|].
      destruct (existsb (same_key (v_key v)) vs) eqn:Ex; auto.
      simpl. constructor; auto. intros Hin. apply in_map_iff in Hin as (w & Hk & Hw).
      eapply existsb_same_key_false; eauto.
    - eapply Permutation_NoDup; [symmetry; apply Permutation_map, add_to_list_perm_fixed; auto|].
      simpl. constructor; [|apply NoDup_map_filter; auto].
      intros Hin. apply in_map_iff in Hin as (w & Hk & Hw). apply filter_In in Hw as [_ Hw].
      unfold other_key in Hw. apply negb_true_iff, same_key_false in Hw. contradiction.
  Qed.

  Lemma add_to_list_in vs v w : In w (add_to_list O var vs v) -> w = v \/ In w vs.
  Proof.
    unfold add_to_list; cbv zeta.
    set (rep := map (fun w0 => if same_key (v_key v) w0 then match v_add var with Current => w0 | _ => v end else w0) vs).
    assert (Hrep : forall x, In x rep -> x = v \/ In x vs).
    { intros x Hx. apply in_map_iff in Hx as (y & Hy & Hin).
      destruct (same_key (v_key v) y); [destruct (v_add var)|]; subst; auto. }
    intros H.
    destruct (existsb (same_key (v_key v)) vs).
    - apply Hrep. destruct (v_add var); auto.
      eapply Permutation_in; [apply (sort_versions_perm (v_cfg var) O)|]; exact H.
    - eapply Permutation_in in H; [|apply sort_versions_perm].
      apply in_app_iff in H as [H|[<-|[]]]; auto.
  Qed.
End WithOracle.

(* ====================================================================== *)
(* one operation *)
Section Steps.
  Variable O : oracle.
  Variable var : variant.

  (* every slice holds distinct keys, all of its own package *)
  Definition wf (c : client) : Prop :=
    forall p vs, pkg_list c p = Some vs -> NoDup (map v_key vs) /\ Forall (fun v => v_pkg v = p) vs.

  Lemma wf_empty : wf empty_client.
  Proof. intros p vs H. discriminate. Qed.

  Lemma wf_or_nil c p : wf c ->
    NoDup (map v_key (pkg_list_or_nil c p)) /\ Forall (fun v => v_pkg v = p) (pkg_list_or_nil c p).
  Proof.
    intros W. unfold pkg_list_or_nil. destruct (pkg_list c p) eqn:E; [apply (W _ _ E)|].
    split; constructor.
  Qed.

  Lemma add_version_pkg_list c v deps p : deleted v = false ->
    pkg_list (add_version O var c v deps) p =
      if pkey_eqb (v_pkg v) p then Some (add_to_list O var (pkg_list_or_nil c (v_pkg v)) v)
      else match pkg_list c p with
           | Some vs => Some vs
           | None => if existsb (fun d => pkey_eqb (r_pkg d) p) (sort_deps deps) then Some [] else None
           end.
  Proof.
    intros Hd. unfold add_version. rewrite Hd.
    rewrite register_all_list, pkg_list_set_imports, pkg_list_set_pkg.
    destruct (pkey_eqb (v_pkg v) p); auto.
  Qed.

  Lemma add_version_imports c v deps k : deleted v = false ->
    lookup vkey_eqb (c_imports (add_version O var c v deps)) k =
      if vkey_eqb (v_key v) k then Some (sort_deps deps) else lookup vkey_eqb (c_imports c) k.
  Proof.
    intros Hd. unfold add_version. rewrite Hd.
    rewrite register_all_imports, imports_set_imports, imports_set_pkg. auto.
  Qed.

  Lemma add_version_deleted c v deps : deleted v = true -> add_version O var c v deps = c.
  Proof. intros Hd. unfold add_version. rewrite Hd. auto. Qed.

  Lemma add_version_wf c v deps : wf c -> wf (add_version O var c v deps).
  Proof.
    intros W. destruct (deleted v) eqn:Hd; [rewrite add_version_deleted; auto|].
    intros p vs. rewrite add_version_pkg_list by auto.
    destruct (pkey_eqb (v_pkg v) p) eqn:Ep.
    - apply pkey_eqb_eq in Ep. subst p. intros H; inversion H; subst; clear H.
      destruct (wf_or_nil c (v_pkg v) W) as [ND FA]. split.
      + apply add_to_list_nodup; auto.
      + apply Forall_forall. intros w Hw. apply add_to_list_in in Hw as [->|Hw]; auto.
        rewrite Forall_forall in FA; auto.
    - destruct (pkg_list c p) eqn:E.
      + intros H; inversion H; subst. apply (W _ _ E).
      + destruct (existsb _ _); [|discriminate]. intros H; inversion H; subst. split; constructor.
  Qed.

  Lemma matching_spec c k :
    matching_versions O var c k =
      match pkg_list c (vk_pkg k) with
      | None => Err ENotFound
      | Some vs => Ok (match_requirement (v_cfg var) O k vs)
      end.
  Proof. reflexivity. Qed.

  Lemma step_wf c o : wf c -> wf (fst (step O var c o)).
  Proof. intros W. destruct o; simpl; auto. apply add_version_wf; auto. Qed.

  (* only AddVersion writes *)
  Lemma step_lookup_state c o : (forall v d, o <> HAdd v d) -> fst (step O var c o) = c.
  Proof. intros H. destruct o; auto. exfalso. eapply H; eauto. Qed.

  (* ---------- what one operation does to the three lookups ---------- *)
  Definition ver_lookup (c : client) (k : vkey) : option version :=
    find_ver (pkg_list_or_nil c (vk_pkg k)) k.
  Definition req_lookup (c : client) (k : vkey) : option (list reqver) := lookup vkey_eqb (c_imports c) k.
  Definition known (c : client) (p : pkey) : bool :=
    match pkg_list c p with Some _ => true | None => false end.

  Lemma version_of_lookup c k :
    version_of c k = match ver_lookup c k with Some v => Ok v | None => Err ENotFound end.
  Proof. reflexivity. Qed.
  Lemma requirements_of_lookup c k :
    requirements_of c k = match req_lookup c k with Some d => Ok d | None => Err ENotFound end.
  Proof. reflexivity. Qed.
  Lemma versions_of_known c p : (exists vs, versions_of c p = Ok vs) <-> known c p = true.
  Proof.
    unfold versions_of, known. destruct (pkg_list c p); split; intros H; eauto; try discriminate.
    destruct H; discriminate.
  Qed.

  Lemma find_ver_filter_other vs k k' : k' <> k -> find_ver (filter (other_key k') vs) k = find_ver vs k.
  Proof.
    intros Hk. unfold find_ver. induction vs as [|x t IH]; simpl; auto.
    unfold other_key at 1. destruct (same_key k' x) eqn:E; simpl.
    - apply same_key_true in E.
      rewrite (proj2 (same_key_false k x)) by congruence. auto.
    - destruct (same_key k x); auto.
  Qed.

  Lemma add_to_list_find vs v k : v_add var <> Current -> NoDup (map v_key vs) ->
    find_ver (add_to_list O var vs v) k = if vkey_eqb (v_key v) k then Some v else find_ver vs k.
  Proof.
    intros Hv ND.
    rewrite (find_ver_perm _ _ k (add_to_list_nodup O var vs v ND) (add_to_list_perm_fixed O var vs v Hv ND)).
    unfold find_ver at 1. simpl. unfold same_key at 1.
    destruct (vkey_eqb (v_key v) k) eqn:E; auto.
    apply find_ver_filter_other. apply vkey_eqb_false; auto.
  Qed.

  (* C14_add, version component: with the replace branch repaired, the addition overwrites *)
  Lemma ver_lookup_add c v deps k : v_add var <> Current -> wf c ->
    ver_lookup (add_version O var c v deps) k =
      if deleted v then ver_lookup c k
      else if vkey_eqb (v_key v) k then Some v else ver_lookup c k.
  Proof.
    intros Hv W. destruct (deleted v) eqn:Hd; [rewrite add_version_deleted; auto|].
    unfold ver_lookup, pkg_list_or_nil. rewrite add_version_pkg_list by auto.
    destruct (pkey_eqb (v_pkg v) (vk_pkg k)) eqn:Ep.
    - apply pkey_eqb_eq in Ep. rewrite <- Ep.
      rewrite add_to_list_find; auto. apply (wf_or_nil c (v_pkg v) W).
    - assert (E : vkey_eqb (v_key v) k = false).
      { apply vkey_eqb_false. intros Hk. apply pkey_eqb_false in Ep. apply Ep. rewrite <- Hk. reflexivity. }
      rewrite E. destruct (pkg_list c (vk_pkg k)); auto.
      destruct (existsb _ _); auto.
  Qed.

  (* C14_add, requirement component (every variant) *)
  Lemma req_lookup_add c v deps k :
    req_lookup (add_version O var c v deps) k =
      if deleted v then req_lookup c k
      else if vkey_eqb (v_key v) k then Some (sort_deps deps) else req_lookup c k.
  Proof.
    destruct (deleted v) eqn:Hd; [rewrite add_version_deleted; auto|].
    unfold req_lookup. apply add_version_imports; auto.
  Qed.

  (* C14_add, known packages (every variant) *)
  Lemma known_add c v deps p :
    known (add_version O var c v deps) p =
      if deleted v then known c p
      else known c p || pkey_eqb (v_pkg v) p || existsb (fun d => pkey_eqb (r_pkg d) p) deps.
  Proof.
    destruct (deleted v) eqn:Hd; [rewrite add_version_deleted; auto|].
    unfold known. rewrite add_version_pkg_list by auto.
    rewrite (existsb_perm _ _ _ (sort_deps_perm deps)).
    destruct (pkey_eqb (v_pkg v) p); [rewrite orb_true_r; auto|].
    destruct (pkg_list c p); simpl; auto.
    destruct (existsb _ deps); auto.
  Qed.

  (* ---------- histories ---------- *)
  Lemma run_snoc ops o : run O var (ops ++ [o]) = fst (step O var (run O var ops) o).
  Proof. unfold run, run_from. rewrite fold_left_app. auto. Qed.

  Lemma last_add_snoc ops o k :
    last_add (ops ++ [o]) k =
      match live_add o with
      | Some (v, d) => if vkey_eqb (v_key v) k then Some (v, d) else last_add ops k
      | None => last_add ops k
      end.
  Proof. unfold last_add. rewrite fold_left_app. auto. Qed.

  Lemma run_wf ops : wf (run O var ops).
  Proof.
    induction ops as [|o ops IH] using rev_ind; [apply wf_empty|].
    rewrite run_snoc. apply step_wf; auto.
  Qed.

  Lemma live_add_HAdd v d : live_add (HAdd v d) = if deleted v then None else Some (v, d).
  Proof. reflexivity. Qed.

  (* C14_version: the last addition wins *)
  Lemma run_ver_lookup ops k : v_add var <> Current ->
    ver_lookup (run O var ops) k = option_map fst (last_add ops k).
  Proof.
    intros Hv. induction ops as [|o ops IH] using rev_ind; auto.
    rewrite run_snoc, last_add_snoc.
    destruct o; try (simpl; exact IH).
    - simpl fst. rewrite ver_lookup_add by (auto; apply run_wf).
      rewrite live_add_HAdd. destruct (deleted v); auto.
      destruct (vkey_eqb (v_key v) k); auto.
  Qed.

  (* C14_requirements *)
  Lemma run_req_lookup ops k :
    req_lookup (run O var ops) k = option_map (fun vd => sort_deps (snd vd)) (last_add ops k).
  Proof.
    induction ops as [|o ops IH] using rev_ind; auto.
    rewrite run_snoc, last_add_snoc.
    destruct o; try (simpl; exact IH).
    - simpl fst. rewrite req_lookup_add.
      rewrite live_add_HAdd. destruct (deleted v); auto.
      destruct (vkey_eqb (v_key v) k); auto.
  Qed.

  (* C14_packages_known *)
  Lemma run_known ops p : known (run O var ops) p = existsb (fun o => mentions o p) ops.
  Proof.
    induction ops as [|o ops IH] using rev_ind; auto.
    rewrite run_snoc, existsb_app. simpl. rewrite orb_false_r.
    destruct o; try (simpl; unfold mentions; simpl; rewrite orb_false_r; exact IH).
    - simpl fst. rewrite known_add, IH. unfold mentions. rewrite live_add_HAdd.
      destruct (deleted v); [rewrite orb_false_r; auto|]. rewrite orb_assoc. auto.
  Qed.
End Steps.

(* ====================================================================== *)
(* the order of the slices *)
Section Order.
  Variable O : oracle.
  Variable var : variant.

  (* the hypothesis on the semver layer: Compare is a lawful three-way comparison on the
     strings that parse, in every system (property C01 is about exactly this) *)
  Definition laws_ok : Prop :=
    forall sys, cmp_laws (fun s => o_parses O sys s = true) (o_compare O sys).

  (* ascending ecosystem order *)
  Definition eco_sorted (sys : N) (vs : list version) : Prop :=
    if N.eqb sys sys_npm
    then exists base, StronglySorted (npm_le O) base /\ vs = reposition (v_cfg var) O base
    else StronglySorted (gen_le (v_cfg var) O sys) vs.

  (* the quantifier of the properties has unparsable version strings for npm only *)
  Definition add_parses (o : hop) : Prop :=
    match live_add o with
    | Some (v, _) => N.eqb (v_sys v) sys_npm = false -> o_parses O (v_sys v) (ver v) = true
    | None => True
    end.
  Definition add_concrete (o : hop) : Prop :=
    match live_add o with
    | Some (v, _) => vk_type (v_key v) = vt_concrete
    | None => True
    end.

  Definition ord_inv (c : client) : Prop :=
    forall p vs, pkg_list c p = Some vs ->
      if N.eqb (pk_sys p) sys_npm
      then v_add var = FixAssignSort -> eco_sorted (pk_sys p) vs
      else StronglySorted (gen_le (v_cfg var) O (pk_sys p)) vs /\ Forall (gen_parses O (pk_sys p)) vs.

  Lemma sort_versions_npm l :
    Forall (fun w => v_sys w = sys_npm) l -> sort_versions (v_cfg var) O l = sort_npm (v_cfg var) O l.
  Proof.
    intros H. destruct l as [|v0 t]; [reflexivity|]. unfold sort_versions.
    inversion H; subst. replace (v_sys v0) with sys_npm by auto. rewrite N.eqb_refl. auto.
  Qed.

  Lemma sort_versions_gen sys l :
    N.eqb sys sys_npm = false -> Forall (fun w => v_sys w = sys) l ->
    sort_versions (v_cfg var) O l = isort (gen_less (v_cfg var) O sys) l.
  Proof.
    intros Hs H. destruct l as [|v0 t]; [reflexivity|]. unfold sort_versions.
    inversion H; subst. rewrite Hs. auto.
  Qed.

  Lemma add_to_list_sorted_form vs v :
    v_add var = FixAssignSort \/ existsb (same_key (v_key v)) vs = false ->
    exists l, add_to_list O var vs v = sort_versions (v_cfg var) O l /\ (forall w, In w l -> w = v \/ In w vs) /\ l <> [].
  Proof.
    intros H. unfold add_to_list; cbv zeta.
    set (rep := map (fun w0 => if same_key (v_key v) w0 then match v_add var with Current => w0 | _ => v end else w0) vs).
    assert (Hrep : forall x, In x rep -> x = v \/ In x vs).
    { intros x Hx. apply in_map_iff in Hx as (y & Hy & Hin).
      destruct (same_key (v_key v) y); [destruct (v_add var)|]; subst; auto. }
    destruct (existsb (same_key (v_key v)) vs) eqn:Ex.
    - destruct H as [H|H]; [|discriminate]. rewrite H. exists rep. repeat split; auto.
      intros E. unfold rep in E. apply map_eq_nil in E. rewrite E in Ex. discriminate.
    - exists (rep ++ [v]). repeat split; auto.
      + intros w Hw. apply in_app_iff in Hw as [Hw|[<-|[]]]; auto.
      + intros E. apply app_eq_nil in E as [_ E]. discriminate.
  Qed.

  Lemma add_to_list_replaced_form vs v :
    v_add var <> FixAssignSort -> existsb (same_key (v_key v)) vs = true ->
    add_to_list O var vs v =
      map (fun w => if same_key (v_key v) w then match v_add var with Current => w | _ => v end else w) vs.
  Proof.
    intros Hv Ex. unfold add_to_list. rewrite Ex. destruct (v_add var); auto. contradiction.
  Qed.

  Lemma map_ver_sorted sys (f : version -> version) vs :
    (forall w, In w vs -> ver (f w) = ver w) ->
    StronglySorted (gen_le (v_cfg var) O sys) vs -> StronglySorted (gen_le (v_cfg var) O sys) (map f vs).
  Proof.
    intros Hf H. induction H as [|x t Ht IH Hx]; simpl; [constructor|].
    constructor.
    - apply IH. intros; apply Hf; simpl; auto.
    - rewrite Forall_forall in *. intros y Hy. apply in_map_iff in Hy as (z & <- & Hz).
      unfold gen_le. rewrite (gen_cmp_ver (v_cfg var) O sys (f x) (f z) x z) by (apply Hf; simpl; auto).
      apply Hx; auto.
  Qed.

  Lemma nil_eco_sorted sys : eco_sorted sys [].
  Proof.
    unfold eco_sorted. destruct (N.eqb sys sys_npm); [|constructor].
    exists []. split; [constructor | reflexivity].
  Qed.

  Section WithLaws.
    Hypothesis HL : laws_ok.

    Lemma sort_npm_eco l : eco_sorted sys_npm (sort_npm (v_cfg var) O l).
    Proof.
      unfold eco_sorted. rewrite N.eqb_refl. exists (isort (npm_less O) l). split; auto.
      apply isort_npm_sorted. apply HL.
    Qed.

    Lemma add_version_ord c v deps :
      wf c -> ord_inv c -> add_parses (HAdd v deps) -> ord_inv (add_version O var c v deps).
    Proof.
      intros W I Hp. destruct (deleted v) eqn:Hd; [rewrite add_version_deleted; auto|].
      unfold add_parses in Hp. rewrite live_add_HAdd, Hd in Hp.
      intros p vs. rewrite add_version_pkg_list by auto.
      destruct (pkey_eqb (v_pkg v) p) eqn:Ep.
      - apply pkey_eqb_eq in Ep. subst p. intros H; inversion H; subst; clear H.
        destruct (wf_or_nil c (v_pkg v) W) as [ND FA].
        assert (Iold : if N.eqb (pk_sys (v_pkg v)) sys_npm
                       then v_add var = FixAssignSort -> eco_sorted (pk_sys (v_pkg v)) (pkg_list_or_nil c (v_pkg v))
                       else StronglySorted (gen_le (v_cfg var) O (pk_sys (v_pkg v))) (pkg_list_or_nil c (v_pkg v)) /\
                            Forall (gen_parses O (pk_sys (v_pkg v))) (pkg_list_or_nil c (v_pkg v))).
        { unfold pkg_list_or_nil. destruct (pkg_list c (v_pkg v)) eqn:E; [apply (I _ _ E)|].
          destruct (N.eqb (pk_sys (v_pkg v)) sys_npm); [intros; apply nil_eco_sorted | split; constructor]. }
        set (old := pkg_list_or_nil c (v_pkg v)) in *.
        assert (Hsys : forall w, w = v \/ In w old -> v_sys w = pk_sys (v_pkg v)).
        { intros w [->|Hw]; auto. rewrite Forall_forall in FA. unfold v_sys. rewrite (FA w Hw). auto. }
        destruct (N.eqb (pk_sys (v_pkg v)) sys_npm) eqn:Es.
        + (* npm *)
          intros Hvar. destruct (add_to_list_sorted_form old v (or_introl Hvar)) as (l & -> & Hl & _).
          apply N.eqb_eq in Es.
          rewrite sort_versions_npm.
          * rewrite Es. apply sort_npm_eco.
          * apply Forall_forall. intros w Hw. rewrite <- Es. apply Hsys, Hl; auto.
        + (* the other systems *)
          destruct Iold as [Sold Pold].
          assert (Pv : gen_parses O (pk_sys (v_pkg v)) v) by (apply Hp; auto).
          destruct (existsb (same_key (v_key v)) old) eqn:Ex.
          * destruct (variant_eq_sort (v_add var)) as [Hvar|Hvar].
            -- destruct (add_to_list_sorted_form old v (or_introl Hvar)) as (l & -> & Hl & _).
               assert (Pl : Forall (gen_parses O (pk_sys (v_pkg v))) l).
               { apply Forall_forall. intros w Hw. destruct (Hl w Hw) as [->|Hin]; auto.
                 rewrite Forall_forall in Pold; auto. }
               rewrite (sort_versions_gen (pk_sys (v_pkg v))); auto.
               ++ split; [apply isort_gen_sorted; auto; apply HL|].
                  eapply Permutation_Forall; [symmetry; apply isort_perm | auto].
               ++ apply Forall_forall. intros w Hw. apply Hsys, Hl; auto.
            -- rewrite add_to_list_replaced_form by auto.
               assert (Hver : forall w, In w old ->
                         ver (if same_key (v_key v) w then match v_add var with Current => w | _ => v end else w) = ver w).
               { intros w Hw. destruct (same_key (v_key v) w) eqn:E; auto.
                 apply same_key_true in E. destruct (v_add var); auto; unfold ver; rewrite E; auto. }
               split; [apply map_ver_sorted; auto|].
               apply Forall_forall. intros y Hy. apply in_map_iff in Hy as (z & <- & Hz).
               unfold gen_parses. rewrite Hver by auto. rewrite Forall_forall in Pold. apply Pold; auto.
          * destruct (add_to_list_sorted_form old v (or_intror Ex)) as (l & -> & Hl & _).
            assert (Pl : Forall (gen_parses O (pk_sys (v_pkg v))) l).
            { apply Forall_forall. intros w Hw. destruct (Hl w Hw) as [->|Hin]; auto.
              rewrite Forall_forall in Pold; auto. }
            rewrite (sort_versions_gen (pk_sys (v_pkg v))); auto.
            -- split; [apply isort_gen_sorted; auto; apply HL|].
               eapply Permutation_Forall; [symmetry; apply isort_perm | auto].
            -- apply Forall_forall. intros w Hw. apply Hsys, Hl; auto.
      - destruct (pkg_list c p) eqn:E.
        + intros H; inversion H; subst. apply (I _ _ E).
        + destruct (existsb _ _); [|discriminate]. intros H; inversion H; subst.
          destruct (N.eqb (pk_sys p) sys_npm); [intros; apply nil_eco_sorted | split; constructor].
    Qed.

    Lemma run_ord ops : Forall add_parses ops -> ord_inv (run O var ops).
    Proof.
      induction ops as [|o ops IH] using rev_ind; intros H.
      - intros p vs E. discriminate.
      - apply Forall_app in H as [H1 H2]. inversion H2; subst.
        rewrite run_snoc. destruct o; try (simpl; auto; fail).
        + simpl. apply add_version_ord; auto. apply run_wf.
    Qed.
  End WithLaws.

  (* all versions are Concrete ones (needed only for uniqueness: a Concrete and a Requirement
     version of the same string would be two keys that no comparator separates) *)
  Definition conc_inv (c : client) : Prop :=
    forall p vs, pkg_list c p = Some vs -> Forall (fun v => vk_type (v_key v) = vt_concrete) vs.

  Lemma run_conc ops : Forall add_concrete ops -> conc_inv (run O var ops).
  Proof.
    induction ops as [|o ops IH] using rev_ind; intros H.
    - intros p vs E. discriminate.
    - apply Forall_app in H as [H1 H2]. inversion H2 as [|? ? Hc _]; subst.
      specialize (IH H1). rewrite run_snoc. destruct o; try (simpl; auto; fail).
      + simpl. destruct (deleted v) eqn:Hd; [rewrite add_version_deleted; auto|].
        unfold add_concrete in Hc. rewrite live_add_HAdd, Hd in Hc.
        intros p vs. rewrite add_version_pkg_list by auto.
        destruct (pkey_eqb (v_pkg v) p).
        * intros E; inversion E; subst. apply Forall_forall. intros w Hw.
          apply add_to_list_in in Hw as [->|Hw]; auto.
          unfold pkg_list_or_nil in Hw. destruct (pkg_list (run O var ops) (v_pkg v)) eqn:E'; [|destruct Hw].
          specialize (IH _ _ E'). rewrite Forall_forall in IH; auto.
        * destruct (pkg_list (run O var ops) p) eqn:E'.
          -- intros E; inversion E; subst. apply (IH _ _ E').
          -- destruct (existsb _ _); [|discriminate]. intros E; inversion E; constructor.
  Qed.

  Lemma nodup_ver p vs :
    NoDup (map v_key vs) -> Forall (fun v => v_pkg v = p) vs ->
    Forall (fun v => vk_type (v_key v) = vt_concrete) vs -> NoDup (map ver vs).
  Proof.
    induction vs as [|x t IH]; simpl; intros ND FP FC; [constructor|].
    apply NoDup_cons_iff in ND as [Hnin ND'].
    apply Forall_cons_iff in FP as [Px Pt]. apply Forall_cons_iff in FC as [Cx Ct].
    constructor; auto.
    intros Hin. apply Hnin. apply in_map_iff in Hin as (y & Hy & Hin).
    apply in_map_iff. exists y. split; auto.
    rewrite Forall_forall in Pt, Ct.
    pose proof (Pt y Hin) as Py. pose proof (Ct y Hin) as Cy.
    unfold v_pkg, ver in *.
    destruct (v_key y) as [py ty vy], (v_key x) as [px tx vx]. simpl in *. congruence.
  Qed.
End Order.

(* ====================================================================== *)
(* what Versions returns, and that it is determined by the set of live versions *)
Section Final.
  Variable O : oracle.
  Variable var : variant.

  Lemma versions_members ops p vs : v_add var <> Current ->
    versions_of (run O var ops) p = Ok vs ->
    NoDup (map v_key vs) /\
    forall v, In v vs <-> (v_pkg v = p /\ option_map fst (last_add ops (v_key v)) = Some v).
  Proof.
    intros Hv H. unfold versions_of in H.
    destruct (pkg_list (run O var ops) p) eqn:E; inversion H; subst; clear H.
    destruct (run_wf O var ops _ _ E) as [ND FA]. split; auto.
    intros v. rewrite <- (run_ver_lookup O var ops (v_key v) Hv).
    unfold ver_lookup, pkg_list_or_nil. change (vk_pkg (v_key v)) with (v_pkg v).
    split.
    - intros Hin. rewrite Forall_forall in FA. pose proof (FA v Hin) as Pv. split; auto.
      rewrite Pv, E. apply find_ver_some; auto.
    - intros [Pv Hl]. rewrite Pv, E in Hl. apply find_ver_some in Hl; tauto.
  Qed.

  Lemma versions_sorted ops p vs :
    laws_ok O -> Forall (add_parses O) ops ->
    v_add var = FixAssignSort \/ N.eqb (pk_sys p) sys_npm = false ->
    versions_of (run O var ops) p = Ok vs -> eco_sorted O var (pk_sys p) vs.
  Proof.
    intros HL HP Hc H. unfold versions_of in H.
    destruct (pkg_list (run O var ops) p) eqn:E; inversion H; subst; clear H.
    pose proof (run_ord O var HL ops HP _ _ E) as I. unfold eco_sorted in *.
    destruct (N.eqb (pk_sys p) sys_npm) eqn:Es.
    - destruct Hc as [Hc|Hc]; [|discriminate]. exact (I Hc).
    - apply I.
  Qed.

  Lemma versions_not_found ops p :
    versions_of (run O var ops) p = Err ENotFound <-> existsb (fun o => mentions o p) ops = false.
  Proof.
    rewrite <- (run_known O var ops p). unfold versions_of, known.
    destruct (pkg_list (run O var ops) p); split; intros; auto; discriminate.
  Qed.
End Final.

Section Canonical.
  Variable O : oracle.
  Variable var : variant.
  Hypothesis HL : laws_ok O.

  (* Two histories that leave the same live versions in a package return the same slice
     for it: the order of the slice does not remember the order of the additions.  For
     Maven and PyPI this needs the side condition of F-C12-1. *)
  Lemma versions_canonical ops1 ops2 p vs1 vs2 :
    v_add var <> Current ->
    v_add var = FixAssignSort \/ N.eqb (pk_sys p) sys_npm = false ->
    Forall (add_parses O) ops1 -> Forall (add_parses O) ops2 ->
    Forall add_concrete ops1 -> Forall add_concrete ops2 ->
    (forall k, vk_pkg k = p -> option_map fst (last_add ops1 k) = option_map fst (last_add ops2 k)) ->
    (N.eqb (pk_sys p) sys_npm = false -> separated (v_cfg var) O (pk_sys p) vs1) ->
    versions_of (run O var ops1) p = Ok vs1 ->
    versions_of (run O var ops2) p = Ok vs2 ->
    vs1 = vs2.
  Proof.
    intros Hv Hc P1 P2 C1 C2 Hsame NE H1 H2.
    destruct (versions_members O var ops1 p vs1 Hv H1) as [ND1 M1].
    destruct (versions_members O var ops2 p vs2 Hv H2) as [ND2 M2].
    pose proof (versions_sorted O var ops1 p vs1 HL P1 Hc H1) as S1.
    pose proof (versions_sorted O var ops2 p vs2 HL P2 Hc H2) as S2.
    assert (Hp : Permutation vs1 vs2).
    { apply NoDup_Permutation.
      - eapply NoDup_map_inv; eauto.
      - eapply NoDup_map_inv; eauto.
      - intros v. rewrite M1, M2. split; intros [Pv Hl]; split; auto.
        + rewrite <- Hsame; auto.
        + rewrite Hsame; auto. }
    unfold versions_of in H1, H2.
    destruct (pkg_list (run O var ops1) p) eqn:E1; inversion H1; subst; clear H1.
    destruct (pkg_list (run O var ops2) p) eqn:E2; inversion H2; subst; clear H2.
    destruct (run_wf O var ops1 _ _ E1) as [_ FA1].
    pose proof (run_conc O var ops1 C1 _ _ E1) as FC1.
    pose proof (nodup_ver p vs1 ND1 FA1 FC1) as NV1.
    unfold eco_sorted in S1, S2.
    destruct (N.eqb (pk_sys p) sys_npm) eqn:Es.
    - destruct S1 as (b1 & Sb1 & ->). destruct S2 as (b2 & Sb2 & ->).
      assert (Hpb : Permutation b1 b2).
      { rewrite <- (reposition_perm (v_cfg var) O b1), <- (reposition_perm (v_cfg var) O b2). auto. }
      assert (NVb : NoDup (map ver b1)).
      { eapply Permutation_NoDup; [apply Permutation_map; apply reposition_perm | exact NV1]. }
      f_equal.
      apply (sorted_perm_unique (fun _ => True) (npm_cmp O) (npm_cmp_laws O (HL sys_npm))); auto.
      + apply Forall_forall; auto.
      + apply npm_separates; auto.
    - pose proof (run_ord O var HL ops1 P1 _ _ E1) as I1. rewrite Es in I1. destruct I1 as [_ PP1].
      apply (gen_sorted_unique (v_cfg var) O (pk_sys p) (HL (pk_sys p))); auto.
  Qed.

  (* ... and so does MatchingVersions, which is a function of that slice *)
  Lemma matching_canonical ops1 ops2 k vs1 vs2 :
    versions_of (run O var ops1) (vk_pkg k) = Ok vs1 ->
    versions_of (run O var ops2) (vk_pkg k) = Ok vs2 ->
    vs1 = vs2 ->
    matching_versions O var (run O var ops1) k = matching_versions O var (run O var ops2) k.
  Proof.
    intros H1 H2 E. rewrite !matching_spec. unfold versions_of in *.
    destruct (pkg_list (run O var ops1) (vk_pkg k)); inversion H1; subst.
    destruct (pkg_list (run O var ops2) (vk_pkg k)); inversion H2; subst. auto.
  Qed.
End Canonical.

(* ====================================================================== *)
(* witnesses *)
Local Open Scope N_scope.
Definition mkv (sys : N) (name : bytes) (s : bytes) (attrs : list (Z * bytes)) : version :=
  {| v_key := {| vk_pkg := {| pk_sys := sys; pk_name := name |}; vk_type := vt_concrete; vk_ver := s |};
     v_attrs := vset_of_pairs attrs |}.

Definition mkvar (a : addvar) (C : mcfg) : variant := {| v_add := a; v_cfg := C |}.
Definition var_old : variant := mkvar Current cfg_old.           (* before any repair *)
Definition var_repaired : variant := mkvar FixAssignSort cfg_repaired.

(* F-C14-1 on the code before the repair: a Maven version added twice, the second time with a
   different attribute; Version still answers with the first.  No oracle is consulted. *)
Definition w_stale_v1 : version := mkv sys_maven [97] [49] [(ver_tags, [120])].
Definition w_stale_v2 : version := mkv sys_maven [97] [49] [(ver_tags, [121])].
Definition w_stale : list hop := [HAdd w_stale_v1 []; HAdd w_stale_v2 []].

Lemma stale_witness O C :
  option_map fst (last_add w_stale (v_key w_stale_v2)) = Some w_stale_v2 /\
  version_of (run O (mkvar Current C) w_stale) (v_key w_stale_v2) = Ok w_stale_v1 /\
  w_stale_v1 <> w_stale_v2.
Proof. repeat split; try reflexivity. discriminate. Qed.

(* a small oracle for the examples: every string parses, nothing is a prerelease, versions
   compare as byte strings, no requirement string is a constraint *)
Definition demo_oracle : oracle := {|
  o_parses := fun _ _ => true;
  o_prerelease := fun _ _ => false;
  o_compare := fun _ a b => bytes_compare a b;
  o_constraint := fun _ _ => false;
  o_match := fun _ _ _ => false |}.

Lemma demo_laws : laws_ok demo_oracle.
Proof. intros sys. apply core_laws. apply (core_weaken (fun _ => True)); [intros; exact I | apply bytes_core]. Qed.

(* The one-token repair alone: npm versions 1 (tagged latest) and 2, then 1 again without
   the tag.  The slice stays in the order computed for the old tags. *)
Definition w_resort : list hop :=
  [HAdd (mkv sys_npm [97] [49] [(ver_tags, s_latest)]) [];
   HAdd (mkv sys_npm [97] [50] []) [];
   HAdd (mkv sys_npm [97] [49] []) []].
Definition w_resort_pkg : pkey := {| pk_sys := sys_npm; pk_name := [97] |}.

Lemma resort_witness :
  exists vs, versions_of (run demo_oracle (mkvar FixAssign cfg_repaired) w_resort) w_resort_pkg = Ok vs /\
             sort_versions cfg_repaired demo_oracle vs <> vs /\
             versions_of (run demo_oracle var_repaired w_resort) w_resort_pkg = Ok (sort_versions cfg_repaired demo_oracle vs).
Proof. eexists. split; [reflexivity|]. split; [vm_compute; discriminate | reflexivity]. Qed.

(* F-C12-1 at the client: the same two PyPI versions added in the two possible orders,
   under a lawful comparator that does not separate them (1.0 and 1.0.0): the final sets
   of live versions agree, Versions and MatchingVersions do not. *)
Definition w_tie_1 : list hop := [HAdd w_a []; HAdd w_b []].
Definition w_tie_2 : list hop := [HAdd w_b []; HAdd w_a []].
Definition w_tie_req : vkey :=
  {| vk_pkg := {| pk_sys := sys_pypi; pk_name := [112] |}; vk_type := vt_requirement; vk_ver := [62;61;49] |}.

Lemma last_add_two a b k : deleted a = false -> deleted b = false -> v_key a <> v_key b ->
  option_map fst (last_add [HAdd a []; HAdd b []] k) = option_map fst (last_add [HAdd b []; HAdd a []] k).
Proof.
  intros Da Db Hk. unfold last_add. simpl. rewrite Da, Db.
  destruct (vkey_eqb (v_key a) k) eqn:E1, (vkey_eqb (v_key b) k) eqn:E2; auto.
  apply vkey_eqb_eq in E1, E2. congruence.
Qed.

Lemma client_tie_witness :
  (forall k, option_map fst (last_add w_tie_1 k) = option_map fst (last_add w_tie_2 k)) /\
  Forall add_concrete w_tie_1 /\ Forall add_concrete w_tie_2 /\
  matching_versions tie_oracle (mkvar FixAssignSort cfg_old) (run tie_oracle (mkvar FixAssignSort cfg_old) w_tie_1) w_tie_req = Ok [w_a; w_b] /\
  matching_versions tie_oracle (mkvar FixAssignSort cfg_old) (run tie_oracle (mkvar FixAssignSort cfg_old) w_tie_2) w_tie_req = Ok [w_b; w_a].
Proof.
  split; [intros k; apply last_add_two; try reflexivity; discriminate|].
  repeat split; repeat constructor.
Qed.

(* with the tie-break both orders of insertion give the same slice and the same matches *)
Lemma client_tie_repaired :
  matching_versions tie_oracle var_repaired (run tie_oracle var_repaired w_tie_1) w_tie_req = Ok [w_a; w_b] /\
  matching_versions tie_oracle var_repaired (run tie_oracle var_repaired w_tie_2) w_tie_req = Ok [w_a; w_b].
Proof. split; reflexivity. Qed.

(* the hypotheses of versions_canonical are satisfiable: two Maven versions, both orders *)
Definition w_c1 : version := mkv sys_maven [97] [49] [].
Definition w_c2 : version := mkv sys_maven [97] [50] [(ver_tags, [120])].
Lemma canonical_example :
  let p := {| pk_sys := sys_maven; pk_name := [97] |} in
  let h1 := [HAdd w_c1 []; HAdd w_c2 []] in
  let h2 := [HAdd w_c2 []; HAdd w_c1 []] in
  Forall (add_parses demo_oracle) h1 /\ Forall (add_parses demo_oracle) h2 /\
  Forall add_concrete h1 /\ Forall add_concrete h2 /\
  (forall k, vk_pkg k = p -> option_map fst (last_add h1 k) = option_map fst (last_add h2 k)) /\
  versions_of (run demo_oracle var_repaired h1) p = Ok [w_c1; w_c2] /\
  versions_of (run demo_oracle var_repaired h2) p = Ok [w_c1; w_c2] /\
  separated cfg_repaired demo_oracle sys_maven [w_c1; w_c2].
Proof.
  cbv zeta. repeat split; try (repeat constructor; fail).
  intros k _. apply last_add_two; try reflexivity; discriminate.
Qed.

(* ====================================================================== *)
(* the statements in the form Properties/C14.v quotes *)
Lemma run_version_of O var ops k : v_add var <> Current ->
  version_of (run O var ops) k =
    match last_add ops k with Some (v, _) => Ok v | None => Err ENotFound end.
Proof.
  intros Hv. rewrite version_of_lookup, run_ver_lookup by auto.
  destruct (last_add ops k) as [[v d]|]; auto.
Qed.

Lemma run_requirements_of O var ops k :
  requirements_of (run O var ops) k =
    match last_add ops k with Some (_, d) => Ok (sort_deps d) | None => Err ENotFound end.
Proof.
  rewrite requirements_of_lookup, run_req_lookup.
  destruct (last_add ops k) as [[v d]|]; auto.
Qed.

Lemma run_packages_known O var ops o v d :
  In o ops -> live_add o = Some (v, d) ->
  (exists vs, versions_of (run O var ops) (v_pkg v) = Ok vs) /\
  (forall r, In r d -> exists vs, versions_of (run O var ops) (r_pkg r) = Ok vs).
Proof.
  intros Hin Hl. split; [|intros r Hr]; apply versions_of_known; rewrite run_known;
    apply existsb_exists; exists o; split; auto; unfold mentions; rewrite Hl.
  - rewrite pkey_eqb_refl. auto.
  - apply orb_true_iff. right. apply existsb_exists. exists r. split; auto. apply pkey_eqb_refl.
Qed.

Lemma add_current_refuted C :
  ~ (forall O c v deps k, wf c ->
       ver_lookup (add_version O (mkvar Current C) c v deps) k =
         if deleted v then ver_lookup c k else if vkey_eqb (v_key v) k then Some v else ver_lookup c k).
Proof.
  intros H.
  specialize (H demo_oracle (run demo_oracle (mkvar Current C) [HAdd w_stale_v1 []]) w_stale_v2 [] (v_key w_stale_v2)
                (run_wf demo_oracle (mkvar Current C) _)).
  vm_compute in H. discriminate.
Qed.

(* the requirements come back in npm resolution order when the first one given is an npm
   requirement, and as given otherwise *)
Lemma sort_deps_order ds :
  Permutation (sort_deps ds) ds /\
  match ds with
  | [] => sort_deps ds = []
  | d0 :: _ => if N.eqb (r_sys d0) sys_npm then StronglySorted dep_le (sort_deps ds) else sort_deps ds = ds
  end.
Proof.
  split; [apply sort_deps_perm|]. destruct ds as [|d0 t]; auto.
  destruct (N.eqb (r_sys d0) sys_npm) eqn:E; [apply sort_deps_npm_sorted | apply sort_deps_other]; auto.
Qed.

(* ====================================================================== *)
(* npm: the latest rule is decided on the package, not on the match *)
Lemma sort_npm_latest_on_list C O vs pre y post :
  isort (npm_less O) vs = pre ++ y :: post ->
  has_latest C y = true -> forallb (fun v => negb (has_latest C v)) post = true ->
  sort_npm C O vs =
    if is_pre O y && existsb (fun v => negb (is_pre O v)) vs then pre ++ y :: post else pre ++ post ++ [y].
Proof.
  intros Hb Hy Hpost. unfold sort_npm.
  rewrite (reposition_latest C O _ pre y post Hb Hy Hpost).
  rewrite (existsb_perm _ _ _ (isort_perm (npm_less O) vs)). rewrite Hb. reflexivity.
Qed.

Lemma matching_latest_on_package O var c k vs pre y post :
  N.eqb (pk_sys (vk_pkg k)) sys_npm = true ->
  pkg_list c (vk_pkg k) = Some vs ->
  isort (npm_less O) vs = pre ++ y :: post ->
  has_latest (v_cfg var) y = true -> forallb (fun v => negb (has_latest (v_cfg var) v)) post = true ->
  let ordered := if is_pre O y && existsb (fun v => negb (is_pre O v)) vs
                 then pre ++ y :: post else pre ++ post ++ [y] in
  matching_versions O var c k =
    Ok (if o_constraint O sys_npm (vk_ver k)
        then filter (satisfies O sys_npm (vk_ver k)) ordered
        else firstn 1 (filter (satisfies O sys_npm (vk_ver k)) ordered)).
Proof.
  intros Hs Hp Hb Hy Hpost ordered. rewrite matching_spec, Hp. unfold match_requirement. rewrite Hs.
  rewrite match_npm_spec. rewrite (sort_npm_latest_on_list (v_cfg var) O vs pre y post Hb Hy Hpost).
  reflexivity.
Qed.

(* a re-addition without requirements leaves none *)
Lemma readd_empty_requirements O var ops v :
  deleted v = false -> requirements_of (run O var (ops ++ [HAdd v []])) (v_key v) = Ok [].
Proof.
  intros Hd. rewrite run_requirements_of, last_add_snoc, live_add_HAdd, Hd, vkey_eqb_refl. reflexivity.
Qed.

Lemma last_add_empty_requirements O var ops k v :
  last_add ops k = Some (v, []) -> requirements_of (run O var ops) k = Ok [].
Proof. intros H. rewrite run_requirements_of, H. reflexivity. Qed.

(* examples *)
Local Open Scope N_scope.
(* every string parses; a version is a prerelease when it holds a hyphen; versions compare as
   byte strings; every requirement is a constraint that matches the versions it is a prefix of *)
Definition pre_oracle : oracle := {|
  o_parses := fun _ _ => true;
  o_prerelease := fun _ v => contains [45] v;
  o_compare := fun _ a b => bytes_compare a b;
  o_constraint := fun _ _ => true;
  o_match := fun _ r v => has_prefix r v |}.

Lemma pre_oracle_laws : laws_ok pre_oracle.
Proof. intros sys. apply core_laws. apply (core_weaken (fun _ => True)); [intros; exact I | apply bytes_core]. Qed.

Definition e_100 : version := mkv sys_npm [97] [49;46;48;46;48] [].                       (* 1.0.0 *)
Definition e_200a : version := mkv sys_npm [97] [50;46;48;46;48;45;97] [(ver_tags, s_latest)].   (* 2.0.0-a, latest *)
Definition e_200b : version := mkv sys_npm [97] [50;46;48;46;48;45;98] [].                (* 2.0.0-b *)
Definition e_hist : list hop := [HAdd e_200b []; HAdd e_100 []; HAdd e_200a []].
Definition e_req : vkey :=                                                              (* requirement 2: only the prereleases *)
  {| vk_pkg := {| pk_sys := sys_npm; pk_name := [97] |}; vk_type := vt_requirement; vk_ver := [50] |}.

(* the package has a release (1.0.0), the match has none: 2.0.0-a stays in place.  Decided on the
   match alone, the tagged prerelease would have been moved last. *)
Lemma latest_on_package_example :
  versions_of (run pre_oracle var_repaired e_hist) (vk_pkg e_req) = Ok [e_100; e_200a; e_200b] /\
  matching_versions pre_oracle var_repaired (run pre_oracle var_repaired e_hist) e_req = Ok [e_200a; e_200b] /\
  sort_npm cfg_repaired pre_oracle [e_200a; e_200b] = [e_200b; e_200a].
Proof. repeat split. Qed.

Definition e_dep : reqver :=
  {| r_key := {| vk_pkg := {| pk_sys := sys_npm; pk_name := [98] |}; vk_type := vt_requirement; vk_ver := [42] |};
     r_type := vset_empty |}.
Lemma readd_empty_example :
  requirements_of (run pre_oracle var_repaired [HAdd e_100 [e_dep]]) (v_key e_100) = Ok [e_dep] /\
  requirements_of (run pre_oracle var_repaired [HAdd e_100 [e_dep]; HVersions (v_pkg e_100); HAdd e_100 []]) (v_key e_100) = Ok [].
Proof. split; reflexivity. Qed.

(* npm, repaired client: the stored slice is already in npm order, so a match is a selection
   from what Versions lists *)
Lemma versions_npm_fixpoint O var ops p vs :
  laws_ok O -> v_add var = FixAssignSort -> N.eqb (pk_sys p) sys_npm = true ->
  Forall (add_parses O) ops -> Forall add_concrete ops ->
  versions_of (run O var ops) p = Ok vs -> sort_npm (v_cfg var) O vs = vs.
Proof.
  intros HL Hv Hs HP HC H. unfold versions_of in H.
  destruct (pkg_list (run O var ops) p) eqn:E; inversion H; subst; clear H.
  destruct (run_wf O var ops _ _ E) as [ND FA].
  pose proof (nodup_ver p vs ND FA (run_conc O var ops HC _ _ E)) as NV.
  pose proof (run_ord O var HL ops HP _ _ E) as I. rewrite Hs in I. specialize (I Hv).
  unfold eco_sorted in I. rewrite Hs in I. destruct I as (base & Sb & Ev).
  assert (Hp : Permutation vs base) by (rewrite Ev; apply reposition_perm).
  assert (NVb : NoDup (map ver base)) by (eapply Permutation_NoDup; [apply Permutation_map; exact Hp | exact NV]).
  unfold sort_npm.
  rewrite (isort_npm_perm_unique O (HL sys_npm) vs base NV Hp).
  rewrite <- (isort_npm_is_the_sorted_perm O (HL sys_npm) base base NVb (Permutation_refl _) Sb).
  symmetry. exact Ev.
Qed.

Lemma matching_selects_from_versions O var ops k vs :
  laws_ok O -> v_add var = FixAssignSort -> N.eqb (pk_sys (vk_pkg k)) sys_npm = true ->
  Forall (add_parses O) ops -> Forall add_concrete ops ->
  versions_of (run O var ops) (vk_pkg k) = Ok vs ->
  matching_versions O var (run O var ops) k =
    Ok (if o_constraint O sys_npm (vk_ver k)
        then filter (satisfies O sys_npm (vk_ver k)) vs
        else firstn 1 (filter (satisfies O sys_npm (vk_ver k)) vs)).
Proof.
  intros HL Hv Hs HP HC H.
  pose proof (versions_npm_fixpoint O var ops (vk_pkg k) vs HL Hv Hs HP HC H) as Fx.
  rewrite matching_spec. unfold versions_of in H.
  destruct (pkg_list (run O var ops) (vk_pkg k)); inversion H; subst.
  unfold match_requirement. rewrite Hs, match_npm_spec, Fx. reflexivity.
Qed.

(* the other systems: the stored slice is ascending, so sorting a copy of it (matchRequirement)
   changes nothing and a match is the selection from what Versions lists *)
Lemma versions_gen_fixpoint O var ops p vs :
  laws_ok O -> N.eqb (pk_sys p) sys_npm = false ->
  Forall (add_parses O) ops -> Forall add_concrete ops ->
  separated (v_cfg var) O (pk_sys p) vs ->
  versions_of (run O var ops) p = Ok vs -> sort_versions (v_cfg var) O vs = vs.
Proof.
  intros HL Hs HP HC Sep H. unfold versions_of in H.
  destruct (pkg_list (run O var ops) p) eqn:E; inversion H; subst; clear H.
  destruct (run_wf O var ops _ _ E) as [ND FA].
  pose proof (nodup_ver p vs ND FA (run_conc O var ops HC _ _ E)) as NV.
  pose proof (run_ord O var HL ops HP _ _ E) as I. rewrite Hs in I. destruct I as [Ss Ps].
  assert (Hsys : Forall (fun v => v_sys v = pk_sys p) vs).
  { apply Forall_forall. intros v Hv. rewrite Forall_forall in FA. unfold v_sys. rewrite (FA v Hv). reflexivity. }
  rewrite (sort_versions_gen_eq (v_cfg var) O (pk_sys p) vs Hs Hsys). symmetry.
  apply (isort_is_the_sorted_perm (gen_parses O (pk_sys p)) (gen_cmp (v_cfg var) O (pk_sys p))
           (gen_less (v_cfg var) O (pk_sys p)) (gen_cmp_laws (v_cfg var) O (pk_sys p) (HL (pk_sys p)))); auto.
  - intros; apply gen_less_cmp; auto.
  - apply gen_separates; auto.
Qed.

Lemma matching_selects_from_versions_gen O var ops k vs :
  laws_ok O -> N.eqb (pk_sys (vk_pkg k)) sys_npm = false ->
  Forall (add_parses O) ops -> Forall add_concrete ops ->
  separated (v_cfg var) O (pk_sys (vk_pkg k)) vs ->
  versions_of (run O var ops) (vk_pkg k) = Ok vs ->
  matching_versions O var (run O var ops) k =
    Ok (filter (satisfies O (pk_sys (vk_pkg k)) (vk_ver k)) vs).
Proof.
  intros HL Hs HP HC Sep H.
  pose proof (versions_gen_fixpoint O var ops (vk_pkg k) vs HL Hs HP HC Sep H) as Fx.
  rewrite matching_spec. unfold versions_of in H.
  destruct (pkg_list (run O var ops) (vk_pkg k)); inversion H; subst.
  unfold match_requirement. rewrite Hs, match_generic_spec by auto.
  unfold match_input. destruct (match_sorts (v_cfg var)); [rewrite Fx|]; reflexivity.
Qed.

(* where the version tagged latest stands in what Versions returns (npm, repaired client) *)
Lemma versions_latest_position O var ops p vs pre y post :
  laws_ok O -> v_add var = FixAssignSort -> N.eqb (pk_sys p) sys_npm = true ->
  Forall (add_parses O) ops -> Forall add_concrete ops ->
  versions_of (run O var ops) p = Ok vs ->
  isort (npm_less O) vs = pre ++ y :: post ->
  has_latest (v_cfg var) y = true -> forallb (fun v => negb (has_latest (v_cfg var) v)) post = true ->
  vs = if is_pre O y && existsb (fun v => negb (is_pre O v)) vs then pre ++ y :: post else pre ++ post ++ [y].
Proof.
  intros HL Hv Hs HP HC H Hb Hy Hpost.
  rewrite <- (sort_npm_latest_on_list (v_cfg var) O vs pre y post Hb Hy Hpost).
  symmetry. eapply versions_npm_fixpoint; eauto.
Qed.

(* the requirement list returned does not remember the order in which it was given *)
Lemma requirements_order_insensitive O var ops1 ops2 k v1 d1 v2 d2 :
  last_add ops1 k = Some (v1, d1) -> last_add ops2 k = Some (v2, d2) ->
  Forall (fun d => r_sys d = sys_npm) d1 -> deps_separated d1 -> Permutation d1 d2 ->
  requirements_of (run O var ops1) k = requirements_of (run O var ops2) k.
Proof.
  intros H1 H2 Hs Sep Hp. rewrite !run_requirements_of, H1, H2.
  rewrite (sort_deps_perm_unique d1 d2 Hs Sep Hp). reflexivity.
Qed.

Local Open Scope N_scope.
Definition mk_dep (name : bytes) (ty : list (Z * bytes)) : reqver :=
  {| r_key := {| vk_pkg := {| pk_sys := sys_npm; pk_name := name |}; vk_type := vt_requirement; vk_ver := [42] |};
     r_type := vset_of_pairs ty |}.
Definition e_d1 : reqver := mk_dep [102;111;111;95;98;97;114] [].           (* foo_bar *)
Definition e_d2 : reqver := mk_dep [102;111;111;98;97;114] [].              (* foobar *)
Definition e_d3 : reqver := mk_dep [65] [(dep_dev, [])].                    (* A, development only *)
Definition e_t1 : reqver := mk_dep [120] [].                                (* x *)
Definition e_t2 : reqver := mk_dep [98] [(dep_knownas, [120])].             (* b known as x *)

Lemma deps_order_example :
  deps_separated [e_d3; e_d2; e_d1] /\
  sort_deps [e_d3; e_d2; e_d1] = [e_d1; e_d2; e_d3] /\ sort_deps [e_d2; e_d1; e_d3] = [e_d1; e_d2; e_d3].
Proof.
  split; [|split; reflexivity].
  intros a b Ha Hb _ Hn. simpl in Ha, Hb.
  destruct Ha as [<-|[<-|[<-|[]]]], Hb as [<-|[<-|[<-|[]]]]; auto; vm_compute in Hn; discriminate.
Qed.

(* two requirements shown under one name are not separated: their order is the order given *)
Lemma deps_ties_witness :
  dep_cmp e_t1 e_t2 = 0%Z /\ e_t1 <> e_t2 /\
  sort_deps [e_t1; e_t2] = [e_t1; e_t2] /\ sort_deps [e_t2; e_t1] = [e_t2; e_t1].
Proof. repeat split. discriminate. Qed.
