(* Executable model of util/resolve/npm/resolve.go (the npm resolver), parametric in the client.
   Definitions only; proofs are in Npm_proofs.v, statements in Properties/C06.v.

   Conventions (DESIGN 3, 7):
   - a Go string is [bytes]; a package key is its name (every key the resolver sees carries
     System NPM: Resolve rejects any other root, and the modelled clients answer NPM keys);
   - attribute sets (dep.Type, version.AttrSet) are their canonical dumps [list (Z * bytes)]:
     flag keys first (-1, -2, -4, ...), then valued keys in increasing order.  Equality of
     dumps is equality of sets (C19);
   - the pointer tree of treeNode values is a list of nodes, a pointer is an index (tid);
     new nodes are appended, nothing is ever removed from the list (a node created for an
     installation that is then refused stays in the list, detached, as Go garbage);
   - Go maps are association lists with replace-on-insert; the only places where Go iterates
     over a map (candidate for aliases, protected, the final sweep) are existence tests or are
     sorted afterwards, so the order is not observable;
   - client calls and the two direct uses of package semver (ParseConstraint + Match on a
     version string) are Section variables: every definition and theorem is for EVERY client;
   - loops that follow parent pointers or a work queue take explicit fuel;
   - [s_log] is a ghost field: one entry per edge added to the graph, naming the tree nodes
     involved.  Nothing reads it. *)
From DepsDev Require Import Lib.Base Gen.AttrTables.

(* ---------- attribute dumps ---------- *)
Definition attrs := list (Z * bytes).

Fixpoint attr_get (k : Z) (a : attrs) : option bytes :=
  match a with
  | [] => None
  | (k', v) :: a' => if Z.eqb k k' then Some v else attr_get k a'
  end.

Definition attr_has (k : Z) (a : attrs) : bool :=
  match attr_get k a with Some _ => true | None => false end.

(* SetAttr/AddAttr of a valued key (k >= 0) on a canonical dump *)
Fixpoint attr_set (k : Z) (v : bytes) (a : attrs) : attrs :=
  match a with
  | [] => [(k, v)]
  | (k', v') :: a' =>
      if (k' <? 0)%Z then (k', v') :: attr_set k v a'
      else if (k' <? k)%Z then (k', v') :: attr_set k v a'
      else if Z.eqb k' k then (k, v) :: a'
      else (k, v) :: a
  end.

Fixpoint attrs_eqb (a b : attrs) : bool :=
  match a, b with
  | [], [] => true
  | (k, v) :: a', (k', v') :: b' => Z.eqb k k' && bytes_eqb v v' && attrs_eqb a' b'
  | _, _ => false
  end.

(* attr.Set.IsRegular: no flag and no valued attribute *)
Definition is_regular (a : attrs) : bool := match a with [] => true | _ => false end.

(* key numbers come from the tables regenerated from dep/key.go and version/key.go *)
Fixpoint key_lookup (tbl : list (bytes * Z)) (name : bytes) : option Z :=
  match tbl with
  | [] => None
  | (n, z) :: t => if bytes_eqb n name then Some z else key_lookup t name
  end.
Definition key_or_zero (o : option Z) : Z := match o with Some z => z | None => 0%Z end.

Definition K_Dev : Z := Eval vm_compute in key_or_zero (key_lookup dep_keys [68;101;118]).
Definition K_Opt : Z := Eval vm_compute in key_or_zero (key_lookup dep_keys [79;112;116]).
Definition K_Scope : Z := Eval vm_compute in key_or_zero (key_lookup dep_keys [83;99;111;112;101]).
Definition K_KnownAs : Z := Eval vm_compute in key_or_zero (key_lookup dep_keys [75;110;111;119;110;65;115]).
Definition K_Selector : Z := Eval vm_compute in key_or_zero (key_lookup dep_keys [83;101;108;101;99;116;111;114]).
Definition K_Blocked : Z := Eval vm_compute in key_or_zero (key_lookup ver_keys [66;108;111;99;107;101;100]).
Definition K_DerivedFrom : Z :=
  Eval vm_compute in key_or_zero (key_lookup ver_keys [68;101;114;105;118;101;100;70;114;111;109]).
(* every name above is present in the regenerated tables *)
Definition keys_present : bool :=
  forallb (fun o => match o with Some _ => true | None => false end)
    [key_lookup dep_keys [68;101;118]; key_lookup dep_keys [79;112;116];
     key_lookup dep_keys [83;99;111;112;101]; key_lookup dep_keys [75;110;111;119;110;65;115];
     key_lookup dep_keys [83;101;108;101;99;116;111;114];
     key_lookup ver_keys [66;108;111;99;107;101;100];
     key_lookup ver_keys [68;101;114;105;118;101;100;70;114;111;109]].

(* ---------- keys, versions, requirements ---------- *)
Record vkey := VK { vk_name : bytes; vk_type : N; vk_ver : bytes }.
Definition T_Concrete : N := 1.
Definition T_Requirement : N := 2.

Definition vkey_eqb (a b : vkey) : bool :=
  bytes_eqb (vk_name a) (vk_name b) && N.eqb (vk_type a) (vk_type b) && bytes_eqb (vk_ver a) (vk_ver b).

Record version := V { v_key : vkey; v_attr : attrs }.
Definition zero_version : version := V (VK [] 0 []) [].

(* resolve.Version.Equal: same key, or (!) equal attribute sets *)
Definition v_equal (v w : version) : bool :=
  vkey_eqb (v_key v) (v_key w) || attrs_eqb (v_attr v) (v_attr w).

Record req := R { r_key : vkey; r_type : attrs }.
Definition r_name (d : req) : bytes := vk_name (r_key d).
Definition r_ver (d : req) : bytes := vk_ver (r_key d).
(* alias, _ := idep.Type.GetAttr(dep.KnownAs) *)
Definition r_alias (d : req) : bytes :=
  match attr_get K_KnownAs (r_type d) with Some a => a | None => [] end.

Definition s_star : bytes := [42].                      (* "*" *)
Definition s_latest : bytes := [108;97;116;101;115;116]. (* "latest" *)
Definition s_bundle : bytes := [98;117;110;100;108;101]. (* "bundle" *)
Definition s_peer : bytes := [112;101;101;114].          (* "peer" *)

(* error kinds (never compared beyond err/no err, except NotFound which the resolver tests) *)
Definition E_NotFound : N := 1.
Definition E_Other : N := 2.
Definition E_BadRoot : N := 3.
Definition E_Graph : N := 4.      (* AddEdge/AddError on a node that is not in the graph *)
Definition E_Internal : N := 9.   (* a tree index outside the tree: impossible, see tree_ok *)
(* node error kinds *)
Definition NE_NoMatch : N := 1.       (* could not find a version that satisfies ... *)
Definition NE_TwoVersions : N := 2.   (* cannot install two versions of this package at the same level *)
Definition NE_Unreachable : N := 3.   (* unreachable version ... installed under ... *)

(* ---------- small list utilities ---------- *)
Fixpoint memb (x : bytes) (l : list bytes) : bool :=
  match l with [] => false | y :: l' => bytes_eqb x y || memb x l' end.
Definition add_set (x : bytes) (l : list bytes) : list bytes := if memb x l then l else x :: l.

Fixpoint assoc {A} (k : bytes) (l : list (bytes * A)) : option A :=
  match l with
  | [] => None
  | (k', v) :: l' => if bytes_eqb k k' then Some v else assoc k l'
  end.
Fixpoint assoc_del {A} (k : bytes) (l : list (bytes * A)) : list (bytes * A) :=
  match l with
  | [] => []
  | (k', v) :: l' => if bytes_eqb k k' then assoc_del k l' else (k', v) :: assoc_del k l'
  end.
Definition assoc_set {A} (k : bytes) (v : A) (l : list (bytes * A)) : list (bytes * A) :=
  (k, v) :: assoc_del k l.

Fixpoint upd {A} (i : nat) (f : A -> A) (l : list A) : list A :=
  match l, i with
  | [], _ => []
  | x :: l', O => f x :: l'
  | x :: l', S i' => x :: upd i' f l'
  end.

Fixpoint filter_map {A B} (f : A -> option B) (l : list A) : list B :=
  match l with
  | [] => []
  | x :: l' => match f x with Some y => y :: filter_map f l' | None => filter_map f l' end
  end.

(* the part of s after the last occurrence of byte c (the whole of s when c does not occur):
   mangled[strings.LastIndex(mangled, ">")+1:] *)
Fixpoint after_last (c : N) (s : bytes) : bytes :=
  match s with
  | [] => []
  | x :: s' => if N.eqb x c then after_last c s'
               else if existsb (N.eqb c) s' then after_last c s' else s
  end.

Fixpoint last_opt {A} (l : list A) : option A :=
  match l with [] => None | [x] => Some x | _ :: l' => last_opt l' end.

(* ---------- the install tree ---------- *)
Record bundled := {
  b_version : version;     (* the derived (mangled) version *)
  b_alias : bytes;
  b_from_ver : version;    (* derivedFromVersion *)
  b_from_pkg : bytes }.    (* derivedFromPackage *)

Record tnode := {
  t_processed : bool;
  t_ver : version;
  t_pkg : bytes;
  t_ideps : list req;
  t_parent : option nat;
  t_children : list (bytes * nat);
  t_alias : list (bytes * nat);
  t_prot : list bytes;
  t_aprot : list bytes;
  t_id : nat;
  t_bundled : option bundled }.

Definition set_processed (n : tnode) : tnode :=
  {| t_processed := true; t_ver := t_ver n; t_pkg := t_pkg n; t_ideps := t_ideps n; t_parent := t_parent n;
     t_children := t_children n; t_alias := t_alias n; t_prot := t_prot n; t_aprot := t_aprot n;
     t_id := t_id n; t_bundled := t_bundled n |}.
Definition set_parent (p : nat) (n : tnode) : tnode :=
  {| t_processed := t_processed n; t_ver := t_ver n; t_pkg := t_pkg n; t_ideps := t_ideps n; t_parent := Some p;
     t_children := t_children n; t_alias := t_alias n; t_prot := t_prot n; t_aprot := t_aprot n;
     t_id := t_id n; t_bundled := t_bundled n |}.
Definition set_children (c : list (bytes * nat)) (n : tnode) : tnode :=
  {| t_processed := t_processed n; t_ver := t_ver n; t_pkg := t_pkg n; t_ideps := t_ideps n; t_parent := t_parent n;
     t_children := c; t_alias := t_alias n; t_prot := t_prot n; t_aprot := t_aprot n;
     t_id := t_id n; t_bundled := t_bundled n |}.
Definition set_alias (c : list (bytes * nat)) (n : tnode) : tnode :=
  {| t_processed := t_processed n; t_ver := t_ver n; t_pkg := t_pkg n; t_ideps := t_ideps n; t_parent := t_parent n;
     t_children := t_children n; t_alias := c; t_prot := t_prot n; t_aprot := t_aprot n;
     t_id := t_id n; t_bundled := t_bundled n |}.
Definition add_prot (k : bytes) (n : tnode) : tnode :=
  {| t_processed := t_processed n; t_ver := t_ver n; t_pkg := t_pkg n; t_ideps := t_ideps n; t_parent := t_parent n;
     t_children := t_children n; t_alias := t_alias n; t_prot := add_set k (t_prot n); t_aprot := t_aprot n;
     t_id := t_id n; t_bundled := t_bundled n |}.
Definition add_aprot (k : bytes) (n : tnode) : tnode :=
  {| t_processed := t_processed n; t_ver := t_ver n; t_pkg := t_pkg n; t_ideps := t_ideps n; t_parent := t_parent n;
     t_children := t_children n; t_alias := t_alias n; t_prot := t_prot n; t_aprot := add_set k (t_aprot n);
     t_id := t_id n; t_bundled := t_bundled n |}.
Definition set_id (i : nat) (n : tnode) : tnode :=
  {| t_processed := t_processed n; t_ver := t_ver n; t_pkg := t_pkg n; t_ideps := t_ideps n; t_parent := t_parent n;
     t_children := t_children n; t_alias := t_alias n; t_prot := t_prot n; t_aprot := t_aprot n;
     t_id := i; t_bundled := t_bundled n |}.
Definition add_child (k : bytes) (c : nat) (n : tnode) : tnode := set_children (assoc_set k c (t_children n)) n.
Definition del_child (k : bytes) (n : tnode) : tnode := set_children (assoc_del k (t_children n)) n.
Definition add_alias (k : bytes) (c : nat) (n : tnode) : tnode := set_alias (assoc_set k c (t_alias n)) n.

Definition getn (tree : list tnode) (i : nat) : res tnode :=
  match nth_error tree i with Some n => Ok n | None => Err E_Internal end.

(* resolver.candidate: the entry of directory [n] that a requirement on package [ipk]
   (installed under [alias] when that is not empty) would load; the boolean is "unaliased" *)
Definition candidate (n : tnode) (ipk alias : bytes) : option (nat * bool) :=
  match alias with
  | [] => match assoc ipk (t_children n) with
          | Some c => Some (c, true)
          | None => match assoc ipk (t_alias n) with Some c => Some (c, false) | None => None end
          end
  | _ => match assoc alias (t_alias n) with
         | Some c => Some (c, false)
         | None => match assoc alias (t_children n) with Some c => Some (c, false) | None => None end
         end
  end.

(* resolver.protected *)
Definition protectedb (n : tnode) (ipk alias : bytes) : bool :=
  match alias with
  | [] => memb ipk (t_prot n) || memb ipk (t_aprot n)
  | _ => memb alias (t_aprot n) || memb alias (t_prot n)
  end.

(* ---------- the graph ---------- *)
Record edge := { e_from : nat; e_to : nat; e_req : bytes; e_type : attrs }.
Record nerror := { ne_node : nat; ne_req : vkey; ne_kind : N }.
(* edges and errors are kept newest first (Go appends); the observables sort them *)
Record graph := { g_nodes : list vkey; g_edges : list edge; g_errors : list nerror }.

Definition add_node (g : graph) (vk : vkey) : graph * nat :=
  ({| g_nodes := g_nodes g ++ [vk]; g_edges := g_edges g; g_errors := g_errors g |}, length (g_nodes g)).

Definition add_edge (g : graph) (from to : nat) (rq : bytes) (ty : attrs) : res graph :=
  if Nat.ltb from (length (g_nodes g)) && Nat.ltb to (length (g_nodes g))
  then Ok {| g_nodes := g_nodes g;
             g_edges := {| e_from := from; e_to := to; e_req := rq; e_type := ty |} :: g_edges g;
             g_errors := g_errors g |}
  else Err E_Graph.

Definition add_error (g : graph) (n : nat) (rq : vkey) (kind : N) : res graph :=
  if Nat.ltb n (length (g_nodes g))
  then Ok {| g_nodes := g_nodes g; g_edges := g_edges g;
             g_errors := {| ne_node := n; ne_req := rq; ne_kind := kind |} :: g_errors g |}
  else Err E_Graph.

(* dt := idep.Type.Clone(); dt.AddAttr(dep.Selector, "") *)
Definition selector (ty : attrs) : attrs := attr_set K_Selector [] ty.

(* ghost: one entry per edge *)
Record logent := { l_from : nat; l_req : req; l_to : nat; l_fresh : bool }.

Record state := { s_tree : list tnode; s_g : graph; s_log : list logent }.

Section Client.
  Variable c_version : vkey -> res version.
  Variable c_requirements : vkey -> res (list req).
  Variable c_matching : vkey -> res (list version).
  (* semver.NPM.ParseConstraint(c) then c.Match(v): Err when the constraint does not parse *)
  Variable sem_match : bytes -> bytes -> res bool.

  (* getBundledVersion (never fails: client errors mean "not bundled") *)
  Definition get_bundled (d : req) : option bundled :=
    if negb (is_regular (r_type d)) then None
    else match c_matching (r_key d) with
         | Ok [v] =>
             match attr_get K_DerivedFrom (v_attr v) with
             | Some name =>
                 let al := after_last 62 (r_name d) in
                 Some {| b_version := v;
                         b_alias := if bytes_eqb al name then [] else al;
                         b_from_ver := V (VK name (vk_type (v_key v)) (vk_ver (v_key v))) (v_attr v);
                         b_from_pkg := name |}
             | None => None
             end
         | _ => None
         end.

  (* regularImports: which requirements of a version are resolved *)
  Definition keep_import (optp regp : list bytes) (d : req) : bool :=
    negb (attr_has K_Dev (r_type d))
    && negb (negb (attr_has K_Opt (r_type d)) && memb (r_name d) optp)
    && match get_bundled d with Some _ => false | None => true end
    && match attr_get K_Scope (r_type d) with
       | Some sc => if bytes_eqb sc s_bundle then negb (memb (r_name d) regp)
                    else negb (bytes_eqb sc s_peer)
       | None => true
       end.

  Definition regular_imports (imps : list req) : list req :=
    let nd := filter (fun d => negb (attr_has K_Dev (r_type d))) imps in
    let optp := map r_name (filter (fun d => attr_has K_Opt (r_type d)) nd) in
    let regp := map r_name (filter (fun d => is_regular (r_type d)) nd) in
    filter (keep_import optp regp) imps.

  (* newTreeNode *)
  Definition new_tree_node (ver : version) : res tnode :=
    reqs <- c_requirements (v_key ver) ;;
    Ok {| t_processed := false; t_ver := ver; t_pkg := vk_name (v_key ver);
          t_ideps := regular_imports reqs; t_parent := None; t_children := []; t_alias := [];
          t_prot := []; t_aprot := []; t_id := O; t_bundled := None |}.

  Definition bundled_node (bv : bundled) (parent : nat) (cn : tnode) : tnode :=
    {| t_processed := false; t_ver := b_from_ver bv; t_pkg := b_from_pkg bv; t_ideps := t_ideps cn;
       t_parent := Some parent; t_children := []; t_alias := []; t_prot := []; t_aprot := [];
       t_id := O; t_bundled := Some bv |}.

  (* injectDerivedFrom: pre-seed the bundle content of version [v] under tree node [nid] *)
  Fixpoint inject (fuel : nat) (tree : list tnode) (nid : nat) (v : version) : res (list tnode) :=
    match fuel with
    | O => OutOfFuel
    | S f =>
        deps <- c_requirements (v_key v) ;;
        (fix go (bvs : list bundled) (tree : list tnode) : res (list tnode) :=
           match bvs with
           | [] => Ok tree
           | bv :: rest =>
               cn <- new_tree_node (b_version bv) ;;
               let cid := length tree in
               let tree1 := tree ++ [bundled_node bv nid cn] in
               let tree2 := upd nid (match b_alias bv with
                                     | [] => add_child (b_from_pkg bv) cid
                                     | al => add_alias al cid
                                     end) tree1 in
               tree3 <- inject f tree2 cid (b_version bv) ;;
               go rest tree3
           end) (filter_map get_bundled deps) tree
    end.

  (* concreteForLatest *)
  Definition concrete_for_latest (v : version) : version :=
    match c_matching (VK (vk_name (v_key v)) T_Requirement s_latest) with
    | Ok [l] => l
    | _ => zero_version
    end.

  (* the loop over dvers from the end: first version that is the latest or is not blocked *)
  Fixpoint pick_from (latest : version) (rev_dvers : list version) : option version :=
    match rev_dvers with
    | [] => None
    | v :: rest => if v_equal v latest then Some v
                   else if negb (attr_has K_Blocked (v_attr v)) then Some v
                   else pick_from latest rest
    end.
  Definition pick_version (would_pick : version) (dvers : list version) : version :=
    match pick_from (concrete_for_latest would_pick) (rev dvers) with Some v => v | None => would_pick end.

  (* The walk up from [cur] looking for an installed copy.  Result: the node that resolves
     the requirement (if any), installHere, and the tree (a mismatching bundled copy at the
     level of [cur] is deleted). *)
  Fixpoint walk (fuel : nat) (tree : list tnode) (cur node : nat) (d : req) (dvers : list version)
      : res (option nat * bool * list tnode) :=
    match fuel with
    | O => OutOfFuel
    | S f =>
        nn <- getn tree node ;;
        match candidate nn (r_name d) (r_alias d) with
        | None => match t_parent nn with
                  | Some p => walk f tree cur p d dvers
                  | None => Ok (None, false, tree)
                  end
        | Some (child, true) =>
            cn <- getn tree child ;;
            let r0 := if existsb (fun dv => vkey_eqb (v_key (t_ver cn)) (v_key dv)) dvers
                      then Some child else None in
            let r1 := if bytes_eqb (r_ver d) s_star then Some child else r0 in
            match c_version (v_key (t_ver cn)) with
            | Ok _ => Ok (r1, false, tree)
            | Err e =>
                if N.eqb e E_NotFound then
                  match t_bundled cn with
                  | None => Ok (r1, false, tree)
                  | Some b =>
                      m <- sem_match (r_ver d) (vk_ver (v_key (b_from_ver b))) ;;
                      if m then Ok (Some child, false, tree)
                      else if Nat.eqb node cur then
                        match t_parent cn with
                        | None => Panic PNilDeref
                        | Some cp => Ok (r1, true, upd cp (del_child (b_from_pkg b)) tree)
                        end
                      else Ok (r1, false, tree)
                  end
                else Err e
            | Panic p => Panic p
            | OutOfFuel => OutOfFuel
            end
        | Some (child, false) =>
            cn <- getn tree child ;;
            m <- sem_match (r_ver d) (vk_ver (v_key (t_ver cn))) ;;
            Ok ((if m then Some child else None), false, tree)
        end
    end.

  (* mark protected every node from [p] up to (excluding) the first one that has the entry *)
  Fixpoint mark (fuel : nat) (tree : list tnode) (p : nat) (ipk alias : bytes) : res (list tnode) :=
    match fuel with
    | O => OutOfFuel
    | S f =>
        pn <- getn tree p ;;
        match candidate pn ipk alias with
        | Some _ => Ok tree
        | None =>
            let tree' := upd p (match alias with [] => add_prot ipk | _ => add_aprot alias end) tree in
            match t_parent pn with
            | Some pp => mark f tree' pp ipk alias
            | None => Ok tree'
            end
        end
    end.

  (* Find parent for the new node: climb while the slot above is free and not protected *)
  Fixpoint hoist (fuel : nat) (tree : list tnode) (parent : nat) (pkg alias : bytes)
      : res (list tnode * nat) :=
    match fuel with
    | O => OutOfFuel
    | S f =>
        pn <- getn tree parent ;;
        match t_parent pn with
        | None => Ok (tree, parent)
        | Some pp =>
            ppn <- getn tree pp ;;
            match candidate ppn pkg alias with
            | Some _ => Ok (tree, parent)
            | None =>
                if protectedb ppn pkg alias then Ok (tree, parent)
                else hoist f (upd parent (add_prot pkg) tree) pp pkg alias
            end
        end
    end.

  Definition with_graph (st : state) (tree : list tnode) (g : graph) : state :=
    {| s_tree := tree; s_g := g; s_log := s_log st |}.
  Definition with_edge (st : state) (tree : list tnode) (g : graph) (l : logent) : state :=
    {| s_tree := tree; s_g := g; s_log := l :: s_log st |}.

  (* one requirement of the node being processed: body of the inner loop *)
  Definition step_dep (ifuel : nat) (st : state) (cur : nat) (d : req) (insq : list nat) : res (state * list nat) :=
    let tree := s_tree st in
    let g := s_g st in
    let wf := S (length tree) in
    dvers <- c_matching (r_key d) ;;
    let ipk := r_name d in
    let alias := r_alias d in
    w <- walk wf tree cur cur d dvers ;;
    let '(resolved, install_here, tree1) := w in
    match resolved with
    | Some r =>
        rn <- getn tree1 r ;;
        let insq1 := if t_processed rn then insq else insq ++ [r] in
        tree2 <- mark wf tree1 cur ipk alias ;;
        curn <- getn tree2 cur ;;
        if Nat.eqb (t_id rn) 0 && (match t_parent rn with Some _ => true | None => false end) then
          match t_bundled rn with
          | None => Panic PNilDeref
          | Some b =>
              let '(g1, id) := add_node g (v_key (b_version b)) in
              let tree3 := upd r (set_id id) tree2 in
              g2 <- add_edge g1 (t_id curn) id (r_ver d) (selector (r_type d)) ;;
              Ok (with_edge st tree3 g2 {| l_from := cur; l_req := d; l_to := r; l_fresh := false |}, insq1)
          end
        else
          g2 <- add_edge g (t_id curn) (t_id rn) (r_ver d) (r_type d) ;;
          Ok (with_edge st tree2 g2 {| l_from := cur; l_req := d; l_to := r; l_fresh := false |}, insq1)
    | None =>
        curn <- getn tree1 cur ;;
        match last_opt dvers with
        | None =>
            g1 <- add_error g (t_id curn) (r_key d) NE_NoMatch ;;
            Ok (with_graph st tree1 g1, insq)
        | Some would_pick =>
            let pick := pick_version would_pick dvers in
            node <- new_tree_node pick ;;
            let nid := length tree1 in
            tree2 <- inject ifuel (tree1 ++ [node]) nid pick ;;
            match candidate curn (t_pkg node) alias with
            | Some _ =>
                g1 <- add_error g (t_id curn) (r_key d) NE_TwoVersions ;;
                Ok (with_graph st tree2 g1, insq)
            | None =>
                h <- (if install_here then Ok (tree2, cur) else hoist (S (length tree2)) tree2 cur (t_pkg node) alias) ;;
                let '(tree3, parent) := h in
                pn <- getn tree3 parent ;;
                if (match t_parent pn with Some _ => true | None => false end)
                   && bytes_eqb (t_pkg pn) (t_pkg node) then
                  g1 <- add_error g (t_id curn) (r_key d) NE_Unreachable ;;
                  Ok (with_graph st tree3 g1, insq)
                else
                  let tree4 := upd parent (match alias with
                                           | [] => add_child (t_pkg node) nid
                                           | _ => add_alias alias nid
                                           end) tree3 in
                  let '(g1, id) := add_node g (v_key (t_ver node)) in
                  let tree5 := upd nid (fun n => set_id id (set_parent parent n)) tree4 in
                  g2 <- add_edge g1 (t_id curn) id (r_ver d) (selector (r_type d)) ;;
                  Ok (with_edge st tree5 g2 {| l_from := cur; l_req := d; l_to := nid; l_fresh := true |},
                      insq ++ [nid])
            end
        end
    end.

  Fixpoint process_deps (ifuel : nat) (st : state) (cur : nat) (ideps : list req) (insq : list nat)
      : res (state * list nat) :=
    match ideps with
    | [] => Ok (st, insq)
    | d :: rest =>
        r <- step_dep ifuel st cur d insq ;;
        process_deps ifuel (fst r) cur rest (snd r)
    end.

  (* the main loop; [q] is the queue as a stack (head = end of the Go slice) *)
  Fixpoint outer (ifuel fuel : nat) (st : state) (q : list nat) : res state :=
    match q with
    | [] => Ok st
    | cur :: q' =>
        match fuel with
        | O => OutOfFuel
        | S f =>
            curn <- getn (s_tree st) cur ;;
            if t_processed curn then outer ifuel f st q'
            else
              let st1 := {| s_tree := upd cur set_processed (s_tree st); s_g := s_g st; s_log := s_log st |} in
              r <- process_deps ifuel st1 cur (t_ideps curn) [] ;;
              outer ifuel f (fst r) (snd r ++ q')
        end
    end.

  (* the final sweep for bundled versions nobody used; items are name ++ " " ++ version *)
  Fixpoint sweep (fuel : nat) (tree : list tnode) (stack : list nat) (errs : list bytes) : res (list bytes) :=
    match stack with
    | [] => Ok errs
    | cur :: rest =>
        match fuel with
        | O => OutOfFuel
        | S f =>
            n <- getn tree cur ;;
            if Nat.eqb (t_id n) 0 && (match t_parent n with Some _ => true | None => false end) then
              match t_bundled n with
              | None => Panic PNilDeref
              | Some b =>
                  sweep f tree rest
                    ((vk_name (v_key (b_from_ver b)) ++ [32] ++ vk_ver (v_key (b_from_ver b))) :: errs)
              end
            else sweep f tree (map snd (t_children n) ++ rest) errs
        end
    end.

  Fixpoint insert_sorted (x : bytes) (l : list bytes) : list bytes :=
    match l with
    | [] => [x]
    | y :: l' => if (bytes_compare x y <=? 0)%Z then x :: l else y :: insert_sorted x l'
    end.
  Definition sort_bytes (l : list bytes) : list bytes := fold_right insert_sorted [] l.

  Record result := { r_graph : graph; r_tree : list tnode; r_gerror : list bytes; r_log : list logent }.

  (* resolver.Resolve *)
  Definition resolve (fuel : nat) (vk : vkey) : res result :=
    if negb (N.eqb (vk_type vk) T_Concrete) then Err E_BadRoot
    else
      v <- c_version vk ;;
      root <- new_tree_node v ;;
      let '(g, id) := add_node {| g_nodes := []; g_edges := []; g_errors := [] |} vk in
      tree <- inject fuel [set_id id root] O (t_ver root) ;;
      st <- outer fuel fuel {| s_tree := tree; s_g := g; s_log := [] |} [O] ;;
      errs <- sweep fuel (s_tree st) [O] [] ;;
      Ok {| r_graph := s_g st; r_tree := s_tree st; r_gerror := sort_bytes errs; r_log := s_log st |}.
End Client.
