(* Model of util/resolve/client.go: LocalClient.  Definitions only; lemmas in Client_proofs.v.

   The client is a store of ordered lists (DESIGN 3.4): PackageVersions maps a package to
   its slice of versions, imports maps a version key to its slice of requirements.  A Go
   map is an association list read front to back and written by consing, so that
   [lookup (update m k v) k' = if k = k' then Some v else lookup m k'] holds by computation.
   The four lookups leave the store unchanged (matchNPMRequirement sorts a copy of the slice
   it is handed), so only AddVersion writes.

   [v_add] of the variant selects the replace branch of AddVersion:
     Current        versions[i] = w   the code in the tree (F-C14-1: stores the old value back)
     FixAssign      versions[i] = v   the one-token repair
     FixAssignSort  versions[i] = v and SortVersions also after a replacement *)
From DepsDev Require Import Lib.Base Lib.Sort Gen.ResolveTables Resolve.Attr Resolve.MatchReq.

Inductive addvar := Current | FixAssign | FixAssignSort.

(* the variant of the code under consideration: the replace branch of AddVersion and the
   state of match.go (MatchReq.mcfg).  The check selects it by replaying the recorded
   witnesses on the Go tree, so the model follows the tree. *)
Record variant := { v_add : addvar; v_cfg : mcfg }.

Section Maps.
  Context {K V : Type} (eqb : K -> K -> bool).
  Fixpoint lookup (m : list (K * V)) (k : K) : option V :=
    match m with
    | [] => None
    | (k', v) :: m' => if eqb k' k then Some v else lookup m' k
    end.
  Definition update (m : list (K * V)) (k : K) (v : V) : list (K * V) := (k, v) :: m.
End Maps.

Record client := {
  c_pkgs : list (pkey * list version);      (* PackageVersions *)
  c_imports : list (vkey * list reqver)     (* imports *)
}.
Definition empty_client : client := {| c_pkgs := []; c_imports := [] |}.

Definition pkg_list (c : client) (p : pkey) : option (list version) := lookup pkey_eqb (c_pkgs c) p.
Definition set_pkg (c : client) (p : pkey) (vs : list version) : client :=
  {| c_pkgs := update (c_pkgs c) p vs; c_imports := c_imports c |}.
Definition set_imports (c : client) (k : vkey) (ds : list reqver) : client :=
  {| c_pkgs := c_pkgs c; c_imports := update (c_imports c) k ds |}.

(* Go's m[k] on a missing key: the nil slice *)
Definition pkg_list_or_nil (c : client) (p : pkey) : list version :=
  match pkg_list c p with Some vs => vs | None => [] end.

Definition deleted (v : version) : bool := vset_has (v_attrs v) ver_deleted.
Definition same_key (k : vkey) (w : version) : bool := vkey_eqb (v_key w) k.

(* "for _, d := range deps: if absent, PackageVersions[d.PackageKey] = []Version{}" *)
Definition register_pkg (c : client) (d : reqver) : client :=
  match pkg_list c (r_pkg d) with
  | Some _ => c
  | None => set_pkg c (r_pkg d) []
  end.

(* ---------- histories ---------- *)
Inductive hop :=
| HAdd (v : version) (deps : list reqver)
| HVersion (k : vkey)
| HVersions (p : pkey)
| HRequirements (k : vkey)
| HMatching (k : vkey).

Inductive obs :=
| OVersion (r : res version)
| OVersions (r : res (list version))
| OReqs (r : res (list reqver)).

Definition ENotFound : N := 1.

Section WithOracle.
  Variable O : oracle.
  Variable var : variant.

  (* the replace-or-insert part of AddVersion, on the package's slice *)
  Definition add_to_list (versions : list version) (v : version) : list version :=
    let existed := existsb (same_key (v_key v)) versions in
    let replaced :=
      map (fun w => if same_key (v_key v) w
                    then match v_add var with Current => w | _ => v end
                    else w) versions in
    if existed
    then match v_add var with FixAssignSort => sort_versions (v_cfg var) O replaced | _ => replaced end
    else sort_versions (v_cfg var) O (replaced ++ [v]).

  Definition add_version (c : client) (v : version) (deps : list reqver) : client :=
    if deleted v then c
    else
      let c1 := set_pkg c (v_pkg v) (add_to_list (pkg_list_or_nil c (v_pkg v)) v) in
      let deps' := sort_deps deps in
      let c2 := set_imports c1 (v_key v) deps' in
      fold_left register_pkg deps' c2.

  Definition version_of (c : client) (k : vkey) : res version :=
    match find (same_key k) (pkg_list_or_nil c (vk_pkg k)) with
    | Some v => Ok v
    | None => Err ENotFound
    end.

  Definition versions_of (c : client) (p : pkey) : res (list version) :=
    match pkg_list c p with
    | Some vs => Ok vs
    | None => Err ENotFound
    end.

  Definition requirements_of (c : client) (k : vkey) : res (list reqver) :=
    match lookup vkey_eqb (c_imports c) k with
    | Some ds => Ok ds
    | None => Err ENotFound
    end.

  Definition matching_versions (c : client) (k : vkey) : res (list version) :=
    match pkg_list c (vk_pkg k) with
    | None => Err ENotFound
    | Some vs => Ok (match_requirement (v_cfg var) O k vs)
    end.

  Definition step (c : client) (o : hop) : client * option obs :=
    match o with
    | HAdd v deps => (add_version c v deps, None)
    | HVersion k => (c, Some (OVersion (version_of c k)))
    | HVersions p => (c, Some (OVersions (versions_of c p)))
    | HRequirements k => (c, Some (OReqs (requirements_of c k)))
    | HMatching k => (c, Some (OVersions (matching_versions c k)))
    end.

  Definition run_from (c : client) (ops : list hop) : client := fold_left (fun c o => fst (step c o)) ops c.
  Definition run (ops : list hop) : client := run_from empty_client ops.

  (* all observations of a history, in order *)
  Fixpoint observe (c : client) (ops : list hop) : list obs :=
    match ops with
    | [] => []
    | o :: rest =>
        let '(c', r) := step c o in
        match r with Some x => x :: observe c' rest | None => observe c' rest end
    end.
End WithOracle.

(* ---------- the specification side: what a history says, read off the operations ---------- *)
Definition live_add (o : hop) : option (version * list reqver) :=
  match o with
  | HAdd v deps => if deleted v then None else Some (v, deps)
  | _ => None
  end.

(* the most recent effective addition with key k *)
Definition last_add (ops : list hop) (k : vkey) : option (version * list reqver) :=
  fold_left (fun acc o =>
               match live_add o with
               | Some (v, d) => if vkey_eqb (v_key v) k then Some (v, d) else acc
               | None => acc
               end) ops None.

(* p is the package of an effectively added version or of one of its requirements *)
Definition mentions (o : hop) (p : pkey) : bool :=
  match live_add o with
  | Some (v, d) => pkey_eqb (v_pkg v) p || existsb (fun r => pkey_eqb (r_pkg r) p) d
  | None => false
  end.
