(* What one iteration of the inner loop (step_dep) can do to the state, for every client:
   a classification of the outcome (node error / reuse of an installed copy / fresh install)
   with the exact change of the graph and of the cores of the tree nodes.  All invariants in
   Npm_inv.v are proved from this description, not from the code. *)
From Coq Require Import Lia.
From DepsDev Require Import Lib.Base Resolve.Npm Resolve.Npm_lemmas.
Local Open Scope nat_scope.

Section Step.
  Variable c_version : vkey -> res version.
  Variable c_requirements : vkey -> res (list req).
  Variable c_matching : vkey -> res (list version).
  Variable sem_match : bytes -> bytes -> res bool.

  Notation step_dep := (step_dep c_version c_requirements c_matching sem_match).
  Notation fresh_bundled := (fresh_bundled c_requirements c_matching).
  Notation reuse_ok := (reuse_ok sem_match).
  Notation pick_version := (pick_version c_matching).
  Notation inject_post := (inject_post c_requirements c_matching).

  (* a node created for an installation that was then refused: detached garbage *)
  Definition refused (m : tnode) : Prop :=
    t_parent m = None /\ t_id m = 0 /\ t_processed m = false /\ t_bundled m = None /\
    exists reqs, c_requirements (v_key (t_ver m)) = Ok reqs /\ t_ideps m = regular_imports c_matching reqs.

  (* every directory entry of the new tree is an old entry or points to a new attached node *)
  Definition entries_ok (tree tree' : list tnode) : Prop :=
    forall i n' c, nth_error tree' i = Some n' -> entry_of n' c ->
      (exists n0, nth_error tree i = Some n0 /\ entry_of n0 c) \/
      (length tree <= c /\ exists cn, nth_error tree' c = Some cn /\ t_parent cn <> None).

  Definition old_or_new (tree : list tnode) (i : nat) (n : tnode) : Prop :=
    (exists n0, nth_error tree i = Some n0 /\ core n = core n0) \/
    (length tree <= i /\ (fresh_bundled i n \/ refused n)).

  Inductive step_out (st : state) (cur : nat) (curn : tnode) (d : req) (insq : list nat)
                     (st' : state) (insq' : list nat) : Prop :=
  | SO_error (kind : N)
      (Hg : s_g st' = {| g_nodes := g_nodes (s_g st); g_edges := g_edges (s_g st);
                         g_errors := {| ne_node := t_id curn; ne_req := r_key d; ne_kind := kind |} :: g_errors (s_g st) |})
      (Hlog : s_log st' = s_log st) (Hq : insq' = insq)
      (Hnodes : forall i n, nth_error (s_tree st') i = Some n -> old_or_new (s_tree st) i n)
      (Hlen : length (s_tree st) <= length (s_tree st'))
      (Hent : entries_ok (s_tree st) (s_tree st'))
  | SO_reuse (dvers : list version) (r : nat) (rn0 : tnode) (e : edge)
      (Hm : c_matching (r_key d) = Ok dvers)
      (Hr : nth_error (s_tree st) r = Some rn0)
      (Hre : exists p pn, nth_error (s_tree st) p = Some pn /\ entry_of pn r)
      (Hok : reuse_ok d dvers rn0)
      (Hq : insq' = if t_processed rn0 then insq else insq ++ [r])
      (Hlog : s_log st' = {| l_from := cur; l_req := d; l_to := r; l_fresh := false |} :: s_log st)
      (Hef : e_from e = t_id curn) (Her : e_req e = r_ver d)
      (Herr : g_errors (s_g st') = g_errors (s_g st))
      (Hedges : g_edges (s_g st') = e :: g_edges (s_g st))
      (Hcase :
         ((t_id rn0 <> 0 \/ t_parent rn0 = None) /\ g_nodes (s_g st') = g_nodes (s_g st) /\
          e_to e = t_id rn0 /\ e_type e = r_type d /\ t_id rn0 < length (g_nodes (s_g st)) /\
          map core (s_tree st') = map core (s_tree st))
         \/
         (exists b, t_id rn0 = 0 /\ t_parent rn0 <> None /\ t_bundled rn0 = Some b /\
            g_nodes (s_g st') = g_nodes (s_g st) ++ [v_key (b_version b)] /\
            e_to e = length (g_nodes (s_g st)) /\ e_type e = selector (r_type d) /\
            map core (s_tree st') = map core (upd r (set_id (length (g_nodes (s_g st)))) (s_tree st))))
      (Hent : entries_ok (s_tree st) (s_tree st'))
  | SO_fresh (dvers : list version) (wp : version) (nn : tnode) (p : nat) (reqs : list req)
      (Hm : c_matching (r_key d) = Ok dvers)
      (Hwp : last_opt dvers = Some wp)
      (Hnn : nth_error (s_tree st') (length (s_tree st)) = Some nn)
      (Hcore : core nn = (false, pick_version wp dvers, vk_name (v_key (pick_version wp dvers)),
                          regular_imports c_matching reqs, Some p, length (g_nodes (s_g st)), None))
      (Hreqs : c_requirements (v_key (pick_version wp dvers)) = Ok reqs)
      (Hp : p < length (s_tree st))
      (Hgn : g_nodes (s_g st') = g_nodes (s_g st) ++ [v_key (pick_version wp dvers)])
      (Hedges : g_edges (s_g st') =
                {| e_from := t_id curn; e_to := length (g_nodes (s_g st)); e_req := r_ver d;
                   e_type := selector (r_type d) |} :: g_edges (s_g st))
      (Herr : g_errors (s_g st') = g_errors (s_g st))
      (Hlog : s_log st' = {| l_from := cur; l_req := d; l_to := length (s_tree st); l_fresh := true |} :: s_log st)
      (Hq : insq' = insq ++ [length (s_tree st)])
      (Hnodes : forall i n, nth_error (s_tree st') i = Some n -> i <> length (s_tree st) ->
                  old_or_new (s_tree st) i n)
      (Hlen : length (s_tree st) < length (s_tree st'))
      (Hent : entries_ok (s_tree st) (s_tree st')).

  Lemma add_edge_ok : forall g a b rq ty g', add_edge g a b rq ty = Ok g' ->
    a < length (g_nodes g) /\ b < length (g_nodes g) /\
    g' = {| g_nodes := g_nodes g; g_edges := {| e_from := a; e_to := b; e_req := rq; e_type := ty |} :: g_edges g;
            g_errors := g_errors g |}.
  Proof.
    intros g a b rq ty g' H. unfold add_edge in H.
    destruct (Nat.ltb a (length (g_nodes g))) eqn:E1; simpl in H; [|discriminate].
    destruct (Nat.ltb b (length (g_nodes g))) eqn:E2; simpl in H; [|discriminate].
    apply Nat.ltb_lt in E1. apply Nat.ltb_lt in E2. inversion H. auto.
  Qed.

  Lemma add_error_ok : forall g n rq k g', add_error g n rq k = Ok g' ->
    n < length (g_nodes g) /\
    g' = {| g_nodes := g_nodes g; g_edges := g_edges g;
            g_errors := {| ne_node := n; ne_req := rq; ne_kind := k |} :: g_errors g |}.
  Proof.
    intros g n rq k g' H. unfold add_error in H.
    destruct (Nat.ltb n (length (g_nodes g))) eqn:E1; [|discriminate].
    apply Nat.ltb_lt in E1. inversion H. auto.
  Qed.

  Lemma shape_le_nodes : forall t t' i n, shape_le t t' -> nth_error t' i = Some n ->
    exists n0, nth_error t i = Some n0 /\ core n = core n0.
  Proof.
    intros t t' i n [Hc _] Hn. symmetry in Hc. destruct (core_nth _ _ _ _ Hc Hn) as [n0 [H0 C0]]. eauto.
  Qed.

  Lemma shape_le_nodes_fwd : forall t t' i n, shape_le t t' -> nth_error t i = Some n ->
    exists n', nth_error t' i = Some n' /\ core n' = core n.
  Proof. intros t t' i n [Hc _] Hn. exact (core_nth _ _ _ _ Hc Hn). Qed.

  Lemma shape_le_length : forall t t', shape_le t t' -> length t = length t'.
  Proof. intros t t' [Hc _]. rewrite <- (map_length core t), Hc, map_length. reflexivity. Qed.

  Lemma shape_le_entries : forall t t', shape_le t t' -> entries_ok t t'.
  Proof.
    intros t t' [_ He] i n' c Hn Hc. left. destruct (He i n' Hn) as [n0 [H0 E0]]. exists n0. auto.
  Qed.

  Lemma entries_ok_upd : forall t t2 i f,
    entries_ok t t2 -> (forall n c, entry_of (f n) c -> entry_of n c) ->
    (forall n, t_parent n <> None -> t_parent (f n) <> None) ->
    entries_ok t (upd i f t2).
  Proof.
    intros t t2 i f H He Hp j n' c Hn Hc.
    apply nth_upd in Hn. destruct Hn as [m [Hm [[E1 E2]|[E1 E2]]]]; subst.
    - apply He in Hc. destruct (H j m c Hm Hc) as [F|[F1 [cn [F2 F3]]]]; [left; exact F|].
      right. split; auto. destruct (Nat.eq_dec j c) as [E|E].
      + subst c. rewrite nth_upd_same, F2. simpl. eauto.
      + rewrite nth_upd_other; eauto.
    - destruct (H j m c Hm Hc) as [F|[F1 [cn [F2 F3]]]]; [left; exact F|].
      right. split; auto. destruct (Nat.eq_dec i c) as [E|E].
      + subst c. rewrite nth_upd_same, F2. simpl. eauto.
      + rewrite nth_upd_other; eauto.
  Qed.

  Lemma map_core_upd_congr : forall a b i f,
    map core a = map core b -> (forall x y, core x = core y -> core (f x) = core (f y)) ->
    map core (upd i f a) = map core (upd i f b).
  Proof.
    intros a. induction a as [|x a IH]; intros b i f H Hf; destruct b as [|y b]; try discriminate; auto.
    assert (Hh : core x = core y) by (apply (f_equal (hd (core x))) in H; exact H).
    assert (Ht : map core a = map core b) by (apply (f_equal (@tl _)) in H; exact H).
    destruct i; simpl.
    - f_equal; auto.
    - f_equal; auto.
  Qed.

  Lemma core_set_id_congr : forall k x y, core x = core y -> core (set_id k x) = core (set_id k y).
  Proof. intros k x y H. unfold core in *. simpl. inversion H. reflexivity. Qed.

  Lemma hoist_parent : forall fuel tree parent pkg al tree' parent' L,
    hoist fuel tree parent pkg al = Ok (tree', parent') ->
    parent < L ->
    (forall i n q, i < L -> nth_error tree i = Some n -> t_parent n = Some q -> q < L) ->
    parent' < L.
  Proof.
    induction fuel as [|f IH]; intros tree parent pkg al tree' parent' L H Hp Hpar; simpl in H; [discriminate|].
    apply bind_ok in H. destruct H as [pn [Hpn H]]. apply getn_ok in Hpn.
    destruct (t_parent pn) as [pp|] eqn:Epp.
    2:{ inversion H; subst. exact Hp. }
    apply bind_ok in H. destruct H as [ppn [Hppn H]].
    destruct (candidate ppn pkg al).
    { inversion H; subst. exact Hp. }
    destruct (protectedb ppn pkg al).
    { inversion H; subst. exact Hp. }
    eapply IH; [exact H | eapply Hpar; eauto |].
    intros i n q Hi Hn Hq. apply nth_upd in Hn. destruct Hn as [m [Hm [[E1 E2]|[E1 E2]]]]; subst.
    - eapply Hpar; eauto.
    - eapply Hpar; eauto.
  Qed.

  (* the tree after a new node has been allocated and its bundle content injected *)
  Definition grown (tree : list tnode) (node : tnode) (t2 : list tnode) : Prop :=
    length tree < length t2 /\
    forall i n, nth_error t2 i = Some n ->
      (i < length tree /\ exists n0, nth_error tree i = Some n0 /\ core n = core n0 /\
          forall c, entry_of n c -> entry_of n0 c \/ (length tree < c /\ c < length t2)) \/
      (i = length tree /\ core n = core node /\ forall c, entry_of n c -> length tree < c /\ c < length t2) \/
      (length tree < i /\ fresh_bundled i n /\ forall c, entry_of n c -> length tree < c /\ c < length t2).

  Lemma grown_shape : forall tree node t2 t3, grown tree node t2 -> shape_le t2 t3 -> grown tree node t3.
  Proof.
    intros tree node t2 t3 [L G] S. pose proof (shape_le_length _ _ S) as EL. split; [lia|].
    intros i n Hn. destruct S as [Hc He]. destruct (He i n Hn) as [m [Hm Em]].
    assert (Cm : core n = core m).
    { destruct (core_nth _ _ _ _ Hc Hm) as [n' [H1 H2]]. rewrite Hn in H1. inversion H1; subst. exact H2. }
    destruct (G i m Hm) as [[Hi [n0 [H0 [C0 E0]]]]|[[Hi [C0 E0]]|[Hi [F0 E0]]]].
    - left. split; auto. exists n0. split; auto. split; [congruence|].
      intros c Hx. apply Em in Hx. destruct (E0 c Hx); [auto | right; lia].
    - right. left. split; auto. split; [congruence|]. intros c Hx. apply Em in Hx. apply E0 in Hx. lia.
    - right. right. split; auto. split.
      + destruct F0 as [b [p [F1 [F2 [F3 [F4 [F5 [F6 F7]]]]]]]]. apply core_fields in Cm.
        destruct Cm as [C1 [C2 [C3 [C4 [C5 [C6 C7]]]]]]. exists b, p. repeat split; try congruence.
        destruct F7 as [reqs [R1 R2]]. exists reqs. split; congruence.
      + intros c Hx. apply Em in Hx. apply E0 in Hx. lia.
  Qed.

  Lemma grown_of_inject : forall tree tree1 node t2,
    shape_le tree tree1 -> (forall c, ~ entry_of node c) ->
    inject_post (tree1 ++ [node]) t2 -> grown tree node t2.
  Proof.
    intros tree tree1 node t2 S Hne [L [O N]]. pose proof (shape_le_length _ _ S) as EL.
    rewrite app_length in *. simpl in *. split; [lia|].
    intros i n Hn. destruct (Nat.lt_trichotomy i (length tree)) as [Hi|[Hi|Hi]].
    - left. split; auto.
      assert (exists m, nth_error tree1 i = Some m) as [m Hm].
      { destruct (nth_error tree1 i) eqn:E; eauto. apply nth_error_None in E. lia. }
      destruct (O i m (nth_error_app_some _ _ _ _ Hm)) as [n' [H1 [H2 H3]]].
      rewrite Hn in H1. inversion H1; subst n'.
      destruct S as [Sc Se]. destruct (Se i m Hm) as [n0 [H0 E0]].
      exists n0. split; auto. split.
      + destruct (core_nth _ _ _ _ Sc H0) as [m' [G1 G2]]. rewrite Hm in G1. inversion G1; subst. congruence.
      + intros c Hc. destruct (H3 c Hc) as [F|F]; [left; apply E0; exact F | right; lia].
    - right. left. split; auto.
      assert (Hm : nth_error (tree1 ++ [node]) i = Some node).
      { rewrite nth_error_app2; [|lia]. replace (i - length tree1) with 0 by lia. reflexivity. }
      destruct (O i node Hm) as [n' [H1 [H2 H3]]]. rewrite Hn in H1. inversion H1; subst n'.
      split; auto. intros c Hc. destruct (H3 c Hc) as [F|F]; [exfalso; eapply Hne; eauto | lia].
    - right. right. split; auto. destruct (N i n) as [F E]; [lia | exact Hn |]. split; auto.
      intros c Hc. apply E in Hc. lia.
  Qed.

  Lemma grown_nodes : forall tree node t2 i n,
    grown tree node t2 -> refused node -> nth_error t2 i = Some n -> old_or_new tree i n.
  Proof.
    intros tree node t2 i n [L G] Hr Hn. destruct (G i n Hn) as [[Hi [n0 [H0 [C0 _]]]]|[[Hi [C0 _]]|[Hi [F0 _]]]].
    - left. eauto.
    - right. split; [lia|]. right. destruct Hr as [R1 [R2 [R3 [R4 [reqs [R5 R6]]]]]].
      apply core_fields in C0. destruct C0 as [C1 [C2 [C3 [C4 [C5 [C6 C7]]]]]].
      repeat split; try congruence. exists reqs. split; congruence.
    - right. split; [lia|]. left. exact F0.
  Qed.

  Lemma grown_entries : forall tree node t2, grown tree node t2 -> entries_ok tree t2.
  Proof.
    intros tree node t2 [L G] i n' c Hn Hc.
    assert (Hnew : length tree < c /\ c < length t2 ->
                   length tree <= c /\ exists cn, nth_error t2 c = Some cn /\ t_parent cn <> None).
    { intros [H1 H2]. split; [lia|].
      destruct (nth_error t2 c) as [cn|] eqn:E; [|apply nth_error_None in E; lia].
      exists cn. split; auto. destruct (G c cn E) as [[Hi _]|[[Hi _]|[Hi [F0 _]]]]; try lia.
      destruct F0 as [b [p [F1 [F2 _]]]]. congruence. }
    destruct (G i n' Hn) as [[Hi [n0 [H0 [C0 E0]]]]|[[Hi [C0 E0]]|[Hi [F0 E0]]]].
    - destruct (E0 c Hc) as [F|F]; [left; eauto | right; apply Hnew; exact F].
    - right. apply Hnew. apply E0. exact Hc.
    - right. apply Hnew. apply E0. exact Hc.
  Qed.

  Lemma entry_set_id : forall k n c, entry_of (set_id k n) c -> entry_of n c.
  Proof. intros k n c H. exact H. Qed.
  Lemma entry_set_parent : forall k n c, entry_of (set_parent k n) c -> entry_of n c.
  Proof. intros k n c H. exact H. Qed.

  Theorem step_dep_out : forall ifuel st cur curn d insq st' insq',
    step_dep ifuel st cur d insq = Ok (st', insq') ->
    nth_error (s_tree st) cur = Some curn ->
    (forall i n q, nth_error (s_tree st) i = Some n -> t_parent n = Some q -> q < length (s_tree st)) ->
    step_out st cur curn d insq st' insq'.
  Proof.
    intros ifuel st cur curn d insq st' insq' H Hcur Hpar.
    unfold Npm.step_dep in H.
    apply bind_ok in H. destruct H as [dvers [Hdv H]].
    apply bind_ok in H. destruct H as [[[resolved ih] tree1] [Hw H]].
    apply walk_spec in Hw. destruct Hw as [S1 Hres].
    pose proof (shape_le_length _ _ S1) as L1.
    destruct resolved as [r|].
    - (* reuse *)
      apply bind_ok in H. destruct H as [rn [Hrn H]]. apply getn_ok in Hrn.
      apply bind_ok in H. destruct H as [tree2 [Hmk H]]. apply mark_spec in Hmk.
      apply bind_ok in H. destruct H as [curn2 [Hc2 H]]. apply getn_ok in Hc2.
      destruct (Hres r eq_refl) as [p [pn [rn0 [Hp [Hpe [Hr0 Hok]]]]]].
      assert (S2 : shape_le (s_tree st) tree2) by (eapply shape_le_trans; eauto).
      assert (Crn : core rn = core rn0).
      { destruct (shape_le_nodes _ _ _ _ S1 Hrn) as [x [Hx Cx]]. rewrite Hr0 in Hx. inversion Hx; subst. exact Cx. }
      assert (Ccur : core curn2 = core curn).
      { destruct (shape_le_nodes _ _ _ _ S2 Hc2) as [x [Hx Cx]]. rewrite Hcur in Hx. inversion Hx; subst. exact Cx. }
      apply core_fields in Crn. destruct Crn as [R1 [R2 [R3 [R4 [R5 [R6 R7]]]]]].
      apply core_fields in Ccur. destruct Ccur as [_ [_ [_ [_ [_ [Cid _]]]]]].
      destruct (Nat.eqb (t_id rn) 0 && match t_parent rn with Some _ => true | None => false end) eqn:Econd.
      + apply andb_prop in Econd. destruct Econd as [E1 E2]. apply Nat.eqb_eq in E1.
        destruct (t_bundled rn) as [b|] eqn:Eb; [|discriminate].
        simpl in H. apply bind_ok in H. destruct H as [g2 [Hg2 H]]. apply add_edge_ok in Hg2.
        destruct Hg2 as [A1 [A2 A3]]. inversion H; subst st' insq'. simpl in *.
        eapply SO_reuse with (e := {| e_from := t_id curn2; e_to := length (g_nodes (s_g st)); e_req := r_ver d;
                                      e_type := selector (r_type d) |}); simpl; eauto.
        * rewrite R1. reflexivity.
        * subst g2. reflexivity.
        * subst g2. reflexivity.
        * right. exists b. subst g2. simpl. repeat split; try congruence.
          -- destruct (t_parent rn); [congruence | discriminate].
          -- apply map_core_upd_congr; [symmetry; apply S2 | apply core_set_id_congr].
        * apply entries_ok_upd; [apply shape_le_entries; exact S2 | auto | auto].
      + apply bind_ok in H. destruct H as [g2 [Hg2 H]]. apply add_edge_ok in Hg2.
        destruct Hg2 as [A1 [A2 A3]]. inversion H; subst st' insq'. simpl in *.
        eapply SO_reuse with (e := {| e_from := t_id curn2; e_to := t_id rn; e_req := r_ver d; e_type := r_type d |});
          simpl; eauto.
        * rewrite R1. reflexivity.
        * subst g2. reflexivity.
        * subst g2. reflexivity.
        * left. subst g2. simpl. repeat split; try congruence.
          -- apply andb_false_iff in Econd. destruct Econd as [E|E].
             ++ left. apply Nat.eqb_neq in E. congruence.
             ++ right. rewrite <- R5. destruct (t_parent rn); [discriminate | reflexivity].
          -- symmetry. apply S2.
        * apply shape_le_entries. exact S2.
    - (* nothing installed resolves the requirement *)
      apply bind_ok in H. destruct H as [curn1 [Hc1 H]]. apply getn_ok in Hc1.
      assert (Ccur : core curn1 = core curn).
      { destruct (shape_le_nodes _ _ _ _ S1 Hc1) as [x [Hx Cx]]. rewrite Hcur in Hx. inversion Hx; subst. exact Cx. }
      apply core_fields in Ccur. destruct Ccur as [_ [_ [_ [_ [_ [Cid _]]]]]].
      destruct (last_opt dvers) as [wp|] eqn:Ewp.
      2:{ apply bind_ok in H. destruct H as [g1 [Hg1 H]]. apply add_error_ok in Hg1. destruct Hg1 as [A1 A2].
          inversion H; subst st' insq'. simpl in *. eapply SO_error with (kind := NE_NoMatch); simpl; eauto.
          - subst g1. rewrite Cid. reflexivity.
          - intros i n Hn. left. eapply shape_le_nodes; eauto.
          - lia.
          - apply shape_le_entries. exact S1. }
      apply bind_ok in H. destruct H as [node [Hnode H]]. apply new_tree_node_spec in Hnode.
      destruct Hnode as [reqs [Hreqs Hnode]].
      apply bind_ok in H. destruct H as [tree2 [Hinj H]].
      apply inject_spec in Hinj; [|rewrite app_length; simpl; lia].
      assert (Hne : forall c, ~ entry_of node c).
      { intros c [k [F|F]]; subst node; simpl in F; discriminate. }
      assert (Hrf : refused node).
      { subst node. unfold refused. simpl. repeat split; auto. exists reqs. auto. }
      pose proof (grown_of_inject _ _ _ _ S1 Hne Hinj) as G2.
      destruct (candidate curn1 (t_pkg node) (r_alias d)).
      { apply bind_ok in H. destruct H as [g1 [Hg1 H]]. apply add_error_ok in Hg1. destruct Hg1 as [A1 A2].
        inversion H; subst st' insq'. simpl in *. eapply SO_error with (kind := NE_TwoVersions); simpl; eauto.
        - subst g1. rewrite Cid. reflexivity.
        - intros i n Hn. eapply grown_nodes; eauto.
        - destruct G2; lia.
        - eapply grown_entries; eauto. }
      apply bind_ok in H. destruct H as [[tree3 parent] [Hh H]].
      assert (S3 : shape_le tree2 tree3 /\ parent < length (s_tree st)).
      { destruct ih.
        - inversion Hh; subst. split; [apply shape_le_refl|]. apply nth_error_Some. congruence.
        - split; [eapply hoist_spec; eauto|].
          eapply hoist_parent; [exact Hh | apply nth_error_Some; congruence |].
          intros i n q Hi Hn Hq. destruct G2 as [_ G2]. destruct (G2 i n Hn) as [[_ [n0 [H0 [C0 _]]]]|[[F _]|[F _]]]; try lia.
          apply core_fields in C0. destruct C0 as [_ [_ [_ [_ [C5 _]]]]]. eapply Hpar; eauto. congruence. }
      destruct S3 as [S3 Hparent].
      pose proof (grown_shape _ _ _ _ G2 S3) as G3.
      apply bind_ok in H. destruct H as [pn [Hpn H]]. apply getn_ok in Hpn.
      destruct ((match t_parent pn with Some _ => true | None => false end) && bytes_eqb (t_pkg pn) (t_pkg node)).
      { apply bind_ok in H. destruct H as [g1 [Hg1 H]]. apply add_error_ok in Hg1. destruct Hg1 as [A1 A2].
        inversion H; subst st' insq'. simpl in *. eapply SO_error with (kind := NE_Unreachable); simpl; eauto.
        - subst g1. rewrite Cid. reflexivity.
        - intros i n Hn. eapply grown_nodes; eauto.
        - destruct G3; lia.
        - eapply grown_entries; eauto. }
      simpl in H. apply bind_ok in H. destruct H as [g2 [Hg2 H]]. apply add_edge_ok in Hg2.
      destruct Hg2 as [A1 [A2 A3]]. inversion H; subst st' insq'. simpl in *. clear H.
      set (nid := length tree1) in *.
      set (addE := match r_alias d with
                   | [] => add_child (t_pkg node) nid
                   | _ :: _ => add_alias (r_alias d) nid
                   end) in *.
      assert (HaddC : forall n, core (addE n) = core n) by (intro n; unfold addE; destruct (r_alias d); reflexivity).
      assert (HaddE : forall n c, entry_of (addE n) c -> entry_of n c \/ c = nid).
      { intros n c. unfold addE. destruct (r_alias d); [apply entry_add_child | apply entry_add_alias]. }
      assert (HaddN : forall n, entry_of (addE n) nid).
      { intro n. unfold addE. destruct (r_alias d) as [|a al].
        - exists (t_pkg node). left. unfold add_child, set_children. cbn [t_children]. apply assoc_set_same.
        - exists (a :: al). right. unfold add_alias, set_alias. cbn [t_alias]. apply assoc_set_same. }
      destruct G3 as [L3 G3].
      assert (exists n3, nth_error tree3 nid = Some n3 /\ core n3 = core node /\
                         forall c, entry_of n3 c -> nid < c /\ c < length tree3) as [n3 [Hn3 [Cn3 En3]]].
      { destruct (nth_error tree3 nid) as [n3|] eqn:E; [|apply nth_error_None in E; unfold nid in *; lia].
        exists n3. split; auto. destruct (G3 nid n3 E) as [[F _]|[[_ [C0 E0]]|[F _]]]; unfold nid in *; try lia.
        split; auto. intros c Hc. apply E0 in Hc. lia. }
      set (fin := fun n => set_id (length (g_nodes (s_g st))) (set_parent parent n)) in *.
      set (tree5 := upd nid fin (upd parent addE tree3)) in *.
      assert (Hpn' : parent <> nid) by (unfold nid; lia).
      assert (T5nid : nth_error tree5 nid = Some (fin n3)).
      { unfold tree5. rewrite nth_upd_same, nth_upd_other; auto. rewrite Hn3. reflexivity. }
      assert (T5par : nth_error tree5 parent = Some (addE pn)).
      { unfold tree5. rewrite nth_upd_other; auto. rewrite nth_upd_same, Hpn. reflexivity. }
      assert (T5other : forall i, i <> nid -> i <> parent -> nth_error tree5 i = nth_error tree3 i).
      { intros i F1 F2. unfold tree5. rewrite !nth_upd_other; auto. }
      assert (L5 : length tree5 = length tree3) by (unfold tree5; rewrite !upd_length; reflexivity).
      apply core_fields in Cn3. destruct Cn3 as [N1 [N2 [N3 [N4 [N5 [N6 N7]]]]]].
      eapply SO_fresh with (nn := fin n3) (p := parent) (reqs := reqs); simpl; eauto.
      + rewrite L1. exact T5nid.
      + unfold core, fin. simpl. rewrite N1, N2, N3, N4, N7. subst node. simpl. reflexivity.
      + subst g2. simpl. subst node. reflexivity.
      + subst g2. simpl. rewrite Cid. reflexivity.
      + subst g2. reflexivity.
      + rewrite L1. reflexivity.
      + rewrite L1. reflexivity.
      + intros i n Hn Hi. rewrite L1 in Hi.
        destruct (Nat.eq_dec i parent) as [E|E].
        * subst i. rewrite T5par in Hn. inversion Hn; subst n. left.
          destruct (G3 parent pn Hpn) as [[_ [n0 [H0 [C0 _]]]]|[[F _]|[F _]]]; try lia.
          exists n0. split; auto. rewrite HaddC. exact C0.
        * rewrite T5other in Hn; auto. eapply grown_nodes; [split; [exact L3 | exact G3] | exact Hrf | exact Hn].
      + rewrite L5. lia.
      + intros i n' c Hn Hc.
        assert (Hnew : nid <= c -> c < length tree3 -> length (s_tree st) <= c /\
                        exists cn, nth_error tree5 c = Some cn /\ t_parent cn <> None).
        { intros F1 F2. split; [unfold nid in F1; lia|].
          destruct (Nat.eq_dec c nid) as [E|E].
          - subst c. exists (fin n3). split; auto. unfold fin. simpl. discriminate.
          - rewrite T5other; [|exact E|lia].
            destruct (nth_error tree3 c) as [cn|] eqn:Ec; [|apply nth_error_None in Ec; lia].
            exists cn. split; auto. destruct (G3 c cn Ec) as [[F _]|[[F _]|[_ [F0 _]]]]; unfold nid in *; try lia.
            destruct F0 as [b [q [F3 [F4 _]]]]. congruence. }
        destruct (Nat.eq_dec i nid) as [E|E].
        * subst i. rewrite T5nid in Hn. inversion Hn; subst n'. unfold fin in Hc.
          apply entry_set_id in Hc. apply entry_set_parent in Hc. apply En3 in Hc. right. apply Hnew; lia.
        * destruct (Nat.eq_dec i parent) as [E2|E2].
          -- subst i. rewrite T5par in Hn. inversion Hn; subst n'. apply HaddE in Hc. destruct Hc as [Hc|Hc].
             ++ destruct (G3 parent pn Hpn) as [[_ [n0 [H0 [C0 E0]]]]|[[F _]|[F _]]]; try lia.
                destruct (E0 c Hc) as [F|F]; [left; eauto | right; apply Hnew; unfold nid; lia].
             ++ subst c. right. apply Hnew; [lia | unfold nid; lia].
          -- rewrite T5other in Hn; auto.
             destruct (G3 i n' Hn) as [[_ [n0 [H0 [C0 E0]]]]|[[F [C0 E0]]|[F [F0 E0]]]].
             ++ destruct (E0 c Hc) as [F|F]; [left; eauto | right; apply Hnew; unfold nid; lia].
             ++ unfold nid in E. lia.
             ++ right. apply E0 in Hc. apply Hnew; unfold nid; lia.
  Qed.
End Step.
