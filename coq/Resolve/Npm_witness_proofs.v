(* Concrete finite clients (the tables recorded from the Go resolution of the witnesses in
   known/C06.jsonl and of a small example universe) on which the model is evaluated inside Coq:
   refutation of the lookup clause in the presence of aliases, refutation of the unconditional
   latest-first pick rule, and satisfiability of the hypotheses of the positive theorems. *)
From Coq Require Import Lia.
From DepsDev Require Import Lib.Base Lib.Sx Resolve.Npm Resolve.Npm_lemmas Resolve.Npm_lookup Resolve.Npm_cases
  Extract.CasesNpm.
Local Open Scope nat_scope.

(* ---------- a table as a client ---------- *)
Record tables := {
  tb_fuel : nat; tb_root : vkey;
  tb_v : list (vkey * res version); tb_r : list (vkey * res (list req)); tb_m : list (vkey * res (list version));
  tb_s : list (bytes * bool * list (bytes * bool)) }.

Definition dec_case (a : sx) : option tables :=
  match a with
  | SL [SI fuel; root; vt; rt; mt; st] =>
      match dec_vkey root, dec_table dec_version vt,
            dec_table (fun x => match x with SL l => dec_list dec_req l | _ => None end) rt,
            dec_table (fun x => match x with SL l => dec_list dec_version l | _ => None end) mt,
            dec_sem st with
      | Some root', Some vt', Some rt', Some mt', Some st' =>
          Some {| tb_fuel := Z.to_nat fuel; tb_root := root'; tb_v := vt'; tb_r := rt'; tb_m := mt'; tb_s := st' |}
      | _, _, _, _, _ => None
      end
  | _ => None
  end.

Definition run (t : tables) : res result :=
  resolve (tbl_lookup (tb_v t)) (tbl_lookup (tb_r t)) (tbl_lookup (tb_m t)) (sem_lookup (tb_s t)) (tb_fuel t) (tb_root t).

Lemma tbl_lookup_in : forall {A} (t : list (vkey * res A)) k x, tbl_lookup t k = Ok x -> In (k, Ok x) t.
Proof.
  intros A t k x. induction t as [|[k' r] t IH]; simpl; intro H; [discriminate|].
  destruct (vkey_eqb k k') eqn:E.
  - apply vkey_eqb_eq in E. subst. left. reflexivity.
  - right. apply IH. exact H.
Qed.

(* finite checks on a table, and what they give for every question *)
Lemma no_derived_ok : forall mt, no_derived_tbl mt = true -> forall d, get_bundled (tbl_lookup mt) d = None.
Proof.
  intros mt H d. unfold get_bundled. destruct (negb (is_regular (r_type d))); auto.
  destruct (tbl_lookup mt (r_key d)) as [vs| | |] eqn:E; auto.
  destruct vs as [|v [|w vs]]; auto.
  apply tbl_lookup_in in E. unfold no_derived_tbl in H. rewrite forallb_forall in H. specialize (H _ E). simpl in H.
  rewrite andb_true_r in H. unfold attr_has in H. destruct (attr_get K_DerivedFrom (v_attr v)); [discriminate | reflexivity].
Qed.

Lemma no_alias_ok : forall rt, no_alias_tbl rt = true ->
  forall k reqs d, tbl_lookup rt k = Ok reqs -> In d reqs -> r_alias d = [].
Proof.
  intros rt H k reqs d E Hd. apply tbl_lookup_in in E. unfold no_alias_tbl in H. rewrite forallb_forall in H.
  specialize (H _ E). simpl in H. rewrite forallb_forall in H. specialize (H _ Hd). destruct (r_alias d); [reflexivity | discriminate].
Qed.

Lemma names_ok : forall mt, names_tbl mt = true ->
  forall k vs v, tbl_lookup mt k = Ok vs -> In v vs -> vk_name (v_key v) = vk_name k.
Proof.
  intros mt H k vs v E Hv. apply tbl_lookup_in in E. unfold names_tbl in H. rewrite forallb_forall in H.
  specialize (H _ E). simpl in H. rewrite forallb_forall in H. specialize (H _ Hv). apply bytes_eqb_eq. exact H.
Qed.

Lemma nodupb_ok : forall l, nodupb l = true -> NoDup l.
Proof.
  induction l as [|x l IH]; simpl; intro H; [constructor|]. apply andb_prop in H. destruct H as [H1 H2].
  constructor; auto. intro F. apply memb_In in F. rewrite F in H1. discriminate.
Qed.

Lemma distinct_ok : forall mt rt, distinct_tbl mt rt = true ->
  forall k reqs, tbl_lookup rt k = Ok reqs -> NoDup (map r_name (regular_imports (tbl_lookup mt) reqs)).
Proof.
  intros mt rt H k reqs E. apply tbl_lookup_in in E. unfold distinct_tbl in H. rewrite forallb_forall in H.
  specialize (H _ E). simpl in H. apply nodupb_ok. exact H.
Qed.

Definition no_panic_tbl {A} (t : list (vkey * res A)) : bool :=
  forallb (fun e => match snd e with Panic _ => false | _ => true end) t.
Lemma no_panic_ok : forall {A} (t : list (vkey * res A)), no_panic_tbl t = true -> forall k p, tbl_lookup t k <> Panic p.
Proof.
  intros A t H k p. induction t as [|[k' r] t IH]; simpl; [discriminate|].
  simpl in H. apply andb_prop in H. destruct H as [H1 H2]. destruct (vkey_eqb k k'); auto.
  destruct r; try discriminate.
Qed.

(* ---------- F-C06-1: an alias install is shadowed ---------- *)
Definition t_alias_shadow : option tables := Eval vm_compute in dec_case case_alias_shadow.

(* log entries whose Node lookup does not land on the recorded target *)
Definition bad_lookups (r : result) : list logent :=
  filter (fun l => match node_lookup (r_tree r) (l_from l) (lname (l_req l)) with
                   | Some t => negb (Nat.eqb t (l_to l))
                   | None => true end) (r_log r).

Theorem lookup_refuted_alias :
  exists t r, t_alias_shadow = Some t /\ no_derived_tbl (tb_m t) = true /\ names_tbl (tb_m t) = true /\
    distinct_tbl (tb_m t) (tb_r t) = true /\ run t = Ok r /\
    exists l, In l (r_log r) /\ node_lookup (r_tree r) (l_from l) (lname (l_req l)) <> Some (l_to l).
Proof.
  destruct t_alias_shadow as [t|] eqn:E; [|vm_compute in E; discriminate].
  destruct (run t) as [r| | |] eqn:Er; try (vm_compute in E; inversion E; subst t; vm_compute in Er; discriminate).
  exists t, r. split; auto.
  assert (Hb : exists l, In l (bad_lookups r)).
  { vm_compute in E. inversion E; subst t. vm_compute in Er. inversion Er; subst r. vm_compute. eexists. left. reflexivity. }
  split; [vm_compute in E; inversion E; subst t; vm_compute; reflexivity|].
  split; [vm_compute in E; inversion E; subst t; vm_compute; reflexivity|].
  split; [vm_compute in E; inversion E; subst t; vm_compute; reflexivity|].
  split; auto. destruct Hb as [l Hl]. unfold bad_lookups in Hl. apply filter_In in Hl. destruct Hl as [Hl Hc].
  exists l. split; auto. intro F. rewrite F in Hc. rewrite Nat.eqb_refl in Hc. discriminate.
Qed.

(* ---------- F-C06-2: latest satisfies the requirement but is not picked ---------- *)
Definition t_latest_prerelease : option tables := Eval vm_compute in dec_case case_latest_prerelease.

Definition latest_not_picked (t : tables) (r : result) (l : logent) : bool :=
  l_fresh l &&
  match nth_error (r_tree r) (l_to l), tbl_lookup (tb_m t) (r_key (l_req l)),
        tbl_lookup (tb_m t) (VK (r_name (l_req l)) T_Requirement s_latest) with
  | Some tn, Ok dvers, Ok [latest] =>
      existsb (fun dv => vkey_eqb (v_key dv) (v_key latest)) dvers && negb (vkey_eqb (v_key (t_ver tn)) (v_key latest))
  | _, _, _ => false
  end.

Theorem pick_latest_refuted :
  exists t r l, t_latest_prerelease = Some t /\ run t = Ok r /\ In l (r_log r) /\ latest_not_picked t r l = true.
Proof.
  destruct t_latest_prerelease as [t|] eqn:E; [|vm_compute in E; discriminate].
  destruct (run t) as [r| | |] eqn:Er; try (vm_compute in E; inversion E; subst t; vm_compute in Er; discriminate).
  assert (Hb : exists l, In l (filter (latest_not_picked t r) (r_log r))).
  { vm_compute in E. inversion E; subst t. vm_compute in Er. inversion Er; subst r. vm_compute. eexists. left. reflexivity. }
  destruct Hb as [l Hl]. apply filter_In in Hl. destruct Hl as [Hl Hc]. exists t, r, l. auto.
Qed.

(* ---------- the example universe: hypotheses of all positive theorems are satisfiable ---------- *)
Definition t_example : option tables := Eval vm_compute in dec_case case_example.

Theorem example_ok :
  exists t r, t_example = Some t /\ run t = Ok r /\
    no_derived_tbl (tb_m t) = true /\ no_alias_tbl (tb_r t) = true /\ names_tbl (tb_m t) = true /\
    distinct_tbl (tb_m t) (tb_r t) = true /\
    no_panic_tbl (tb_v t) = true /\ no_panic_tbl (tb_r t) = true /\ no_panic_tbl (tb_m t) = true /\
    length (g_nodes (r_graph r)) = 5 /\ length (g_edges (r_graph r)) = 5 /\ length (g_errors (r_graph r)) = 1 /\
    length (filter l_fresh (r_log r)) = 4 /\ bad_lookups r = [] /\
    (* a nested install: some node at depth two *)
    existsb (fun n => match t_parent n with Some (S _) => true | _ => false end) (r_tree r) = true.
Proof.
  destruct t_example as [t|] eqn:E; [|vm_compute in E; discriminate].
  destruct (run t) as [r| | |] eqn:Er; try (vm_compute in E; inversion E; subst t; vm_compute in Er; discriminate).
  exists t, r. split; auto. split; auto.
  vm_compute in E. inversion E; subst t. vm_compute in Er. inversion Er; subst r.
  vm_compute. repeat split; reflexivity.
Qed.

(* ---------- the remaining hypotheses of lookup_ok / unique_name are needed ---------- *)
Definition t_dup_name : option tables := Eval vm_compute in dec_case case_dup_name.
Definition t_foreign_name : option tables := Eval vm_compute in dec_case case_foreign_name.
Definition t_derived_clash : option tables := Eval vm_compute in dec_case case_derived_clash.

(* two requirements of one version under one name: the copy installed for the second shadows
   the copy the first one resolved to *)
Theorem lookup_refuted_dup_name :
  exists t r, t_dup_name = Some t /\ no_derived_tbl (tb_m t) = true /\ no_alias_tbl (tb_r t) = true /\
    names_tbl (tb_m t) = true /\ distinct_tbl (tb_m t) (tb_r t) = false /\ run t = Ok r /\
    exists l, In l (r_log r) /\ node_lookup (r_tree r) (l_from l) (lname (l_req l)) <> Some (l_to l).
Proof.
  destruct t_dup_name as [t|] eqn:E; [|vm_compute in E; discriminate].
  destruct (run t) as [r| | |] eqn:Er; try (vm_compute in E; inversion E; subst t; vm_compute in Er; discriminate).
  exists t, r. split; auto.
  assert (Hb : exists l, In l (bad_lookups r)).
  { vm_compute in E. inversion E; subst t. vm_compute in Er. inversion Er; subst r. vm_compute. eexists. left. reflexivity. }
  split; [vm_compute in E; inversion E; subst t; vm_compute; reflexivity|].
  split; [vm_compute in E; inversion E; subst t; vm_compute; reflexivity|].
  split; [vm_compute in E; inversion E; subst t; vm_compute; reflexivity|].
  split; [vm_compute in E; inversion E; subst t; vm_compute; reflexivity|].
  split; auto. destruct Hb as [l Hl]. unfold bad_lookups in Hl. apply filter_In in Hl. destruct Hl as [Hl Hc].
  exists l. split; auto. intro F. rewrite F in Hc. rewrite Nat.eqb_refl in Hc. discriminate.
Qed.

(* a client that answers a requirement on a with a version of b: the copy is filed under b *)
Theorem lookup_refuted_foreign_name :
  exists t r, t_foreign_name = Some t /\ no_derived_tbl (tb_m t) = true /\ no_alias_tbl (tb_r t) = true /\
    names_tbl (tb_m t) = false /\ distinct_tbl (tb_m t) (tb_r t) = true /\ run t = Ok r /\
    exists l, In l (r_log r) /\ node_lookup (r_tree r) (l_from l) (lname (l_req l)) <> Some (l_to l).
Proof.
  destruct t_foreign_name as [t|] eqn:E; [|vm_compute in E; discriminate].
  destruct (run t) as [r| | |] eqn:Er; try (vm_compute in E; inversion E; subst t; vm_compute in Er; discriminate).
  exists t, r. split; auto.
  assert (Hb : exists l, In l (bad_lookups r)).
  { vm_compute in E. inversion E; subst t. vm_compute in Er. inversion Er; subst r. vm_compute. eexists. left. reflexivity. }
  split; [vm_compute in E; inversion E; subst t; vm_compute; reflexivity|].
  split; [vm_compute in E; inversion E; subst t; vm_compute; reflexivity|].
  split; [vm_compute in E; inversion E; subst t; vm_compute; reflexivity|].
  split; [vm_compute in E; inversion E; subst t; vm_compute; reflexivity|].
  split; auto. destruct Hb as [l Hl]. unfold bad_lookups in Hl. apply filter_In in Hl. destruct Hl as [Hl Hc].
  exists l. split; auto. intro F. rewrite F in Hc. rewrite Nat.eqb_refl in Hc. discriminate.
Qed.

(* with derived packages a directory can hold a child and an alias of one name *)
Definition clash (n : tnode) : bool := negb (nodupb (map fst (t_children n) ++ map fst (t_alias n))).

Theorem unique_name_refuted_derived :
  exists t r n, t_derived_clash = Some t /\ no_derived_tbl (tb_m t) = false /\ run t = Ok r /\
    In n (r_tree r) /\ clash n = true.
Proof.
  destruct t_derived_clash as [t|] eqn:E; [|vm_compute in E; discriminate].
  destruct (run t) as [r| | |] eqn:Er; try (vm_compute in E; inversion E; subst t; vm_compute in Er; discriminate).
  assert (Hb : exists n, In n (filter clash (r_tree r))).
  { vm_compute in E. inversion E; subst t. vm_compute in Er. inversion Er; subst r. vm_compute. eexists. left. reflexivity. }
  destruct Hb as [n Hn]. apply filter_In in Hn. destruct Hn as [Hn Hc]. exists t, r, n.
  split; auto. split; [vm_compute in E; inversion E; subst t; vm_compute; reflexivity|]. auto.
Qed.

Lemma clash_not_nodup : forall n, clash n = true -> ~ NoDup (map fst (t_children n) ++ map fst (t_alias n)).
Proof.
  intros n H N. unfold clash in H. assert (nodupb (map fst (t_children n) ++ map fst (t_alias n)) = true).
  { clear H. induction N; simpl; auto. rewrite IHN. destruct (memb x l) eqn:E; auto. apply memb_In in E. contradiction. }
  rewrite H0 in H. discriminate.
Qed.

(* the example universe: the root has three requirements, the dev one is not kept *)
Theorem example_kept :
  exists t reqs, t_example = Some t /\ tbl_lookup (tb_r t) (tb_root t) = Ok reqs /\ length reqs = 3 /\
    length (regular_imports (tbl_lookup (tb_m t)) reqs) = 2.
Proof.
  destruct t_example as [t|] eqn:E; [|vm_compute in E; discriminate].
  vm_compute in E. inversion E; subst t. eexists. eexists. split; [reflexivity|]. vm_compute. repeat split; reflexivity.
Qed.
