From DepsDev Require Import Lib.Base Gen.ApiClientTables Resolve.ApiClient Resolve.ApiLock.

(* the obligation against the regenerated table: writers hold the exclusive lock, readers a lock *)
Example source_modes : writer_mode = LExclusive /\ reader_mode <> LNone.
Proof. vm_compute. split; [reflexivity|discriminate]. Qed.

Lemma sections_modes rm wm svc o c : In c (sections_of rm wm svc o) ->
  (cs_mode c = rm /\ cs_access c = AccRead) \/ (cs_mode c = wm /\ cs_access c = AccWrite).
Proof.
  unfold sections_of. intro H. destruct (is_npm_bundle (op_name o)).
  - destruct H as [<-|[]]. left. auto.
  - destruct o; try contradiction.
    destruct (get_requirements svc (vk_name vk) (vk_version vk)) as [r| | |]; try contradiction.
    destruct (all_deps (vk_name vk) (vk_version vk) r); try contradiction.
    destruct H as [<-|[]]. right. auto.
Qed.

Lemma race_free_of_modes rm wm : wm = LExclusive -> rm <> LNone -> race_free rm wm.
Proof.
  intros -> Hr svc o1 o2 [m1 a1] [m2 a2] I1 I2 C.
  destruct (sections_modes _ _ _ _ _ I1) as [[M1 A1]|[M1 A1]];
  destruct (sections_modes _ _ _ _ _ I2) as [[M2 A2]|[M2 A2]];
  simpl in *; subst; try discriminate; destruct rm; try contradiction; reflexivity.
Qed.

Theorem source_race_free : race_free reader_mode writer_mode.
Proof. destruct source_modes. apply race_free_of_modes; auto. Qed.

(* a writer under the shared lock is not enough: two Requirements calls may write at once *)
Theorem shared_writer_races : ~ race_free LShared LShared.
Proof.
  intro H.
  set (svc := Service (fun _ => Err ENotFound) (fun _ _ => Err ENotFound)
                      (fun _ _ => Ok (NpmReqs (Deps [] [] [] [] []) []))).
  set (o := ORequirements (VK [97] Concrete [49])).
  specialize (H svc o o (CS LShared AccWrite) (CS LShared AccWrite)).
  assert (I : In (CS LShared AccWrite) (sections_of LShared LShared svc o)) by (vm_compute; auto).
  specialize (H I I eq_refl). discriminate.
Qed.

(* ... and an unlocked reader races with a writer *)
Theorem unlocked_reader_races : ~ race_free LNone LExclusive.
Proof.
  intro H.
  set (svc := Service (fun _ => Err ENotFound) (fun _ _ => Err ENotFound)
                      (fun _ _ => Ok (NpmReqs (Deps [] [] [] [] []) []))).
  specialize (H svc (OVersions [97;62;49;62;98]) (ORequirements (VK [97] Concrete [49]))
                (CS LNone AccRead) (CS LExclusive AccWrite)).
  assert (I1 : In (CS LNone AccRead) (sections_of LNone LExclusive svc (OVersions [97;62;49;62;98]))) by (vm_compute; auto).
  assert (I2 : In (CS LExclusive AccWrite) (sections_of LNone LExclusive svc (ORequirements (VK [97] Concrete [49])))) by (vm_compute; auto).
  specialize (H I1 I2 eq_refl). discriminate.
Qed.

(* the sections agree with the state machine: a call that changes the map has a write section *)
Lemma write_section_when_state_changes rm wm svc mr st o :
  snd (step svc mr st o) <> st -> In (CS wm AccWrite) (sections_of rm wm svc o).
Proof.
  intro H. unfold sections_of.
  destruct o; simpl in H; try congruence.
  unfold api_requirements in H. simpl.
  destruct (is_npm_bundle (vk_name vk)).
  - destruct (al_get (vk_name vk) st); simpl in H; congruence.
  - destruct (get_requirements svc (vk_name vk) (vk_version vk)) as [r| | |]; simpl in H; try congruence.
    unfold npm_requirements in H.
    destruct (all_deps (vk_name vk) (vk_version vk) r); simpl in H; try congruence.
    simpl. auto.
Qed.
