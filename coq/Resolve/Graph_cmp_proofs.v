(* Laws of the comparisons used by Graph.Canon: each is a total preorder (cmp_laws),
   and -- except for dependency types that are not in canonical form -- its equivalence is
   equality.  These are the proof obligations of the sorting statements (DESIGN 3.5). *)
From Coq Require Import Lia.
From DepsDev Require Import Lib.Base Lib.Order Lib.SortZ Lib.SortSpec Resolve.Attr Resolve.Attr_proofs Resolve.Graph Resolve.Graph_spec.
Local Open Scope Z_scope.

Notation TT := (fun _ => True).

Lemma core_pull {A B} (f : A -> B) (c : B -> B -> Z) :
  cmp_core TT c -> cmp_core TT (fun a b => c (f a) (f b)).
Proof. intros H. apply (core_pullback f TT TT c); auto. Qed.

Lemma cmp_nat_core : cmp_core TT cmp_nat.
Proof. unfold cmp_nat. apply (core_pull Z.of_nat cmpZ). apply cmpZ_core. Qed.

Lemma cmp_nat_eq a b : cmp_nat a b = 0 <-> a = b.
Proof. unfold cmp_nat. rewrite cmpZ_eq. lia. Qed.

Lemma cmp_nat_lt a b : cmp_nat a b < 0 <-> (a < b)%nat.
Proof. unfold cmp_nat, cmpZ. destruct (Z.compare_spec (Z.of_nat a) (Z.of_nat b)); lia. Qed.

(* ---- VersionKey ---- *)
Lemma vkey_core : cmp_core TT vkey_compare.
Proof.
  unfold vkey_compare.
  apply core_lex; [apply (core_pull vk_sys cmpN), cmpN_core|].
  apply core_lex; [apply (core_pull vk_name bytes_compare), bytes_core|].
  apply core_lex; [apply (core_pull vk_type cmpN), cmpN_core|].
  apply (core_pull vk_ver bytes_compare), bytes_core.
Qed.

Lemma vkey_compare_eq a b : vkey_compare a b = 0 <-> a = b.
Proof.
  unfold vkey_compare. rewrite !lex_eq0, !cmpN_eq, !bytes_compare_eq.
  destruct a, b; simpl. split.
  - intros (-> & -> & -> & ->); auto.
  - intros E; inversion E; auto.
Qed.

(* ---- NodeError ---- *)
Lemma nerr_core : cmp_core TT nerr_compare.
Proof.
  unfold nerr_compare.
  apply core_lex; [apply (core_pull ne_req vkey_compare), vkey_core|].
  apply (core_pull ne_text bytes_compare), bytes_core.
Qed.

Lemma nerr_laws : cmp_laws TT nerr_compare.
Proof. apply core_laws, nerr_core. Qed.

Lemma nerr_compare_eq a b : nerr_compare a b = 0 <-> a = b.
Proof.
  unfold nerr_compare. rewrite lex_eq0, vkey_compare_eq, bytes_compare_eq.
  destruct a, b; simpl. split.
  - intros (-> & ->); auto.
  - intros E; inversion E; auto.
Qed.

(* ---- Node ---- *)
Lemma Forall_TT {A} (l : list A) : Forall TT l.
Proof. induction l; constructor; auto. Qed.

Lemma node_core : cmp_core TT node_compare.
Proof.
  unfold node_compare.
  apply core_lex; [apply (core_pull n_ver vkey_compare), vkey_core|].
  apply core_lex; [apply (core_pull (fun n => length (n_errs n)) cmp_nat), cmp_nat_core|].
  apply (core_pullback n_errs TT (Forall TT) (list_lex nerr_compare (-1))).
  - intros; apply Forall_TT.
  - apply core_list_lex; [apply nerr_core | lia].
Qed.

Lemma node_laws : cmp_laws TT node_compare.
Proof. apply core_laws, node_core. Qed.

Lemma list_lex_eq {A} (c : A -> A -> Z) (s : Z) (Hc : forall a b, c a b = 0 <-> a = b) (Hs : s <> 0) l1 :
  forall l2, list_lex c s l1 l2 = 0 <-> l1 = l2.
Proof.
  induction l1 as [|x t IH]; intros [|y t2]; simpl; split; intros H; try discriminate; try lia; auto.
  - destruct (Z.eqb_spec (c x y) 0) as [E|E]; [|contradiction].
    apply Hc in E. subst. f_equal. apply IH; auto.
  - inversion H; subst. rewrite (proj2 (Hc y y) eq_refl). simpl. apply IH; auto.
Qed.

Lemma node_compare_eq a b : node_compare a b = 0 <-> a = b.
Proof.
  unfold node_compare. rewrite !lex_eq0, vkey_compare_eq, cmp_nat_eq.
  rewrite (list_lex_eq nerr_compare (-1) nerr_compare_eq); [|lia].
  destruct a, b; simpl. split.
  - intros (-> & _ & ->); auto.
  - intros E; inversion E; auto.
Qed.

(* ---- items (node with its old index) ---- *)
Lemma item_laws : cmp_laws TT item_compare.
Proof. apply core_laws. unfold item_compare. apply (core_pull fst node_compare), node_core. Qed.

(* ---- dep.Type on pure values ---- *)
Definition dtype_key (d : dtype) : N * (N * list bytes) :=
  (fst d, (amap_bits (snd d), kv (snd d) (amap_bits (snd d)))).

Lemma dtype_compare_key a b : dtype_compare a b = key_cmp (dtype_key a) (dtype_key b).
Proof.
  unfold dtype_compare, key_cmp, lex, dtype_key. cbn [fst snd]. unfold cmpN.
  destruct (N.ltb_spec (fst a) (fst b)) as [H|H].
  { rewrite (proj2 (N.compare_lt_iff _ _) H). reflexivity. }
  destruct (N.ltb_spec (fst b) (fst a)) as [H2|H2].
  { rewrite (proj2 (N.compare_gt_iff _ _) H2). reflexivity. }
  assert (E : fst a = fst b) by lia. rewrite E, N.compare_refl.
  change (0 =? 0)%Z with true. cbv iota.
  destruct (N.ltb_spec (amap_bits (snd a)) (amap_bits (snd b))) as [H3|H3].
  { rewrite (proj2 (N.compare_lt_iff _ _) H3). reflexivity. }
  destruct (N.ltb_spec (amap_bits (snd b)) (amap_bits (snd a))) as [H4|H4].
  { rewrite (proj2 (N.compare_gt_iff _ _) H4). reflexivity. }
  assert (E2 : amap_bits (snd a) = amap_bits (snd b)) by lia. rewrite E2, N.compare_refl.
  change (0 =? 0)%Z with true. cbv iota.
  unfold kv. rewrite compare_attrs_kv. reflexivity.
Qed.

Lemma dtype_core : cmp_core TT dtype_compare.
Proof.
  eapply core_ext with (c := fun a b => key_cmp (dtype_key a) (dtype_key b)).
  - intros; symmetry; apply dtype_compare_key.
  - apply (core_pull dtype_key key_cmp), key_cmp_core.
Qed.

(* the model's comparison of dependency types is the one of the attribute-set model (C19)
   whenever the bit set of a Set is the bit set of its map, which Attr_proofs.Inv states *)
Lemma set_compare_dtype s a b :
  abits a = amap_bits (map_of s a) -> abits b = amap_bits (map_of s b) ->
  set_compare s a b = dtype_compare (mask a, map_of s a) (mask b, map_of s b).
Proof.
  intros Ha Hb. unfold set_compare, dtype_compare. cbn [fst snd]. rewrite Ha, Hb. reflexivity.
Qed.

(* ---- edges ---- *)
Lemma edge_core : cmp_core TT edge_compare.
Proof.
  unfold edge_compare.
  apply core_lex; [apply (core_pull e_from cmp_nat), cmp_nat_core|].
  apply core_lex; [apply (core_pull e_to cmp_nat), cmp_nat_core|].
  apply core_lex; [apply (core_pull e_req bytes_compare), bytes_core|].
  apply (core_pull e_type dtype_compare), dtype_core.
Qed.

Lemma edge_laws : cmp_laws TT edge_compare.
Proof. apply core_laws, edge_core. Qed.

Lemma edge_compare_eq (ts : list dtype) a b :
  types_canonical ts -> In (e_type a) ts -> In (e_type b) ts ->
  edge_compare a b = 0 -> a = b.
Proof.
  intros Hc Ha Hb. unfold edge_compare. rewrite !lex_eq0, !cmp_nat_eq, bytes_compare_eq.
  intros (E1 & E2 & E3 & E4). apply Hc in E4; auto.
  destruct a, b; simpl in *; subst; auto.
Qed.
