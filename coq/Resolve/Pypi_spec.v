(* Statement-level definitions for property C08 (definitions only). *)
From DepsDev Require Import Lib.Base Gen.PypiTables Resolve.Pypi.

(* the extras requested of node i of a graph: the union of EnabledDependencies over its
   incoming edges (how the resolver derives them: unionExtras over the requirements on a package) *)
Definition extras_in_force (g : graph) (i : nat) : list bytes :=
  fold_left (fun acc e => let '(_, t, _, ty) := e in if Nat.eqb t i then union_extras acc ty else acc)
            (g_edges g) [].

(* the completeness clause of C08 as the property states it: every requirement of every selected
   version whose marker is true for the requested extras is represented by an edge *)
Definition edges_complete (c_requirements : vkey -> res (list req))
           (marker_true : bytes -> list bytes -> res bool) (g : graph) : Prop :=
  forall i v l d, nth_error (g_nodes g) i = Some v -> c_requirements v = Ok l -> In d l ->
    keep marker_true (extras_in_force g i) d = Ok true ->
    exists j, In (i, j, rq_ver d, rq_type d) (g_edges g).

(* the false-marker clause as the property states it: an edge labelled with a requirement d of
   its source version exists only if d's marker is true for the extras requested of the source *)
Definition false_marker_clause (c_requirements : vkey -> res (list req))
           (marker_true : bytes -> list bytes -> res bool) (g : graph) : Prop :=
  forall i j v w l d, nth_error (g_nodes g) i = Some v -> nth_error (g_nodes g) j = Some w ->
    c_requirements v = Ok l -> In d l -> vk_name w = rq_name d ->
    In (i, j, rq_ver d, rq_type d) (g_edges g) ->
    keep marker_true (extras_in_force g i) d = Ok true.

(* every edge stands for a requirement of its source version (the graph is the solution: nothing in it
   may come from a version that was not selected) *)
Definition edges_sound_clause (c_requirements : vkey -> res (list req)) (g : graph) : Prop :=
  forall i j rqv ty v w, In (i, j, rqv, ty) (g_edges g) ->
    nth_error (g_nodes g) i = Some v -> nth_error (g_nodes g) j = Some w ->
    exists l d, c_requirements v = Ok l /\ In d l /\ rq_ver d = rqv /\ rq_type d = ty /\ rq_name d = vk_name w.

(* ---------- boolean checks of the hypotheses on a table client ---------- *)
Fixpoint nodup_bytes_b (l : list bytes) : bool :=
  match l with
  | [] => true
  | x :: r => negb (existsb (bytes_eqb x) r) && nodup_bytes_b r
  end.

Definition answer_all {A} (p : A -> bool) (r : res (list A)) : bool :=
  match r with Ok l => forallb p l | _ => true end.

Definition table_ok_b (t : table) : bool :=
  forallb (fun e => answer_all (fun v => bytes_eqb (vk_name v) (vk_name (fst e))) (snd e)) (t_matching t) &&
  forallb (fun e => answer_all (fun v => bytes_eqb (vk_name v) (fst e)) (snd e)) (t_versions t) &&
  forallb (fun e => answer_all (fun d => N.eqb (vk_type (rq_key d)) version_type_requirement) (snd e) &&
                    match snd e with Ok l => nodup_bytes_b (map rq_name l) | _ => true end) (t_requirements t).

(* no edge leaves node i with the label of requirement d *)
Definition no_edge_b (g : graph) (i : nat) (d : req) : bool :=
  forallb (fun e => let '(f, _, rq, ty) := e in
                    negb (Nat.eqb f i && bytes_eqb rq (rq_ver d) && deptype_eqb ty (rq_type d))) (g_edges g).

(* no requirement of the list carries this label towards this package *)
Definition no_req_b (l : list req) (pkg rqv : bytes) (ty : deptype) : bool :=
  forallb (fun d => negb (bytes_eqb (rq_name d) pkg && bytes_eqb (rq_ver d) rqv && deptype_eqb (rq_type d) ty)) l.
