(* Node's module lookup lands on the edge target: for clients without derived packages and
   without aliases, whose matching answers carry the requested name and whose versions do not
   require one name twice.  The invariant is the one of DESIGN 8 C06: every recorded resolution
   (x, name, t) has a path from x upwards on which no directory holds the name and every
   directory is protected for it, ending in the directory that holds t. *)
From Coq Require Import Lia.
From DepsDev Require Import Lib.Base Resolve.Npm Resolve.Npm_lemmas Resolve.Npm_step Resolve.Npm_inv Resolve.Npm_loop
  Resolve.Npm_tree Resolve.Npm_proofs.
Local Open Scope nat_scope.

(* Node's algorithm: walk up from the directory of x until one holds an entry of that name *)
Fixpoint lookup_up (fuel : nat) (tree : list tnode) (x : nat) (name : bytes) : option nat :=
  match fuel with
  | O => None
  | S f =>
      match nth_error tree x with
      | None => None
      | Some n =>
          match assoc name (t_children n) with
          | Some c => Some c
          | None =>
              match assoc name (t_alias n) with
              | Some c => Some c
              | None => match t_parent n with Some p => lookup_up f tree p name | None => None end
              end
          end
      end
  end.
Definition node_lookup (tree : list tnode) (x : nat) (name : bytes) : option nat :=
  lookup_up (S (length tree)) tree x name.

(* the name a requirement is loaded by *)
Definition lname (d : req) : bytes := match r_alias d with [] => r_name d | a => a end.

(* the recorded path *)
Inductive resolves (tree : list tnode) (name : bytes) : nat -> nat -> Prop :=
| rs_here : forall x n t, nth_error tree x = Some n -> assoc name (t_children n) = Some t -> resolves tree name x t
| rs_up : forall x n p t, nth_error tree x = Some n -> assoc name (t_children n) = None -> In name (t_prot n) ->
    t_parent n = Some p -> resolves tree name p t -> resolves tree name x t.

Lemma resolves_lookup : forall tree name x t,
  (forall i n q, nth_error tree i = Some n -> t_parent n = Some q -> q < i) ->
  (forall i n, nth_error tree i = Some n -> t_alias n = []) ->
  resolves tree name x t -> forall fuel, x < fuel -> lookup_up fuel tree x name = Some t.
Proof.
  intros tree name x t WF NA R. induction R; intros fuel Hf; (destruct fuel as [|f]; [lia|]); simpl; rewrite H.
  - rewrite H0. reflexivity.
  - rewrite H0. rewrite (NA _ _ H). simpl. rewrite H2. apply IHR. pose proof (WF _ _ _ H H2). lia.
Qed.

(* resolves only depends on parents, children and (monotonically) on protected marks *)
Lemma resolves_mono : forall tree tree' name x t,
  (forall i n, nth_error tree i = Some n -> exists n', nth_error tree' i = Some n' /\ t_parent n' = t_parent n /\
      t_children n' = t_children n /\ (forall k, In k (t_prot n) -> In k (t_prot n'))) ->
  resolves tree name x t -> resolves tree' name x t.
Proof.
  intros tree tree' name x t E R. induction R.
  - destruct (E _ _ H) as [n' [H1 [H2 [H3 H4]]]]. eapply rs_here; eauto. congruence.
  - destruct (E _ _ H) as [n' [H3 [H4 [H5 H6]]]]. eapply rs_up; eauto; congruence.
Qed.

Lemma resolves_prot_ext : forall tree tree' name x t, prot_ext tree tree' -> resolves tree name x t -> resolves tree' name x t.
Proof.
  intros tree tree' name x t [_ E] R. eapply resolves_mono; [|exact R]. intros i n Hn.
  destruct (E _ _ Hn) as [n' [H1 [C [D [A [P _]]]]]]. exists n'. apply core_fields in C.
  destruct C as [_ [_ [_ [_ [C5 _]]]]]. auto.
Qed.

Lemma resolves_app : forall tree l name x t, resolves tree name x t -> resolves (tree ++ l) name x t.
Proof.
  intros tree l name x t R. eapply resolves_mono; [|exact R]. intros i n Hn. exists n.
  split; [apply nth_error_app_some; exact Hn | auto].
Qed.

(* transfer of a recorded path to a tree in which directory P received a new entry m *)
Lemma resolves_transfer : forall tree tree' name m P (G : nat -> Prop),
  (forall y ny p, G y -> nth_error tree y = Some ny -> t_parent ny = Some p -> G p) ->
  (forall ny, nth_error tree P = Some ny -> G P ->
      (assoc name (t_children ny) <> None \/ In name (t_prot ny)) -> name <> m) ->
  (forall i n, nth_error tree i = Some n -> exists n', nth_error tree' i = Some n' /\ t_parent n' = t_parent n /\
      (forall k, In k (t_prot n) -> In k (t_prot n')) /\
      (forall k, k <> m \/ i <> P -> assoc k (t_children n') = assoc k (t_children n))) ->
  forall x t, resolves tree name x t -> G x -> resolves tree' name x t.
Proof.
  intros tree tree' name m P G Gup Hcond E x t R. induction R; intros Gx.
  - destruct (E _ _ H) as [n' [H1 [H2 [H3 H4]]]]. eapply rs_here with (n := n'); [exact H1|]. rewrite H4; auto.
    destruct (Nat.eq_dec x P) as [EP|EP]; [|right; exact EP]. subst x. left.
    apply (Hcond _ H Gx). left. congruence.
  - destruct (E _ _ H) as [n' [H3 [H4 [H5 H6]]]].
    eapply rs_up with (n := n') (p := p);
      [exact H3 | | apply H5; exact H1 | congruence | apply IHR; eapply Gup; eauto].
    rewrite H6; auto. destruct (Nat.eq_dec x P) as [EP|EP]; [|right; exact EP]. subst x. left.
    apply (Hcond _ H Gx). right. exact H1.
Qed.

Lemma nth_app_one : forall {A} (l : list A) x i y, nth_error (l ++ [x]) i = Some y ->
  (i < length l /\ nth_error l i = Some y) \/ (i = length l /\ y = x).
Proof.
  intros A l x i y H. destruct (Nat.lt_ge_cases i (length l)) as [Hi|Hi].
  - left. split; auto. rewrite nth_error_app1 in H; auto.
  - right. rewrite nth_error_app2 in H; auto. destruct (i - length l) as [|k] eqn:E; simpl in H.
    + inversion H. split; [lia | reflexivity].
    + destruct k; discriminate.
Qed.

Local Arguments candidate : simpl never.
Local Arguments protectedb : simpl never.

Section Lookup.
  Variable c_version : vkey -> res version.
  Variable c_requirements : vkey -> res (list req).
  Variable c_matching : vkey -> res (list version).
  Variable sem_match : bytes -> bytes -> res bool.

  Hypothesis ND : forall d, get_bundled c_matching d = None.
  (* no requirement is an alias *)
  Hypothesis NA : forall k reqs d, c_requirements k = Ok reqs -> In d reqs -> r_alias d = [].
  (* MatchingVersions answers versions of the package that was asked for *)
  Hypothesis MN : forall k vs v, c_matching k = Ok vs -> In v vs -> vk_name (v_key v) = vk_name k.
  (* the requirements a version keeps are for pairwise different names *)
  Hypothesis UN : forall k reqs, c_requirements k = Ok reqs -> NoDup (map r_name (regular_imports c_matching reqs)).

  Notation step_dep := (step_dep c_version c_requirements c_matching sem_match).
  Notation resolve := (resolve c_version c_requirements c_matching sem_match).
  Notation inv := (inv c_requirements c_matching sem_match).
  Notation new_tree_node := (new_tree_node c_requirements c_matching).

  Definition plain (tree : list tnode) : Prop :=
    forall i n, nth_error tree i = Some n -> t_bundled n = None /\ t_alias n = [].

  Lemma candidate_plain : forall n name, t_alias n = [] ->
    candidate n name [] = match assoc name (t_children n) with Some c => Some (c, true) | None => None end.
  Proof. intros n name H. unfold candidate. rewrite H. destruct (assoc name (t_children n)); reflexivity. Qed.

  Lemma plain_prot_ext : forall t t', prot_ext t t' -> plain t -> plain t'.
  Proof.
    intros t t' PE PL i m Hm. destruct (prot_ext_back _ _ _ _ PE Hm) as [m0 [H2 [C [_ [A _]]]]].
    apply core_fields in C. destruct C as [_ [_ [_ [_ [_ [_ C7]]]]]]. destruct (PL _ _ H2). split; congruence.
  Qed.

  Definition wf (tree : list tnode) : Prop :=
    forall i n q, nth_error tree i = Some n -> t_parent n = Some q -> q < i.

  Lemma wf_prot_ext : forall t t', prot_ext t t' -> wf t -> wf t'.
  Proof.
    intros t t' PE W i n q Hn Hq. destruct (prot_ext_back _ _ _ _ PE Hn) as [m0 [H2 [C _]]].
    apply core_fields in C. destruct C as [_ [_ [_ [_ [C5 _]]]]]. eapply W; eauto. congruence.
  Qed.

  (* reuse: the marks added by mark make the found entry a recorded path *)
  Lemma mark_resolves : forall fuel tree name y a r tree', plain tree -> found tree name [] y a r ->
    mark fuel tree y name [] = Ok tree' -> resolves tree' name y r.
  Proof.
    induction fuel as [|f IH]; intros tree name y a r tree' PL F Hm; simpl in Hm; [discriminate|].
    apply bind_ok in Hm. destruct Hm as [pn [Hpn Hm]]. apply getn_ok in Hpn.
    inversion F; subst.
    - rewrite Hpn in H. inversion H; subst n. rewrite H0 in Hm. inversion Hm; subst tree'.
      destruct (PL _ _ Hpn) as [_ Ha]. rewrite (candidate_plain _ _ Ha) in H0.
      destruct (assoc name (t_children pn)) eqn:E; inversion H0; subst. eapply rs_here; eauto.
    - rewrite Hpn in H. inversion H; subst n. rewrite H0, H1 in Hm.
      set (tree1 := upd y (add_prot name) tree) in *.
      assert (PE1 : prot_ext tree tree1) by apply prot_ext_upd_prot.
      assert (R : resolves tree' name p r).
      { eapply IH; [eapply plain_prot_ext; eauto | eapply found_prot_ext; eauto | exact Hm]. }
      pose proof (mark_prot_ext _ _ _ _ _ _ Hm) as PE2.
      assert (H1y : nth_error tree1 y = Some (add_prot name pn)).
      { unfold tree1. rewrite nth_upd_same, Hpn. reflexivity. }
      destruct PE2 as [_ E2]. destruct (E2 _ _ H1y) as [n' [Hn' [C [D [_ [P _]]]]]].
      destruct (PL _ _ Hpn) as [_ Ha]. rewrite (candidate_plain _ _ Ha) in H0.
      apply core_fields in C. destruct C as [_ [_ [_ [_ [C5 _]]]]]. simpl in *.
      eapply rs_up; [exact Hn' | | | | exact R].
      + rewrite D. destruct (assoc name (t_children pn)); [discriminate | reflexivity].
      + apply P. apply In_add_set. auto.
      + congruence.
  Qed.

  (* hoisting: the directories climbed through are free and get protected *)
  Inductive climbs (tree : list tnode) (name : bytes) (a : nat) : nat -> Prop :=
  | cl_stop : climbs tree name a a
  | cl_up : forall x n p, nth_error tree x = Some n -> assoc name (t_children n) = None -> In name (t_prot n) ->
      t_parent n = Some p -> a <= p -> p < x -> climbs tree name a p -> climbs tree name a x.

  Lemma climbs_prot_ext : forall t t' name a x, prot_ext t t' -> climbs t name a x -> climbs t' name a x.
  Proof.
    intros t t' name a x [_ E] C. induction C; [constructor|].
    destruct (E _ _ H) as [n' [Hn' [Cc [D [_ [P _]]]]]]. apply core_fields in Cc. destruct Cc as [_ [_ [_ [_ [C5 _]]]]].
    eapply cl_up; eauto; congruence.
  Qed.

  Lemma hoist_climbs : forall fuel t x name t' a,
    plain t -> wf t ->
    (exists nx, nth_error t x = Some nx /\ assoc name (t_children nx) = None) ->
    hoist fuel t x name [] = Ok (t', a) ->
    climbs t' name a x /\ a <= x /\ (a = x -> t' = t) /\
    (exists na, nth_error t' a = Some na /\ assoc name (t_children na) = None) /\
    (a <> x -> (exists na, nth_error t' a = Some na /\ ~ In name (t_prot na)) /\
               exists y ny, nth_error t y = Some ny /\ t_parent ny = Some a).
  Proof.
    induction fuel as [|f IH]; intros t x name t' a PL W [nx [Hnx Hfree]] H; simpl in H; [discriminate|].
    apply bind_ok in H. destruct H as [pn [Hpn H]]. apply getn_ok in Hpn. rewrite Hnx in Hpn. inversion Hpn; subst pn.
    assert (Stop : Ok (t, x) = Ok (t', a) ->
              climbs t' name a x /\ a <= x /\ (a = x -> t' = t) /\
              (exists na, nth_error t' a = Some na /\ assoc name (t_children na) = None) /\
              (a <> x -> (exists na, nth_error t' a = Some na /\ ~ In name (t_prot na)) /\
                         exists y ny, nth_error t y = Some ny /\ t_parent ny = Some a)).
    { intro E. inversion E; subst. split; [constructor|]. split; [lia|]. split; auto. split; [eauto|].
      intro F. contradiction. }
    destruct (t_parent nx) as [pp|] eqn:Epp; [|apply Stop; exact H].
    apply bind_ok in H. destruct H as [ppn [Hppn H]]. apply getn_ok in Hppn.
    destruct (PL _ _ Hppn) as [_ Happ]. rewrite (candidate_plain _ _ Happ) in H.
    destruct (assoc name (t_children ppn)) eqn:Ec; [apply Stop; exact H|].
    destruct (protectedb ppn name []) eqn:Epr; [apply Stop; exact H|].
    pose proof (W _ _ _ Hnx Epp) as Hlt.
    set (t1 := upd x (add_prot name) t) in *.
    assert (PE1 : prot_ext t t1) by apply prot_ext_upd_prot.
    assert (Hpp1 : nth_error t1 pp = Some ppn) by (unfold t1; rewrite nth_upd_other; [exact Hppn | lia]).
    destruct (IH t1 pp name t' a (plain_prot_ext _ _ PE1 PL) (wf_prot_ext _ _ PE1 W)
                 (ex_intro _ ppn (conj Hpp1 Ec)) H) as [C [Hle [Heq [Hfa Hne]]]].
    pose proof (hoist_prot_ext _ _ _ _ _ _ _ H) as PE2.
    assert (Hx1 : nth_error t1 x = Some (add_prot name nx)) by (unfold t1; rewrite nth_upd_same, Hnx; reflexivity).
    destruct PE2 as [L2 E2]. destruct (E2 _ _ Hx1) as [n' [Hn' [Cc [D [_ [P _]]]]]].
    apply core_fields in Cc. destruct Cc as [_ [_ [_ [_ [C5 _]]]]]. simpl in *.
    split; [|split; [lia|split; [intro; lia|split; [exact Hfa|]]]].
    - eapply cl_up with (n := n') (p := pp); [exact Hn' | rewrite D; exact Hfree | apply P; apply In_add_set; auto | congruence | exact Hle | exact Hlt | exact C].
    - intros _. destruct (Nat.eq_dec a pp) as [E|E].
      + subst a. split.
        * rewrite (Heq eq_refl). exists ppn. split; auto. unfold protectedb in Epr. apply orb_false_iff in Epr.
          destruct Epr as [Ep _]. intro F. apply memb_In in F. congruence.
        * exists x, nx. auto.
      + destruct (Hne E) as [N1 [y [ny [Hy Hyp]]]]. split; auto.
        apply nth_upd in Hy. destruct Hy as [m [Hm [[E1 E2']|[E1 E2']]]]; subst; exists y, m; auto.
  Qed.

  (* ---------- the invariant ---------- *)
  Definition Jlk (st : state) (_ : list nat) (active : option (nat * list req)) : Prop :=
    plain (s_tree st) /\
    (forall l, In l (s_log st) -> resolves (s_tree st) (r_name (l_req l)) (l_from l) (l_to l)) /\
    (forall j m i, nth_error (s_tree st) j = Some m -> t_parent m = Some i ->
        exists pn, nth_error (s_tree st) i = Some pn /\ t_processed pn = true) /\
    (forall l, In l (s_log st) -> exists x, nth_error (s_tree st) (l_from l) = Some x /\ t_processed x = true) /\
    match active with
    | Some (cur, done) =>
        (forall j m, nth_error (s_tree st) j = Some m -> t_parent m = Some cur -> t_processed m = false) /\
        (forall l, In l (s_log st) -> l_from l = cur -> In (l_req l) done)
    | None => True
    end.

  Lemma plain_no_bundled : forall t, plain t -> no_bundled t.
  Proof. intros t PL i n Hn. destruct (PL _ _ Hn). auto. Qed.

  Lemma regular_imports_subset : forall reqs d, In d (regular_imports c_matching reqs) -> In d reqs.
  Proof. intros reqs d H. unfold regular_imports in H. apply filter_In in H. tauto. Qed.

  Lemma NoDup_map_app_inv : forall (done rest : list req) (d : req),
    NoDup (map r_name (done ++ d :: rest)) -> forall x, In x done -> r_name x <> r_name d.
  Proof.
    intros done rest d H x Hx E. rewrite map_app in H. simpl in H.
    apply NoDup_remove_2 in H. apply H. apply in_or_app. left. rewrite <- E. apply in_map. exact Hx.
  Qed.

  Lemma Jlk_step : forall rk rvk ifuel st cur curn d done rest insq q st' insq',
    inv rk rvk st -> Jlk st (insq ++ q) (Some (cur, done)) ->
    nth_error (s_tree st) cur = Some curn -> t_processed curn = true -> t_ideps curn = done ++ d :: rest ->
    step_dep ifuel st cur d insq = Ok (st', insq') ->
    Jlk st' (insq' ++ q) (Some (cur, done ++ [d])).
  Proof.
    intros rk rvk ifuel st cur curn d done rest insq q st' insq' I [PL [K2 [K3 [K4 [K5a K5b]]]]] Hcur Hproc Hid H.
    assert (W : wf (s_tree st)).
    { intros i n p Hn Hp. destruct (iv_node _ _ _ _ _ _ I _ _ Hn) as [_ [_ [_ [_ [H5 _]]]]]. auto. }
    destruct (iv_node _ _ _ _ _ _ I _ _ Hcur) as [_ [_ [_ [[reqs [Hreqs Hideps]] _]]]].
    assert (Hdin : In d (t_ideps curn)) by (rewrite Hid; apply in_or_app; right; left; reflexivity).
    assert (Hal : r_alias d = []).
    { eapply NA; [exact Hreqs|]. apply regular_imports_subset. rewrite <- Hideps. exact Hdin. }
    assert (Hnd : NoDup (map r_name (done ++ d :: rest))).
    { rewrite <- Hid, Hideps. eapply UN; eauto. }
    destruct (step_dep_nb c_version c_requirements c_matching sem_match ND _ _ _ _ _ _ _ _ (plain_no_bundled _ PL) Hcur H).
    - (* reuse *)
      rewrite Hal in *. pose proof (mark_prot_ext _ _ _ _ _ _ Hmark) as PE.
      split; [eapply plain_prot_ext; eauto|]. split; [|split; [|split; [|split]]].
      + intros l Hl. rewrite Hlog in Hl. destruct Hl as [Hl|Hl].
        * subst l. simpl. eapply mark_resolves; eauto.
        * eapply resolves_prot_ext; eauto.
      + intros j m i Hm Hp. destruct (prot_ext_back _ _ _ _ PE Hm) as [m0 [H0 [C _]]].
        apply core_fields in C. destruct C as [_ [_ [_ [_ [C5 _]]]]]. rewrite C5 in Hp.
        destruct (K3 _ _ _ H0 Hp) as [pn [Hpn Hpp]]. destruct PE as [_ E]. destruct (E _ _ Hpn) as [pn' [G1 [G2 _]]].
        exists pn'. split; auto. apply core_fields in G2. destruct G2 as [G2 _]. congruence.
      + intros l Hl. rewrite Hlog in Hl. destruct PE as [_ E]. destruct Hl as [Hl|Hl].
        * subst l. simpl. destruct (E _ _ Hcur) as [c' [G1 [G2 _]]]. exists c'. split; auto.
          apply core_fields in G2. destruct G2 as [G2 _]. congruence.
        * destruct (K4 _ Hl) as [x [Hx Hxp]]. destruct (E _ _ Hx) as [x' [G1 [G2 _]]]. exists x'. split; auto.
          apply core_fields in G2. destruct G2 as [G2 _]. congruence.
      + intros j m Hm Hp. destruct (prot_ext_back _ _ _ _ PE Hm) as [m0 [H0 [C _]]].
        apply core_fields in C. destruct C as [C1 [_ [_ [_ [C5 _]]]]]. rewrite C1. eapply K5a; eauto. congruence.
      + intros l Hl Hf. rewrite Hlog in Hl. apply in_or_app. destruct Hl as [Hl|Hl].
        * subst l. right. left. reflexivity.
        * left. auto.
    - (* no match *)
      unfold Jlk. rewrite Htree, Hlog. split; auto. split; auto. split; auto. split; auto. split; auto.
      intros l Hl Hf. apply in_or_app. left. auto.
    - (* refused *)
      destruct Hnode as [ver Hnode]. apply new_node_fields in Hnode.
      destruct Hnode as [F1 [F2 [F3 [F4 [F5 [F6 [F7 [F8 F9]]]]]]]].
      assert (Hback : forall i n', nth_error (s_tree st') i = Some n' ->
                (exists n0, nth_error (s_tree st) i = Some n0 /\ core n' = core n0 /\ t_alias n' = t_alias n0) \/
                (i = length (s_tree st) /\ core n' = core node /\ t_alias n' = [])).
      { intros i n' Hn'. destruct (prot_ext_back _ _ _ _ Htree Hn') as [n0 [H0 [C [_ [A _]]]]].
        apply nth_app_one in H0. destruct H0 as [[_ H0]|[Hi H0]]; [left; eauto|].
        subst n0. right. split; auto. split; auto. congruence. }
      assert (Hfwd : forall i n0, nth_error (s_tree st) i = Some n0 ->
                exists n', nth_error (s_tree st') i = Some n' /\ core n' = core n0).
      { intros i n0 H0. destruct Htree as [_ E]. destruct (E i n0 (nth_error_app_some _ _ _ _ H0)) as [n' [G1 [G2 _]]]. eauto. }
      split; [|split; [|split; [|split; [|split]]]].
      + intros i n' Hn'. destruct (Hback _ _ Hn') as [[n0 [H0 [C A]]]|[_ [C A]]].
        * destruct (PL _ _ H0). apply core_fields in C. destruct C as [_ [_ [_ [_ [_ [_ C7]]]]]]. split; congruence.
        * apply core_fields in C. destruct C as [_ [_ [_ [_ [_ [_ C7]]]]]]. split; congruence.
      + intros l Hl. rewrite Hlog in Hl. eapply resolves_prot_ext; [exact Htree|]. apply resolves_app. auto.
      + intros j m i Hm Hp. destruct (Hback _ _ Hm) as [[n0 [H0 [C _]]]|[_ [C _]]].
        * apply core_fields in C. destruct C as [_ [_ [_ [_ [C5 _]]]]]. rewrite C5 in Hp.
          destruct (K3 _ _ _ H0 Hp) as [pn [Hpn Hpp]]. destruct (Hfwd _ _ Hpn) as [pn' [G1 G2]].
          exists pn'. split; auto. apply core_fields in G2. destruct G2 as [G2 _]. congruence.
        * apply core_fields in C. destruct C as [_ [_ [_ [_ [C5 _]]]]]. congruence.
      + intros l Hl. rewrite Hlog in Hl. destruct (K4 _ Hl) as [x [Hx Hxp]]. destruct (Hfwd _ _ Hx) as [x' [G1 G2]].
        exists x'. split; auto. apply core_fields in G2. destruct G2 as [G2 _]. congruence.
      + intros j m Hm Hp. destruct (Hback _ _ Hm) as [[n0 [H0 [C _]]]|[_ [C _]]].
        * apply core_fields in C. destruct C as [C1 [_ [_ [_ [C5 _]]]]]. rewrite C1. eapply K5a; eauto. congruence.
        * apply core_fields in C. destruct C as [_ [_ [_ [_ [C5 _]]]]]. congruence.
      + intros l Hl Hf. rewrite Hlog in Hl. apply in_or_app. left. auto.
    - (* fresh install *)
      rewrite Hal in *. simpl in Htree.
      pose proof (new_node_fields _ _ _ _ Hnode) as [F1 [F2 [F3 [F4 [F5 [F6 [F7 [F8 F9]]]]]]]].
      set (name := r_name d) in *. set (nid := length (s_tree st)) in *.
      assert (Hpkg : t_pkg node = name).
      { rewrite F6. unfold name, r_name. eapply MN; [exact Hm|]. apply pick_version_in; exact Hwp. }
      rewrite Hpkg in *.
      set (t0 := s_tree st ++ [node]) in *.
      assert (PL0 : plain t0).
      { intros i n Hn. apply nth_app_one in Hn. destruct Hn as [[_ Hn]|[_ Hn]]; [eapply PL; eauto | subst; auto]. }
      assert (W0 : wf t0).
      { intros i n p Hn Hp. apply nth_app_one in Hn. destruct Hn as [[_ Hn]|[_ Hn]]; [eapply W; eauto | subst; congruence]. }
      destruct (PL _ _ Hcur) as [_ Hca]. rewrite (candidate_plain _ _ Hca) in Hfree.
      assert (Hfree0 : exists nx, nth_error t0 cur = Some nx /\ assoc name (t_children nx) = None).
      { exists curn. split; [apply nth_error_app_some; exact Hcur|]. destruct (assoc name (t_children curn)); [discriminate | reflexivity]. }
      destruct (hoist_climbs _ _ _ _ _ _ PL0 W0 Hfree0 Hhoist) as [Cl [Hle [Heq [[pa [Hpa Hpafree]] Hne]]]].
      pose proof (hoist_prot_ext _ _ _ _ _ _ _ Hhoist) as PE.
      assert (Hcurlt : cur < nid) by (apply nth_error_Some; congruence).
      assert (Hparlt : parent < nid) by lia.
      set (fin := fun n => set_id k (set_parent parent n)) in *.
      set (t5 := upd nid fin (upd parent (add_child name nid) tree3)) in *.
      assert (Hn3 : exists n3, nth_error tree3 nid = Some n3 /\ core n3 = core node /\ t_children n3 = [] /\ t_alias n3 = []).
      { destruct PE as [_ E]. assert (Hx : nth_error t0 nid = Some node).
        { unfold t0. rewrite nth_error_app2; [|lia]. rewrite Nat.sub_diag. reflexivity. }
        destruct (E _ _ Hx) as [n3 [G1 [G2 [G3 [G4 _]]]]]. exists n3. repeat split; auto; congruence. }
      destruct Hn3 as [n3 [Hn3 [Cn3 [Ch3 Al3]]]].
      assert (T5nid : nth_error t5 nid = Some (fin n3)).
      { unfold t5. rewrite nth_upd_same, nth_upd_other; [|lia]. rewrite Hn3. reflexivity. }
      assert (T5par : nth_error t5 parent = Some (add_child name nid pa)).
      { unfold t5. rewrite nth_upd_other; [|lia]. rewrite nth_upd_same, Hpa. reflexivity. }
      assert (T5other : forall i, i <> nid -> i <> parent -> nth_error t5 i = nth_error tree3 i).
      { intros i G1 G2. unfold t5. rewrite !nth_upd_other; auto. }
      (* old nodes as seen in the final tree *)
      assert (Hold : forall i n0, nth_error (s_tree st) i = Some n0 ->
                exists n', nth_error t5 i = Some n' /\ core n' = core n0 /\ t_alias n' = t_alias n0 /\
                  (forall x, In x (t_prot n0) -> In x (t_prot n')) /\
                  (forall x, x <> name \/ i <> parent -> assoc x (t_children n') = assoc x (t_children n0))).
      { intros i n0 H0. assert (Hi : i < nid) by (apply nth_error_Some; congruence).
        destruct PE as [_ E]. destruct (E i n0 (nth_error_app_some _ _ _ _ H0)) as [n3' [G1 [G2 [G3 [G4 [G5 _]]]]]].
        destruct (Nat.eq_dec i parent) as [Ep|Ep].
        - subst i. rewrite Hpa in G1. inversion G1; subst n3'. exists (add_child name nid pa).
          split; auto. split; auto. split; auto. split; auto.
          intros x [Hx|Hx]; [|contradiction]. unfold add_child, set_children. cbn [t_children]. rewrite assoc_set_other; auto. congruence.
        - exists n3'. rewrite T5other; [|lia|exact Ep]. repeat split; auto. intros x _. congruence. }
      assert (Hback : forall i n', nth_error t5 i = Some n' -> i <> nid ->
                exists n0, nth_error (s_tree st) i = Some n0 /\ core n' = core n0 /\ t_alias n' = t_alias n0).
      { intros i n' Hn' Hi. assert (Hlen : length t5 = S nid).
        { unfold t5. rewrite !upd_length. destruct PE as [L _]. rewrite <- L. unfold t0. rewrite app_length. simpl. lia. }
        assert (i < S nid) by (rewrite <- Hlen; apply nth_error_Some; congruence).
        destruct (nth_error (s_tree st) i) as [n0|] eqn:E0; [|apply nth_error_None in E0; lia].
        destruct (Hold _ _ E0) as [n'' [G1 [G2 [G3 _]]]]. rewrite Hn' in G1. inversion G1; subst. eauto. }
      unfold Jlk. rewrite Htree. fold nid. fold fin. fold t5.
      split; [|split; [|split; [|split; [|split]]]].
      + (* plain *)
        intros i n' Hn'. destruct (Nat.eq_dec i nid) as [E|E].
        * subst i. rewrite T5nid in Hn'. inversion Hn'; subst n'. unfold fin. simpl.
          apply core_fields in Cn3. destruct Cn3 as [_ [_ [_ [_ [_ [_ C7]]]]]]. split; congruence.
        * destruct (Hback _ _ Hn' E) as [n0 [H0 [C A]]]. destruct (PL _ _ H0).
          apply core_fields in C. destruct C as [_ [_ [_ [_ [_ [_ C7]]]]]]. split; congruence.
      + (* recorded paths *)
        intros l Hl. rewrite Hlog in Hl. destruct Hl as [Hl|Hl].
        * (* the new entry: cur -> ... -> parent holds nid *)
          subst l. simpl. fold name.
          assert (Hclimb : forall x, climbs tree3 name parent x -> x <= cur -> resolves t5 name x nid).
          { intros x C. induction C; intros Hxc.
            - eapply rs_here; [exact T5par|]. unfold add_child, set_children. cbn [t_children]. apply assoc_set_same.
            - eapply rs_up; [rewrite T5other; [exact H0|lia|lia] | exact H1 | exact H2 | exact H3 |]. apply IHC. lia. }
          apply Hclimb; [exact Cl | lia].
        * (* old entries *)
          set (n := r_name (l_req l)).
          destruct (Nat.eq_dec parent cur) as [Epc|Epc].
          -- (* installed in the directory of the node being processed *)
             eapply resolves_transfer with (m := name) (P := parent)
               (G := fun y => (exists ny, nth_error (s_tree st) y = Some ny /\ t_processed ny = true) /\ (y = cur -> n <> name)).
             ++ intros y ny p [[ny' [Hy Hyp]] _] Hny Hp. rewrite Hy in Hny. inversion Hny; subst ny'.
                split; [eapply K3; eauto|]. intro Ec. subst p. exfalso.
                pose proof (K5a _ _ Hy Hp). congruence.
             ++ intros ny Hny [_ Gc] _. apply Gc. exact Epc.
             ++ intros i n0 H0. destruct (Hold _ _ H0) as [n' [G1 [G2 [_ [G4 G5]]]]]. exists n'. split; auto.
                apply core_fields in G2. destruct G2 as [_ [_ [_ [_ [G2 _]]]]]. auto.
             ++ apply K2. exact Hl.
             ++ split; [apply K4; exact Hl|]. intro Ec. unfold n, name.
                eapply NoDup_map_app_inv; [exact Hnd|]. apply K5b; auto.
          -- (* hoisted above: that directory was free and not protected *)
             destruct (Hne Epc) as [[pa' [Hpa' Hnp]] _]. rewrite Hpa in Hpa'. inversion Hpa'; subst pa'.
             eapply resolves_transfer with (m := name) (P := parent) (G := fun _ => True); auto.
             ++ intros ny Hny _ Hor Een. unfold n in *. rewrite Een in Hor.
                destruct PE as [_ E]. destruct (E parent ny (nth_error_app_some _ _ _ _ Hny)) as [p3 [G1 [_ [G3 [_ [G5 _]]]]]].
                rewrite Hpa in G1. inversion G1; subst p3. destruct Hor as [Hor|Hor].
                ** apply Hor. rewrite <- G3. exact Hpafree.
                ** apply Hnp. apply G5. exact Hor.
             ++ intros i n0 H0. destruct (Hold _ _ H0) as [n' [G1 [G2 [_ [G4 G5]]]]]. exists n'. split; auto.
                apply core_fields in G2. destruct G2 as [_ [_ [_ [_ [G2 _]]]]]. auto.
             ++ apply K2. exact Hl.
      + (* parents are processed *)
        intros j m i Hmj Hp. destruct (Nat.eq_dec j nid) as [E|E].
        * subst j. rewrite T5nid in Hmj. inversion Hmj; subst m. unfold fin in Hp. simpl in Hp. inversion Hp; subst i.
          assert (Hpp : exists pn, nth_error (s_tree st) parent = Some pn /\ t_processed pn = true).
          { destruct (Nat.eq_dec parent cur) as [Epc|Epc]; [subst; eauto|].
            destruct (Hne Epc) as [_ [y [ny [Hy Hyp]]]].
            apply nth_app_one in Hy. destruct Hy as [[_ Hy]|[_ Hy]]; [eapply K3; eauto | subst; congruence]. }
          destruct Hpp as [pn [Hpn Hpnp]]. destruct (Hold _ _ Hpn) as [pn' [G1 [G2 _]]]. exists pn'. split; auto.
          apply core_fields in G2. destruct G2 as [G2 _]. congruence.
        * destruct (Hback _ _ Hmj E) as [n0 [H0 [C _]]]. apply core_fields in C. destruct C as [_ [_ [_ [_ [C5 _]]]]].
          rewrite C5 in Hp. destruct (K3 _ _ _ H0 Hp) as [pn [Hpn Hpnp]]. destruct (Hold _ _ Hpn) as [pn' [G1 [G2 _]]].
          exists pn'. split; auto. apply core_fields in G2. destruct G2 as [G2 _]. congruence.
      + intros l Hl. rewrite Hlog in Hl.
        assert (Hc5 : exists x, nth_error t5 cur = Some x /\ t_processed x = true).
        { destruct (Hold _ _ Hcur) as [c' [G1 [G2 _]]]. exists c'. split; auto. apply core_fields in G2. destruct G2 as [G2 _]. congruence. }
        destruct Hl as [Hl|Hl]; [subst l; exact Hc5|].
        destruct (K4 _ Hl) as [x [Hx Hxp]]. destruct (Hold _ _ Hx) as [x' [G1 [G2 _]]]. exists x'. split; auto.
        apply core_fields in G2. destruct G2 as [G2 _]. congruence.
      + intros j m Hmj Hp. destruct (Nat.eq_dec j nid) as [E|E].
        * subst j. rewrite T5nid in Hmj. inversion Hmj; subst m. unfold fin. simpl.
          apply core_fields in Cn3. destruct Cn3 as [C1 _]. congruence.
        * destruct (Hback _ _ Hmj E) as [n0 [H0 [C _]]]. apply core_fields in C. destruct C as [C1 [_ [_ [_ [C5 _]]]]].
          rewrite C1. eapply K5a; eauto. congruence.
      + intros l Hl Hf. rewrite Hlog in Hl. apply in_or_app. destruct Hl as [Hl|Hl].
        * subst l. right. left. reflexivity.
        * left. auto.
  Qed.

  Theorem lookup_ok : forall fuel root r, resolve fuel root = Ok r ->
    forall l, In l (r_log r) -> node_lookup (r_tree r) (l_from l) (lname (l_req l)) = Some (l_to l).
  Proof.
    intros fuel root r H l Hl.
    destruct (resolve_inv_J c_version c_requirements c_matching sem_match Jlk root fuel) with (r := r)
      as [v [Hv [I [P [PL [K2 _]]]]]].
    - intros st cur q curn [PL [K2 [K3 [K4 _]]]] _ _. unfold Jlk. auto.
    - intros rvk st cur q curn _ _ [PL [K2 [K3 [K4 _]]]] Hcur Hunp.
      assert (Hf : forall i n, nth_error (s_tree st) i = Some n ->
                exists n', nth_error (upd cur set_processed (s_tree st)) i = Some n' /\ t_parent n' = t_parent n /\
                  t_children n' = t_children n /\ t_prot n' = t_prot n /\ (t_processed n = true -> t_processed n' = true)).
      { intros i n Hn. destruct (Nat.eq_dec cur i) as [E|E].
        - subst i. exists (set_processed n). rewrite nth_upd_same, Hn. simpl. auto.
        - exists n. rewrite nth_upd_other; auto. }
      assert (Hb : forall i n', nth_error (upd cur set_processed (s_tree st)) i = Some n' ->
                exists n, nth_error (s_tree st) i = Some n /\ t_parent n' = t_parent n /\ t_bundled n' = t_bundled n /\
                  t_alias n' = t_alias n /\ (i <> cur -> t_processed n' = t_processed n)).
      { intros i n' Hn'. apply nth_upd in Hn'. destruct Hn' as [m [Hmm [[E1 E2]|[E1 E2]]]]; subst; exists m; simpl;
          repeat split; auto. intro F. contradiction. }
      split; [|split; [|split; [|split; [|split]]]]; simpl.
      + intros i n' Hn'. destruct (Hb _ _ Hn') as [n [Hn [_ [B [A _]]]]]. destruct (PL _ _ Hn). split; congruence.
      + intros l0 Hl0. eapply resolves_mono; [|apply K2; exact Hl0]. intros i n Hn.
        destruct (Hf _ _ Hn) as [n' [G1 [G2 [G3 [G4 _]]]]]. exists n'. repeat split; auto. intros k Hk. congruence.
      + intros j m i Hmj Hp. destruct (Hb _ _ Hmj) as [m0 [Hm0 [B1 _]]]. rewrite B1 in Hp.
        destruct (K3 _ _ _ Hm0 Hp) as [pn [Hpn Hpp]]. destruct (Hf _ _ Hpn) as [pn' [G1 [_ [_ [_ G5]]]]]. eauto.
      + intros l0 Hl0. destruct (K4 _ Hl0) as [x [Hx Hxp]]. destruct (Hf _ _ Hx) as [x' [G1 [_ [_ [_ G5]]]]]. eauto.
      + intros j m Hmj Hp. exfalso. destruct (Hb _ _ Hmj) as [m0 [Hm0 [B1 _]]]. rewrite B1 in Hp.
        destruct (K3 _ _ _ Hm0 Hp) as [pn [Hpn Hpp]]. congruence.
      + intros l0 Hl0 Hf0. exfalso. destruct (K4 _ Hl0) as [x [Hx Hxp]]. congruence.
    - intros rvk st cur curn d done rest insq q st' insq' I0 _ HJ Hcur Hp Hid Hs. eapply Jlk_step; eauto.
    - intros st cur q curn [PL [K2 [K3 [K4 _]]]] _. unfold Jlk. auto.
    - intros v rootn tree Hv Hroot Hinj. apply (inject_nb _ _ ND) in Hinj. subst tree.
      apply new_node_fields in Hroot. destruct Hroot as [F1 [F2 [F3 [F4 [F5 [F6 [F7 [F8 F9]]]]]]]].
      split; [|split; [|split; [|split]]]; simpl; auto.
      + intros j m Hmj. destruct j; simpl in Hmj; [inversion Hmj; subst; simpl; auto | destruct j; discriminate].
      + intros l0 [].
      + intros j m i Hmj Hp. destruct j; simpl in Hmj; [inversion Hmj; subst; simpl in Hp; congruence | destruct j; discriminate].
      + intros l0 [].
    - exact H.
    - simpl in *.
      assert (W : forall i n q, nth_error (r_tree r) i = Some n -> t_parent n = Some q -> q < i).
      { intros i n q Hn Hq. destruct (iv_node _ _ _ _ _ _ I _ _ Hn) as [_ [_ [_ [_ [H5 _]]]]]. auto. }
      assert (Hal : r_alias (l_req l) = []).
      { destruct (Forall2_in_l _ _ _ _ (iv_log _ _ _ _ _ _ I) Hl) as [e [_ [x [t [dvers [Hx [_ [_ [_ [_ [Hin _]]]]]]]]]]].
        simpl in *. destruct (iv_node _ _ _ _ _ _ I _ _ Hx) as [_ [_ [_ [[reqs [Hr Hi]] _]]]].
        eapply NA; [exact Hr|]. apply regular_imports_subset. rewrite <- Hi. exact Hin. }
      unfold lname. rewrite Hal. unfold node_lookup.
      pose proof (K2 _ Hl) as R.
      apply (resolves_lookup _ _ _ _ W (fun i n Hn => proj2 (PL i n Hn)) R).
      assert (exists x, nth_error (r_tree r) (l_from l) = Some x) as [x Hx].
      { inversion R; eauto. }
      assert (l_from l < length (r_tree r)) by (apply nth_error_Some; congruence). lia.
  Qed.
End Lookup.
