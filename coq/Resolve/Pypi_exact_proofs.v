(* The candidates of a criterion are EXACTLY the versions admitted by all its requirements, under the
   matching mode decided by all of them, minus the incompatibilities -- provided the provider's
   answers are ordered consistently (intersect walks both lists once and relies on that).
   Without that proviso the statement is false; see Pypi_proofs.candidates_exact_refuted. *)
From Coq Require Import List NArith ZArith Bool Lia Permutation Sorted.
From DepsDev Require Import Lib.Base Gen.PypiTables Resolve.Pypi Resolve.Pypi_lists_proofs Resolve.Pypi_inv_proofs.
Import ListNotations.

Section Order.
  Variable lt : vkey -> vkey -> Prop.
  Hypothesis lt_irrefl : forall a, ~ lt a a.
  Hypothesis lt_trans : forall a b c, lt a b -> lt b c -> lt a c.

  Lemma sorted_tail_lt x l y : StronglySorted lt (x :: l) -> In y l -> lt x y.
  Proof. intros S Hin. inversion S as [|? ? _ F]; subst. rewrite Forall_forall in F. auto. Qed.

  (* in a sorted list, everything greater than a member comes after it *)
  Lemma find_after_sorted av : forall b b',
    StronglySorted lt b -> find_after av b = Some b' ->
    StronglySorted lt b' /\ forall x, In x b -> lt av x -> In x b'.
  Proof.
    induction b as [|bv r IH]; simpl; intros b' S H; try discriminate.
    inversion S as [|? ? Sr F]; subst.
    destruct (vkey_eqb av bv) eqn:E.
    - apply vkey_eqb_eq in E. subst bv. inversion H; subst b'. split; auto.
      intros x [Ex|Hx] L; auto. subst x. exfalso. eapply lt_irrefl; eauto.
    - destruct (IH _ Sr H) as [S' P]. split; auto.
      intros x [Ex|Hx] L; auto. subst x. exfalso.
      destruct (find_after_spec _ _ _ H) as [Hin _]. rewrite Forall_forall in F.
      apply (lt_irrefl av). eapply lt_trans; eauto.
  Qed.

  Lemma find_after_none av b : find_after av b = None -> ~ In av b.
  Proof.
    induction b as [|bv r IH]; simpl; intros H; [tauto|].
    destruct (vkey_eqb av bv) eqn:E; [discriminate|].
    apply vkey_eqb_neq in E. intros [Ex|Hx]; [congruence | apply IH; auto].
  Qed.

  Lemma intersect_exact : forall a b,
    StronglySorted lt a -> StronglySorted lt b ->
    forall x, In x (intersect a b) <-> In x a /\ In x b.
  Proof.
    induction a as [|av ar IH]; intros b Sa Sb x; simpl; [tauto|].
    inversion Sa as [|? ? Sar Fa]; subst.
    destruct (find_after av b) as [b'|] eqn:F.
    - destruct (find_after_sorted _ _ _ Sb F) as [Sb' P]. destruct (find_after_spec _ _ _ F) as [Hav Hsub].
      simpl. rewrite (IH _ Sar Sb'). split.
      + intros [E|[A B]]; [subst; auto | auto].
      + intros [[E|A] B]; auto. right. split; auto. apply P; auto. eapply sorted_tail_lt; eauto.
    - rewrite (IH _ Sar Sb). apply find_after_none in F. split.
      + intros [A B]; auto.
      + intros [[E|A] B]; [subst; contradiction | auto].
  Qed.

  Lemma intersect_sorted : forall a b, StronglySorted lt a -> StronglySorted lt (intersect a b).
  Proof.
    induction a as [|av ar IH]; intros b Sa; simpl; [constructor|].
    inversion Sa as [|? ? Sar Fa]; subst.
    destruct (find_after av b) as [b'|]; [|auto].
    constructor; auto. rewrite Forall_forall in *. intros x Hx. apply intersect_In in Hx as [Hx _]. auto.
  Qed.

  Lemma filter_sorted (f : vkey -> bool) : forall l, StronglySorted lt l -> StronglySorted lt (filter f l).
  Proof.
    induction l as [|x l IH]; intros S; simpl; [constructor|].
    inversion S as [|? ? Sl F]; subst. destruct (f x); auto.
    constructor; auto. rewrite Forall_forall in *. intros y Hy. apply filter_In in Hy as [Hy _]. auto.
  Qed.
End Order.

Section Exact.
  Variable c_versions : bytes -> res (list vkey).
  Variable c_requirements : vkey -> res (list req).
  Variable c_matching : vkey -> res (list vkey).
  Variable marker_true : bytes -> list bytes -> res bool.
  Variable has_pre : bytes -> bool.
  Variable constraint_ok : bytes -> bool.
  Variable match_pre : bytes -> bytes -> bool.
  Variable ver_lt : bytes -> bytes -> bool.
  Variable root : vkey.

  Local Notation GM := (gm c_versions c_matching has_pre constraint_ok match_pre ver_lt root).
  Local Notation ANYPRE := (any_pre has_pre).
  Local Notation INTER := (inter_all c_versions c_matching has_pre constraint_ok match_pre ver_lt root).
  Local Notation FIND := (find_matches c_versions c_matching has_pre constraint_ok match_pre ver_lt root).
  Local Notation MERGE := (merge_into_criterion c_versions c_matching has_pre constraint_ok match_pre ver_lt root).
  Local Notation MERGEDEPS := (merge_deps c_versions c_matching has_pre constraint_ok match_pre ver_lt root).
  Local Notation GCU := (get_criteria_to_update c_versions c_requirements c_matching marker_true has_pre constraint_ok match_pre ver_lt root).
  Local Notation TRY := (try_candidates c_versions c_requirements c_matching marker_true has_pre constraint_ok match_pre ver_lt root).
  Local Notation ATTEMPT := (attempt_to_pin c_versions c_requirements c_matching marker_true has_pre constraint_ok match_pre ver_lt root).
  Local Notation ROUNDSCNT := (rounds_cnt c_versions c_requirements c_matching marker_true has_pre constraint_ok match_pre ver_lt root).
  Local Notation ROUNDS := (rounds c_versions c_requirements c_matching marker_true has_pre constraint_ok match_pre ver_lt root).
  Local Notation INIT := (init_criteria c_versions c_matching has_pre constraint_ok match_pre ver_lt root).
  Local Notation RESOLVE_STATE := (resolve_state_fuel c_versions c_requirements c_matching marker_true has_pre constraint_ok match_pre ver_lt root).
  Local Notation ALLOWED := (allowed c_versions c_matching has_pre constraint_ok match_pre ver_lt root).

  (* the provider answers in one consistent order (for LocalClient: ascending versions) *)
  Variable lt : vkey -> vkey -> Prop.
  Hypothesis lt_irrefl : forall a, ~ lt a a.
  Hypothesis lt_trans : forall a b c, lt a b -> lt b c -> lt a c.
  Hypothesis gm_sorted : forall pre rq l, GM pre rq = Ok l -> StronglySorted lt l.

  Lemma inter_all_exact pre : forall rest m l,
    StronglySorted lt m -> INTER pre m rest = Ok l ->
    forall v, In v l <-> In v m /\ forall r, In r rest -> exists l', GM pre (rq_key r) = Ok l' /\ In v l'.
  Proof.
    induction rest as [|r rs IH]; simpl; intros m l Sm H v.
    - inversion H; subst. split; [intros Hv; split; auto; intros r [] | tauto].
    - destruct (GM pre (rq_key r)) as [mvs| | |] eqn:G; simpl in H; try discriminate.
      pose proof (gm_sorted _ _ _ G) as Sb.
      rewrite (IH _ _ (intersect_sorted lt _ _ Sm) H v).
      rewrite (intersect_exact lt lt_irrefl lt_trans _ _ Sm Sb). split.
      + intros [[A B] C]. split; auto. intros r' [E|Hr]; [subst; eauto | auto].
      + intros [A C]. split; [split; auto|].
        * destruct (C r (or_introl eq_refl)) as (l' & G' & Hl'). congruence.
        * intros r' Hr. apply C. right; auto.
  Qed.

  Lemma find_matches_exact reqs inc l :
    FIND reqs inc = Ok l -> reqs <> [] ->
    forall v, In v l <-> ALLOWED reqs v /\ ~ In v inc.
  Proof.
    unfold find_matches. destruct reqs as [|r0 rest]; intros H Hne v; [congruence|].
    destruct (GM (ANYPRE (r0 :: rest)) (rq_key r0)) as [mvs| | |] eqn:G; simpl in H; try discriminate.
    pose proof (gm_sorted _ _ _ G) as Sm.
    destruct (filter (fun mv => negb (vk_mem mv inc)) mvs) as [|m0 ms] eqn:F; try discriminate.
    assert (Sf : StronglySorted lt (m0 :: ms)) by (rewrite <- F; apply filter_sorted; auto).
    rewrite (inter_all_exact _ _ _ _ Sf H v). rewrite <- F, filter_In. split.
    - intros [[A B] C]. split.
      + intros r [E|Hr]; [subst; eauto | auto].
      + apply negb_true_iff in B. apply vk_mem_false in B. auto.
    - intros [A B]. split; [split|].
      + destruct (A r0 (or_introl eq_refl)) as (l' & G' & Hl'). unfold allowed in A. congruence.
      + apply negb_true_iff. apply vk_mem_false. auto.
      + intros r Hr. apply A. right; auto.
  Qed.

  Definition exact_crit (c : criterion) : Prop :=
    forall v, In v (c_cands c) <-> ALLOWED (reqs_of c) v /\ ~ In v (c_incompat c).

  Definition exact_state (st : state) : Prop :=
    forall n c, crit_get (criteria_of st) n = Some c -> exact_crit c.

  Lemma merge_exact st rq par nc :
    exact_state st -> MERGE st rq par = Ok nc -> exact_crit (snd nc).
  Proof.
    intros X H. unfold merge_into_criterion in H.
    remember (crit_get_or_empty (criteria_of st) (rq_name rq)) as c0 eqn:E0.
    destruct (existsb (same_info rq par) (c_info c0)) eqn:Ex.
    - inversion H; subst nc. simpl. unfold crit_get_or_empty in E0.
      destruct (crit_get (criteria_of st) (rq_name rq)) as [c1|] eqn:G; subst c0; [eauto|].
      simpl in Ex. discriminate.
    - destruct (FIND (map fst (c_info c0) ++ [rq]) (c_incompat c0)) as [m| | |] eqn:F; cbn [bind] in H; try discriminate.
      destruct m as [|m0 ms]; try discriminate. inversion H; subst nc. cbn [snd].
      intros v. unfold reqs_of. cbn [c_cands c_info c_incompat]. rewrite map_app. cbn [map fst].
      apply (find_matches_exact _ _ _ F). intros E. apply app_eq_nil in E as [_ E]. discriminate.
  Qed.

  Lemma put_exact st n c :
    exact_state st -> exact_crit c ->
    exact_state {| mapping := mapping st; criteria_of := crit_put (criteria_of st) n c |}.
  Proof.
    intros X Xc m c' G. simpl in G. destruct (bytes_eqb m n) eqn:E.
    - apply bytes_eqb_eq in E. subst. rewrite crit_get_put_same in G. inversion G; subst; auto.
    - apply bytes_eqb_neq in E. rewrite crit_get_put_other in G; eauto.
  Qed.

  Lemma pin_exact st n cand E upd :
    exact_state st -> GCU st cand E = Ok upd -> exact_state (apply_pin st n cand upd).
  Proof.
    intros X H. unfold get_criteria_to_update in H.
    destruct (get_dependencies c_requirements marker_true cand E) as [deps| | |]; simpl in H; try discriminate.
    destruct (merge_deps_spec _ _ _ _ _ _ _ _ _ _ _ _ H (NoDup_nil _)) as (ND & B & _).
    intros m c G. rewrite apply_pin_get in G; auto.
    destruct (upd_get upd m) as [c'|] eqn:U; [|eauto].
    inversion G; subst c'. destruct (B _ _ U) as [A|(d & _ & M)]; [discriminate|].
    apply (merge_exact _ _ _ _ X M).
  Qed.

  Lemma attempt_exact st n r : exact_state st -> ATTEMPT st n = Ok r -> exact_state (fst r).
  Proof.
    intros X H. unfold attempt_to_pin in H. destruct r as [st' k'].
    destruct (try_candidates_spec _ _ _ _ _ _ _ _ _ _ _ _ _ _ _ _ H) as [A|(_ & c & u & _ & B & C)]; simpl; subst; auto.
    eapply pin_exact; eauto.
  Qed.

  Lemma patch_exact : forall incs st st', exact_state st -> patch_criteria st incs = Some st' -> exact_state st'.
  Proof.
    induction incs as [|[n inc] rest IH]; simpl; intros st st' X H.
    - inversion H; subst; auto.
    - destruct inc as [|i0 inc']; [eauto|].
      destruct (crit_get (criteria_of st) n) as [crit|] eqn:G; [|eauto].
      remember (vk_union (i0 :: inc') (c_incompat crit)) as all.
      destruct (filter (fun c => negb (vk_mem c all)) (c_cands crit)) as [|m0 ms] eqn:F; try discriminate.
      apply IH in H; auto. apply put_exact; auto.
      intros v. cbn [c_cands c_incompat c_info reqs_of]. rewrite <- F, filter_In. unfold reqs_of.
      rewrite (X _ _ G v). unfold reqs_of. subst all. rewrite vk_union_In. split.
      + intros [[A B] C]. apply negb_true_iff in C. apply vk_mem_false in C. rewrite vk_union_In in C. tauto.
      + cbn [c_info]. intros [A C]. split; [split; [exact A | tauto]|].
        apply negb_true_iff. apply vk_mem_false. rewrite vk_union_In. exact C.
  Qed.

  Lemma backtrack_exact : forall fuel states states',
    Forall exact_state states -> backtrack fuel states = Ok (Some states') -> Forall exact_state states'.
  Proof.
    induction fuel as [|fuel IH]; simpl; intros states states' F H; try discriminate.
    destruct states as [|top [|broken [|base rest]]]; try discriminate.
    destruct (vm_pop (mapping broken)) as [name cand].
    inversion F as [|? ? _ F1]; subst. inversion F1 as [|? ? _ F2]; subst.
    inversion F2 as [|? ? Ib F3]; subst.
    destruct (patch_criteria base _) as [st'|] eqn:P.
    - inversion H; subst. constructor; auto. eapply patch_exact; eauto.
    - apply (IH _ _ (Forall_cons _ Ib F2) H).
  Qed.

  Lemma rounds_cnt_exact ur : forall fuel states nb st nb',
    Forall exact_state states -> ROUNDSCNT ur fuel states nb = Ok (st, nb') -> exact_state st.
  Proof.
    induction fuel as [|fuel IH]; intros states nb st nb' F H; [discriminate|].
    cbn [rounds_cnt] in H.
    destruct states as [|st0 below]; try discriminate.
    inversion F as [|? ? X0 Fb]; subst.
    destruct (unsatisfied st0) as [|n0 ns] eqn:U.
    - inversion H; subst. auto.
    - destruct (ATTEMPT st0 _) as [r| | |] eqn:A; cbn [bind] in H; try discriminate.
      pose proof (attempt_exact _ _ _ X0 A) as X1.
      destruct (snd r).
      + apply (IH _ _ _ _ (Forall_cons _ X1 (Forall_cons _ X1 Fb)) H).
      + destruct (backtrack (length (st0 :: below)) (st0 :: below)) as [bt| | |] eqn:B; cbn [bind] in H; try discriminate.
        destruct bt as [states'|]; try discriminate.
        apply (IH _ _ _ _ (backtrack_exact _ _ _ F B) H).
  Qed.

  Lemma init_exact : forall deps st st', exact_state st -> INIT st deps = Ok st' -> exact_state st'.
  Proof.
    induction deps as [|d ds IH]; simpl; intros st st' X H.
    - inversion H; subst; auto.
    - destruct (MERGE st d root) as [nc|e| |] eqn:M; try discriminate.
      2: { destruct (N.eqb e EConflict); discriminate. }
      apply IH in H; auto. apply put_exact; auto. eapply merge_exact; eauto.
  Qed.

  (* in the state the resolution returns, every criterion holds exactly the versions that all its
     requirements admit (under the mode findMatches decides from the whole list) and that are not
     incompatibilities *)
  Theorem resolve_state_exact fuel st : RESOLVE_STATE fuel = Ok st -> exact_state st.
  Proof.
    unfold resolve_state_fuel. intros H.
    destruct (negb _); try discriminate.
    destruct (root_deps _ _ _) as [deps| | |]; simpl in H; try discriminate.
    destruct (INIT empty_state deps) as [st0| | |] eqn:I0; simpl in H; try discriminate.
    assert (X0 : exact_state st0) by (eapply init_exact; [|eauto]; intros n c G; discriminate).
    unfold rounds in H.
    destruct (ROUNDSCNT _ fuel [st0; st0] 0) as [[st' nb']| | |] eqn:R; cbn [bind] in H; try discriminate.
    inversion H; subst. simpl. eapply rounds_cnt_exact; [|eauto]. auto.
  Qed.

  (* ----- a conflict reported by mergeIntoCriterion is a real one ----- *)
  Local Notation MV := (matching_versions c_matching root).
  Local Notation MVP := (matching_versions_pre c_versions c_matching has_pre constraint_ok match_pre ver_lt root).

  Lemma client_err_code {A} (r : res A) e : client_err r = Err e -> (10 <= e)%N.
  Proof.
    destruct r as [a|e0|p|]; unfold client_err; try discriminate; intros H.
    - assert (E : (EClientBase + e0 = e)%N) by congruence. unfold EClientBase in E. lia.
    - assert (E : EClientBase = e) by congruence. unfold EClientBase in E. lia.
    - assert (E : EClientBase = e) by congruence. unfold EClientBase in E. lia.
  Qed.

  Lemma mv_code rq e : MV rq = Err e -> (10 <= e)%N.
  Proof.
    unfold matching_versions. pose proof (client_err_code (c_matching rq)) as C.
    destruct (client_err (c_matching rq)); cbn [bind]; auto; try discriminate.
    destruct (negb _); [discriminate|]. destruct (vk_mem _ _); discriminate.
  Qed.

  Lemma gm_code pre rq e : GM pre rq = Err e -> (10 <= e)%N.
  Proof.
    unfold gm. destruct pre; [|apply mv_code].
    unfold matching_versions_pre. destruct (has_pre _); [apply mv_code|].
    pose proof (client_err_code (c_versions (vk_name rq))) as C.
    destruct (client_err (c_versions (vk_name rq))) as [vs| | |]; cbn [bind]; auto; try discriminate.
    destruct (negb _); [discriminate|].
    destruct (filter_slice _ _ vs) as [k|e0| |] eqn:F; cbn [bind]; try discriminate.
    intros _. exfalso.
    (* the predicate never fails, so filter_slice does not either *)
    assert (G : forall fuel l e1, filter_slice fuel
              (fun v => Ok (N.eqb (vk_type v) version_type_concrete && match_pre (vk_ver rq) (vk_ver v))) l <> Err e1).
    { induction fuel as [|fuel IH]; intros l e1; destruct l as [|x rest]; simpl; try discriminate.
      destruct (_ && _).
      - pose proof (IH rest e1). destruct (filter_slice fuel _ rest); simpl; try discriminate. auto.
      - destruct rest; [discriminate | apply IH]. }
    exact (G _ _ _ F).
  Qed.

  Lemma inter_all_code pre : forall rest m e, INTER pre m rest = Err e -> (10 <= e)%N.
  Proof.
    induction rest as [|r rs IH]; intros m e; simpl; [discriminate|].
    pose proof (gm_code pre (rq_key r)) as G.
    destruct (GM pre (rq_key r)); cbn [bind]; eauto; discriminate.
  Qed.

  (* an error of mergeIntoCriterion is the conflict or an error of the client *)
  Lemma merge_code st rq par e : MERGE st rq par = Err e -> e = EConflict \/ (10 <= e)%N.
  Proof.
    unfold merge_into_criterion. destruct (existsb _ _); [discriminate|].
    destruct (FIND _ _) as [m|e0| |] eqn:F; cbn [bind]; try discriminate.
    - destruct m; [intros H; inversion H; auto | discriminate].
    - intros H. inversion H; subst e0. clear H. unfold find_matches in F.
      destruct (map fst _ ++ [rq]) as [|r0 rest]; [discriminate|].
      pose proof (gm_code (ANYPRE (r0 :: rest)) (rq_key r0)) as G.
      destruct (GM (ANYPRE (r0 :: rest)) (rq_key r0)) as [mvs| | |]; cbn [bind] in F; try discriminate; eauto.
      destruct (filter _ mvs); [inversion F; auto|]. right. eapply inter_all_code; eauto.
  Qed.

  Theorem merge_conflict_sound st rq par :
    exact_state st -> MERGE st rq par = Err EConflict ->
    let c := crit_get_or_empty (criteria_of st) (rq_name rq) in
    forall v, ~ (ALLOWED (reqs_of c ++ [rq]) v /\ ~ In v (c_incompat c)).
  Proof.
    intros X H c v [A B]. unfold merge_into_criterion in H. fold c in H.
    destruct (existsb (same_info rq par) (c_info c)); [discriminate|].
    fold (reqs_of c) in H.
    destruct (FIND (reqs_of c ++ [rq]) (c_incompat c)) as [m|e| |] eqn:F; cbn [bind] in H; try discriminate.
    - destruct m as [|m0 ms]; [|discriminate].
      assert (Hne : reqs_of c ++ [rq] <> []) by (intros E; apply app_eq_nil in E as [_ E]; discriminate).
      apply (proj2 (find_matches_exact _ _ _ F Hne v)). auto.
    - inversion H; subst e. clear H.
      unfold find_matches in F.
      destruct (reqs_of c ++ [rq]) as [|r0 rest] eqn:Er; [discriminate|].
      pose proof (gm_code (ANYPRE (r0 :: rest)) (rq_key r0)) as G.
      destruct (GM (ANYPRE (r0 :: rest)) (rq_key r0)) as [mvs|e1| |] eqn:Eg; cbn [bind] in F; try discriminate.
      2: { inversion F; subst e1. specialize (G _ eq_refl). unfold EConflict in G. lia. }
      destruct (filter (fun mv => negb (vk_mem mv (c_incompat c))) mvs) as [|m0 ms] eqn:Ef.
      + destruct (A r0 (or_introl eq_refl)) as (l' & G' & Hl'). rewrite Eg in G'. inversion G'; subst l'.
        assert (In v (filter (fun mv => negb (vk_mem mv (c_incompat c))) mvs)).
        { apply filter_In. split; auto. apply negb_true_iff. apply vk_mem_false. auto. }
        rewrite Ef in H. contradiction.
      + pose proof (inter_all_code _ _ _ _ F) as G1. unfold EConflict in G1. lia.
  Qed.

  (* the graph-level error raised while the direct dependencies are merged is justified: at the
     requirement d where it stops, no version of d's package is admitted by d together with the
     direct requirements merged before it *)
  Theorem init_impossible_sound : forall deps st,
    exact_state st -> INIT st deps = Err EImpossible ->
    exists pre d post st1,
      deps = pre ++ d :: post /\ INIT st pre = Ok st1 /\
      let c := crit_get_or_empty (criteria_of st1) (rq_name d) in
      forall v, ~ (ALLOWED (reqs_of c ++ [d]) v /\ ~ In v (c_incompat c)).
  Proof.
    induction deps as [|d ds IH]; simpl; intros st X H; [discriminate|].
    destruct (MERGE st d root) as [nc|e| |] eqn:M; try discriminate.
    - assert (X1 : exact_state {| mapping := mapping st; criteria_of := crit_put (criteria_of st) (fst nc) (snd nc) |})
        by (apply put_exact; auto; eapply merge_exact; eauto).
      destruct (IH _ X1 H) as (pre & d' & post & st1 & E & I1 & N).
      exists (d :: pre), d', post, st1. split; [simpl; congruence|]. split; auto.
      simpl. rewrite M. auto.
    - destruct (N.eqb e EConflict) eqn:Ee.
      2: { inversion H; subst e. destruct (merge_code _ _ _ _ M) as [E|E]; [discriminate | unfold EImpossible in E; lia]. }
      apply N.eqb_eq in Ee. subst e.
      exists [], d, ds, st. split; auto. split; auto.
      apply (merge_conflict_sound _ _ _ X M).
  Qed.
End Exact.

(* ---------- the order hypothesis from hypotheses on the client and the comparator ---------- *)
Section ClientOrder.
  Variable c_versions : bytes -> res (list vkey).
  Variable c_matching : vkey -> res (list vkey).
  Variable has_pre : bytes -> bool.
  Variable constraint_ok : bytes -> bool.
  Variable match_pre : bytes -> bytes -> bool.
  Variable ver_lt : bytes -> bytes -> bool.
  Variable root : vkey.
  Variable lt : vkey -> vkey -> Prop.
  Hypothesis lt_irrefl : forall a, ~ lt a a.
  Hypothesis lt_trans : forall a b c, lt a b -> lt b c -> lt a c.

  (* insertion sort yields a strictly ascending list when the comparator decides lt, any two
     different elements are comparable and no element occurs twice *)
  Lemma ins_rev_desc (less : vkey -> vkey -> bool) x : forall rl,
    (forall y, In y rl -> (less x y = true <-> lt x y) /\ (x = y \/ lt x y \/ lt y x)) ->
    ~ In x rl -> StronglySorted (fun a b => lt b a) rl ->
    StronglySorted (fun a b => lt b a) (ins_rev less x rl).
  Proof.
    induction rl as [|y r IH]; simpl; intros H Hn S.
    - constructor; constructor.
    - inversion S as [|? ? Sr F]; subst. rewrite Forall_forall in F.
      destruct (H y (or_introl eq_refl)) as [D C].
      destruct (less x y) eqn:L.
      + assert (Lxy : lt x y) by (apply D; auto).
        constructor.
        * apply IH; auto; intros z Hz; apply H; right; auto.
        * rewrite Forall_forall. intros z Hz. apply ins_rev_In in Hz as [E|Hz]; [subst; auto | auto].
      + constructor; [constructor; auto; rewrite Forall_forall; auto|].
        assert (Lyx : lt y x).
        { destruct C as [E|[C|C]]; auto.
          - subst. exfalso. apply Hn. left; auto.
          - apply D in C. congruence. }
        rewrite Forall_forall. intros z [E|Hz]; [subst; auto|]. eapply lt_trans; eauto.
  Qed.

  Lemma rev_desc_asc (l : list vkey) :
    StronglySorted (fun a b => lt b a) l -> StronglySorted lt (rev l).
  Proof.
    induction l as [|x l IH]; simpl; intros S; [constructor|].
    inversion S as [|? ? Sl F]; subst. rewrite Forall_forall in F.
    assert (G : forall m y, StronglySorted lt m -> (forall z, In z m -> lt z y) -> StronglySorted lt (m ++ [y])).
    { induction m as [|a m IHm]; simpl; intros y Sm Hy; [constructor; constructor|].
      inversion Sm as [|? ? Sm' Fm]; subst. constructor; [apply IHm; auto|].
      rewrite Forall_forall in *. intros z Hz. apply in_app_or in Hz as [Hz|[E|[]]]; [auto | subst; auto]. }
    apply G; auto. intros z Hz. apply in_rev in Hz. auto.
  Qed.

  Lemma isort_sorted (less : vkey -> vkey -> bool) l :
    (forall a b, In a l -> In b l -> (less a b = true <-> lt a b) /\ (a = b \/ lt a b \/ lt b a)) ->
    NoDup l -> StronglySorted lt (isort less l).
  Proof.
    intros H ND. unfold isort. apply rev_desc_asc.
    assert (G : forall l' acc, incl l' l -> incl acc l -> NoDup l' -> (forall x, In x l' -> ~ In x acc) ->
                StronglySorted (fun a b => lt b a) acc ->
                StronglySorted (fun a b => lt b a) (fold_left (fun acc x => ins_rev less x acc) l' acc)).
    { induction l' as [|x l' IH]; simpl; intros acc I1 I2 N D S; auto.
      inversion N as [|? ? Nx N']; subst.
      apply IH.
      - intros z Hz; apply I1; right; auto.
      - intros z Hz. apply ins_rev_In in Hz as [E|Hz]; [subst; apply I1; left; auto | auto].
      - auto.
      - intros z Hz Hin. apply ins_rev_In in Hin as [E|Hin]; [subst; contradiction | apply (D z); auto].
      - apply ins_rev_desc; [intros y Hy; apply H; [apply I1; left; auto | auto] | apply D; left; auto | exact S]. }
    apply G; [apply incl_refl | intros z [] | exact ND | intros x _ [] | constructor].
  Qed.

  (* what a client has to guarantee: MatchingVersions answers strictly ascending; Versions answers
     without repetition, on which the comparator decides the same order and any two are comparable *)
  Hypothesis Hm : forall k l, c_matching k = Ok l -> StronglySorted lt l.
  Hypothesis Hv : forall p l, c_versions p = Ok l ->
    NoDup l /\ forall a b, In a l -> In b l ->
      (ver_lt (vk_ver a) (vk_ver b) = true <-> lt a b) /\ (a = b \/ lt a b \/ lt b a).

  Lemma mv_sorted_client rq l : matching_versions c_matching root rq = Ok l -> StronglySorted lt l.
  Proof.
    unfold matching_versions. intros H.
    destruct (client_err (c_matching rq)) as [mvs| | |] eqn:C; cbn [bind] in H; try discriminate.
    apply client_err_Ok in C.
    destruct (negb _).
    - inversion H; subst. eauto.
    - destruct (vk_mem root mvs); inversion H; subst; repeat constructor.
  Qed.

  Theorem gm_sorted_client pre rq l :
    gm c_versions c_matching has_pre constraint_ok match_pre ver_lt root pre rq = Ok l -> StronglySorted lt l.
  Proof.
    unfold gm. destruct pre; [|apply mv_sorted_client].
    unfold matching_versions_pre. destruct (has_pre _); [apply mv_sorted_client|].
    intros H.
    destruct (client_err (c_versions (vk_name rq))) as [vs| | |] eqn:C; cbn [bind] in H; try discriminate.
    apply client_err_Ok in C. destruct (Hv _ _ C) as [ND Hc].
    destruct (negb _); [inversion H; subst; constructor|].
    destruct (filter_slice _ _ vs) as [kept| | |] eqn:F; cbn [bind] in H; try discriminate.
    inversion H; subst l. clear H.
    destruct (filter_slice_spec _ _ _ _ (le_n _) F) as [I0 I1].
    apply isort_sorted; auto.
    - intros a b Ha Hb. apply Hc; [apply I0 in Ha | apply I0 in Hb]; tauto.
    - specialize (I1 _ (fun x => x)). rewrite !map_id in I1. auto.
  Qed.
End ClientOrder.
