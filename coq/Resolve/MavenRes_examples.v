(* Concrete clients: the witnesses that refute the unrestricted one-version and nearest
   clauses (F-C07-1, F-C07-2), and a small universe on which the hypotheses of every C07
   theorem are satisfied.  Everything here is decided by vm_compute on the tables of
   MavenRes_witness.v (recorded from Go runs). *)
From DepsDev Require Import Lib.Base Gen.MavenResTables Resolve.MavenRes Resolve.MavenRes_proofs Resolve.MavenRes_witness.

Lemma aget_In {K V} (dec : forall a b : K, {a = b} + {a <> b}) (m : list (K * V)) k x :
  aget dec m k = Some x -> In (k, x) m.
Proof.
  induction m as [|[k' v'] m IH]; simpl; [discriminate|].
  destruct (dec k k'); [intros H; inversion H; subst; auto | auto].
Qed.

(* ---- properties of table clients, decided on the table *)
Definition table_faithful (t : tables) : bool :=
  forallb (fun e => match snd e with Ok v => if vkey_dec (v_vk v) (fst e) then true else false | _ => true end) (t_vers t).

Lemma table_faithful_ok t : table_faithful t = true -> version_faithful (tc_version t).
Proof.
  intros H k v. unfold tc_version. destruct (aget vkey_dec (t_vers t) k) as [r|] eqn:A; [|discriminate].
  intros ->. apply aget_In in A. unfold table_faithful in H. rewrite forallb_forall in H.
  specialize (H _ A). simpl in H. destruct (vkey_dec (v_vk v) k); congruence.
Qed.

Definition err_ok {A} (r : res A) : bool :=
  match r with Err c => negb (c =? ENoMatch) && negb (c =? EIncompat) | _ => true end.
Definition table_sane (t : tables) : bool :=
  forallb (fun e => err_ok (snd e)) (t_vers t) && forallb (fun e => err_ok (snd e)) (t_lists t)
  && forallb (fun e => err_ok (snd e)) (t_reqs t).

Lemma err_ok_spec {A} (r : res A) e : err_ok r = true -> r = Err e -> e <> ENoMatch /\ e <> EIncompat.
Proof.
  intros H ->. simpl in H. apply andb_true_iff in H. destruct H as [H1 H2].
  apply negb_true_iff in H1, H2. apply N.eqb_neq in H1, H2. auto.
Qed.

Lemma table_lookup_sane {K A} (dec : forall a b : K, {a = b} + {a <> b}) (m : list (K * res A)) k e :
  forallb (fun x => err_ok (snd x)) m = true ->
  match aget dec m k with Some r => r | None => Err EMissing end = Err e -> e <> ENoMatch /\ e <> EIncompat.
Proof.
  intros H. destruct (aget dec m k) as [r|] eqn:G.
  - apply aget_In in G. rewrite forallb_forall in H. specialize (H _ G). simpl in H. now apply err_ok_spec.
  - intros E; inversion E; subst. split; discriminate.
Qed.

Lemma table_version_sane t : table_sane t = true -> version_errs_sane (tc_version t).
Proof.
  unfold table_sane. rewrite !andb_true_iff. intros [[H _] _] k e E.
  eapply (table_lookup_sane vkey_dec (t_vers t) k e H); eauto.
Qed.

Lemma table_client_sane t : table_sane t = true ->
  client_sane (tc_version t) (tc_versions t) (tc_requirements t) (tc_simple t).
Proof.
  unfold table_sane. rewrite !andb_true_iff. intros [[H1 H2] H3]. repeat split.
  - intros k e E. eapply (table_lookup_sane vkey_dec (t_vers t) k e H1); eauto.
  - intros k e E. eapply (table_lookup_sane pkey_dec (t_lists t) k e H2); eauto.
  - intros k e E. eapply (table_lookup_sane vkey_dec (t_reqs t) k e H3); eauto.
  - intros s e. unfold tc_simple. destruct (aget bytes_dec (t_simple t) s) as [z|].
    + destruct (z =? 2)%Z; intros E; inversion E; subst. discriminate.
    + intros E; inversion E; subst. discriminate.
Qed.

Definition graph_of (r : res graph) : graph := match r with Ok g => g | _ => mkGraph [] [] [] [] end.
Definition dummy_edge : edge :=
  mkEdge (mkVK (mkPK 0 []) 0 []) (mkVK (mkPK 0 []) 0 []) [] ty_empty (mkVK (mkPK 0 []) 0 []) (mkMK (mkPK 0 []) [] []) EShared.

(* ================================================================ F-C07-1: two versions of one artifact key *)
Definition w1_graph : graph := Eval vm_compute in graph_of (table_resolve w1_tables 50 w1_root).
Lemma w1_resolves : table_resolve w1_tables 50 w1_root = Ok w1_graph.
Proof. vm_compute. reflexivity. Qed.

Definition two_versions (g : graph) : bool :=
  existsb (fun e1 => existsb (fun e2 => (if mkey_dec (e_mk e1) (e_mk e2) then true else false)
                                        && (if vkey_dec (e_to e1) (e_to e2) then false else true)) (g_edges g)) (g_edges g).

Lemma two_versions_spec g : two_versions g = true ->
  exists e1 e2, In e1 (g_edges g) /\ In e2 (g_edges g) /\ e_mk e1 = e_mk e2 /\ e_to e1 <> e_to e2.
Proof.
  unfold two_versions. intros H. apply existsb_exists in H. destruct H as [e1 [H1 H]].
  apply existsb_exists in H. destruct H as [e2 [H2 H]]. apply andb_true_iff in H. destruct H as [A B].
  exists e1, e2. repeat split; auto.
  - destruct (mkey_dec (e_mk e1) (e_mk e2)); congruence.
  - destruct (vkey_dec (e_to e1) (e_to e2)); congruence.
Qed.

Lemma one_version_refuted :
  exists cv cvs cr isim cm vl fuel root g e1 e2,
    version_faithful cv /\ resolve cv cvs cr isim cm vl fuel root = Ok g /\
    In e1 (g_edges g) /\ In e2 (g_edges g) /\ e_mk e1 = e_mk e2 /\ e_to e1 <> e_to e2.
Proof.
  destruct (two_versions_spec w1_graph) as [e1 [e2 H]]; [vm_compute; reflexivity|].
  exists (tc_version w1_tables), (tc_versions w1_tables), (tc_requirements w1_tables), (tc_simple w1_tables),
    (tc_match w1_tables), (tc_less w1_tables), 50%nat, w1_root, w1_graph, e1, e2.
  split; [apply table_faithful_ok; vm_compute; reflexivity|].
  split; [exact w1_resolves | exact H].
Qed.

(* ================================================================ F-C07-2: stale requirements of an abandoned pass *)
Definition w2_graph : graph := Eval vm_compute in graph_of (table_resolve w2_tables 50 w2_root).
Lemma w2_resolves : table_resolve w2_tables 50 w2_root = Ok w2_graph.
Proof. vm_compute. reflexivity. Qed.

Definition w2_k : mkey := mkMK (mkPK 6 [112;58;112]) [] [].     (* p:p, no classifier, jar *)
Definition w2_e0 : edge := Eval vm_compute in nth 0 (filter (on_k w2_k) (g_edges w2_graph)) dummy_edge.
Definition w2_rest : list edge := Eval vm_compute in tl (filter (on_k w2_k) (g_edges w2_graph)).

Definition soft_on (isim : bytes -> res bool) (k : mkey) (g : graph) : bool :=
  forallb (fun e => if on_k k e then match isim (e_req e) with Ok true => true | _ => false end else true) (g_edges g)
  && forallb (fun ne => if mkey_dec (ne_mk ne) k then false else true) (g_errs g).

Lemma soft_on_spec isim k g : soft_on isim k g = true ->
  (forall e, In e (g_edges g) -> e_mk e = k -> isim (e_req e) = Ok true) /\
  (forall ne, In ne (g_errs g) -> ne_mk ne <> k).
Proof.
  unfold soft_on. rewrite andb_true_iff, !forallb_forall. intros [A B]. split.
  - intros e He Ek. specialize (A e He). unfold on_k in A. destruct (mkey_dec (e_mk e) k); [|contradiction].
    destruct (isim (e_req e)) as [[|]| | |]; congruence.
  - intros ne Hne Ek. specialize (B ne Hne). destruct (mkey_dec (ne_mk ne) k); congruence.
Qed.

(* the first pass of w2 is incompatible and lengthens a requirement list *)
Lemma w2_first_pass_incompatible :
  snd (pass (tc_version w2_tables) (tc_versions w2_tables) (tc_requirements w2_tables) (tc_simple w2_tables)
            (tc_match w2_tables) (tc_less w2_tables) 50 w2_root []) = Err EIncompat.
Proof. vm_compute. reflexivity. Qed.

Lemma nearest_refuted :
  exists cv cvs cr isim cm vl fuel root g k e0 rest,
    version_faithful cv /\ resolve cv cvs cr isim cm vl fuel root = Ok g /\
    (forall e, In e (g_edges g) -> e_mk e = k -> isim (e_req e) = Ok true) /\
    (forall ne, In ne (g_errs g) -> ne_mk ne <> k) /\
    filter (on_k k) (g_edges g) = e0 :: rest /\
    e_to e0 <> set_vt (e_dvk e0) vtype_Concrete.
Proof.
  exists (tc_version w2_tables), (tc_versions w2_tables), (tc_requirements w2_tables), (tc_simple w2_tables),
    (tc_match w2_tables), (tc_less w2_tables), 50%nat, w2_root, w2_graph, w2_k, w2_e0, w2_rest.
  split; [apply table_faithful_ok; vm_compute; reflexivity|].
  split; [exact w2_resolves|].
  destruct (soft_on_spec (tc_simple w2_tables) w2_k w2_graph) as [A B]; [vm_compute; reflexivity|].
  split; [exact A|]. split; [exact B|]. split; [vm_compute; reflexivity|].
  vm_compute. intros H. discriminate.
Qed.

(* ================================================================ the example universe: hypotheses are satisfiable *)
Definition ex_graph : graph := Eval vm_compute in graph_of (table_resolve ex_tables 100 ex_root).
Lemma ex_resolves : table_resolve ex_tables 100 ex_root = Ok ex_graph.
Proof. vm_compute. reflexivity. Qed.
Lemma ex_faithful : version_faithful (tc_version ex_tables).
Proof. apply table_faithful_ok. vm_compute. reflexivity. Qed.
Lemma ex_sane : client_sane (tc_version ex_tables) (tc_versions ex_tables) (tc_requirements ex_tables) (tc_simple ex_tables).
Proof. apply table_client_sane. vm_compute. reflexivity. Qed.
Lemma ex_version_sane : version_errs_sane (tc_version ex_tables).
Proof. apply table_version_sane. vm_compute. reflexivity. Qed.

Definition ex_reqs : reqmap := Eval vm_compute in
  fst (pass (tc_version ex_tables) (tc_versions ex_tables) (tc_requirements ex_tables) (tc_simple ex_tables)
            (tc_match ex_tables) (tc_less ex_tables) 100 ex_root []).
Lemma ex_single_pass :
  pass (tc_version ex_tables) (tc_versions ex_tables) (tc_requirements ex_tables) (tc_simple ex_tables)
       (tc_match ex_tables) (tc_less ex_tables) 100 ex_root [] = (ex_reqs, Ok ex_graph).
Proof. vm_compute. reflexivity. Qed.

(* the example is not trivial: 8 nodes, 8 edges, a range edge, a transitive edge, a managed
   transitive edge, a war node, an exclusion set with two entries, an artifact key all of
   whose requirements are soft and that is declared twice *)
Definition ex_c : mkey := mkMK (mkPK 6 [99;58;99]) [] [].     (* c:c *)
Lemma ex_shape :
  length (g_nodes ex_graph) = 8%nat /\ length (g_edges ex_graph) = 8%nat /\
  existsb (fun e => match tc_simple ex_tables (e_req e) with Ok false => true | _ => false end) (g_edges ex_graph) = true /\
  existsb (fun e => if vkey_dec (e_from e) ex_root then false else true) (g_edges ex_graph) = true /\
  existsb (fun e => match e_kind e with ECreated => warish (e_ty e) | _ => false end) (g_edges ex_graph) = true /\
  existsb (fun e => match excl_of_type (e_ty e) with Some [_; _] => true | _ => false end) (g_edges ex_graph) = true /\
  length (filter (on_k ex_c) (g_edges ex_graph)) = 2%nat /\
  forallb (fun r => match tc_simple ex_tables (vk_ver r) with Ok true => true | _ => false end) (reqs_of ex_reqs ex_c) = true.
Proof. vm_compute. repeat split; reflexivity. Qed.

(* ================================================================ the unrestricted clauses, and their refutation *)
Definition one_version_full : Prop :=
  forall cv cvs cr isim cm vl fuel root g,
    version_faithful cv -> resolve cv cvs cr isim cm vl fuel root = Ok g ->
    forall e1 e2, In e1 (g_edges g) -> In e2 (g_edges g) -> e_mk e1 = e_mk e2 -> e_to e1 = e_to e2.

Lemma one_version_full_refuted : ~ one_version_full.
Proof.
  intros F. destruct one_version_refuted as (cv & cvs & cr & isim & cm & vl & fuel & root & g & e1 & e2 & VF & R & I1 & I2 & Ek & N).
  apply N. eapply F; eauto.
Qed.

Definition nearest_full : Prop :=
  forall cv cvs cr isim cm vl fuel root g,
    version_faithful cv -> resolve cv cvs cr isim cm vl fuel root = Ok g ->
    forall k e0 rest,
      (forall e, In e (g_edges g) -> e_mk e = k -> isim (e_req e) = Ok true) ->
      (forall ne, In ne (g_errs g) -> ne_mk ne <> k) ->
      filter (on_k k) (g_edges g) = e0 :: rest ->
      forall e, In e (e0 :: rest) -> e_to e = set_vt (e_dvk e0) vtype_Concrete.

Lemma nearest_full_refuted : ~ nearest_full.
Proof.
  intros F. destruct nearest_refuted as (cv & cvs & cr & isim & cm & vl & fuel & root & g & k & e0 & rest & VF & R & A & B & Fl & N).
  apply N. eapply (F cv cvs cr isim cm vl fuel root g VF R k e0 rest A B Fl). simpl. auto.
Qed.

(* ================================================================ totality for table clients *)
Lemma table_answers_in t : answers_in (tc_version t) (tc_versions t) (tb_universe t).
Proof.
  unfold answers_in, tb_universe. split.
  - intros k v. unfold tc_version. destruct (aget vkey_dec (t_vers t) k) as [r|] eqn:G; [|discriminate].
    intros ->. apply aget_In in G. apply in_or_app. left. apply in_flat_map. exists (k, Ok v). simpl. auto.
  - intros pk vs. unfold tc_versions. destruct (aget pkey_dec (t_lists t) pk) as [r|] eqn:G; [|discriminate].
    intros -> v Hv. apply aget_In in G. apply in_or_app. right. apply in_flat_map. exists (pk, Ok vs). simpl.
    split; auto. now apply in_map.
Qed.

Lemma res_plainb_spec {A} (r : res A) : res_plainb r = true -> res_plain r.
Proof.
  destruct r; simpl; auto; try discriminate. intros H E. subst. discriminate.
Qed.

Lemma table_lookup_plain {K A} (dec : forall a b : K, {a = b} + {a <> b}) (m : list (K * res A)) k :
  forallb (fun x => res_plainb (snd x)) m = true ->
  res_plain (match aget dec m k with Some r => r | None => Err EMissing end).
Proof.
  intros H. destruct (aget dec m k) as [r|] eqn:G.
  - apply aget_In in G. rewrite forallb_forall in H. apply res_plainb_spec. apply (H _ G).
  - simpl. discriminate.
Qed.

Lemma table_client_total t : tb_plain t = true ->
  client_total (tc_version t) (tc_versions t) (tc_requirements t) (tc_simple t).
Proof.
  unfold tb_plain. rewrite !andb_true_iff. intros [[H1 H2] H3]. repeat split.
  - intros k. now apply table_lookup_plain.
  - intros k. now apply table_lookup_plain.
  - intros k. now apply table_lookup_plain.
  - intros s. unfold tc_simple. destruct (aget bytes_dec (t_simple t) s) as [z|]; simpl; [|discriminate].
    destruct (z =? 2)%Z; simpl; auto. discriminate.
Qed.

Lemma table_resolve_total t root : tb_plain t = true ->
  forall fuel, (tb_fuel t <= fuel)%nat -> good (table_resolve t fuel root).
Proof.
  intros P fuel Hf. unfold table_resolve.
  apply (thm_resolve_total _ _ _ _ _ _ (tb_universe t)); auto.
  - apply table_answers_in.
  - now apply table_client_total.
Qed.

Lemma ex_plain : tb_plain ex_tables = true.
Proof. vm_compute. reflexivity. Qed.

(* ================================================================ shared-node edges and the single-variant case *)
Definition single_variantb (root : vkey) (g : graph) : bool :=
  forallb (fun e1 => forallb (fun e2 => if pkey_dec (mk_pk (e_mk e1)) (mk_pk (e_mk e2))
                                        then (if mkey_dec (e_mk e1) (e_mk e2) then true else false) else true)
                             (g_edges g)) (g_edges g)
  && forallb (fun e => if pkey_dec (mk_pk (e_mk e)) (vk_pk root)
                       then (if mkey_dec (e_mk e) (root_mkey root) then true else false) else true) (g_edges g).

Lemma single_variantb_spec root g : single_variantb root g = true -> single_variant root g.
Proof.
  unfold single_variantb. rewrite andb_true_iff, !forallb_forall. intros [A B]. split.
  - intros e1 e2 H1 H2 E. specialize (A e1 H1). rewrite forallb_forall in A. specialize (A e2 H2).
    destruct (pkey_dec (mk_pk (e_mk e1)) (mk_pk (e_mk e2))); [|contradiction].
    destruct (mkey_dec (e_mk e1) (e_mk e2)); congruence.
  - intros e He E. specialize (B e He). destruct (pkey_dec (mk_pk (e_mk e)) (vk_pk root)); [|contradiction].
    destruct (mkey_dec (e_mk e) (root_mkey root)); congruence.
Qed.

Lemma table_lists_faithful_ok t : tb_lists_faithful t = true -> versions_faithful (tc_versions t).
Proof.
  intros H pk vs. unfold tc_versions. destruct (aget pkey_dec (t_lists t) pk) as [r|] eqn:G; [|discriminate].
  intros -> v Hv. apply aget_In in G. unfold tb_lists_faithful in H. rewrite forallb_forall in H.
  specialize (H _ G). simpl in H. rewrite forallb_forall in H. specialize (H v Hv).
  destruct (pkey_dec (vk_pk (v_vk v)) pk); congruence.
Qed.

Lemma ex_versions_faithful : versions_faithful (tc_versions ex_tables).
Proof. apply table_lists_faithful_ok. vm_compute. reflexivity. Qed.
Lemma ex_single_variant : single_variant ex_root ex_graph.
Proof. apply single_variantb_spec. vm_compute. reflexivity. Qed.
(* the witness of F-C07-1 has a shared-node edge and is not single-variant *)
Lemma w1_has_shared_edge :
  existsb (fun e => match e_kind e with EShared => true | _ => false end) (g_edges w1_graph) = true
  /\ single_variantb w1_root w1_graph = false.
Proof. vm_compute. split; reflexivity. Qed.

(* in the example universe the first (and only) declaration of b:b is the range [1,2]; it selects version 2 *)
Definition ex_b : mkey := mkMK (mkPK 6 [98;58;98]) [] [].     (* b:b *)
Lemma ex_first_is_range :
  match filter (on_k ex_b) (g_edges ex_graph) with
  | e0 :: _ => bytes_eqb (e_req e0) [91;49;44;50;93] && bytes_eqb (vk_ver (e_to e0)) [50]
  | [] => false
  end = true
  /\ forallb (fun ne => if mkey_dec (ne_mk ne) ex_b then false else true) (g_errs ex_graph) = true.
Proof. vm_compute. split; reflexivity. Qed.

(* the witness of F-C07-2 resolves in two passes; the final requirement list of p:p is [1; 2] (1 is left over from
   the abandoned pass) and, as C07_final_list_decides says, the edge of p:p points to what findMatch answers on it *)
Definition w2_reqs : reqmap := Eval vm_compute in
  fst (resolve_full (tc_version w2_tables) (tc_versions w2_tables) (tc_requirements w2_tables) (tc_simple w2_tables)
                    (tc_match w2_tables) (tc_less w2_tables) 50 w2_root).
Lemma w2_full :
  resolve_full (tc_version w2_tables) (tc_versions w2_tables) (tc_requirements w2_tables) (tc_simple w2_tables)
               (tc_match w2_tables) (tc_less w2_tables) 50 w2_root = (w2_reqs, Ok w2_graph)
  /\ map vk_ver (reqs_of w2_reqs w2_k) = [[49]; [50]]
  /\ length (filter (on_k w2_k) (g_edges w2_graph)) = 1%nat
  /\ forallb (fun ne => if mkey_dec (ne_mk ne) w2_k then false else true) (g_errs w2_graph) = true.
Proof. vm_compute. repeat split; reflexivity. Qed.
