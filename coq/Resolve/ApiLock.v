(* Lock modes around the bundledVersions map.  Definitions only.

   Resolve/ApiClient.v runs every client call as ONE atomic step.  That is sound when each access
   to the map lies in a critical section that excludes every conflicting one.  This file makes the
   critical sections and their lock modes explicit: each call performs at most one access to the
   map (the four calls on a mangled name read it in getBundledVersion; Requirements of a plain
   version writes it at the end of npmRequirements), under the lock mode the Go source takes
   there.  The modes are not written here: they are computed from the table
   Gen.ApiClientTables.api_map_functions that the translator regenerates from api.go on every run
   (per function touching the map: does it write it, which methods of bundledVersionsMu it calls). *)
From DepsDev Require Import Lib.Base Gen.ApiClientTables Resolve.ApiClient.

Inductive lock_mode := LNone | LShared | LExclusive.
Inductive access := AccRead | AccWrite.

Definition s_Lock : bytes := [76;111;99;107].
Definition s_RLock : bytes := [82;76;111;99;107].

(* the mode a function holds, from the methods it calls on the mutex (sync.Mutex or sync.RWMutex) *)
Definition mode_of_methods (ms : list bytes) : lock_mode :=
  if existsb (bytes_eqb s_Lock) ms then LExclusive
  else if existsb (bytes_eqb s_RLock) ms then LShared
  else LNone.

Definition mode_rank (m : lock_mode) : nat := match m with LNone => 0 | LShared => 1 | LExclusive => 2 end.
Definition weaker (a b : lock_mode) : lock_mode := if (mode_rank a <=? mode_rank b)%nat then a else b.

(* the weakest mode among the functions of the table that do (writes = true) / do not write the map *)
Definition table_mode (writes : bool) (tbl : list (bytes * bool * list bytes)) : lock_mode :=
  fold_left (fun acc e => if Bool.eqb (snd (fst e)) writes then weaker acc (mode_of_methods (snd e)) else acc)
            tbl LExclusive.

Definition reader_mode : lock_mode := table_mode false api_map_functions.
Definition writer_mode : lock_mode := table_mode true api_map_functions.

Record critical := CS { cs_mode : lock_mode; cs_access : access }.

(* the critical sections of one client call, parametric in the two modes *)
Definition sections_of (rm wm : lock_mode) (svc : service) (o : op) : list critical :=
  if is_npm_bundle (op_name o) then [CS rm AccRead]
  else match o with
       | ORequirements vk =>
           match get_requirements svc (vk_name vk) (vk_version vk) with
           | Ok r => match all_deps (vk_name vk) (vk_version vk) r with
                     | Ok _ => [CS wm AccWrite]
                     | _ => []
                     end
           | _ => []
           end
       | _ => []
       end.

(* two sections conflict when one of them writes; a lock excludes the overlap of two sections when
   one holds it exclusively and the other holds it at all (sync.RWMutex; sync.Mutex has Lock only) *)
Definition conflict (a b : critical) : bool :=
  match cs_access a, cs_access b with AccRead, AccRead => false | _, _ => true end.
Definition excludes (a b : lock_mode) : bool :=
  match a, b with
  | LExclusive, LNone | LNone, LExclusive => false
  | LExclusive, _ | _, LExclusive => true
  | _, _ => false
  end.

(* no two sections of any two calls can touch the map at the same time if one of them writes *)
Definition race_free (rm wm : lock_mode) : Prop :=
  forall svc o1 o2 c1 c2, In c1 (sections_of rm wm svc o1) -> In c2 (sections_of rm wm svc o2) ->
    conflict c1 c2 = true -> excludes (cs_mode c1) (cs_mode c2) = true.
