(* Lemmas about CanonPackageName: equality with packaging's canonicalize_name on names made
   of PEP 508 name characters, and idempotence there; the unrestricted forms are refuted. *)
From Coq Require Import Lia.
From DepsDev Require Import Lib.Base Gen.PypiEnvTables Pypi.PyStr Pypi.Dependency Spec.Pep508Spec.

Local Open Scope N_scope.

Lemma is_sep_name_sep : forall c, is_sep c = is_name_sep c.
Proof. reflexivity. Qed.

(* classification of a name character *)
Lemma name_char_cases : forall c, is_name_char c = true ->
  (is_lower c || is_digit c = true /\ is_upper c = false /\ is_sep c = false) \/
  (is_lower c || is_digit c = false /\ is_upper c = true /\ is_sep c = false) \/
  (is_lower c || is_digit c = false /\ is_upper c = false /\ is_sep c = true).
Proof.
  intros c H. unfold is_name_char, is_alnum, is_name_sep in H.
  unfold is_lower, is_digit, is_upper, is_sep.
  repeat match goal with
  | |- context [?a <=? ?b] => destruct (N.leb_spec a b)
  | |- context [?a =? ?b] => destruct (N.eqb_spec a b)
  | H : context [?a <=? ?b] |- _ => destruct (N.leb_spec a b)
  | H : context [?a =? ?b] |- _ => destruct (N.eqb_spec a b)
  end; cbn in *; try discriminate; try lia; auto.
Qed.

Fixpoint drop_seps (s : bytes) : bytes :=
  match s with
  | c :: r => if is_name_sep c then drop_seps r else s
  | [] => []
  end.

Lemma collapse_cons : forall c r,
  collapse_runs (c :: r) =
  if is_name_sep c then
    match r with
    | d :: _ => if is_name_sep d then collapse_runs r else 45 :: collapse_runs r
    | [] => [45]
    end
  else c :: collapse_runs r.
Proof. reflexivity. Qed.

Lemma collapse_sep_cons : forall r c, is_name_sep c = true ->
  collapse_runs (c :: r) = 45 :: collapse_runs (drop_seps r).
Proof.
  induction r as [|d r IH]; intros c Hc.
  - rewrite collapse_cons, Hc. reflexivity.
  - rewrite collapse_cons, Hc. cbn [drop_seps].
    destruct (is_name_sep d) eqn:Hd.
    + exact (IH d Hd).
    + reflexivity.
Qed.

Lemma ascii_lower_lower : forall c, is_lower c || is_digit c = true -> ascii_lower c = c.
Proof.
  intros c H. unfold ascii_lower, is_lower, is_digit in *.
  repeat match goal with
  | |- context [?a <=? ?b] => destruct (N.leb_spec a b)
  | H : context [?a <=? ?b] |- _ => destruct (N.leb_spec a b)
  end; cbn in *; try discriminate; try lia; auto.
Qed.

Lemma ascii_lower_upper : forall c, is_upper c = true -> ascii_lower c = c + 32.
Proof. intros c H. unfold ascii_lower, is_upper in *. rewrite H. reflexivity. Qed.

Lemma canon_go_spec : forall s, forallb is_name_char s = true ->
  canon_go false s = to_lower (collapse_runs s) /\
  canon_go true s = to_lower (collapse_runs (drop_seps s)).
Proof.
  induction s as [|c r IH]; intros H.
  - split; reflexivity.
  - cbn [forallb] in H. apply andb_prop in H. destruct H as [Hc Hr].
    specialize (IH Hr). destruct IH as [IH0 IH1].
    destruct (name_char_cases c Hc) as [[A [B C]]|[[A [B C]]|[A [B C]]]].
    + assert (Hs : is_name_sep c = false) by (rewrite <- is_sep_name_sep; exact C).
      cbn [canon_go drop_seps]. rewrite A, Hs.
      rewrite collapse_cons, Hs. cbn [to_lower map].
      rewrite (ascii_lower_lower c A). unfold to_lower in IH0. rewrite IH0. split; reflexivity.
    + assert (Hs : is_name_sep c = false) by (rewrite <- is_sep_name_sep; exact C).
      cbn [canon_go drop_seps]. rewrite A, B, Hs.
      rewrite collapse_cons, Hs. cbn [to_lower map].
      rewrite (ascii_lower_upper c B). unfold to_lower in IH0. rewrite IH0. split; reflexivity.
    + assert (Hs : is_name_sep c = true) by (rewrite <- is_sep_name_sep; exact C).
      cbn [canon_go drop_seps]. rewrite A, B, C, Hs.
      rewrite (collapse_sep_cons r c Hs). cbn [to_lower map].
      unfold to_lower in IH1. rewrite IH1. split; reflexivity.
Qed.

(* C16_name_spec *)
Theorem canon_name_spec : forall n, forallb is_name_char n = true ->
  canon_name n = canonicalize_name n.
Proof. intros n H. exact (proj1 (canon_go_spec n H)). Qed.

(* ---- idempotence: the output is lower case and has no two adjacent separators *)
Definition out_char (c : N) : bool := is_lower c || is_digit c || (c =? 45).

Fixpoint no_double_dash (prev_dash : bool) (s : bytes) : bool :=
  match s with
  | [] => true
  | c :: r => if c =? 45 then negb prev_dash && no_double_dash true r else no_double_dash false r
  end.

Lemma lower_not_dash : forall c, is_lower c || is_digit c = true -> (c =? 45) = false.
Proof.
  intros c H. unfold is_lower, is_digit in H. destruct (N.eqb_spec c 45); auto. subst. discriminate.
Qed.

Lemma upper_plus32_lower : forall c, is_upper c = true -> is_lower (c + 32) || is_digit (c + 32) = true.
Proof.
  intros c H. unfold is_upper, is_lower, is_digit in *.
  repeat match goal with
  | |- context [?a <=? ?b] => destruct (N.leb_spec a b)
  | H : context [?a <=? ?b] |- _ => destruct (N.leb_spec a b)
  end; cbn in *; try discriminate; try lia; auto.
Qed.

Lemma canon_go_shape : forall s run, forallb is_name_char s = true ->
  forallb out_char (canon_go run s) = true /\ no_double_dash run (canon_go run s) = true.
Proof.
  induction s as [|c r IH]; intros run H.
  - split; reflexivity.
  - cbn [forallb] in H. apply andb_prop in H. destruct H as [Hc Hr].
    cbn [canon_go].
    destruct (name_char_cases c Hc) as [[A [B C]]|[[A [B C]]|[A [B C]]]]; rewrite A.
    + cbn [forallb no_double_dash]. rewrite (lower_not_dash c A).
      unfold out_char at 1. rewrite A. cbn [orb andb].
      destruct (IH false Hr) as [P Q]. rewrite P, Q. split; reflexivity.
    + rewrite B. pose proof (upper_plus32_lower c B) as L.
      cbn [forallb no_double_dash]. rewrite (lower_not_dash _ L).
      unfold out_char at 1. rewrite L. cbn [orb andb].
      destruct (IH false Hr) as [P Q]. rewrite P, Q. split; reflexivity.
    + rewrite B, C. destruct run.
      * exact (IH true Hr).
      * cbn [forallb no_double_dash]. cbn [N.eqb Pos.eqb negb andb].
        destruct (IH true Hr) as [P Q]. rewrite P, Q. split; reflexivity.
Qed.

Lemma out_char_cases : forall c, out_char c = true ->
  (is_lower c || is_digit c = true /\ (c =? 45) = false) \/
  (is_lower c || is_digit c = false /\ is_upper c = false /\ is_sep c = true /\ (c =? 45) = true).
Proof.
  intros c H. unfold out_char in H.
  destruct (is_lower c || is_digit c) eqn:A.
  - left. split; [reflexivity | exact (lower_not_dash c A)].
  - right. cbn [orb] in H. apply N.eqb_eq in H. subst c. repeat split; reflexivity.
Qed.

Lemma canon_go_fixed : forall t run,
  forallb out_char t = true -> no_double_dash run t = true -> canon_go run t = t.
Proof.
  induction t as [|c r IH]; intros run H D.
  - reflexivity.
  - cbn [forallb] in H. apply andb_prop in H. destruct H as [Hc Hr].
    cbn [canon_go no_double_dash] in *.
    destruct (out_char_cases c Hc) as [[A B]|[A [B [C E]]]].
    + rewrite A. rewrite B in D. f_equal. exact (IH false Hr D).
    + rewrite A, B, C. rewrite E in D. apply andb_prop in D. destruct D as [D1 D2].
      destruct run; [discriminate|]. apply N.eqb_eq in E. subst c. f_equal. exact (IH true Hr D2).
Qed.

(* C16_name_idem on names made of name characters *)
Theorem canon_name_idem : forall n, forallb is_name_char n = true ->
  canon_name (canon_name n) = canon_name n.
Proof.
  intros n H. unfold canon_name. destruct (canon_go_shape n false H) as [P Q].
  exact (canon_go_fixed _ false P Q).
Qed.

(* the unrestricted statement is false: a dropped byte between two separators *)
Theorem canon_name_idem_unrestricted_refuted :
  exists n, canon_name (canon_name n) <> canon_name n.
Proof. exists [97;45;33;45;98]. vm_compute. discriminate. Qed.

(* ... and on such names packaging keeps the byte: the two normalisations differ outside the grammar *)
Theorem canon_name_spec_unrestricted_refuted :
  exists n, canon_name n <> canonicalize_name n.
Proof. exists [97;33;98]. vm_compute. discriminate. Qed.

(* valid names are made of name characters *)
Lemma valid_name_chars : forall n, valid_name n = true -> forallb is_name_char n = true.
Proof.
  intros n H. unfold valid_name in H. apply andb_prop in H. destruct H as [H _].
  apply andb_prop in H. destruct H as [H _]. exact H.
Qed.
