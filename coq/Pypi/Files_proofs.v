(* Proofs about the file-name parsers of util/pypi (model: Pypi/Files.v): totality of SdistVersion and
   ParseWheelName for every byte string, and what SdistVersion returns. *)
From Coq Require Import List ZArith Lia Bool.
From DepsDev Require Import Lib.Base Pypi.PyStr Pypi.PyStr_proofs Pypi.Dependency Pypi.Files.
Import ListNotations.
Local Open Scope nat_scope.

Definition returns {A} (r : res A) : Prop :=
  match r with Panic _ => False | OutOfFuel => False | _ => True end.

Lemma bytes_eqb_eq : forall a b, bytes_eqb a b = true <-> a = b.
Proof.
  induction a as [|x a IH]; destruct b as [|y b]; simpl; split; intros H; try reflexivity; try discriminate.
  - apply andb_true_iff in H. destruct H as [H1 H2]. apply N.eqb_eq in H1. apply IH in H2. subst. reflexivity.
  - inversion H; subst. apply andb_true_iff. split; [apply N.eqb_refl | apply IH; reflexivity].
Qed.

(* ---- SdistVersion ---- *)
Lemma go_slice_prefix_ok : forall (a b : bytes), go_slice (a ++ b) 0 (length a) = Ok a.
Proof. exact go_slice_prefix. Qed.

Lemma go_slice_after : forall (a : bytes) c b,
  go_slice (a ++ c :: b) (length a + 1) (length (a ++ c :: b)) = Ok b.
Proof.
  intros a c b.
  replace (a ++ c :: b) with ((a ++ [c]) ++ b) by (rewrite <- app_assoc; reflexivity).
  replace (length a + 1) with (length (a ++ [c])) by (rewrite app_length; simpl; lia).
  apply go_slice_suffix.
Qed.

(* the scan, for a position reached with [whole = pre ++ rest] *)
Lemma sdist_scan_spec : forall canon rest pre whole,
  whole = pre ++ rest ->
  match sdist_scan canon whole pre rest with
  | Ok (nm, ver) =>
      whole = nm ++ 45%N :: ver /\ canon_name nm = canon /\
      exists mid, nm = pre ++ mid /\
        (* no earlier dash after [pre] gives the name looked for *)
        forall m1 m2, mid = m1 ++ 45%N :: m2 -> canon_name (pre ++ m1) <> canon
  | Err _ =>
      forall m1 m2, rest = m1 ++ 45%N :: m2 -> canon_name (pre ++ m1) <> canon
  | Panic _ => False
  | OutOfFuel => False
  end.
Proof.
  intros canon rest. induction rest as [|c r IH]; intros pre whole Hw; cbn [sdist_scan].
  - intros m1 m2 H. destruct m1; discriminate.
  - destruct (N.eqb_spec c 45) as [Ec|Ec].
    + subst c. subst whole. cbn [bind].
      rewrite go_slice_prefix_ok. cbn [bind].
      destruct (bytes_eqb (canon_name pre) canon) eqn:Eb.
      * rewrite go_slice_after. cbn [bind].
        split; [reflexivity|]. split.
        { apply bytes_eqb_eq. exact Eb. }
        exists []. split; [rewrite app_nil_r; reflexivity|].
        intros m1 m2 H. destruct m1; discriminate.
      * specialize (IH (pre ++ [45%N]) (pre ++ 45%N :: r)).
        rewrite <- app_assoc in IH. specialize (IH eq_refl).
        assert (Hne : canon_name pre <> canon).
        { intros E. rewrite <- bytes_eqb_eq in E. rewrite E in Eb. discriminate. }
        destruct (sdist_scan canon (pre ++ 45%N :: r) (pre ++ [45%N]) r) as [[nm ver]|e|p|]; auto.
        -- destruct IH as (H1 & H2 & mid & H3 & H4). split; [exact H1|]. split; [exact H2|].
           exists (45%N :: mid). split; [rewrite H3, <- app_assoc; reflexivity|].
           intros m1 m2 H. destruct m1 as [|x m1].
           ++ rewrite app_nil_r. exact Hne.
           ++ cbn in H. inversion H; subst x. subst mid.
              replace (pre ++ 45%N :: m1) with ((pre ++ [45%N]) ++ m1) by (rewrite <- app_assoc; reflexivity).
              apply (H4 m1 m2). reflexivity.
        -- intros m1 m2 H. destruct m1 as [|x m1].
           ++ rewrite app_nil_r. exact Hne.
           ++ cbn in H. inversion H; subst x.
              replace (pre ++ 45%N :: m1) with ((pre ++ [45%N]) ++ m1) by (rewrite <- app_assoc; reflexivity).
              apply (IH m1 m2). assumption.
    + specialize (IH (pre ++ [c]) whole).
      assert (Hw' : whole = (pre ++ [c]) ++ r) by (rewrite <- app_assoc; exact Hw).
      specialize (IH Hw').
      destruct (sdist_scan canon whole (pre ++ [c]) r) as [[nm ver]|e|p|]; auto.
      * destruct IH as (H1 & H2 & mid & H3 & H4). split; [exact H1|]. split; [exact H2|].
        exists (c :: mid). split; [rewrite H3, <- app_assoc; reflexivity|].
        intros m1 m2 H. destruct m1 as [|x m1].
        -- cbn in H. inversion H. congruence.
        -- cbn in H. inversion H; subst x. subst mid.
           replace (pre ++ c :: m1) with ((pre ++ [c]) ++ m1) by (rewrite <- app_assoc; reflexivity).
           apply (H4 m1 m2). reflexivity.
      * intros m1 m2 H. destruct m1 as [|x m1].
        -- cbn in H. inversion H. congruence.
        -- cbn in H. inversion H; subst x.
           replace (pre ++ c :: m1) with ((pre ++ [c]) ++ m1) by (rewrite <- app_assoc; reflexivity).
           apply (IH m1 m2). assumption.
Qed.

Theorem sdist_version_total : forall canon filename, returns (sdist_version canon filename).
Proof.
  intros canon filename. unfold sdist_version, returns.
  pose proof (sdist_scan_spec canon (sdist_stem filename) [] (sdist_stem filename) eq_refl) as H.
  destruct (sdist_scan canon (sdist_stem filename) [] (sdist_stem filename)) as [[nm ver]|e|p|]; auto.
Qed.

(* what is returned: the stem split at its FIRST dash whose prefix canonicalises to the name asked for *)
Theorem sdist_version_ok : forall canon filename nm ver,
  sdist_version canon filename = Ok (nm, ver) ->
  sdist_stem filename = nm ++ 45%N :: ver /\ canon_name nm = canon /\
  forall m1 m2, nm = m1 ++ 45%N :: m2 -> canon_name m1 <> canon.
Proof.
  intros canon filename nm ver H. unfold sdist_version in H.
  pose proof (sdist_scan_spec canon (sdist_stem filename) [] (sdist_stem filename) eq_refl) as S.
  rewrite H in S. destruct S as (H1 & H2 & mid & H3 & H4). cbn in H3. subst mid.
  split; [exact H1|]. split; [exact H2|]. intros m1 m2 E. exact (H4 m1 m2 E).
Qed.

Theorem sdist_version_err : forall canon filename e,
  sdist_version canon filename = Err e ->
  forall m1 m2, sdist_stem filename = m1 ++ 45%N :: m2 -> canon_name m1 <> canon.
Proof.
  intros canon filename e H m1 m2 E. unfold sdist_version in H.
  pose proof (sdist_scan_spec canon (sdist_stem filename) [] (sdist_stem filename) eq_refl) as S.
  rewrite H in S. exact (S m1 m2 E).
Qed.

(* ---- ParseWheelName ---- *)
Lemma idx_ok : forall {A} (l : list A) i, i < length l -> exists x, idx l i = Ok x.
Proof.
  intros A l. induction l as [|a l IH]; intros i H; simpl in H; [lia|].
  destruct i as [|i]; simpl; [eauto|]. apply IH. lia.
Qed.

Definition oracle_wf (o : bytes -> option nat) : Prop := forall b k, o b = Some k -> k <= length b.

Lemma build_tag_total : forall o b, oracle_wf o -> returns (build_tag o b).
Proof.
  intros o b Ho. unfold build_tag.
  destruct (o b) as [k|] eqn:E.
  - destruct k as [|k]; [exact I|].
    pose proof (Ho b (S k) E) as Hk.
    destruct (go_slice_ok b 0 (S k)) as [x Hx]; [lia|exact Hk|]. rewrite Hx. cbn [bind].
    destruct (atoi x); [|exact I].
    destruct (go_slice_ok b (S k) (length b)) as [y Hy]; [exact Hk|lia|]. rewrite Hy. exact I.
  - destruct (go_slice_ok b 0 (length b)) as [x Hx]; [lia|lia|]. rewrite Hx. cbn [bind].
    destruct (atoi x); [|exact I].
    destruct (go_slice_ok b (length b) (length b)) as [y Hy]; [lia|lia|]. rewrite Hy. exact I.
Qed.

Lemma has_suffix_length : forall p s, has_suffix p s = true -> length p <= length s.
Proof.
  intros p s H. unfold has_suffix, has_prefix in H.
  destruct (strip_prefix (rev p) (rev s)) as [r|] eqn:E; [|discriminate].
  apply strip_prefix_some in E. apply (f_equal (@length N)) in E.
  rewrite app_length, !rev_length in E. lia.
Qed.

Theorem parse_wheel_name_total : forall o name, oracle_wf o -> returns (parse_wheel_name o name).
Proof.
  intros o name Ho. unfold parse_wheel_name.
  destruct (has_suffix s_whl name) eqn:Hs; cbn [negb]; [|exact I].
  apply has_suffix_length in Hs. cbn in Hs.
  destruct (Nat.ltb_spec (length name) 4) as [Hl|Hl]; [lia|].
  destruct (go_slice_ok name 0 (length name - 4)) as [stem Hstem]; [lia|lia|].
  rewrite Hstem. cbn [bind].
  set (parts := split_on 45 stem).
  destruct (Nat.eqb (length parts) 5 || Nat.eqb (length parts) 6) eqn:Hn; cbn [negb]; [|exact I].
  apply orb_true_iff in Hn.
  assert (Hlen : length parts = 5 \/ length parts = 6).
  { destruct Hn as [H|H]; apply Nat.eqb_eq in H; auto. }
  destruct (idx_ok parts 0) as [p0 E0]; [lia|]. rewrite E0. cbn [bind].
  destruct (idx_ok parts 1) as [p1 E1]; [lia|]. rewrite E1. cbn [bind].
  assert (Hbt : returns (if Nat.eqb (length parts) 6 then b <- idx parts 2;; build_tag o b else Ok (0%Z, []))).
  { destruct (Nat.eqb (length parts) 6); [|exact I].
    destruct (idx_ok parts 2) as [b E2]; [lia|]. rewrite E2. cbn [bind]. apply build_tag_total. exact Ho. }
  destruct (if Nat.eqb (length parts) 6 then b <- idx parts 2;; build_tag o b else Ok (0%Z, [])) as [bt|e|p|];
    cbn [bind]; try exact I; try contradiction.
  destruct (idx_ok parts (length parts - 3)) as [py E3]; [lia|]. rewrite E3. cbn [bind].
  destruct (idx_ok parts (length parts - 2)) as [abi E4]; [lia|]. rewrite E4. cbn [bind].
  destruct (idx_ok parts (length parts - 1)) as [plat E5]; [lia|]. rewrite E5. cbn [bind].
  exact I.
Qed.

Lemma ascii_oracle_wf : oracle_wf ascii_first_nondigit.
Proof.
  intros b k H. unfold ascii_first_nondigit in H. apply index_pred_some_lt in H. lia.
Qed.

(* an accepted wheel name has 5 or 6 dash-separated parts and every expanded tag comes from its three tag parts *)
Theorem parse_wheel_name_ok : forall o name w,
  parse_wheel_name o name = Ok w ->
  exists stem, name = stem ++ s_whl /\
    let parts := split_on 45 stem in
    (length parts = 5 \/ length parts = 6) /\
    nth_error parts 0 = Some (w_name w) /\ nth_error parts 1 = Some (w_version w).
Proof.
  intros o name w H. unfold parse_wheel_name in H.
  destruct (has_suffix s_whl name) eqn:Hs; cbn [negb] in H; [|discriminate].
  destruct (Nat.ltb (length name) 4) eqn:Hl; [discriminate|].
  apply Nat.ltb_ge in Hl.
  unfold has_suffix, has_prefix in Hs.
  destruct (strip_prefix (rev s_whl) (rev name)) as [r|] eqn:E; [|discriminate].
  apply strip_prefix_some in E.
  assert (En : name = rev r ++ s_whl).
  { rewrite <- (rev_involutive name), E, rev_app_distr, rev_involutive. reflexivity. }
  exists (rev r). split; [exact En|].
  assert (Hst : go_slice name 0 (length name - 4) = Ok (rev r)).
  { rewrite En at 1. replace (length name - 4) with (length (rev r)).
    - apply go_slice_prefix.
    - rewrite En, app_length. cbn. lia. }
  rewrite Hst in H. cbn [bind] in H.
  set (parts := split_on 45 (rev r)) in *.
  destruct (Nat.eqb (length parts) 5 || Nat.eqb (length parts) 6) eqn:Hn; cbn [negb] in H; [|discriminate].
  apply orb_true_iff in Hn.
  assert (Hlen : length parts = 5 \/ length parts = 6).
  { destruct Hn as [X|X]; apply Nat.eqb_eq in X; auto. }
  split; [exact Hlen|].
  assert (idx_nth : forall (l : list bytes) i x, idx l i = Ok x -> nth_error l i = Some x).
  { induction l as [|a l IH]; intros i x Hx; [destruct i; discriminate|].
    destruct i; cbn in *; [inversion Hx; reflexivity | apply IH; exact Hx]. }
  destruct (idx parts 0) as [p0|?|?|] eqn:E0; cbn [bind] in H; try discriminate.
  destruct (idx parts 1) as [p1|?|?|] eqn:E1; cbn [bind] in H; try discriminate.
  destruct (if Nat.eqb (length parts) 6 then b <- idx parts 2;; build_tag o b else Ok (0%Z, [])) as [bt|?|?|];
    cbn [bind] in H; try discriminate.
  destruct (idx parts (length parts - 3)) as [py|?|?|]; cbn [bind] in H; try discriminate.
  destruct (idx parts (length parts - 2)) as [abi|?|?|]; cbn [bind] in H; try discriminate.
  destruct (idx parts (length parts - 1)) as [plat|?|?|]; cbn [bind] in H; try discriminate.
  inversion H; subst w. cbn [w_name w_version]. split; apply idx_nth; assumption.
Qed.

(* expandPEP425Tag: the expanded list is the product of the three dot-separated sets, in order *)
Theorem expand_tags_in : forall py abi plat p a l,
  In (p, a, l) (expand_tags py abi plat) <->
  In p (split_on 46 py) /\ In a (split_on 46 abi) /\ In l (split_on 46 plat).
Proof.
  intros py abi plat p a l. unfold expand_tags. rewrite in_flat_map. split.
  - intros (p' & Hp & H). rewrite in_flat_map in H. destruct H as (a' & Ha & H).
    rewrite in_map_iff in H. destruct H as (l' & E & Hl). inversion E; subst. auto.
  - intros (Hp & Ha & Hl). exists p. split; [exact Hp|]. rewrite in_flat_map.
    exists a. split; [exact Ha|]. rewrite in_map_iff. exists l. auto.
Qed.

Lemma expand_inner_length : forall (p : bytes) (la lp : list bytes),
  length (flat_map (fun a => map (fun l => (p, a, l)) lp) la) = length la * length lp.
Proof.
  intros p la lp. induction la as [|a la IH]; [reflexivity|].
  cbn [flat_map length]. rewrite app_length, IH, map_length. lia.
Qed.

Theorem expand_tags_length : forall py abi plat,
  length (expand_tags py abi plat) =
  length (split_on 46 py) * (length (split_on 46 abi) * length (split_on 46 plat)).
Proof.
  intros py abi plat. unfold expand_tags.
  generalize (split_on 46 py) as lpy. intros lpy.
  induction lpy as [|p ps IH]; [reflexivity|].
  cbn [flat_map length]. rewrite app_length, IH, expand_inner_length. lia.
Qed.
