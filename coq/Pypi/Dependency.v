(* Model of util/pypi/metadata.go: ParseDependency and CanonPackageName.
   Definitions only. CanonVersion belongs to C10 and is not modelled here. *)
From DepsDev Require Import Lib.Base Gen.PypiEnvTables Pypi.PyStr.

(* ---- CanonPackageName: one pass, [run] says that a run of - _ . has started. *)
Definition is_lower (c : N) : bool := (97 <=? c) && (c <=? 122).
Definition is_upper (c : N) : bool := (65 <=? c) && (c <=? 90).
Definition is_sep (c : N) : bool := (c =? 45) || (c =? 95) || (c =? 46).

Fixpoint canon_go (run : bool) (s : bytes) : bytes :=
  match s with
  | [] => []
  | c :: r =>
      if is_lower c || is_digit c then c :: canon_go false r
      else if is_upper c then (c + 32) :: canon_go false r
      else if is_sep c then (if run then canon_go true r else 45 :: canon_go true r)
      else canon_go false r      (* any other byte is dropped and ends the run *)
  end.
Definition canon_name (s : bytes) : bytes := canon_go false s.

(* ---- ParseDependency *)
Record dependency : Type := mkdep {
  d_name : bytes; d_extras : bytes; d_constraint : bytes; d_env : bytes }.

(* error kinds (the text is never compared) *)
Definition EEmptyString : N := 1.
Definition EEmptyName : N := 2.
Definition EUnterminatedExtras : N := 3.
Definition EInternal : N := 4.

(* "Does it have extras?": s1 is not empty in the Go code; s1[0] is read unconditionally *)
Definition extras_step (s1 : bytes) : res (bytes * bytes) :=
  c0 <- idx s1 0 ;;
  if c0 =? 91 (* [ *) then
    match index_byte 93 s1 with
    | None => Err EUnterminatedExtras
    | Some e =>
        inner <- go_slice s1 1 e ;;
        after <- go_slice s1 (e + 1) (length s1) ;;
        Ok (trim inner, after)
    end
  else Ok ([], s1).

(* "Does it have a constraint?" *)
Definition constraint_step (s2 : bytes) : res (bytes * bytes) :=
  match s2 with
  | c :: _ =>
      if negb (c =? 59) (* ; *) then
        let e := match index_byte 59 s2 with Some e => e | None => length s2 end in
        pre <- go_slice s2 0 e ;;
        let c1 := trim pre in
        c2 <- (if has_prefix [40] c1 && has_suffix [41] c1
               then go_slice c1 1 (length c1 - 1) else Ok c1) ;;
        post <- go_slice s2 e (length s2) ;;
        Ok (c2, post)
      else Ok ([], s2)
  | [] => Ok ([], s2)
  end.

(* "Anything left must be a condition starting with ';'" *)
Definition env_step (name extras constr s3 : bytes) : res dependency :=
  match s3 with
  | c :: r => if negb (c =? 59) then Err EInternal
              else Ok (mkdep name extras constr (trim r))
  | [] => Ok (mkdep name extras constr [])
  end.

(* everything after the name; rest = s[nameEnd:] *)
Definition parse_tail (name rest : bytes) : res dependency :=
  let s1 := trim_left rest in
  es <- extras_step s1 ;;
  cs <- constraint_step (snd es) ;;
  env_step name (fst es) (fst cs) (snd cs).

Definition parse_dependency (v : bytes) : res dependency :=
  if is_nil v then Err EEmptyString else
  let s := trim v in
  match index_any dep_name_delims s with
  | Some O => Err EEmptyName
  | None => Ok (mkdep (canon_name s) [] [] [])
  | Some name_end =>
      nm <- go_slice s 0 name_end ;;
      rest <- go_slice s name_end (length s) ;;
      parse_tail (canon_name nm) rest
  end.
