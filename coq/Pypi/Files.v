(* Model of the file-name parsers of util/pypi: SdistVersion (sdist.go) and ParseWheelName with
   expandPEP425Tag (wheel.go).  Definitions only; proofs in Files_proofs.v.

   Byte level.  SdistVersion ranges over the RUNES of the name and looks for '-': a byte 0x2D is
   never part of a multi-byte sequence and an invalid sequence is consumed one byte at a time, so the
   byte offsets at which the loop sees '-' are exactly the positions of the bytes 0x2D.
   ParseWheelName asks strings.IndexFunc(tag, !unicode.IsDigit), which needs Unicode tables for
   non-ASCII runes: that one call is a parameter [first_nondigit] of the model (for ASCII tags it is
   [ascii_first_nondigit]); strconv.Atoi accepts ASCII digits only, so whatever the oracle says about
   non-ASCII digits the conversion of such a prefix fails as it does in Go. *)
From DepsDev Require Import Lib.Base Pypi.PyStr Pypi.Dependency.

Definition EBadName : N := 1.
Definition ENotWheel : N := 2.
Definition EParts : N := 3.
Definition ETagStart : N := 4.
Definition EAtoi : N := 5.

(* filepath.Ext on a slash-separated path: the suffix that starts at the last dot of the last element *)
Fixpoint ext_rev (r acc : bytes) : bytes :=
  match r with
  | [] => []
  | c :: t => if c =? 47 then [] else if c =? 46 then c :: acc else ext_rev t (c :: acc)
  end.
Definition path_ext (p : bytes) : bytes := ext_rev (rev p) [].

(* strings.TrimSuffix *)
Definition trim_suffix (s suf : bytes) : bytes :=
  if has_suffix suf s then firstn (length s - length suf) s else s.

Definition s_tar : bytes := [46;116;97;114].   (* ".tar" *)
Definition s_whl : bytes := [46;119;104;108].  (* ".whl" *)

Definition sdist_stem (filename : bytes) : bytes :=
  trim_suffix (trim_suffix filename (path_ext filename)) s_tar.

(* the loop: [pre] is what was passed already, [rest] what is left of [whole] *)
Fixpoint sdist_scan (canon whole pre rest : bytes) : res (bytes * bytes) :=
  match rest with
  | [] => Err EBadName
  | c :: r =>
      if c =? 45 then
        let i := length pre in
        nm <- go_slice whole 0 i ;;
        if bytes_eqb (canon_name nm) canon then
          ver <- go_slice whole (i + 1) (length whole) ;;
          Ok (nm, ver)
        else sdist_scan canon whole (pre ++ [c]) r
      else sdist_scan canon whole (pre ++ [c]) r
  end.

Definition sdist_version (canon filename : bytes) : res (bytes * bytes) :=
  let nv := sdist_stem filename in
  sdist_scan canon nv [] nv.

(* ---- wheels ---- *)
Record wheel : Type := mkwheel {
  w_name : bytes; w_version : bytes; w_num : Z; w_tag : bytes;
  w_platforms : list (bytes * bytes * bytes) }.

Definition ascii_first_nondigit (b : bytes) : option nat := index_pred (fun c => negb (is_digit c)) b.

(* strconv.Atoi on 64-bit: ASCII digits only (no sign can occur here), not empty, at most 2^63-1 *)
Fixpoint dec_value (acc : Z) (s : bytes) : Z :=
  match s with
  | [] => acc
  | c :: r => dec_value (acc * 10 + (Z.of_N c - 48))%Z r
  end.
Definition atoi (s : bytes) : option Z :=
  if is_nil s then None
  else if forallb is_digit s then
    let v := dec_value 0%Z s in
    if (v <=? 9223372036854775807)%Z then Some v else None
  else None.

Definition expand_tags (py abi plat : bytes) : list (bytes * bytes * bytes) :=
  flat_map (fun p => flat_map (fun a => map (fun l => (p, a, l)) (split_on 46 plat)) (split_on 46 abi))
           (split_on 46 py).

Section Wheel.
  Variable first_nondigit : bytes -> option nat.

  Definition build_tag (b : bytes) : res (Z * bytes) :=
    match first_nondigit b with
    | Some O => Err ETagStart
    | o =>
        let split := match o with Some k => k | None => length b end in
        ds <- go_slice b 0 split ;;
        match atoi ds with
        | None => Err EAtoi
        | Some z => tg <- go_slice b split (length b) ;; Ok (z, tg)
        end
    end.

  Definition parse_wheel_name (name : bytes) : res wheel :=
    if negb (has_suffix s_whl name) then Err ENotWheel else
    (* name[:len(name)-4]: a negative bound would be a run-time panic *)
    if Nat.ltb (length name) 4 then Panic PSlice else
    stem <- go_slice name 0 (length name - 4) ;;
    let parts := split_on 45 stem in
    let n := length parts in
    if negb (Nat.eqb n 5 || Nat.eqb n 6) then Err EParts else
    p0 <- idx parts 0 ;;
    p1 <- idx parts 1 ;;
    bt <- (if Nat.eqb n 6 then b <- idx parts 2 ;; build_tag b else Ok (0%Z, [])) ;;
    py <- idx parts (n - 3) ;;
    abi <- idx parts (n - 2) ;;
    plat <- idx parts (n - 1) ;;
    Ok (mkwheel p0 p1 (fst bt) (snd bt) (expand_tags py abi plat)).
End Wheel.
