(* Lemmas about the byte-string helpers of PyStr.v. *)
From Coq Require Import Lia.
From DepsDev Require Import Lib.Base Pypi.PyStr.

Local Open Scope N_scope.

Definition all_ws (s : bytes) : bool := forallb is_space s.

Lemma trim_left_ws_app : forall w s, all_ws w = true -> trim_left (w ++ s) = trim_left s.
Proof.
  induction w as [|c w IH]; intros s H; [reflexivity|].
  cbn [all_ws forallb] in H. apply andb_prop in H. destruct H as [Hc Hw].
  cbn [app trim_left]. rewrite Hc. exact (IH s Hw).
Qed.

Lemma trim_left_nonspace : forall c r, is_space c = false -> trim_left (c :: r) = c :: r.
Proof. intros c r H. cbn [trim_left]. rewrite H. reflexivity. Qed.

Lemma trim_left_idem : forall s, trim_left (trim_left s) = trim_left s.
Proof.
  induction s as [|c r IH]; [reflexivity|].
  cbn [trim_left]. destruct (is_space c) eqn:E; [exact IH|].
  cbn [trim_left]. rewrite E. reflexivity.
Qed.

Lemma trim_left_length : forall s, (length (trim_left s) <= length s)%nat.
Proof.
  induction s as [|c r IH]; [cbn; lia|].
  cbn [trim_left]. destruct (is_space c); cbn [length]; lia.
Qed.

(* trim_left splits off a white-space prefix *)
Lemma trim_left_split : forall s, exists w, all_ws w = true /\ s = w ++ trim_left s.
Proof.
  induction s as [|c r [w [Hw E]]].
  - exists []. split; reflexivity.
  - cbn [trim_left]. destruct (is_space c) eqn:Hc.
    + exists (c :: w). split.
      * cbn [all_ws forallb]. rewrite Hc. exact Hw.
      * cbn [app]. f_equal. exact E.
    + exists []. split; reflexivity.
Qed.

Lemma trim_left_head : forall s c r, trim_left s = c :: r -> is_space c = false.
Proof.
  induction s as [|d s IH]; intros c r H; [discriminate|].
  cbn [trim_left] in H. destruct (is_space d) eqn:E.
  - exact (IH c r H).
  - inversion H. subst. exact E.
Qed.

Lemma trim_left_same_length : forall s, length (trim_left s) = length s -> trim_left s = s.
Proof.
  intros s. destruct s as [|c r]; [reflexivity|].
  cbn [trim_left]. destruct (is_space c); [|reflexivity].
  intros H. pose proof (trim_left_length r). cbn [length] in H. lia.
Qed.

Lemma all_ws_app : forall a b, all_ws (a ++ b) = all_ws a && all_ws b.
Proof. intros. unfold all_ws. apply forallb_app. Qed.

Lemma trim_left_all_ws : forall w, all_ws w = true -> trim_left w = [].
Proof.
  intros w H. rewrite <- (app_nil_r w). rewrite trim_left_ws_app by exact H. reflexivity.
Qed.

(* ---- strip_prefix *)
Lemma strip_prefix_app : forall p s, strip_prefix p (p ++ s) = Some s.
Proof.
  induction p as [|a p IH]; intros s; [reflexivity|].
  cbn [app strip_prefix]. rewrite N.eqb_refl. exact (IH s).
Qed.

Lemma strip_prefix_some : forall p s r, strip_prefix p s = Some r -> s = p ++ r.
Proof.
  induction p as [|a p IH]; intros s r H.
  - cbn in H. inversion H. reflexivity.
  - destruct s as [|b s]; [discriminate|]. cbn [strip_prefix] in H.
    destruct (N.eqb_spec a b); [|discriminate]. subst. cbn [app]. f_equal. exact (IH s r H).
Qed.

Lemma strip_prefix_head_ne : forall a p c r, (a =? c) = false -> strip_prefix (a :: p) (c :: r) = None.
Proof. intros. cbn [strip_prefix]. rewrite H. reflexivity. Qed.

Lemma has_prefix_app : forall p s, has_prefix p (p ++ s) = true.
Proof. intros. unfold has_prefix. rewrite strip_prefix_app. reflexivity. Qed.

(* ---- index_pred *)
Lemma index_pred_app_hit : forall p a c b,
  forallb (fun x => negb (p x)) a = true -> p c = true ->
  index_pred p (a ++ c :: b) = Some (length a).
Proof.
  induction a as [|x a IH]; intros c b Ha Hc.
  - cbn. rewrite Hc. reflexivity.
  - cbn [forallb] in Ha. apply andb_prop in Ha. destruct Ha as [Hx Ha].
    cbn [app index_pred length]. apply negb_true_iff in Hx. rewrite Hx.
    rewrite (IH c b Ha Hc). reflexivity.
Qed.

Lemma index_pred_none : forall p a,
  forallb (fun x => negb (p x)) a = true -> index_pred p a = None.
Proof.
  induction a as [|x a IH]; intros Ha; [reflexivity|].
  cbn [forallb] in Ha. apply andb_prop in Ha. destruct Ha as [Hx Ha].
  cbn [index_pred]. apply negb_true_iff in Hx. rewrite Hx. rewrite (IH Ha). reflexivity.
Qed.

Lemma index_pred_some_lt : forall p s i, index_pred p s = Some i -> (i < length s)%nat.
Proof.
  induction s as [|c r IH]; intros i H; [discriminate|].
  cbn [index_pred] in H. destruct (p c).
  - inversion H. cbn. lia.
  - destruct (index_pred p r) eqn:E; [|discriminate]. inversion H. subst.
    specialize (IH n eq_refl). cbn [length]. lia.
Qed.

(* ---- go_slice *)
Lemma go_slice_prefix : forall a b, go_slice (a ++ b) 0 (length a) = Ok a.
Proof.
  intros. unfold go_slice. rewrite app_length.
  replace (Nat.leb 0 (length a)) with true by (symmetry; apply Nat.leb_le; lia).
  replace (Nat.leb (length a) (length a + length b)) with true by (symmetry; apply Nat.leb_le; lia).
  cbn [andb skipn]. rewrite Nat.sub_0_r. rewrite firstn_app, Nat.sub_diag, firstn_all. cbn. rewrite app_nil_r. reflexivity.
Qed.

Lemma go_slice_suffix : forall a b, go_slice (a ++ b) (length a) (length (a ++ b)) = Ok b.
Proof.
  intros. unfold go_slice. rewrite app_length.
  replace (Nat.leb (length a) (length a + length b)) with true by (symmetry; apply Nat.leb_le; lia).
  rewrite Nat.leb_refl. cbn [andb].
  rewrite skipn_app, skipn_all, Nat.sub_diag. cbn [skipn app].
  replace (length a + length b - length a)%nat with (length b) by lia. rewrite firstn_all. reflexivity.
Qed.

Lemma go_slice_middle : forall a b c,
  go_slice (a ++ b ++ c) (length a) (length a + length b) = Ok b.
Proof.
  intros. unfold go_slice. rewrite !app_length.
  replace (Nat.leb (length a) (length a + length b)) with true by (symmetry; apply Nat.leb_le; lia).
  replace (Nat.leb (length a + length b) (length a + (length b + length c))) with true
    by (symmetry; apply Nat.leb_le; lia).
  cbn [andb]. rewrite skipn_app, skipn_all, Nat.sub_diag. cbn [skipn app].
  replace (length a + length b - length a)%nat with (length b) by lia.
  rewrite firstn_app, Nat.sub_diag, firstn_all. cbn. rewrite app_nil_r. reflexivity.
Qed.

Lemma go_slice_ok : forall s lo hi, (lo <= hi)%nat -> (hi <= length s)%nat ->
  exists r, go_slice s lo hi = Ok r.
Proof.
  intros s lo hi H1 H2. unfold go_slice.
  replace (Nat.leb lo hi) with true by (symmetry; apply Nat.leb_le; lia).
  replace (Nat.leb hi (length s)) with true by (symmetry; apply Nat.leb_le; lia).
  eexists. reflexivity.
Qed.

(* ---- trim_right / trim *)
Lemma trim_right_app_ws : forall s w, all_ws w = true -> trim_right (s ++ w) = trim_right s.
Proof.
  intros s w H. unfold trim_right. rewrite rev_app_distr.
  rewrite trim_left_ws_app; [reflexivity|].
  unfold all_ws in *. rewrite forallb_forall in *. intros x Hx. apply H. apply in_rev. exact Hx.
Qed.

Lemma trim_right_last_nonspace : forall s c, is_space c = false -> trim_right (s ++ [c]) = s ++ [c].
Proof.
  intros s c H. unfold trim_right. rewrite rev_app_distr. cbn [rev app].
  rewrite trim_left_nonspace by exact H. cbn [rev]. rewrite rev_involutive. reflexivity.
Qed.

Lemma trim_right_nil : trim_right [] = [].
Proof. reflexivity. Qed.

Lemma all_ws_rev : forall w, all_ws (rev w) = all_ws w.
Proof.
  intros w. unfold all_ws. apply eq_true_iff_eq. rewrite !forallb_forall.
  split; intros H x Hx; apply H; [apply -> in_rev | apply <- in_rev]; exact Hx.
Qed.

Lemma trim_right_all_ws : forall w, all_ws w = true -> trim_right w = [].
Proof.
  intros w H. unfold trim_right. rewrite trim_left_all_ws; [reflexivity|]. rewrite all_ws_rev. exact H.
Qed.

(* ---- split_on / join_with *)
Lemma split_on_nonempty : forall sep s, split_on sep s <> [].
Proof.
  intros sep s. destruct s as [|c r]; cbn [split_on]; [discriminate|].
  destruct (c =? sep); [discriminate|]. destruct (split_on sep r); discriminate.
Qed.

Lemma split_on_no_sep : forall sep s, forallb (fun c => negb (c =? sep)) s = true -> split_on sep s = [s].
Proof.
  induction s as [|c r IH]; intros H; [reflexivity|].
  cbn [forallb] in H. apply andb_prop in H. destruct H as [Hc Hr].
  cbn [split_on]. apply negb_true_iff in Hc. rewrite Hc. rewrite (IH Hr). reflexivity.
Qed.

Lemma split_on_app_sep : forall sep a b,
  forallb (fun c => negb (c =? sep)) a = true ->
  split_on sep (a ++ sep :: b) = a :: split_on sep b.
Proof.
  induction a as [|c r IH]; intros b H.
  - cbn [app split_on]. rewrite N.eqb_refl. reflexivity.
  - cbn [forallb] in H. apply andb_prop in H. destruct H as [Hc Hr].
    cbn [app split_on]. apply negb_true_iff in Hc. rewrite Hc. rewrite (IH b Hr). reflexivity.
Qed.

Lemma split_join : forall sep l, l <> [] ->
  Forall (fun x => forallb (fun c => negb (c =? sep)) x = true) l ->
  split_on sep (join_with sep l) = l.
Proof.
  induction l as [|x l IH]; intros Hne H; [congruence|].
  inversion H as [|? ? Hx Hl]; subst.
  destruct l as [|y l].
  - cbn [join_with]. apply split_on_no_sep. exact Hx.
  - cbn [join_with]. rewrite split_on_app_sep by exact Hx. f_equal.
    apply IH; [discriminate | exact Hl].
Qed.

(* ---- remove_ws *)
Lemma remove_ws_app : forall a b, remove_ws (a ++ b) = remove_ws a ++ remove_ws b.
Proof. intros. unfold remove_ws. apply filter_app. Qed.

Lemma remove_ws_all_ws : forall w, all_ws w = true -> remove_ws w = [].
Proof.
  induction w as [|c w IH]; intros H; [reflexivity|].
  cbn [all_ws forallb] in H. apply andb_prop in H. destruct H as [Hc Hw].
  cbn [remove_ws filter]. rewrite Hc. cbn [negb]. exact (IH Hw).
Qed.

Lemma remove_ws_no_ws : forall s, forallb (fun c => negb (is_space c)) s = true -> remove_ws s = s.
Proof.
  induction s as [|c r IH]; intros H; [reflexivity|].
  cbn [forallb] in H. apply andb_prop in H. destruct H as [Hc Hr].
  cbn [remove_ws filter]. rewrite Hc. f_equal. exact (IH Hr).
Qed.

(* ---- more about trimming *)
Lemma trim_right_app_keep : forall a c b, is_space c = false ->
  trim_right ((a ++ [c]) ++ b) = (a ++ [c]) ++ trim_right b.
Proof.
  intros a c b H. unfold trim_right. rewrite rev_app_distr.
  destruct (trim_left_split (rev b)) as [w [Hw E]].
  destruct (trim_left (rev b)) as [|d t] eqn:T.
  - rewrite app_nil_r in E. rewrite E. rewrite trim_left_ws_app by exact Hw.
    rewrite rev_app_distr. cbn [rev app]. rewrite trim_left_nonspace by exact H.
    change (c :: rev a) with (rev (a ++ [c]) ) || idtac.
    cbn [rev]. rewrite app_nil_r.
    replace (c :: rev a) with (rev (a ++ [c])) by (rewrite rev_app_distr; reflexivity).
    rewrite rev_involutive. reflexivity.
  - rewrite E at 1. rewrite <- app_assoc. rewrite trim_left_ws_app by exact Hw.
    pose proof (trim_left_head (rev b) d t T) as Hd.
    cbn [app]. rewrite trim_left_nonspace by exact Hd.
    change (d :: t ++ rev (a ++ [c])) with ((d :: t) ++ rev (a ++ [c])).
    rewrite rev_app_distr, rev_involutive. reflexivity.
Qed.

Lemma trim_right_idem : forall s, trim_right (trim_right s) = trim_right s.
Proof. intros s. unfold trim_right. rewrite rev_involutive, trim_left_idem. reflexivity. Qed.

(* trim_right splits off a white-space suffix *)
Lemma trim_right_split : forall s, exists w, all_ws w = true /\ s = trim_right s ++ w.
Proof.
  intros s. destruct (trim_left_split (rev s)) as [w [Hw E]].
  exists (rev w). split; [rewrite all_ws_rev; exact Hw|].
  unfold trim_right. rewrite <- rev_app_distr, <- E, rev_involutive. reflexivity.
Qed.

Lemma trim_right_last : forall s c r, rev (trim_right s) = c :: r -> is_space c = false.
Proof.
  intros s c r H. unfold trim_right in H. rewrite rev_involutive in H. exact (trim_left_head _ _ _ H).
Qed.

Lemma trim_ws_app_l : forall w s, all_ws w = true -> trim (w ++ s) = trim s.
Proof. intros. unfold trim. rewrite trim_left_ws_app by assumption. reflexivity. Qed.

Lemma trim_left_app_nonws : forall a b, trim_left a <> [] -> trim_left (a ++ b) = trim_left a ++ b.
Proof.
  induction a as [|c a IH]; intros b H; [cbn in H; congruence|].
  cbn [app trim_left] in *. destruct (is_space c); [exact (IH b H) | reflexivity].
Qed.

Lemma trim_ws_app_r : forall s w, all_ws w = true -> trim (s ++ w) = trim s.
Proof.
  intros s w H. unfold trim. destruct (trim_left s) as [|c t] eqn:E.
  - destruct (trim_left_split s) as [w0 [Hw0 E0]]. rewrite E, app_nil_r in E0. subst s.
    rewrite trim_left_all_ws by (rewrite all_ws_app, Hw0, H; reflexivity). reflexivity.
  - rewrite trim_left_app_nonws by (rewrite E; discriminate). rewrite E.
    apply trim_right_app_ws. exact H.
Qed.

Lemma trim_trim_right : forall s, trim (trim_right s) = trim s.
Proof.
  intros s. destruct (trim_right_split s) as [w [Hw E]]. rewrite E at 2.
  rewrite trim_ws_app_r by exact Hw. reflexivity.
Qed.

Lemma trim_trim_left : forall s, trim (trim_left s) = trim s.
Proof. intros s. unfold trim. rewrite trim_left_idem. reflexivity. Qed.

Lemma trim_all_ws : forall w, all_ws w = true -> trim w = [].
Proof. intros w H. unfold trim. rewrite trim_left_all_ws by exact H. reflexivity. Qed.

(* a string that starts and ends with a non-space byte is its own trim *)
Lemma trim_exact : forall w1 y w2 c r c' r',
  all_ws w1 = true -> all_ws w2 = true -> y = c :: r -> is_space c = false ->
  rev y = c' :: r' -> is_space c' = false -> trim (w1 ++ y ++ w2) = y.
Proof.
  intros w1 y w2 c r c' r' H1 H2 Ey Hc Er Hc'.
  rewrite trim_ws_app_l by exact H1. rewrite trim_ws_app_r by exact H2.
  unfold trim. rewrite Ey, trim_left_nonspace by exact Hc. rewrite <- Ey.
  unfold trim_right. rewrite Er, trim_left_nonspace by exact Hc'. rewrite <- Er. apply rev_involutive.
Qed.

Lemma trim_right_head : forall c t, is_space c = false -> exists t', trim_right (c :: t) = c :: t'.
Proof.
  intros c t H. unfold trim_right. cbn [rev].
  destruct (trim_left_split (rev t)) as [w [Hw E]].
  destruct (trim_left (rev t)) as [|d u] eqn:T.
  - rewrite app_nil_r in E. rewrite E. rewrite trim_left_ws_app by exact Hw.
    rewrite trim_left_nonspace by exact H. exists []. reflexivity.
  - rewrite trim_left_app_nonws by (rewrite T; discriminate). rewrite T.
    rewrite rev_app_distr. cbn [rev app]. eexists. reflexivity.
Qed.

Lemma remove_ws_trim_left : forall s, remove_ws (trim_left s) = remove_ws s.
Proof.
  intros s. destruct (trim_left_split s) as [w [Hw E]]. rewrite E at 2.
  rewrite remove_ws_app, (remove_ws_all_ws w Hw). reflexivity.
Qed.

Lemma remove_ws_trim_right : forall s, remove_ws (trim_right s) = remove_ws s.
Proof.
  intros s. destruct (trim_right_split s) as [w [Hw E]]. rewrite E at 2.
  rewrite remove_ws_app, (remove_ws_all_ws w Hw). rewrite app_nil_r. reflexivity.
Qed.

Lemma remove_ws_trim : forall s, remove_ws (trim s) = remove_ws s.
Proof. intros. unfold trim. rewrite remove_ws_trim_right, remove_ws_trim_left. reflexivity. Qed.

(* ---- index_pred / go_slice on appended strings *)
Lemma go_slice_full : forall s, go_slice s 0 (length s) = Ok s.
Proof. intros s. rewrite <- (app_nil_r s) at 1. rewrite go_slice_prefix. reflexivity. Qed.

Lemma go_slice_end : forall s, go_slice s (length s) (length s) = Ok [].
Proof. intros s. rewrite <- (app_nil_r s) at 1 3. rewrite go_slice_suffix. reflexivity. Qed.
