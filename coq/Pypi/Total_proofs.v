(* ParseDependency is total: the model, in which every Go index and slice expression is a
   panicking primitive, returns a value or an error on every byte string (C04 for this
   entry point).  The only non-trivial step is s[0] after TrimLeft(s[nameEnd:]): it is safe
   because the input was trimmed at both ends with the same white-space set, so the text
   after the name still ends in a byte that TrimLeft does not remove. *)
From Coq Require Import Lia.
From DepsDev Require Import Lib.Base Gen.PypiEnvTables Pypi.PyStr Pypi.PyStr_proofs Pypi.Dependency.

Local Open Scope N_scope.

Definition returns {A} (r : res A) : Prop :=
  match r with Panic _ => False | OutOfFuel => False | _ => True end.

Lemma returns_bind : forall {A B} (r : res A) (k : A -> res B),
  returns r -> (forall a, r = Ok a -> returns (k a)) -> returns (x <- r ;; k x).
Proof. intros A B r k H K. destruct r; cbn in *; auto. Qed.

Lemma go_slice_returns : forall s lo hi, (lo <= hi)%nat -> (hi <= length s)%nat ->
  exists r, go_slice s lo hi = Ok r /\ r = firstn (hi - lo) (skipn lo s).
Proof.
  intros s lo hi H1 H2. unfold go_slice.
  replace (Nat.leb lo hi) with true by (symmetry; apply Nat.leb_le; lia).
  replace (Nat.leb hi (length s)) with true by (symmetry; apply Nat.leb_le; lia).
  eexists. split; reflexivity.
Qed.

(* ---- the three splitting helpers *)
Lemma index_pred_some_pos : forall p c t i, p c = false -> index_pred p (c :: t) = Some i -> (1 <= i)%nat.
Proof.
  intros p c t i H E. cbn [index_pred] in E. rewrite H in E.
  destruct (index_pred p t); [|discriminate]. inversion E. lia.
Qed.

(* extras: total on every non-empty remainder (on the empty one s[0] panics: see
   extras_step_empty; parse_tail never hands it one) *)
Lemma extras_step_returns : forall s1, s1 <> [] -> returns (extras_step s1).
Proof.
  intros s1 H. destruct s1 as [|c t]; [congruence|]. unfold extras_step. cbn [idx bind].
  destruct (N.eqb_spec c 91) as [->|Hc]; [|exact I].
  destruct (index_byte 93 (91 :: t)) as [e|] eqn:E; [|exact I].
  unfold index_byte in E. pose proof (index_pred_some_lt _ _ _ E) as L.
  pose proof (index_pred_some_pos (N.eqb 93) 91 t e eq_refl E) as P.
  destruct (go_slice_returns (91 :: t) 1 e P ltac:(lia)) as [r1 [-> _]]. cbn [bind].
  destruct (go_slice_returns (91 :: t) (e + 1) (length (91 :: t)) ltac:(lia) ltac:(lia)) as [r2 [-> _]].
  exact I.
Qed.

Lemma extras_step_empty : extras_step [] = Panic PIndex.
Proof. reflexivity. Qed.

Lemma paren_length : forall c1, has_prefix [40] c1 && has_suffix [41] c1 = true -> (2 <= length c1)%nat.
Proof.
  intros c1 H. apply andb_prop in H. destruct H as [H1 H2].
  destruct c1 as [|a [|b t]]; [discriminate| |cbn; lia].
  exfalso. unfold has_prefix in H1. cbn [strip_prefix] in H1.
  destruct (N.eqb_spec 40 a); [subst|discriminate].
  unfold has_suffix, has_prefix in H2. cbn in H2. discriminate.
Qed.

(* constraint: total on every remainder *)
Lemma constraint_step_returns : forall s2, returns (constraint_step s2).
Proof.
  intros s2. unfold constraint_step. destruct s2 as [|c t]; [exact I|].
  destruct (negb (c =? 59)); [|exact I].
  set (s := c :: t).
  set (e := match index_byte 59 s with Some e => e | None => length s end).
  assert (L : (e <= length s)%nat).
  { unfold e. destruct (index_byte 59 s) eqn:E; [|lia]. unfold index_byte in E.
    apply index_pred_some_lt in E. lia. }
  destruct (go_slice_returns s 0 e ltac:(lia) L) as [pre [-> _]]. cbn [bind].
  apply returns_bind.
  - destruct (has_prefix [40] (trim pre) && has_suffix [41] (trim pre)) eqn:P; [|exact I].
    pose proof (paren_length _ P) as PL.
    destruct (go_slice_returns (trim pre) 1 (length (trim pre) - 1) ltac:(lia) ltac:(lia)) as [r [-> _]]. exact I.
  - intros c2 _. destruct (go_slice_returns s e (length s) L ltac:(lia)) as [post [-> _]]. exact I.
Qed.

(* environment: total *)
Lemma env_step_returns : forall n e c s3, returns (env_step n e c s3).
Proof. intros n e c s3. unfold env_step. destruct s3 as [|x r]; [exact I|]. destruct (negb (x =? 59)); exact I. Qed.

(* ---- the invariant that protects s[0] *)
Definition ends_nonspace (s : bytes) : Prop := exists c r, rev s = c :: r /\ is_space c = false.

Lemma trim_ends_nonspace : forall v, trim v <> [] -> ends_nonspace (trim v).
Proof.
  intros v H. unfold trim in *. set (u := trim_left v) in *.
  destruct (rev (trim_right u)) as [|c r] eqn:E.
  - exfalso. apply H. rewrite <- (rev_involutive (trim_right u)), E. reflexivity.
  - exists c, r. split; [exact E | exact (trim_right_last u c r E)].
Qed.

Lemma skipn_ends_nonspace : forall s n, (n < length s)%nat -> ends_nonspace s -> ends_nonspace (skipn n s).
Proof.
  intros s n L [c [r [E H]]]. exists c.
  rewrite <- (firstn_skipn n s) in E. rewrite rev_app_distr in E.
  destruct (rev (skipn n s)) as [|d u] eqn:R.
  - exfalso. assert (length (skipn n s) = 0%nat) by (rewrite <- rev_length, R; reflexivity).
    rewrite skipn_length in H0. lia.
  - cbn [app] in E. inversion E. subst. exists u. split; [reflexivity | exact H].
Qed.

Lemma trim_left_nonempty : forall s, ends_nonspace s -> trim_left s <> [].
Proof.
  intros s [c [r [E H]]] T. destruct (trim_left_split s) as [w [Hw Es]]. rewrite T, app_nil_r in Es. subst s.
  pose proof (all_ws_rev w) as A. rewrite Hw, E in A. cbn [all_ws forallb] in A. rewrite H in A. discriminate.
Qed.

Lemma parse_tail_returns : forall name rest, ends_nonspace rest -> returns (parse_tail name rest).
Proof.
  intros name rest H. unfold parse_tail. apply returns_bind.
  - apply extras_step_returns. apply trim_left_nonempty. exact H.
  - intros es _. apply returns_bind; [apply constraint_step_returns|].
    intros cs _. apply env_step_returns.
Qed.

(* ---- the entry point *)
Theorem parse_dependency_total : forall s, returns (parse_dependency s).
Proof.
  intros v. unfold parse_dependency. destruct (is_nil v); [exact I|].
  destruct (index_any dep_name_delims (trim v)) as [[|n]|] eqn:E; try exact I.
  unfold index_any in E. pose proof (index_pred_some_lt _ _ _ E) as L.
  destruct (go_slice_returns (trim v) 0 (S n) ltac:(lia) ltac:(lia)) as [nm [-> _]]. cbn [bind].
  destruct (go_slice_returns (trim v) (S n) (length (trim v)) ltac:(lia) ltac:(lia)) as [rest [-> R]]. cbn [bind].
  apply parse_tail_returns. subst rest.
  rewrite firstn_all2 by (rewrite skipn_length; lia).
  apply skipn_ends_nonspace; [exact L|]. apply trim_ends_nonspace.
  intros T. rewrite T in L. cbn in L. lia.
Qed.

(* without the invariant the step does panic: the remainder after the name, trimmed with a
   wider set than the outer Trim used, can be empty (the shape of seeded change C04-e) *)
Example parse_tail_needs_invariant : parse_tail [] [32; 10] <> Panic PIndex /\ parse_tail [] [32] = Panic PIndex.
Proof. split; [vm_compute; discriminate | reflexivity]. Qed.
