(* Byte-string helpers used by the PEP 508 models (strings.Trim, IndexAny, IndexByte,
   HasPrefix, Split, slicing). Definitions only; lemmas are in PyStr_proofs.v. *)
From DepsDev Require Import Lib.Base.

Definition is_nil {A} (l : list A) : bool := match l with [] => true | _ => false end.

Definition mem_byte (c : N) (l : bytes) : bool := existsb (N.eqb c) l.

(* PEP 508 white space: space and tab. *)
Definition is_space (c : N) : bool := (c =? 32) || (c =? 9).

(* strings.TrimLeft(s, " \t"); also envParser.skipWsp *)
Fixpoint trim_left (s : bytes) : bytes :=
  match s with
  | c :: r => if is_space c then trim_left r else s
  | [] => []
  end.
Definition trim_right (s : bytes) : bytes := rev (trim_left (rev s)).
Definition trim (s : bytes) : bytes := trim_right (trim_left s).

(* strings.HasPrefix / strip it *)
Fixpoint strip_prefix (p s : bytes) : option bytes :=
  match p, s with
  | [], _ => Some s
  | a :: p', b :: s' => if a =? b then strip_prefix p' s' else None
  | _ :: _, [] => None
  end.
Definition has_prefix (p s : bytes) : bool :=
  match strip_prefix p s with Some _ => true | None => false end.
Definition has_suffix (p s : bytes) : bool := has_prefix (rev p) (rev s).

(* index of the first byte satisfying p (strings.IndexAny / IndexByte) *)
Fixpoint index_pred (p : N -> bool) (s : bytes) : option nat :=
  match s with
  | [] => None
  | c :: r => if p c then Some O else
              match index_pred p r with Some i => Some (S i) | None => None end
  end.
Definition index_any (chars : bytes) (s : bytes) : option nat := index_pred (fun c => mem_byte c chars) s.
Definition index_byte (b : N) (s : bytes) : option nat := index_pred (N.eqb b) s.

(* s[lo:hi] with Go's run-time check *)
Definition go_slice (s : bytes) (lo hi : nat) : res bytes :=
  if (Nat.leb lo hi && Nat.leb hi (length s))%bool
  then Ok (firstn (hi - lo) (skipn lo s))
  else Panic PSlice.

(* strings.Split(s, sep) for a one-byte separator: never empty *)
Fixpoint split_on (sep : N) (s : bytes) : list bytes :=
  match s with
  | [] => [[]]
  | c :: r =>
      if c =? sep then [] :: split_on sep r
      else match split_on sep r with
           | x :: xs => (c :: x) :: xs
           | [] => [[c]]
           end
  end.

(* strings.Join for a one-byte separator *)
Fixpoint join_with (sep : N) (l : list bytes) : bytes :=
  match l with
  | [] => []
  | [x] => x
  | x :: xs => x ++ sep :: join_with sep xs
  end.

(* strings.Contains *)
Fixpoint contains (sub s : bytes) : bool :=
  has_prefix sub s || match s with [] => false | _ :: r => contains sub r end.

Definition remove_ws (s : bytes) : bytes := filter (fun c => negb (is_space c)) s.
