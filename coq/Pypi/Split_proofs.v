(* The requirement splitter reads back every printed requirement tree (C16_split). *)
From Coq Require Import Lia.
From DepsDev Require Import Lib.Base Gen.PypiEnvTables Pypi.PyStr Pypi.PyStr_proofs Pypi.Dependency
  Pypi.Dependency_proofs Spec.Pep508Spec.

Local Open Scope N_scope.

(* ------------------------------------------------------------------ the steps on shaped input *)
Definition strip_parens (c1 : bytes) : res bytes :=
  if has_prefix [40] c1 && has_suffix [41] c1 then go_slice c1 1 (length c1 - 1) else Ok c1.

(* b does not occur in s (in the orientation index_byte tests it) *)
Definition no_byte (b : N) (s : bytes) : bool := forallb (fun c => negb (b =? c)) s.

Lemma no_byte_app : forall b x y, no_byte b (x ++ y) = no_byte b x && no_byte b y.
Proof. intros. unfold no_byte. apply forallb_app. Qed.

Lemma index_byte_hit : forall b a r, no_byte b a = true -> index_byte b (a ++ b :: r) = Some (length a).
Proof. intros b a r H. unfold index_byte. apply index_pred_app_hit; [exact H | apply N.eqb_refl]. Qed.

Lemma index_byte_none : forall b a, no_byte b a = true -> index_byte b a = None.
Proof. intros b a H. unfold index_byte. apply index_pred_none. exact H. Qed.

Lemma constraint_step_break : forall P Q, no_byte 59 P = true -> (Q = [] \/ exists r, Q = 59 :: r) ->
  constraint_step (P ++ Q) = (c2 <- strip_parens (trim P) ;; Ok (c2, Q)).
Proof.
  intros P Q HP HQ. destruct P as [|c t].
  - cbn [app]. destruct HQ as [->|[r ->]]; reflexivity.
  - assert (Hc : (c =? 59) = false).
    { cbn [no_byte forallb] in HP. apply andb_prop in HP. destruct HP as [H _].
      apply negb_true_iff in H. rewrite N.eqb_sym. exact H. }
    unfold constraint_step. cbn [app]. rewrite Hc. cbn [negb].
    change (c :: t ++ Q) with ((c :: t) ++ Q).
    destruct HQ as [->|[r ->]].
    + rewrite app_nil_r. rewrite (index_byte_none 59 (c :: t) HP).
      rewrite go_slice_full. cbn [bind]. fold (strip_parens (trim (c :: t))).
      destruct (strip_parens (trim (c :: t))); cbn [bind]; try reflexivity.
      rewrite go_slice_end. reflexivity.
    + rewrite (index_byte_hit 59 (c :: t) r HP).
      rewrite go_slice_prefix. cbn [bind]. fold (strip_parens (trim (c :: t))).
      destruct (strip_parens (trim (c :: t))); cbn [bind]; try reflexivity.
      rewrite go_slice_suffix. reflexivity.
Qed.

Lemma extras_step_bracket : forall I R, no_byte 93 I = true ->
  extras_step ([91] ++ I ++ [93] ++ R) = Ok (trim I, R).
Proof.
  intros I R H. unfold extras_step. cbn [app idx bind N.eqb Pos.eqb].
  change (91 :: I ++ 93 :: R) with ((91 :: I) ++ 93 :: R).
  assert (H' : no_byte 93 (91 :: I) = true) by (cbn [no_byte forallb]; exact H).
  rewrite (index_byte_hit 93 (91 :: I) R H').
  pose proof (go_slice_middle [91] I (93 :: R)) as G. cbn [length app Nat.add] in G |- *.
  rewrite G. cbn [bind].
  pose proof (go_slice_suffix ([91] ++ I ++ [93]) R) as G2.
  rewrite <- !app_assoc in G2. cbn [app] in G2.
  replace (length (91 :: I ++ [93])) with (S (length I) + 1)%nat in G2 by (cbn [length]; rewrite app_length; cbn; lia).
  cbn [length Nat.add] in G2. rewrite G2. reflexivity.
Qed.

Lemma extras_step_other : forall c t, (c =? 91) = false -> extras_step (c :: t) = Ok ([], c :: t).
Proof. intros c t H. unfold extras_step. cbn [idx bind]. rewrite H. reflexivity. Qed.

(* constraint and marker from the text after the extras, when that text is P ++ Q with P free of
   semicolons and Q empty or the marker part *)
Lemma after_extras : forall name ex P Q, no_byte 59 P = true -> (Q = [] \/ exists r, Q = 59 :: r) ->
  (cs <- constraint_step (P ++ Q) ;; env_step name ex (fst cs) (snd cs)) =
  (c2 <- strip_parens (trim P) ;;
   Ok (mkdep name ex c2 (match Q with [] => [] | _ :: r => trim r end))).
Proof.
  intros name ex P Q HP HQ. rewrite (constraint_step_break P Q HP HQ).
  destruct (strip_parens (trim P)); cbn [bind fst snd]; try reflexivity.
  destruct HQ as [->|[r ->]]; reflexivity.
Qed.

Lemma trim_left_app_split : forall A Q,
  (Q = [] \/ exists c r, Q = c :: r /\ is_space c = false) ->
  exists P', trim_left (A ++ Q) = P' ++ Q /\ trim P' = trim A /\
             (forall b, no_byte b A = true -> no_byte b P' = true).
Proof.
  intros A Q HQ. destruct (trim_left_split A) as [w [Hw E]].
  destruct (trim_left A) as [|d u] eqn:T.
  - exists []. rewrite app_nil_r in E. subst A. split; [|split].
    + rewrite (trim_left_ws_app w Q Hw). destruct HQ as [->|[c [r [-> Hc]]]]; [reflexivity|].
      apply trim_left_nonspace. exact Hc.
    + rewrite (trim_all_ws w Hw). reflexivity.
    + intros b _. reflexivity.
  - exists (d :: u). split; [|split].
    + rewrite trim_left_app_nonws by (rewrite T; discriminate). rewrite T. reflexivity.
    + rewrite <- T. apply trim_trim_left.
    + intros b Hb. rewrite E, no_byte_app in Hb. apply andb_prop in Hb. exact (proj2 Hb).
Qed.

(* ------------------------------------------------------------------ characters of the printed parts *)
Lemma ws_bytes_all_ws : forall w, all_ws (ws_bytes w) = true.
Proof. induction w as [|b w IH]; [reflexivity|]. cbn. destruct b; exact IH. Qed.

Lemma forallb_join : forall (p : N -> bool) sep l, p sep = true ->
  Forall (fun x => forallb p x = true) l -> forallb p (join_with sep l) = true.
Proof.
  intros p sep l Hs H. induction H as [|x l Hx Hl IH]; [reflexivity|].
  destruct l as [|y l]; [exact Hx|].
  change (join_with sep (x :: y :: l)) with (x ++ sep :: join_with sep (y :: l)).
  rewrite forallb_app. cbn [forallb]. rewrite Hx, Hs, IH. reflexivity.
Qed.

Lemma forallb_weaken : forall (p q : N -> bool) s, (forall c, p c = true -> q c = true) ->
  forallb p s = true -> forallb q s = true.
Proof.
  intros p q s H. induction s as [|c s IH]; [reflexivity|]. cbn [forallb]. intros E.
  apply andb_prop in E. destruct E as [E1 E2]. rewrite (H c E1), (IH E2). reflexivity.
Qed.

Ltac to_prop H :=
  repeat first [ rewrite orb_true_iff in H | rewrite andb_true_iff in H | rewrite N.leb_le in H
               | rewrite N.eqb_eq in H ].
Ltac goal_neq :=
  repeat first [ rewrite orb_false_iff | rewrite N.eqb_neq ]; repeat split; lia.

Lemma name_char_plain : forall c, is_name_char c = true ->
  mem_byte c dep_name_delims = false /\ is_space c = false /\ (59 =? c) = false /\ (93 =? c) = false /\ (44 =? c) = false.
Proof.
  intros c H. unfold is_name_char, is_alnum, is_name_sep in H. to_prop H.
  unfold mem_byte, dep_name_delims, is_space. cbn [existsb].
  repeat split; goal_neq.
Qed.

Lemma version_char_plain : forall c, is_version_char c = true ->
  is_space c = false /\ (59 =? c) = false /\ (44 =? c) = false.
Proof.
  intros c H. unfold is_version_char, is_alnum in H. to_prop H. unfold is_space. repeat split; goal_neq.
Qed.

Lemma space_plain : forall c, is_space c = true -> (59 =? c) = false /\ (93 =? c) = false /\ (44 =? c) = false.
Proof. intros c H. unfold is_space in H. to_prop H. repeat split; goal_neq. Qed.

Lemma vop_text_chars : forall o,
  forallb (fun c => negb (is_space c) && negb (59 =? c) && negb (44 =? c)) (vop_text o) = true /\
  exists c t, vop_text o = c :: t /\ mem_byte c dep_name_delims = true /\ is_space c = false /\
              (c =? 91) = false /\ (40 =? c) = false.
Proof. destruct o; (split; [reflexivity|]); eexists; eexists; repeat split; reflexivity. Qed.

(* ------------------------------------------------------------------ names *)
Lemma alnum_name_char : forall c, is_alnum c = true -> is_name_char c = true.
Proof. intros c H. unfold is_name_char. rewrite H. reflexivity. Qed.

Lemma valid_name_facts : forall n, valid_name n = true ->
  forallb (fun x => negb (mem_byte x dep_name_delims)) n = true /\
  (exists c t, n = c :: t /\ is_space c = false) /\
  (exists c t, rev n = c :: t /\ is_space c = false) /\
  forallb (fun c => negb (is_space c)) n = true /\ no_byte 44 n = true /\ no_byte 93 n = true /\ n <> [].
Proof.
  intros n H. unfold valid_name in H. apply andb_prop in H. destruct H as [H H3].
  apply andb_prop in H. destruct H as [H1 H2].
  assert (A : forall (q : N -> bool), (forall c, is_name_char c = true -> q c = true) -> forallb q n = true).
  { intros q Hq. exact (forallb_weaken _ _ _ Hq H1). }
  split; [apply A; intros c Hc; destruct (name_char_plain c Hc) as [E _]; rewrite E; reflexivity|].
  split.
  { destruct n as [|c t]; [discriminate|]. exists c, t. split; [reflexivity|].
    exact (proj1 (proj2 (name_char_plain c (alnum_name_char c H2)))). }
  split.
  { destruct (rev n) as [|c t]; [discriminate|]. exists c, t. split; [reflexivity|].
    exact (proj1 (proj2 (name_char_plain c (alnum_name_char c H3)))). }
  split; [apply A; intros c Hc; destruct (name_char_plain c Hc) as [_ [E _]]; rewrite E; reflexivity|].
  split; [apply A; intros c Hc; destruct (name_char_plain c Hc) as [_ [_ [_ [_ E]]]]; rewrite E; reflexivity|].
  split; [apply A; intros c Hc; destruct (name_char_plain c Hc) as [_ [_ [_ [E _]]]]; rewrite E; reflexivity|].
  destruct n; [discriminate | discriminate].
Qed.

(* ------------------------------------------------------------------ lists joined by commas *)
Lemma remove_ws_join : forall (A : Type) (pr tx : A -> bytes) (l : list A),
  (forall x, In x l -> remove_ws (pr x) = tx x) ->
  remove_ws (join_with 44 (map pr l)) = join_with 44 (map tx l).
Proof.
  intros A pr tx l H. induction l as [|x l IH]; [reflexivity|].
  destruct l as [|y l].
  - cbn [map join_with]. apply H. left. reflexivity.
  - change (join_with 44 (map pr (x :: y :: l))) with (pr x ++ 44 :: join_with 44 (map pr (y :: l))).
    change (join_with 44 (map tx (x :: y :: l))) with (tx x ++ 44 :: join_with 44 (map tx (y :: l))).
    rewrite remove_ws_app. change (44 :: join_with 44 (map pr (y :: l))) with ([44] ++ join_with 44 (map pr (y :: l))).
    rewrite remove_ws_app. rewrite (H x (or_introl eq_refl)). rewrite IH by (intros z Hz; apply H; right; exact Hz).
    reflexivity.
Qed.

Lemma filter_nonempty_id : forall l : list bytes, Forall (fun x => x <> []) l -> filter nonempty l = l.
Proof.
  intros l H. induction H as [|y l Hy _ IH]; [reflexivity|]. cbn [filter]. unfold nonempty at 1.
  destruct y; [congruence|]. cbn [is_nil negb]. f_equal. exact IH.
Qed.

Definition item_ok (x : bytes) : Prop :=
  x <> [] /\ no_byte 44 x = true /\ forallb (fun c => negb (is_space c)) x = true.

Lemma obs_raw_join : forall l, Forall item_ok l -> filter nonempty (split_on 44 (join_with 44 l)) = l.
Proof.
  intros l H. destruct l as [|x l]; [reflexivity|].
  rewrite split_join.
  - apply filter_nonempty_id. eapply Forall_impl; [|exact H]. intros y [Y _]. exact Y.
  - discriminate.
  - eapply Forall_impl; [|exact H]. intros y [_ [Y _]]. unfold no_byte in Y.
    eapply forallb_weaken; [|exact Y]. intros c Hc. cbn beta in Hc. rewrite N.eqb_sym. exact Hc.
Qed.

Lemma obs_list_join : forall l, Forall item_ok l -> obs_list (join_with 44 l) = l.
Proof.
  intros l H. unfold obs_list.
  assert (NW : remove_ws (join_with 44 l) = join_with 44 l).
  { apply remove_ws_no_ws. apply forallb_join; [reflexivity|].
    eapply Forall_impl; [|exact H]. intros x [_ [_ X]]. exact X. }
  rewrite NW. apply obs_raw_join. exact H.
Qed.

Lemma obs_list_trim : forall s, obs_list (trim s) = obs_list s.
Proof. intros. unfold obs_list. rewrite remove_ws_trim. reflexivity. Qed.

(* ------------------------------------------------------------------ the specifier part *)
Lemma clause_facts : forall c, valid_version_text (c_ver c) = true ->
  remove_ws (print_clause c) = clause_text c /\
  clause_text c <> [] /\ no_byte 44 (clause_text c) = true /\
  forallb (fun x => negb (is_space x)) (clause_text c) = true /\
  no_byte 59 (print_clause c) = true.
Proof.
  intros c H. unfold valid_version_text in H. apply andb_prop in H. destruct H as [Hn Hv].
  destruct (vop_text_chars (c_op c)) as [OC [ch [t [OE _]]]].
  assert (V1 : forallb (fun x => negb (is_space x)) (c_ver c) = true).
  { eapply forallb_weaken; [|exact Hv]. intros x Hx. destruct (version_char_plain x Hx) as [E _]. rewrite E. reflexivity. }
  assert (V2 : no_byte 44 (c_ver c) = true).
  { eapply forallb_weaken; [|exact Hv]. intros x Hx. destruct (version_char_plain x Hx) as [_ [_ E]]. rewrite E. reflexivity. }
  assert (V3 : no_byte 59 (c_ver c) = true).
  { eapply forallb_weaken; [|exact Hv]. intros x Hx. destruct (version_char_plain x Hx) as [_ [E _]]. rewrite E. reflexivity. }
  assert (O1 : forallb (fun x => negb (is_space x)) (vop_text (c_op c)) = true).
  { eapply forallb_weaken; [|exact OC]. intros x Hx. apply andb_prop in Hx. destruct Hx as [Hx _].
    apply andb_prop in Hx. exact (proj1 Hx). }
  assert (O2 : no_byte 44 (vop_text (c_op c)) = true).
  { eapply forallb_weaken; [|exact OC]. intros x Hx. apply andb_prop in Hx. exact (proj2 Hx). }
  assert (O3 : no_byte 59 (vop_text (c_op c)) = true).
  { eapply forallb_weaken; [|exact OC]. intros x Hx. apply andb_prop in Hx. destruct Hx as [Hx _].
    apply andb_prop in Hx. exact (proj2 Hx). }
  assert (W59 : forall w, no_byte 59 (ws_bytes w) = true).
  { intros w. eapply forallb_weaken; [|exact (ws_bytes_all_ws w)]. intros x Hx.
    destruct (space_plain x Hx) as [E _]. rewrite E. reflexivity. }
  unfold print_clause, clause_text. repeat split.
  - rewrite !remove_ws_app.
    rewrite (remove_ws_all_ws _ (ws_bytes_all_ws (c_w1 c))), (remove_ws_all_ws _ (ws_bytes_all_ws (c_w2 c))),
      (remove_ws_all_ws _ (ws_bytes_all_ws (c_w3 c))).
    rewrite (remove_ws_no_ws _ O1), (remove_ws_no_ws _ V1). cbn [app]. rewrite app_nil_r. reflexivity.
  - rewrite OE. discriminate.
  - rewrite no_byte_app, O2, V2. reflexivity.
  - rewrite forallb_app, O1, V1. reflexivity.
  - rewrite !no_byte_app, !W59, O3, V3. reflexivity.
Qed.

Definition clauses_ok (cls : list clause) : Prop := Forall (fun c => valid_version_text (c_ver c) = true) cls.

Lemma join_clauses_facts : forall cls, clauses_ok cls ->
  obs_list (join_with 44 (map print_clause cls)) = map clause_text cls /\
  no_byte 59 (join_with 44 (map print_clause cls)) = true.
Proof.
  intros cls H. split.
  - unfold obs_list. rewrite (remove_ws_join clause print_clause clause_text cls).
    + apply obs_raw_join.
      apply Forall_forall. intros x Hx. apply in_map_iff in Hx. destruct Hx as [c [<- Hc]].
      pose proof (proj1 (Forall_forall _ _) H c Hc) as V. destruct (clause_facts c V) as [_ [A [B [C _]]]].
      repeat split; assumption.
    + intros c Hc. pose proof (proj1 (Forall_forall _ _) H c Hc) as V. exact (proj1 (clause_facts c V)).
  - apply forallb_join; [reflexivity|]. apply Forall_forall. intros x Hx. apply in_map_iff in Hx.
    destruct Hx as [c [<- Hc]]. pose proof (proj1 (Forall_forall _ _) H c Hc) as V.
    exact (proj2 (proj2 (proj2 (proj2 (clause_facts c V))))).
Qed.

(* the first byte after the white space of a bare list is an operator character *)
Lemma join_clauses_head : forall c cs, exists ch t,
  trim_left (join_with 44 (map print_clause (c :: cs))) = ch :: t /\
  is_space ch = false /\ (40 =? ch) = false /\ (ch =? 91) = false /\ mem_byte ch dep_name_delims = true.
Proof.
  intros c cs. destruct (vop_text_chars (c_op c)) as [_ [ch [t [OE [D [S [B P]]]]]]].
  assert (E : exists rest, join_with 44 (map print_clause (c :: cs)) = ws_bytes (c_w1 c) ++ ch :: rest).
  { destruct cs as [|c2 cs].
    - cbn [map join_with]. unfold print_clause. rewrite OE. cbn [app]. eexists. reflexivity.
    - change (join_with 44 (map print_clause (c :: c2 :: cs)))
        with (print_clause c ++ 44 :: join_with 44 (map print_clause (c2 :: cs))).
      unfold print_clause at 1. rewrite OE. rewrite <- !app_assoc. cbn [app]. eexists. reflexivity. }
  destruct E as [rest E]. rewrite E. rewrite trim_left_ws_app by apply ws_bytes_all_ws.
  rewrite trim_left_nonspace by exact S. exists ch, rest. repeat split; assumption.
Qed.

Lemma strip_parens_spec : forall sp, clauses_ok (spec_clauses sp) ->
  exists C, strip_parens (trim (print_spec sp)) = Ok C /\ obs_clauses C = map clause_text (spec_clauses sp).
Proof.
  intros sp H. destruct sp as [|c cs|c cs]; cbn [print_spec spec_clauses] in *.
  - exists []. split; reflexivity.
  - destruct (join_clauses_head c cs) as [ch [t [E [S [P _]]]]].
    set (J := join_with 44 (map print_clause (c :: cs))) in *.
    exists (trim J). split.
    + unfold strip_parens. unfold trim at 1. rewrite E.
      destruct (trim_right_head ch t S) as [t' E']. rewrite E'.
      unfold has_prefix. rewrite (strip_prefix_head_ne 40 [] ch t' P). reflexivity.
    + unfold obs_clauses. rewrite obs_list_trim. exact (proj1 (join_clauses_facts _ H)).
  - set (J := join_with 44 (map print_clause (c :: cs))) in *.
    exists J. split.
    + assert (T : trim ([40] ++ J ++ [41]) = [40] ++ J ++ [41]).
      { pose proof (trim_exact [] ([40] ++ J ++ [41]) [] 40 (J ++ [41]) 41 (rev J ++ [40]) eq_refl eq_refl) as X.
        cbn [app] in X. rewrite app_nil_r in X. apply X; try reflexivity.
        change (40 :: J ++ [41]) with ([40] ++ J ++ [41]). rewrite !rev_app_distr. reflexivity. }
      rewrite T. unfold strip_parens.
      assert (P1 : has_prefix [40] ([40] ++ J ++ [41]) = true) by apply has_prefix_app.
      assert (P2 : has_suffix [41] ([40] ++ J ++ [41]) = true).
      { unfold has_suffix. rewrite !rev_app_distr. cbn [rev app]. reflexivity. }
      rewrite P1, P2. cbn [andb].
      pose proof (go_slice_middle [40] J [41]) as G. cbn [length Nat.add] in G.
      replace (length ([40%N] ++ J ++ [41%N]) - 1)%nat with (S (length J)).
      * exact G.
      * rewrite !app_length. cbn [length]. lia.
    + exact (proj1 (join_clauses_facts _ H)).
Qed.

(* ------------------------------------------------------------------ the extras part *)
Definition extras_ok (items : list extra_item) : Prop := Forall (fun e => valid_name (e_name e) = true) items.

Lemma ws_no_byte : forall b w, is_space b = false -> no_byte b (ws_bytes w) = true.
Proof.
  intros b w H. induction w as [|x w IH]; [reflexivity|].
  cbn [ws_bytes map no_byte forallb]. fold (ws_bytes w). fold (no_byte b (ws_bytes w)). rewrite IH.
  destruct x; destruct (N.eqb_spec b 9); destruct (N.eqb_spec b 32); subst; try discriminate; reflexivity.
Qed.

Lemma extras_inner_facts : forall w items, extras_ok items ->
  let inner := ws_bytes w ++ join_with 44 (map print_extra items) in
  no_byte 93 inner = true /\ obs_extras (trim inner) = map e_name items.
Proof.
  intros w items H inner. split.
  - unfold inner. rewrite no_byte_app, (ws_no_byte 93 w eq_refl). cbn [andb].
    apply forallb_join; [reflexivity|]. apply Forall_forall. intros x Hx. apply in_map_iff in Hx.
    destruct Hx as [e [<- He]]. pose proof (proj1 (Forall_forall _ _) H e He) as V.
    destruct (valid_name_facts _ V) as [_ [_ [_ [_ [_ [N93 _]]]]]].
    unfold print_extra. fold (no_byte 93 (ws_bytes (e_w1 e) ++ e_name e ++ ws_bytes (e_w2 e))).
    rewrite !no_byte_app, !(ws_no_byte 93) by reflexivity. rewrite N93. reflexivity.
  - unfold obs_extras. rewrite obs_list_trim. unfold obs_list, inner.
    rewrite remove_ws_app, (remove_ws_all_ws _ (ws_bytes_all_ws w)). cbn [app].
    rewrite (remove_ws_join extra_item print_extra e_name items).
    + apply obs_raw_join. apply Forall_forall. intros x Hx. apply in_map_iff in Hx.
      destruct Hx as [e [<- He]]. pose proof (proj1 (Forall_forall _ _) H e He) as V.
      destruct (valid_name_facts _ V) as [_ [_ [_ [NS [N44 [_ NE]]]]]]. repeat split; assumption.
    + intros e He. pose proof (proj1 (Forall_forall _ _) H e He) as V.
      destruct (valid_name_facts _ V) as [_ [_ [_ [NS _]]]].
      unfold print_extra. rewrite !remove_ws_app.
      rewrite (remove_ws_all_ws _ (ws_bytes_all_ws (e_w1 e))), (remove_ws_all_ws _ (ws_bytes_all_ws (e_w2 e))).
      rewrite (remove_ws_no_ws _ NS). cbn [app]. apply app_nil_r.
Qed.

(* ------------------------------------------------------------------ what follows the extras *)
Definition marker_q (mk : option (mtree * wsp)) (Q : bytes) : Prop :=
  match mk with
  | None => Q = []
  | Some (m, wt) => exists M', Q = 59 :: M' /\ trim M' = trim (print_marker m wt)
  end.

Lemma marker_q_shape : forall mk Q, marker_q mk Q -> Q = [] \/ exists r, Q = 59 :: r.
Proof. intros [[m wt]|] Q H; [right; destruct H as [M' [E _]]; exists M'; exact E | left; exact H]. Qed.

Lemma marker_q_env : forall mk Q, marker_q mk Q ->
  match Q with [] => [] | _ :: r => trim r end =
  match mk with None => [] | Some (m, wt) => trim (print_marker m wt) end.
Proof. intros [[m wt]|] Q H; [destruct H as [M' [-> E]]; exact E | rewrite H; reflexivity]. Qed.

(* the two forms in which the text after the extras reaches constraint_step *)
Lemma decomp : forall A mk, no_byte 59 A = true ->
  let X := A ++ print_req_marker mk in
  (exists P Q, trim_right X = P ++ Q /\ no_byte 59 P = true /\ trim P = trim A /\ marker_q mk Q) /\
  (exists P Q, trim_left (trim_right X) = P ++ Q /\ no_byte 59 P = true /\ trim P = trim A /\ marker_q mk Q).
Proof.
  intros A mk HA X. unfold X. destruct mk as [[m wt]|]; cbn [print_req_marker].
  - assert (E : trim_right (A ++ [59] ++ print_marker m wt) = A ++ 59 :: trim_right (print_marker m wt)).
    { rewrite app_assoc. rewrite (trim_right_app_keep A 59 (print_marker m wt) eq_refl).
      rewrite <- app_assoc. reflexivity. }
    rewrite E.
    assert (MQ : marker_q (Some (m, wt)) (59 :: trim_right (print_marker m wt))).
    { cbn. eexists. split; [reflexivity | apply trim_trim_right]. }
    split.
    + exists A, (59 :: trim_right (print_marker m wt)). repeat split; try assumption; reflexivity.
    + destruct (trim_left_app_split A (59 :: trim_right (print_marker m wt))) as [P' [E1 [E2 E3]]].
      { right. eexists. eexists. split; reflexivity. }
      exists P', (59 :: trim_right (print_marker m wt)). repeat split; try assumption. apply E3. exact HA.
  - rewrite app_nil_r. destruct (trim_right_split A) as [w [Hw E]].
    assert (N1 : no_byte 59 (trim_right A) = true).
    { rewrite E, no_byte_app in HA. apply andb_prop in HA. exact (proj1 HA). }
    split.
    + exists (trim_right A), []. rewrite app_nil_r. repeat split; try assumption; try reflexivity. apply trim_trim_right.
    + exists (trim_left (trim_right A)), []. rewrite app_nil_r. repeat split; try reflexivity.
      * destruct (trim_left_split (trim_right A)) as [w' [_ E']]. rewrite E', no_byte_app in N1.
        apply andb_prop in N1. exact (proj2 N1).
      * rewrite trim_trim_left. apply trim_trim_right.
Qed.

Lemma rest_result : forall name ex sp mk s2 P Q,
  clauses_ok (spec_clauses sp) ->
  s2 = P ++ Q -> no_byte 59 P = true -> trim P = trim (print_spec sp) -> marker_q mk Q ->
  exists C,
    (cs <- constraint_step s2 ;; env_step name ex (fst cs) (snd cs)) =
      Ok (mkdep name ex C (match mk with None => [] | Some (m, wt) => trim (print_marker m wt) end)) /\
    obs_clauses C = map clause_text (spec_clauses sp).
Proof.
  intros name ex sp mk s2 P Q Hc -> HP HT HQ.
  destruct (strip_parens_spec sp Hc) as [C [E1 E2]]. exists C. split; [|exact E2].
  rewrite (after_extras name ex P Q HP (marker_q_shape mk Q HQ)).
  rewrite HT, E1. cbn [bind]. f_equal. f_equal. exact (marker_q_env mk Q HQ).
Qed.

(* ------------------------------------------------------------------ heads *)
Definition head_delim (s : bytes) : Prop :=
  match s with c :: _ => mem_byte c dep_name_delims = true | [] => True end.

Lemma head_delim_app : forall a b, head_delim a -> head_delim b -> head_delim (a ++ b).
Proof. intros [|c a] b Ha Hb; [exact Hb | exact Ha]. Qed.

Lemma head_delim_ws : forall w, head_delim (ws_bytes w).
Proof. intros [|[] w]; cbn; auto. Qed.

Lemma head_delim_spec : forall sp, head_delim (print_spec sp).
Proof.
  intros [|c cs|c cs]; cbn [print_spec]; [exact I| |reflexivity].
  destruct (join_clauses_head c cs) as [ch [t [E [_ [_ [_ D]]]]]].
  destruct (trim_left_split (join_with 44 (map print_clause (c :: cs)))) as [w [Hw E']].
  rewrite E in E'. rewrite E'. destruct w as [|x w]; [exact D|].
  cbn [all_ws forallb] in Hw. apply andb_prop in Hw. destruct Hw as [Hx _].
  unfold is_space in Hx. cbn [app head_delim].
  destruct (N.eqb_spec x 32); [subst; reflexivity|]. destruct (N.eqb_spec x 9); [subst; reflexivity | discriminate].
Qed.

(* the first non-space byte of specifier and marker is not '[' *)
Lemma body_head : forall sp w3 mk,
  match trim_left (print_spec sp ++ ws_bytes w3 ++ print_req_marker mk) with
  | [] => sp = SNone /\ mk = None
  | c :: _ => (c =? 91) = false
  end.
Proof.
  intros sp w3 mk. destruct sp as [|c cs|c cs]; cbn [print_spec].
  - cbn [app]. rewrite trim_left_ws_app by apply ws_bytes_all_ws.
    destruct mk as [[m wt]|]; cbn [print_req_marker]; [reflexivity | split; reflexivity].
  - destruct (join_clauses_head c cs) as [ch [t [E [_ [_ [B _]]]]]].
    rewrite trim_left_app_nonws by (rewrite E; discriminate). rewrite E. exact B.
  - reflexivity.
Qed.

Lemma all_ws_parts : forall ex sp mk,
  all_ws (print_extras ex) = true -> all_ws (print_spec sp) = true -> all_ws (print_req_marker mk) = true ->
  ex = None /\ sp = SNone /\ mk = None.
Proof.
  intros ex sp mk H1 H2 H3.
  destruct ex as [[w items]|]; [cbn in H1; discriminate|].
  destruct mk as [[m wt]|]; [cbn in H3; discriminate|].
  destruct sp as [|c cs|c cs]; [repeat split | | cbn in H2; discriminate].
  exfalso. cbn [print_spec] in H2.
  destruct (join_clauses_head c cs) as [ch [t [E [S _]]]].
  rewrite (trim_left_all_ws _ H2) in E. discriminate.
Qed.

Lemma spec_no_semicolon : forall sp, clauses_ok (spec_clauses sp) -> no_byte 59 (print_spec sp) = true.
Proof.
  intros [|c cs|c cs] H; cbn [print_spec spec_clauses] in *; [reflexivity| |].
  - exact (proj2 (join_clauses_facts _ H)).
  - rewrite !no_byte_app, (proj2 (join_clauses_facts _ H)). reflexivity.
Qed.

Lemma forallb_Forall : forall (A : Type) (p : A -> bool) l, forallb p l = true -> Forall (fun x => p x = true) l.
Proof. intros A p l H. apply Forall_forall. rewrite forallb_forall in H. exact H. Qed.

(* ------------------------------------------------------------------ C16_split *)
Theorem split_printed : forall r, wf_req r = true ->
  exists d, parse_dependency (print_req r) = Ok d /\
    d_name d = canon_name (r_name r) /\
    d_name d = req_name r /\
    obs_extras (d_extras d) = req_extras r /\
    obs_clauses (d_constraint d) = req_clauses r /\
    d_env d = req_marker_text r.
Proof.
  intros r Hwf. destruct r as [w0 name w1 ex w2 sp w3 mk].
  unfold wf_req in Hwf. cbn [r_name r_extras r_spec r_marker] in Hwf.
  apply andb_prop in Hwf. destruct Hwf as [Hwf Hmk].
  apply andb_prop in Hwf. destruct Hwf as [Hwf Hcl].
  apply andb_prop in Hwf. destruct Hwf as [Hn Hex].
  apply forallb_Forall in Hex. apply forallb_Forall in Hcl.
  destruct (valid_name_facts name Hn) as [ND [[c0 [t0 [En Hs0]]] [[cl [tl [Er Hsl]]] [_ [_ [_ NE]]]]]].
  assert (NameSpec : canon_name name = req_name (mkreq w0 name w1 ex w2 sp w3 mk)).
  { unfold req_name. cbn [r_name]. apply canon_name_spec. apply valid_name_chars. exact Hn. }
  set (TAIL := ws_bytes w1 ++ print_extras ex ++ ws_bytes w2 ++ print_spec sp ++ ws_bytes w3 ++ print_req_marker mk).
  assert (Ev : print_req (mkreq w0 name w1 ex w2 sp w3 mk) = ws_bytes w0 ++ name ++ TAIL) by reflexivity.
  rewrite Ev. clear Ev.
  assert (Enil : is_nil (ws_bytes w0 ++ name ++ TAIL) = false).
  { destruct (ws_bytes w0); [|reflexivity]. rewrite En. reflexivity. }
  assert (Etrim : trim (ws_bytes w0 ++ name ++ TAIL) = name ++ trim_right TAIL).
  { unfold trim. rewrite trim_left_ws_app by apply ws_bytes_all_ws.
    assert (E1 : trim_left (name ++ TAIL) = name ++ TAIL).
    { rewrite En. cbn [app]. apply trim_left_nonspace. exact Hs0. }
    rewrite E1.
    assert (E2 : name = rev tl ++ [cl]).
    { rewrite <- (rev_involutive name), Er. reflexivity. }
    rewrite E2. apply trim_right_app_keep. exact Hsl. }
  unfold parse_dependency. rewrite Enil, Etrim.
  destruct (trim_right_split TAIL) as [W [HW ET]].
  destruct (trim_right TAIL) as [|c t] eqn:ETR.
  - (* nothing but white space follows the name *)
    rewrite app_nil_r. unfold index_any. rewrite (index_pred_none _ name ND).
    cbn [app] in ET.
    assert (AW : all_ws TAIL = true) by (rewrite ET; exact HW).
    unfold TAIL in AW. rewrite !all_ws_app in AW.
    repeat (apply andb_prop in AW; destruct AW as [? AW]).
    match goal with
    | H1 : all_ws (print_extras ex) = true, H2 : all_ws (print_spec sp) = true |- _ =>
        destruct (all_ws_parts ex sp mk H1 H2 AW) as [-> [-> ->]]
    end.
    eexists. split; [reflexivity|]. repeat split; try reflexivity. exact NameSpec.
  - (* a delimiter follows the name *)
    assert (HD : mem_byte c dep_name_delims = true).
    { assert (H : head_delim TAIL).
      { unfold TAIL. repeat (apply head_delim_app); try apply head_delim_ws; try apply head_delim_spec.
        - destruct ex as [[w items]|]; [reflexivity | exact I].
        - destruct mk as [[m wt]|]; [reflexivity | exact I]. }
      rewrite ET in H. exact H. }
    unfold index_any.
    rewrite (index_pred_app_hit (fun x => mem_byte x dep_name_delims) name c t ND HD).
    destruct (length name) as [|n] eqn:LN; [destruct name; [congruence | discriminate]|].
    rewrite <- LN. rewrite go_slice_prefix. cbn [bind]. rewrite go_slice_suffix. cbn [bind].
    clear n LN. rewrite <- ETR.
    assert (Cl : clauses_ok (spec_clauses sp)) by exact Hcl.
    pose proof (spec_no_semicolon sp Cl) as NS.
    unfold parse_tail.
    destruct ex as [[w items]|].
    + (* extras present *)
      cbn [print_extras] in TAIL.
      set (inner := ws_bytes w ++ join_with 44 (map print_extra items)) in *.
      set (REST := ws_bytes w2 ++ print_spec sp ++ ws_bytes w3 ++ print_req_marker mk) in *.
      assert (ET2 : trim_right TAIL = (ws_bytes w1 ++ [91] ++ inner ++ [93]) ++ trim_right REST).
      { assert (TE : TAIL = ((ws_bytes w1 ++ [91] ++ inner) ++ [93]) ++ REST)
          by (unfold TAIL, inner, REST; rewrite <- !app_assoc; reflexivity).
        rewrite TE.
        rewrite (trim_right_app_keep (ws_bytes w1 ++ [91] ++ inner) 93 REST eq_refl).
        rewrite <- !app_assoc. reflexivity. }
      rewrite ET2. rewrite <- !app_assoc. rewrite trim_left_ws_app by apply ws_bytes_all_ws.
      cbn [app]. rewrite trim_left_nonspace by reflexivity.
      destruct (extras_inner_facts w items Hex) as [N93 OE]. fold inner in N93, OE.
      change (91 :: inner ++ 93 :: trim_right REST) with ([91] ++ inner ++ [93] ++ trim_right REST).
      rewrite (extras_step_bracket inner (trim_right REST) N93). cbn [bind fst snd].
      assert (NA : no_byte 59 (ws_bytes w2 ++ print_spec sp ++ ws_bytes w3) = true).
      { rewrite !no_byte_app, !(ws_no_byte 59) by reflexivity. rewrite NS. reflexivity. }
      destruct (decomp (ws_bytes w2 ++ print_spec sp ++ ws_bytes w3) mk NA) as [[P [Q [E1 [E2 [E3 E4]]]]] _].
      replace ((ws_bytes w2 ++ print_spec sp ++ ws_bytes w3) ++ print_req_marker mk) with REST in E1
        by (unfold REST; rewrite <- !app_assoc; reflexivity).
      assert (E3' : trim P = trim (print_spec sp)).
      { rewrite E3. rewrite trim_ws_app_l by apply ws_bytes_all_ws. apply trim_ws_app_r. apply ws_bytes_all_ws. }
      destruct (rest_result (canon_name name) (trim inner) sp mk (trim_right REST) P Q Cl E1 E2 E3' E4) as [C [R1 R2]].
      rewrite R1. eexists. split; [reflexivity|]. cbn [d_name d_extras d_constraint d_env].
      repeat split; try assumption.
      all: try (destruct mk as [[m wt]|]; reflexivity).
    + (* no extras *)
      cbn [print_extras app] in TAIL.
      assert (NA : no_byte 59 (ws_bytes w1 ++ ws_bytes w2 ++ print_spec sp ++ ws_bytes w3) = true).
      { rewrite !no_byte_app, !(ws_no_byte 59) by reflexivity. rewrite NS. reflexivity. }
      destruct (decomp (ws_bytes w1 ++ ws_bytes w2 ++ print_spec sp ++ ws_bytes w3) mk NA) as [_ [P [Q [E1 [E2 [E3 E4]]]]]].
      replace ((ws_bytes w1 ++ ws_bytes w2 ++ print_spec sp ++ ws_bytes w3) ++ print_req_marker mk) with TAIL in E1
        by (unfold TAIL; rewrite <- !app_assoc; reflexivity).
      assert (E3' : trim P = trim (print_spec sp)).
      { rewrite E3. rewrite !trim_ws_app_l by apply ws_bytes_all_ws. apply trim_ws_app_r. apply ws_bytes_all_ws. }
      (* the first byte after the white space is not '[' *)
      assert (HS1 : exists ch t1, trim_left (trim_right TAIL) = ch :: t1 /\ (ch =? 91) = false).
      { destruct (trim_left (trim_right TAIL)) as [|ch t1] eqn:TL.
        - exfalso. destruct (trim_left_split (trim_right TAIL)) as [w' [Hw' Ew']].
          rewrite TL, app_nil_r in Ew'.
          pose proof (trim_right_idem TAIL) as I1. rewrite Ew' in I1 at 1.
          rewrite (trim_right_all_ws w' Hw') in I1. rewrite <- I1 in ETR. discriminate.
        - exists ch, t1. split; [reflexivity|].
          assert (TL2 : trim_left TAIL = ch :: t1 ++ W).
          { rewrite ET at 1. rewrite <- ETR. rewrite trim_left_app_nonws by (rewrite TL; discriminate).
            rewrite TL. reflexivity. }
          unfold TAIL in TL2. rewrite !trim_left_ws_app in TL2 by apply ws_bytes_all_ws.
          pose proof (body_head sp w3 mk) as BH. rewrite TL2 in BH. exact BH. }
      destruct HS1 as [ch [t1 [TL CH]]].
      rewrite TL. rewrite (extras_step_other ch t1 CH). cbn [bind fst snd]. rewrite <- TL.
      destruct (rest_result (canon_name name) [] sp mk (trim_left (trim_right TAIL)) P Q Cl E1 E2 E3' E4) as [C [R1 R2]].
      rewrite R1. eexists. split; [reflexivity|]. cbn [d_name d_extras d_constraint d_env].
      repeat split; try assumption.
      all: try (destruct mk as [[m wt]|]; reflexivity).
Qed.
