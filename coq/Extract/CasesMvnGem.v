(* Harness cases for the Maven and RubyGems parsers, the reference specifications and the
   Maven domain predicate.  The parsed version is printed in the shape of semver.VerifDump
   (kind sv_parse of harness/go/cmd/implrun/semver.go). *)
From DepsDev Require Import Lib.Base Lib.Sx Semver.Version Semver.Maven Semver.Gem Semver.Compare
  Semver.MavenParse Semver.GemParse Semver.MavenDomain Semver.MavenPrintable Semver.MavenItems Semver.GemDomain Semver.GemSegments Spec.MavenSpec Spec.GemSpec.
Local Open Scope Z_scope.

Definition sx_ext (e : extension) : sx :=
  match e with
  | NoExt => SL [SI 0]
  | MavenExt l => SL (SI 1 :: map (fun x => SL [SI (Z.of_N (me_sep x)); SB (me_str x); SI (me_int x)]) l)
  | Pep440Ext None => SL [SI 2]
  | Pep440Ext (Some p) =>
      SL [SI 2; SL [SI (p_epoch p); SB (p_pre p); SI (p_prenum p); sx_bool (p_post p); SI (p_postnum p);
                    sx_bool (p_dev p); SI (p_devnum p); SB (p_local p)]]
  | GemExt l => SL (SI 3 :: map (fun x => SL [SB (ge_str x); SI (ge_int x)]) l)
  end.

Definition sx_version (v : version) : sx :=
  SL [SI (sys_index (v_sys v)); SI (v_user_num_count v); sx_bool (v_is_prerelease v); SB (v_str v);
      SL (map SI (v_num v)); SL (map SB (v_pre v)); SB (v_build v); sx_ext (v_ext v)].

Definition sx_oom : sx := SL [SB sym_oom].

Definition sx_parse_maven (s : bytes) : sx :=
  match mvn_parse s with
  | None => sx_oom
  | Some r => sx_res sx_version r
  end.

(* compare of two strings through parser and comparator model: ("ok" c) | ("err") | ("oom") *)
Definition sx_cmp_maven (zfix : bool) (a b : bytes) : sx :=
  match mvn_parse_with zfix a, mvn_parse_with zfix b with
  | Some (Ok va), Some (Ok vb) => sx_res SI (compare va vb)
  | None, _ | _, None => sx_oom
  | _, _ => SL [SB sym_err]
  end.
Definition sx_cmp_gem (fixed : bool) (a b : bytes) : sx :=
  match gem_parse_with fixed a, gem_parse_with fixed b with
  | Ok va, Ok vb => sx_res SI (compare va vb)
  | _, _ => SL [SB sym_err]
  end.

(* the projection of kind sv_canon: ("ok" canon reparse), reparse = ("ok" cmp canon2) | ("err") *)
Definition sx_canon_of (parse : bytes -> option (res version)) (s : bytes) : sx :=
  match parse s with
  | None => sx_oom
  | Some (Ok v) =>
      let c := canon true v in
      let re := match parse c with
                | None => sx_oom
                | Some (Ok v2) =>
                    match compare v v2 with
                    | Ok z => SL [SB sym_ok; SI z; SB (canon true v2)]
                    | _ => SL [SB sym_panic]
                    end
                | Some _ => SL [SB sym_err]
                end in
      SL [SB sym_ok; SB c; re]
  | Some (Err _) => SL [SB sym_err]
  | Some (Panic _) => SL [SB sym_panic]
  | Some OutOfFuel => SL [SB sym_fuel]
  end.

Definition sx_opt_z (o : option Z) : sx :=
  match o with Some z => SL [SB sym_ok; SI z] | None => SL [SB sym_err] end.

Definition k_parse_maven : bytes := [115;118;109;95;112;97;114;115;101;95;109;97;118;101;110]%N.  (* svm_parse_maven *)
Definition k_parse_gem : bytes := [115;118;109;95;112;97;114;115;101;95;103;101;109]%N.            (* svm_parse_gem *)
Definition k_cmp_maven : bytes := [115;118;109;95;99;109;112;95;109;97;118;101;110]%N.             (* svm_cmp_maven *)
Definition k_cmp_gem : bytes := [115;118;109;95;99;109;112;95;103;101;109]%N.                      (* svm_cmp_gem *)
Definition k_spec_maven : bytes := [115;118;109;95;115;112;101;99;95;109;97;118;101;110]%N.       (* svm_spec_maven *)
Definition k_spec_gem : bytes := [115;118;109;95;115;112;101;99;95;103;101;109]%N.                (* svm_spec_gem *)
Definition k_cmp_maven_fix : bytes := [115;118;109;95;99;109;112;95;109;97;118;101;110;95;102;105;120]%N.   (* svm_cmp_maven_fix *)
Definition k_cmp_gem_fix : bytes := [115;118;109;95;99;109;112;95;103;101;109;95;102;105;120]%N.            (* svm_cmp_gem_fix *)
Definition k_canon_maven : bytes := [115;118;109;95;99;97;110;111;110;95;109;97;118;101;110]%N.              (* svm_canon_maven *)
Definition k_canon_gem : bytes := [115;118;109;95;99;97;110;111;110;95;103;101;109]%N.                        (* svm_canon_gem *)
Definition k_gemdom : bytes := [115;118;109;95;103;101;109;100;111;109]%N.                                     (* svm_gemdom *)
Definition k_spec_gem_norm : bytes := [115;118;109;95;115;112;101;99;95;103;101;109;95;110;111;114;109]%N.    (* svm_spec_gem_norm *)
Definition k_spec_maven_items : bytes := [115;118;109;95;115;112;101;99;95;109;97;118;101;110;95;105;116;101;109;115]%N. (* svm_spec_maven_items *)

Fixpoint sx_item (i : item) : sx :=
  match i with
  | IInt n => SI (Z.of_N n)
  | IStr s => SB s
  | IList l => SL (map sx_item l)
  end.

Definition k_gem_tie : bytes := [115;118;109;95;103;101;109;95;116;105;101]%N.                                 (* svm_gem_tie *)
Fixpoint segs_eqb (a b : list seg) : bool :=
  match a, b with
  | [], [] => true
  | x :: a', y :: b' => seg_eqb x y && segs_eqb a' b'
  | _, _ => false
  end.
Definition k_maven_tie : bytes := [115;118;109;95;109;97;118;101;110;95;116;105;101]%N.                       (* svm_maven_tie *)
Fixpoint item_eqb (a b : item) : bool :=
  match a, b with
  | IInt x, IInt y => N.eqb x y
  | IStr x, IStr y => bytes_eqb x y
  | IList la, IList lb =>
      (fix go (la lb : list item) {struct la} : bool :=
         match la, lb with
         | [], [] => true
         | x :: la', y :: lb' => item_eqb x y && go la' lb'
         | _, _ => false
         end) la lb
  | _, _ => false
  end.
Definition k_maven_printable : bytes := [115;118;109;95;109;97;118;101;110;95;112;114;105;110;116;97;98;108;101]%N. (* svm_maven_printable *)
Definition k_maven_dot_tie : bytes := [115;118;109;95;109;97;118;101;110;95;100;111;116;95;116;105;101]%N.   (* svm_maven_dot_tie *)
Definition k_dmvn_wide : bytes := [115;118;109;95;100;109;118;110;95;119;105;100;101]%N.                 (* svm_dmvn_wide *)
Definition k_dmvn : bytes := [115;118;109;95;100;109;118;110]%N.                                  (* svm_dmvn *)

Definition run_MvnGem (kind : bytes) (a : sx) : option sx :=
  if bytes_eqb kind k_parse_maven then
    Some (match a with SL [SB s] => sx_parse_maven s | _ => badcase end)
  else if bytes_eqb kind k_parse_gem then
    Some (match a with SL [SB s] => sx_res sx_version (gem_parse s) | _ => badcase end)
  else if bytes_eqb kind k_cmp_maven then
    Some (match a with SL [SB x; SB y] => sx_cmp_maven mvn_fix_zero_spelling x y | _ => badcase end)
  else if bytes_eqb kind k_cmp_maven_fix then
    Some (match a with SL [SB x; SB y] => sx_cmp_maven true x y | _ => badcase end)
  else if bytes_eqb kind k_cmp_gem_fix then
    Some (match a with SL [SB x; SB y] => sx_cmp_gem true x y | _ => badcase end)
  else if bytes_eqb kind k_canon_maven then
    Some (match a with SL [SB s] => sx_canon_of mvn_parse s | _ => badcase end)
  else if bytes_eqb kind k_canon_gem then
    Some (match a with SL [SB s] => sx_canon_of (fun x => Some (gem_parse x)) s | _ => badcase end)
  else if bytes_eqb kind k_gemdom then
    (* (str) -> (c01 domain, release-only) *)
    Some (match a with
          | SL [SB s] =>
              match gem_parse s with
              | Ok v => SL [sx_bool (gem_c01_dom v); sx_bool (gem_release_only v)]
              | _ => SL [SB sym_err]
              end
          | _ => badcase end)
  else if bytes_eqb kind k_gem_tie then
    (* (str) -> (both accept, hypothesis c02_wf_b of C02_gem_partial, the segments of the parse made
       with the repaired trimming loop are the canonical segments Gem::Version scans) *)
    Some (match a with
          | SL [SB s] =>
              match gem_parse_with true s, g_correct s with
              | Ok v, true => SL [SI 1; sx_bool (c02_wf_b v);
                                  sx_bool (segs_eqb (g_canonical (gem_segments v)) (gspec_canonical s))]
              | _, _ => SL [SI 0]
              end
          | _ => badcase end)
  else if bytes_eqb kind k_maven_tie then
    (* (str) -> (hypothesis c02_wide_b of C02_maven_partial on the element list parsed with the repaired
       zero test, that list stands for exactly the normalised ComparableVersion item tree of the string) *)
    Some (match a with
          | SL [SB s] =>
              match mvn_parse_with true s with
              | Some (Ok v) =>
                  match v_ext v with
                  | MavenExt l => SL [sx_bool (c02_wide_b l); sx_bool (item_eqb (items_of l) (comparable_version s)); sx_bool (lone_zero l)]
                  | _ => SL [SB sym_err]
                  end
              | _ => SL [SB sym_err]
              end
          | _ => badcase end)
  else if bytes_eqb kind k_maven_printable then
    (* (str) -> (hypothesis printable_b of the C10 round-trip theorem on the parsed element list) *)
    Some (match a with
          | SL [SB s] => match mvn_elems_of s with Some l => SL [sx_bool (printable_b l)] | None => SL [SB sym_err] end
          | _ => badcase end)
  else if bytes_eqb kind k_maven_dot_tie then
    (* (str) -> (hypotheses d_dot_b and c02_wide_b (dashify) of C02_maven_dotted_partial on the element list
       parsed with the repaired zero test, the dashified list stands for the ComparableVersion tree of the string) *)
    Some (match a with
          | SL [SB s] =>
              match mvn_parse_with true s with
              | Some (Ok v) =>
                  match v_ext v with
                  | MavenExt l => SL [sx_bool (d_dot_b l && c02_wide_b (dashify l));
                                      sx_bool (item_eqb (items_of (dashify l)) (comparable_version s))]
                  | _ => SL [SB sym_err]
                  end
              | _ => SL [SB sym_err]
              end
          | _ => badcase end)
  else if bytes_eqb kind k_spec_gem_norm then
    (* (str) -> ("ok" version string as Gem::Version prints it) | ("err") *)
    Some (match a with
          | SL [SB s] => if g_correct s then SL [SB sym_ok; SB (g_version_string s)] else SL [SB sym_err]
          | _ => badcase end)
  else if bytes_eqb kind k_spec_maven_items then
    Some (match a with SL [SB s] => sx_item (comparable_version s) | _ => badcase end)
  else if bytes_eqb kind k_cmp_gem then
    Some (match a with SL [SB x; SB y] => sx_cmp_gem gem_fix_zero_trim x y | _ => badcase end)
  else if bytes_eqb kind k_spec_maven then
    (* (a b) -> ("ok" sign) : ComparableVersion(a).compareTo(b), total on all strings *)
    Some (match a with SL [SB x; SB y] => SL [SB sym_ok; SI (mspec_compare x y)] | _ => badcase end)
  else if bytes_eqb kind k_spec_gem then
    (* (a b) -> ("ok" sign) | ("err") when Gem::Version rejects one of them *)
    Some (match a with SL [SB x; SB y] => sx_opt_z (gspec_compare x y) | _ => badcase end)
  else if bytes_eqb kind k_dmvn_wide then
    Some (match a with
          | SL [SB s] => match mvn_elems_of s with Some l => SL [sx_bool (d_mvn_wide l)] | None => SL [SI 0] end
          | _ => badcase end)
  else if bytes_eqb kind k_dmvn then
    (* (str) -> (in D_mvn, in the C02 sub-domain) decided on the parsed element list and on the string *)
    Some (match a with
          | SL [SB s] =>
              match mvn_elems_of s with
              | Some l => SL [sx_bool (d_mvn l); sx_bool (d_mvn_c02 l); sx_bool (d_mvn_str s); sx_bool (d_mvn_c02_str s)]
              | None => SL [SB sym_err]
              end
          | _ => badcase end)
  else None.
