(* Decoding of harness cases for the PEP 508 models and spec
   (kind names match harness/go/cmd/implrun/pep508.go and harness/props/C16.py). *)
From DepsDev Require Import Lib.Base Lib.Sx Gen.PypiEnvTables Pypi.PyStr Pypi.Dependency
  Resolve.Markers Spec.Pep508Spec Spec.Pep508Domain.

(* ---- oracle tables *)
Fixpoint lookup_valid (t : list sx) (s : bytes) : bool :=
  match t with
  | SL [SB k; SI b] :: r => if bytes_eqb k s then (b =? 1)%Z else lookup_valid r s
  | _ :: r => lookup_valid r s
  | [] => false
  end.

Definition PMissingOracle : N := 99.

(* entries (op spec cand r): r = 0/1 result, 2 constraint does not parse, 3 panic *)
Fixpoint lookup_sat (t : list sx) (o : N) (spec cand : bytes) : res bool :=
  match t with
  | SL [SI o'; SB s'; SB c'; SI r] :: rest =>
      if (Z.of_N o =? o')%Z && bytes_eqb spec s' && bytes_eqb cand c' then
        (if (r =? 0)%Z then Ok false else if (r =? 1)%Z then Ok true
         else if (r =? 2)%Z then Err 0 else Panic PExplicit)
      else lookup_sat rest o spec cand
  | _ :: rest => lookup_sat rest o spec cand
  | [] => Panic PMissingOracle
  end.

(* entries (op rhs lhs r): r = 0/1 contains, 2 not a valid specifier *)
Fixpoint lookup_spec_sat (t : list sx) (o : N) (rhs lhs : bytes) : option bool :=
  match t with
  | SL [SI o'; SB s'; SB c'; SI r] :: rest =>
      if (Z.of_N o =? o')%Z && bytes_eqb rhs s' && bytes_eqb lhs c' then
        (if (r =? 0)%Z then Some false else if (r =? 1)%Z then Some true else None)
      else lookup_spec_sat rest o rhs lhs
  | _ :: rest => lookup_spec_sat rest o rhs lhs
  | [] => None
  end.

Fixpoint decode_bytes_list (l : list sx) : option (list bytes) :=
  match l with
  | [] => Some []
  | SB b :: r => match decode_bytes_list r with Some x => Some (b :: x) | None => None end
  | _ => None
  end.

(* ---- results *)
Definition sx_mvar (v : mvar) : sx := SL [SB (v_name v); SB (v_value v); sx_bool (v_ver v)].
Fixpoint sx_gmarker (g : gmarker) : sx :=
  match g with
  | GExpr o l r hc => SL [SI 0; SI (Z.of_N o); sx_mvar l; sx_mvar r; sx_bool hc]
  | GAnd a b => SL [SI 1; sx_gmarker a; sx_gmarker b]
  | GOr a b => SL [SI 2; sx_gmarker a; sx_gmarker b]
  end.

Fixpoint decode_grid (l : list sx) : option (list (list bytes)) :=
  match l with
  | [] => Some []
  | SL g :: r =>
      match decode_bytes_list g, decode_grid r with
      | Some g', Some r' => Some (g' :: r')
      | _, _ => None
      end
  | _ => None
  end.

Definition sx_resbool (r : res bool) : sx :=
  match r with
  | Ok b => sx_bool b
  | Err _ => SB sym_err
  | Panic _ => SB sym_panic
  | OutOfFuel => SB sym_fuel
  end.

(* observables first (accepted, value, values over the grid of extras sets), the tree last *)
Definition sx_marker_result (valid : bytes -> bool) (sat : N -> bytes -> bytes -> res bool)
    (raw : bytes) (extras : list bytes) (grid : list (list bytes)) : sx :=
  match parse_marker valid sat raw with
  | Ok g =>
      match geval sat extras g with
      | Ok b => SL [SB sym_ok; sx_bool b; SL (map (fun e => sx_resbool (geval sat e g)) grid); sx_gmarker g]
      | Err _ => SL [SB sym_err]
      | Panic p => if p =? PMissingOracle then SB sym_oom else SL [SB sym_panic]
      | OutOfFuel => SL [SB sym_fuel]
      end
  | Err _ => SL [SB sym_err]
  | Panic p => if p =? PMissingOracle then SB sym_oom else SL [SB sym_panic]
  | OutOfFuel => SL [SB sym_fuel]
  end.

Definition sym_edge : bytes := [101;100;103;101].

Definition sx_edge_result (valid : bytes -> bool) (sat : N -> bytes -> bytes -> res bool)
    (raw : bytes) (extras : list bytes) : sx :=
  let attr := match extras with [] => None | _ => Some (join_with 44 extras) end in
  match marker_result valid sat raw (requested_extras attr) with
  | Ok b => SL [SB sym_edge; sx_bool b]
  | Err _ => SL [SB sym_err]
  | Panic p => if p =? PMissingOracle then SB sym_oom else SL [SB sym_panic]
  | OutOfFuel => SL [SB sym_fuel]
  end.

(* several guarded dependencies behind one root: the resolution fails when any marker fails,
   otherwise every edge is present exactly when its own marker holds for its own extras *)
Definition sym_edges : bytes := [101;100;103;101;115].

Definition req_of (extras : list bytes) : list bytes :=
  requested_extras (match extras with [] => None | _ => Some (join_with 44 extras) end).

(* the extras with which the guarded requirement's package is asked for, per universe shape
   (harness/go/cmd/implrun/pep508.go markerMulti): 1 = on the root itself (none), 2 = two
   requirers (union), otherwise the one requirer's *)
Definition shape_extras (shape : Z) (ex ex2 : list bytes) : list bytes :=
  if (shape =? 1)%Z then [] else if (shape =? 2)%Z then req_of ex ++ req_of ex2 else req_of ex.

(* shape 5: the guarded requirement sits on the root, which is asked for plainly and, through a cycle
   (root -> helper -> root[extras]), with extras: a second request under which the marker may hold *)
Definition multi_item (s : sx) : option (bytes * list bytes * option (list bytes)) :=
  match s with
  | SL [SB raw; SL ex] =>
      match decode_bytes_list ex with Some e => Some (raw, req_of e, None) | None => None end
  | SL [SB raw; SL ex; SI shape; SL ex2] =>
      match decode_bytes_list ex, decode_bytes_list ex2 with
      | Some e, Some e2 =>
          if (shape =? 5)%Z then Some (raw, [], Some (req_of e)) else Some (raw, shape_extras shape e e2, None)
      | _, _ => None
      end
  | _ => None
  end.

Fixpoint multi_root (valid : bytes -> bool) (sat : N -> bytes -> bytes -> res bool)
    (items : list sx) : option (res (list bool)) :=
  match items with
  | [] => Some (Ok [])
  | it :: rest =>
      match multi_item it, multi_root valid sat rest with
      | Some (raw, requested, alt), Some tail =>
          Some (match marker_result valid sat raw requested with
                | Ok b0 =>
                    let b := match alt with
                             | Some r2 => match marker_result valid sat raw r2 with Ok b2 => orb b0 b2 | _ => b0 end
                             | None => b0
                             end in
                    match tail with Ok bs => Ok (b :: bs) | e => e end
                | Err e => match tail with Panic p => Panic p | OutOfFuel => OutOfFuel | _ => Err e end
                | Panic p => Panic p
                | OutOfFuel => OutOfFuel
                end)
      | _, _ => None
      end
  end.

Definition sx_multi_root (r : option (res (list bool))) : sx :=
  match r with
  | None => badcase
  | Some (Ok bs) => SL (SB sym_edges :: map sx_bool bs)
  | Some (Err _) => SL [SB sym_err]
  | Some (Panic p) => if p =? PMissingOracle then SB sym_oom else SL [SB sym_panic]
  | Some OutOfFuel => SL [SB sym_fuel]
  end.

Definition sx_dependency (r : res dependency) : sx :=
  sx_res (fun d => SL [SB (d_name d); SB (d_extras d); SB (d_constraint d); SB (d_env d)]) r.
(* the Go side prints ("ok" name extras constraint env): flatten *)
Definition sx_dependency_flat (r : res dependency) : sx :=
  match r with
  | Ok d => SL [SB sym_ok; SB (d_name d); SB (d_extras d); SB (d_constraint d); SB (d_env d)]
  | Err _ => SL [SB sym_err]
  | Panic _ => SL [SB sym_panic]
  | OutOfFuel => SL [SB sym_fuel]
  end.

(* ---- decoding of spec trees *)
Definition decode_wsp (b : bytes) : wsp := map (fun c => c =? 9) b.

Definition decode_lit (s : sx) : option lit :=
  match s with
  | SL [SI q; SB t] => Some (mklit (q =? 1)%Z t)
  | _ => None
  end.

Definition decode_atom (s : sx) : option atom :=
  match s with
  | SL [SI 0%Z; SI v; SI o; l] =>
      match nth_error all_vars (Z.to_nat v), nth_error all_cops (Z.to_nat o), decode_lit l with
      | Some v', Some o', Some l' => Some (AVarLit v' o' l')
      | _, _, _ => None
      end
  | SL [SI 1%Z; l; SI o; SI v] =>
      match nth_error all_vars (Z.to_nat v), nth_error all_cops (Z.to_nat o), decode_lit l with
      | Some v', Some o', Some l' => Some (ALitVar l' o' v')
      | _, _, _ => None
      end
  | _ => None
  end.

Fixpoint decode_tree (fuel : nat) (s : sx) : option mtree :=
  match fuel with
  | O => None
  | S f =>
      match s with
      | SL [SI 0%Z; SB w1; SB w2; SB wn; SB w3; a] =>
          match decode_atom a with
          | Some a' => Some (TAtom (decode_wsp w1) (decode_wsp w2) (decode_wsp wn) (decode_wsp w3) a')
          | None => None
          end
      | SL [SI 1%Z; l; SB w; r] =>
          match decode_tree f l, decode_tree f r with
          | Some l', Some r' => Some (TAnd l' (decode_wsp w) r')
          | _, _ => None
          end
      | SL [SI 2%Z; l; SB w; r] =>
          match decode_tree f l, decode_tree f r with
          | Some l', Some r' => Some (TOr l' (decode_wsp w) r')
          | _, _ => None
          end
      | SL [SI 3%Z; SB w1; m; SB w2] =>
          match decode_tree f m with
          | Some m' => Some (TParen (decode_wsp w1) m' (decode_wsp w2))
          | None => None
          end
      | _ => None
      end
  end.

Definition decode_vop (z : Z) : option vop :=
  nth_error [VLe; VLt; VNe; VEq; VGe; VGt; VTilde; VEq3] (Z.to_nat z).

Fixpoint decode_clauses (l : list sx) : option (list clause) :=
  match l with
  | [] => Some []
  | SL [SB w1; SI o; SB w2; SB v; SB w3] :: r =>
      match decode_vop o, decode_clauses r with
      | Some o', Some r' => Some (mkclause (decode_wsp w1) o' (decode_wsp w2) v (decode_wsp w3) :: r')
      | _, _ => None
      end
  | _ => None
  end.

Fixpoint decode_extras (l : list sx) : option (list extra_item) :=
  match l with
  | [] => Some []
  | SL [SB w1; SB n; SB w2] :: r =>
      match decode_extras r with
      | Some r' => Some (mkextra (decode_wsp w1) n (decode_wsp w2) :: r')
      | None => None
      end
  | _ => None
  end.

Definition decode_req (s : sx) : option req :=
  match s with
  | SL [SB w0; SB name; SB w1; ex; SB w2; sp; SB w3; mk] =>
      let ex' := match ex with
                 | SL [] => Some None
                 | SL [SB w; SL items] =>
                     match decode_extras items with Some i => Some (Some (decode_wsp w, i)) | None => None end
                 | _ => None
                 end in
      let sp' := match sp with
                 | SL [SI 0%Z] => Some SNone
                 | SL (SI 1%Z :: cl) =>
                     match decode_clauses cl with Some (c :: cs) => Some (SBare c cs) | _ => None end
                 | SL (SI 2%Z :: cl) =>
                     match decode_clauses cl with Some (c :: cs) => Some (SParen c cs) | _ => None end
                 | _ => None
                 end in
      let mk' := match mk with
                 | SL [] => Some None
                 | SL [t; SB wt] =>
                     match decode_tree 200 t with Some m => Some (Some (m, decode_wsp wt)) | None => None end
                 | _ => None
                 end in
      match ex', sp', mk' with
      | Some e, Some s', Some m =>
          Some (mkreq (decode_wsp w0) name (decode_wsp w1) e (decode_wsp w2) s' (decode_wsp w3) m)
      | _, _, _ => None
      end
  | _ => None
  end.

Definition sx_optbool (o : option bool) : sx :=
  match o with
  | Some b => SL [SB sym_ok; sx_bool b]
  | None => SL [SB [117;110;100;101;102]] (* undef *)
  end.

Definition kind_is (kind : bytes) (name : bytes) : bool := bytes_eqb kind name.

Definition run_Pep508 (kind : bytes) (a : sx) : option sx :=
  if kind_is kind [112;101;112;53;48;56] (* pep508 *) then
    Some (match a with SB s => sx_dependency_flat (parse_dependency s) | _ => badcase end)
  else if kind_is kind [99;97;110;111;110;95;110;97;109;101] (* canon_name *) then
    Some (match a with SB s => SB (canon_name s) | _ => badcase end)
  else if kind_is kind [109;97;114;107;101;114] (* marker *) then
    Some (match a with
          | SL [SB raw; SL ex; SL vt; SL st; SL gr] =>
              match decode_bytes_list ex, decode_grid gr with
              | Some extras, Some grid => sx_marker_result (lookup_valid vt) (lookup_sat st) raw extras grid
              | _, _ => badcase
              end
          | SL [SB raw; SL ex; SL vt; SL st] =>
              match decode_bytes_list ex with
              | Some extras => sx_marker_result (lookup_valid vt) (lookup_sat st) raw extras []
              | None => badcase
              end
          | _ => badcase end)
  else if kind_is kind [109;97;114;107;101;114;95;101;100;103;101] (* marker_edge *) then
    Some (match a with
          | SL [SB raw; SL ex; SL vt; SL st] =>
              match decode_bytes_list ex with
              | Some extras => sx_edge_result (lookup_valid vt) (lookup_sat st) raw extras
              | None => badcase
              end
          | _ => badcase end)
  else if kind_is kind [109;97;114;107;101;114;95;109;117;108;116;105] (* marker_multi *) then
    Some (match a with
          | SL [SL roots; SL vt; SL st] =>
              SL (map (fun r => match r with
                                | SL items => sx_multi_root (multi_root (lookup_valid vt) (lookup_sat st) items)
                                | _ => badcase
                                end) roots)
          | _ => badcase end)
  else if kind_is kind [115;112;101;99;95;112;114;105;110;116] (* spec_print *) then
    (* (tree wt) -> printed marker *)
    Some (match a with
          | SL [t; SB wt] =>
              match decode_tree 200 t with
              | Some m => SL [SB (print_marker m (decode_wsp wt)); sx_bool (wf_tree m)]
              | None => badcase
              end
          | _ => badcase end)
  else if kind_is kind [115;112;101;99;95;101;118;97;108] (* spec_eval *) then
    (* (tree extras spec-sat-table go-valid-table) -> (result in-domain class) *)
    Some (match a with
          | SL [t; SL ex; SL st; SL vt] =>
              match decode_tree 200 t, decode_bytes_list ex with
              | Some m, Some extras =>
                  SL [sx_optbool (eval target_env (lookup_spec_sat st) extras m);
                      sx_bool (in_domain target_env (lookup_valid vt) (lookup_spec_sat st) extras m);
                      SI (Z.of_N (domain_class target_env (lookup_valid vt) (lookup_spec_sat st) extras m))]
              | _, _ => badcase
              end
          | _ => badcase end)
  else if kind_is kind [115;112;101;99;95;114;101;113] (* spec_req *) then
    (* req -> (text wf name extras clauses marker-text) *)
    Some (match decode_req a with
          | Some r =>
              SL [SB (print_req r); sx_bool (wf_req r); SB (req_name r);
                  SL (map SB (req_extras r)); SL (map SB (req_clauses r)); SB (req_marker_text r)]
          | None => badcase
          end)
  else if kind_is kind [115;112;101;99;95;99;97;110;111;110] (* spec_canon *) then
    Some (match a with SB s => SB (canonicalize_name s) | _ => badcase end)
  else if kind_is kind [112;101;112;53;48;56;95;111;98;115] (* pep508_obs *) then
    (* the normalised observables of a parsed requirement string *)
    Some (match a with
          | SB s =>
              match parse_dependency s with
              | Ok d => SL [SB sym_ok; SB (d_name d); SL (map SB (obs_extras (d_extras d)));
                            SL (map SB (obs_clauses (d_constraint d))); SB (d_env d)]
              | Err _ => SL [SB sym_err]
              | Panic _ => SL [SB sym_panic]
              | OutOfFuel => SL [SB sym_fuel]
              end
          | _ => badcase end)
  else if kind_is kind [112;121;112;105;95;101;110;118] (* pypi_env *) then
    Some (SL (map (fun kv => SL [SB (fst kv); SB (snd kv)]) target_env))
  else None.
