(* Harness access to the declarative specifications (Spec/). *)
From DepsDev Require Import Lib.Base Lib.Sx Spec.SemverSpec Spec.NuGetSpec.
Local Open Scope Z_scope.

Definition run_Spec (kind : bytes) (a : sx) : option sx :=
  if bytes_eqb kind [115;112;101;99;95;115;101;109;118;101;114;95;99;109;112]%N (* spec_semver_cmp *) then
    Some (match a with
          | SL [SB x; SB y] =>
              match spec_compare_strings x y with
              | Some c => SL [SB sym_ok; SI c]
              | None => SL [SB sym_err]
              end
          | _ => badcase end)
  else if bytes_eqb kind [115;112;101;99;95;115;101;109;118;101;114;95;111;107]%N (* spec_semver_ok *) then
    Some (match a with
          | SB x => sx_bool (match parse_strict x with Some _ => true | None => false end)
          | _ => badcase end)
  else if bytes_eqb kind [115;112;101;99;95;110;117;103;101;116;95;99;109;112]%N (* spec_nuget_cmp *) then
    Some (match a with
          | SL [SB x; SB y] =>
              match nuget_compare_strings x y with
              | Some c => SL [SB sym_ok; SI c]
              | None => SL [SB sym_err]
              end
          | _ => badcase end)
  else if bytes_eqb kind [115;112;101;99;95;110;117;103;101;116;95;110;111;114;109]%N (* spec_nuget_norm: normalised string of an accepted version *) then
    Some (match a with
          | SB x => match parse_nuget x with
                    | Some v => SL [SB sym_ok; SB (nuget_normalized v)]
                    | None => SL [SB sym_err]
                    end
          | _ => badcase end)
  else None.
