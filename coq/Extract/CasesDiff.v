(* Harness access to the model of Version.Difference (Semver/Diff.v).
   Kind svm_diff: (dumpV dumpU) -> ("ok" c d) | ("panic") *)
From Coq Require Import List ZArith.
From DepsDev Require Import Lib.Base Lib.Sx Semver.Version Semver.Compare Semver.Diff Extract.CasesSemver.
Import ListNotations.

Definition run_Diff (kind : bytes) (a : sx) : option sx :=
  if bytes_eqb kind [115;118;109;95;100;105;102;102]%N (* svm_diff *) then
    Some (match a with
          | SL [dv; du] =>
              match decode_version dv, decode_version du with
              | Some v, Some u =>
                  match difference v u with
                  | Ok (c, d) => SL [SB sym_ok; SI c; SI d]
                  | Err _ => SL [SB sym_err]
                  | Panic _ => SL [SB sym_panic]
                  | OutOfFuel => SL [SB sym_fuel]
                  end
              | _, _ => badcase
              end
          | _ => badcase end)
  else None.
