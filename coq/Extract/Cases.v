(* Dispatcher from case kind to model function; extracted to OCaml and also
   evaluated inside Coq (vm_compute) for the cross-check. *)
From DepsDev Require Import Lib.Base Lib.Sx Extract.CasesAttr.

Definition run_case (kind : bytes) (a : sx) : sx :=
  match run_attr kind a with
  | Some r => r
  | None => SL [SB sym_badcase; SB kind]
  end.
