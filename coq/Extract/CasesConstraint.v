(* Decoding of harness cases for the constraint / span / set model (kinds match
   harness/go/cmd/implrun/constraint.go).

   The version parser is a Section variable of the model.  Here it is a finite TABLE carried by
   the case: (allowInfinity string outcome) rows obtained from the Go parser.  A lookup that
   misses does not guess: it aborts the evaluation with a reserved panic code that encodes the
   missing key, the runner reports ("need" allowInfinity string), and the driver completes
   the table from Go and runs the case again. *)
From DepsDev Require Import Lib.Base Lib.Sx Semver.Version Semver.Maven Semver.Gem Semver.Pep440 Semver.Compare
     Semver.Token Semver.Span Semver.Interval Semver.Set Semver.Constraint Extract.CasesSemver.
(* the boolean side conditions of the _partial theorems (only their definitions are used here) *)
From DepsDev Require Semver.Set_proofs Semver.Inter_proofs Semver.C11_region.
Local Open Scope Z_scope.

(* ---------------------------------------------------------------- the need code *)
Fixpoint bytes_to_N (s : bytes) : N :=
  match s with [] => 1%N | c :: t => (c + 256 * bytes_to_N t)%N end.
Definition need_code (allow : bool) (s : bytes) : N := (1000 + (if allow then 1 else 0) + 2 * bytes_to_N s)%N.

Fixpoint N_to_bytes (fuel : nat) (n : N) : bytes :=
  match fuel with
  | O => []
  | S f => if (n <=? 1)%N then [] else (n mod 256)%N :: N_to_bytes f (n / 256)%N
  end.

Definition sx_need (p : N) : sx :=
  let q := (p - 1000)%N in
  SL [SB [110;101;101;100]%N; SI (Z.of_N (q mod 2)); SB (N_to_bytes (S (N.to_nat (N.log2 q))) (q / 2)%N)].

(* ---------------------------------------------------------------- the table *)
Definition table := list (bool * bytes * res parse_out).

Definition decode_outcome (o : sx) : option (res parse_out) :=
  match o with
  | SL [SB tag; d] =>
      if bytes_eqb tag sym_ok then
        match decode_version d with Some v => Some (Ok {| po_v := Some v; po_err := false |}) | None => None end
      else if bytes_eqb tag sym_err then
        match d with
        | SL [] => Some (Ok {| po_v := None; po_err := true |})
        | _ => match decode_version d with Some v => Some (Ok {| po_v := Some v; po_err := true |}) | None => None end
        end
      else None
  | SL [SB tag] => if bytes_eqb tag sym_panic then Some (Panic PExplicit) else None
  | _ => None
  end.

Fixpoint decode_table (l : list sx) : option table :=
  match l with
  | [] => Some []
  | SL [SI a; SB s; o] :: t =>
      match decode_outcome o, decode_table t with
      | Some r, Some rest => Some ((negb (a =? 0), s, r) :: rest)
      | _, _ => None
      end
  | _ => None
  end.

Fixpoint tbl_lookup (tbl : table) (allow : bool) (s : bytes) : res parse_out :=
  match tbl with
  | [] => Panic (need_code allow s)
  | (a, k, r) :: t => if Bool.eqb a allow && bytes_eqb k s then r else tbl_lookup t allow s
  end.

Definition pv_of (tbl : table) : system -> bool -> bytes -> res parse_out := fun _ allow s => tbl_lookup tbl allow s.

(* ---------------------------------------------------------------- encoders *)
Definition sx_ext (e : extension) : sx :=
  match e with
  | NoExt => SL [SI 0]
  | MavenExt l => SL (SI 1 :: map (fun x => SL [SI (Z.of_N (me_sep x)); SB (me_str x); SI (me_int x)]) l)
  | Pep440Ext None => SL [SI 2]
  | Pep440Ext (Some p) =>
      SL [SI 2; SL [SI (p_epoch p); SB (p_pre p); SI (p_prenum p); sx_bool (p_post p); SI (p_postnum p);
                    sx_bool (p_dev p); SI (p_devnum p); SB (p_local p)]]
  | GemExt l => SL (SI 3 :: map (fun x => SL [SB (ge_str x); SI (ge_int x)]) l)
  end.

Definition sx_version (v : version) : sx :=
  SL [SI (sys_index (v_sys v)); SI (v_user_num_count v); sx_bool (v_is_prerelease v); SB (v_str v);
      SL (map SI (v_num v)); SL (map SB (v_pre v)); SB (v_build v); sx_ext (v_ext v)].

Definition sx_optv (o : option version) : sx := match o with Some v => sx_version v | None => SL [] end.

Definition rank_index (r : rank) : Z := match r with REmpty => 0 | RUnit => 1 | RVector => 2 end.

Definition sx_span (s : span) : sx :=
  SL [SI (rank_index (sp_rank s)); sx_bool (sp_min_open s); sx_bool (sp_max_open s); sx_optv (sp_min s); sx_optv (sp_max s)].

Definition sx_set (s : set) : sx := SL [SI (sys_index (set_sys s)); SL (map sx_span (set_span s))].

(* decoding of the dumps (inverse of sx_span / sx_set) *)
Definition decode_optv (d : sx) : option (option version) :=
  match d with
  | SL [] => Some None
  | _ => match decode_version d with Some v => Some (Some v) | None => None end
  end.

Definition decode_span (d : sx) : option span :=
  match d with
  | SL [SI r; SI mo; SI xo; mn; mx] =>
      match decode_optv mn, decode_optv mx with
      | Some a, Some b' =>
          let rk := if r =? 0 then Some REmpty else if r =? 1 then Some RUnit else if r =? 2 then Some RVector else None in
          match rk with
          | Some k => Some {| sp_rank := k; sp_min_open := negb (mo =? 0); sp_max_open := negb (xo =? 0); sp_min := a; sp_max := b' |}
          | None => None
          end
      | _, _ => None
      end
  | _ => None
  end.

Fixpoint decode_spans (l : list sx) : option (list span) :=
  match l with
  | [] => Some []
  | d :: t => match decode_span d, decode_spans t with Some s, Some r => Some (s :: r) | _, _ => None end
  end.

Definition decode_set (d : sx) : option set :=
  match d with
  | SL [SI sysi; SL spans] =>
      match sys_of_index sysi, decode_spans spans with
      | Some sys, Some l => Some {| set_sys := sys; set_span := l |}
      | _, _ => None
      end
  | _ => None
  end.

(* outcome of a whole case *)
Definition sx_out (r : res sx) : sx :=
  match r with
  | Ok a => a
  | Err _ => SL [SB sym_err]
  | Panic p => if (1000 <=? p)%N then sx_need p else SL [SB sym_panic]
  | OutOfFuel => SL [SB sym_fuel]
  end.

Definition s_verr : bytes := [118;101;114;114]%N.

(* ---------------------------------------------------------------- probes *)
(* sys.Parse(probe) with a recovered panic: None = not usable (verr) *)
Definition parse_probe (tbl : table) (sys : system) (s : bytes) : res (option version) :=
  match parse_public (pv_of tbl) sys s with
  | Ok po => if po_err po then Ok None else Ok (po_v po)
  | Err _ => Ok None
  | Panic p => if (1000 <=? p)%N then Panic p else Ok None
  | OutOfFuel => OutOfFuel
  end.

Fixpoint parse_probes (tbl : table) (sys : system) (l : list sx) : res (list (option version)) :=
  match l with
  | [] => Ok []
  | SB s :: t => a <- parse_probe tbl sys s;; r <- parse_probes tbl sys t;; Ok (a :: r)
  | _ :: t => Panic PExplicit
  end.

Fixpoint map_res {A B} (f : A -> res B) (l : list A) : res (list B) :=
  match l with
  | [] => Ok []
  | x :: t => a <- f x;; r <- map_res f t;; Ok (a :: r)
  end.

Definition is_ascii_edge (s : bytes) : bool :=
  match s with
  | [] => true
  | c :: _ => (c <? 128)%N && match last_opt s with Some d => (d <? 128)%N | None => true end
  end.

(* result of an operation that may fail with an error: Some set / None *)
Definition op_result (r : res set) : res (option set) :=
  match r with
  | Ok s => Ok (Some s)
  | Err _ => Ok None
  | Panic p => Panic p
  | OutOfFuel => OutOfFuel
  end.

Definition sx_set_info (o : option set) : res sx :=
  match o with
  | None => Ok (SL [SB sym_err])
  | Some s => str <- set_string s;; Ok (SL [SB sym_ok; sx_bool (set_empty s); SB str; sx_set s])
  end.

Definition mem (o : option set) (v : version) (incl : bool) : res sx :=
  match o with
  | None => Ok (SI (-1))
  | Some s => b <- set_match_version s v incl;; Ok (sx_bool b)
  end.

(* ---------------------------------------------------------------- tokens *)
Fixpoint tokens (fuel : nat) (sys : system) (rest : bytes) : res (list sx) :=
  match fuel with
  | O => Ok []
  | S f =>
      t <- token sys rest;;
      let '(typ, tok, n) := t in
      let here := SL [SI typ; SB tok; SI (Z.of_nat n)] in
      if (typ =? 19) || (typ =? 0) || (n =? 0)%nat then Ok [here]
      else r <- tokens f sys (skipn n rest);; Ok (here :: r)
  end.

(* ---------------------------------------------------------------- diagnostics (classification only)
   These functions do not belong to the model.  They re-run the model's own canon_step /
   inter_rows on the same data and report WHICH path was taken, so that the driver can decide
   whether an oracle hit falls into a recorded class of defects:
     ("adj" this next)   canon merged two spans although this.max <> next.min
     ("drop" lost via)   the i++ of a merge skipped a span other than the merged one
     ("openunit" span)   a unit span with an open end
     ("premerge" this next)  a merge absorbed a bound that carries a user prerelease *)
Definition s_adj : bytes := [97;100;106]%N.
Definition s_drop : bytes := [100;114;111;112]%N.
Definition s_openunit : bytes := [111;112;101;110;117;110;105;116]%N.
Definition s_premerge : bytes := [112;114;101;109;101;114;103;101]%N.

Fixpoint inner_ev (this : span) (all_tail tail : list span) (pos k : nat) : res (span * nat * list sx) :=
  match tail with
  | [] => Ok (this, k, [])
  | next :: rest =>
      st <- canon_step this next;;
      match st with
      | IBreak => Ok (this, k, [])
      | IContinue this' skip =>
          e <- equal_opt (sp_max this) (sp_min next);;
          let ev1 := if skip && negb e then [SL [SB s_adj; sx_span this; sx_span next]] else [] in
          let ev2 := if skip && negb (Nat.eqb pos k) then
                       match nth_error all_tail k with
                       | Some lost => [SL [SB s_drop; sx_span lost; sx_span next]]
                       | None => []
                       end else [] in
          let ev3 := if skip && (opt_is_prerelease (sp_max this) || opt_is_prerelease (sp_min next)
                                 || opt_is_prerelease (sp_max next))
                     then [SL [SB s_premerge; sx_span this; sx_span next]] else [] in
          r <- inner_ev this' all_tail rest (S pos) (if skip then S k else k);;
          let '(t, k', evs) := r in Ok (t, k', ev1 ++ ev2 ++ ev3 ++ evs)
      end
  end.

Fixpoint loop_ev (fuel : nat) (l : list span) : res (list sx) :=
  match fuel with
  | O => Ok []
  | S f =>
      match l with
      | [] => Ok []
      | this :: tail =>
          if rank_is_empty (sp_rank this) then loop_ev f tail
          else
            r <- inner_ev this tail tail 0 0;;
            let '(_, k, evs) := r in
            rest <- loop_ev f (skipn k tail);;
            Ok (evs ++ rest)
      end
  end.

Definition open_units (l : list span) : list sx :=
  flat_map (fun s => match sp_rank s with
                     | RUnit => if sp_min_open s || sp_max_open s then [SL [SB s_openunit; sx_span s]] else []
                     | _ => [] end) l.

(* events of canon on the given input list *)
Definition canon_events (l : list span) : res (list sx) :=
  if (length l <=? 1)%nat then Ok (open_units l) else
  if sys_eqb (sys_of_span l) SMaven then Ok (open_units l) else
  sorted <- sort_spans l;;
  evs <- loop_ev (S (length sorted)) sorted;;
  Ok (open_units l ++ evs).

Definition union_events (a b : set) : res (list sx) := canon_events (set_span a ++ set_span b).
Definition inter_events (a b : set) : res (list sx) :=
  match inter_rows (set_span a) (set_span b) with
  | Ok out => evs <- canon_events out;; Ok (open_units (set_span a ++ set_span b) ++ evs)
  | Err _ => Ok (open_units (set_span a ++ set_span b))
  | Panic p => Panic p
  | OutOfFuel => OutOfFuel
  end.

Definition no_err {A} (r : res A) (d : A) : res A :=
  match r with Err _ => Ok d | x => x end.

(* conjunction of comparator texts, each parsed on its own, with the events of every step *)
Fixpoint conj_events (tbl : table) (sys : system) (cur : option set) (texts : list sx) : res (option set * list sx) :=
  match texts with
  | [] => Ok (cur, [])
  | SB t :: rest =>
      match parse_constraint (pv_of tbl) sys t with
      | Ok c =>
          match cur with
          | None => r <- conj_events tbl sys (Some (c_set c)) rest;; Ok (fst r, open_units (set_span (c_set c)) ++ snd r)
          | Some s =>
              evs <- inter_events s (c_set c);;
              nxt <- no_err (op_result (set_intersect s (c_set c))) None;;
              match nxt with
              | None => Ok (None, evs)
              | Some s' => r <- conj_events tbl sys (Some s') rest;; Ok (fst r, evs ++ snd r)
              end
          end
      | Err _ => Ok (None, [])
      | Panic p => Panic p
      | OutOfFuel => OutOfFuel
      end
  | _ :: _ => Panic PExplicit
  end.

Fixpoint disj_events (tbl : table) (sys : system) (alts : list sx) : res (list span * list sx) :=
  match alts with
  | [] => Ok ([], [])
  | SL texts :: rest =>
      r <- conj_events tbl sys None texts;;
      r2 <- disj_events tbl sys rest;;
      Ok (match fst r with Some s => set_span s | None => [] end ++ fst r2, snd r ++ snd r2)
  | _ :: _ => Panic PExplicit
  end.

(* ---------------------------------------------------------------- proved regions
   The side conditions of C09_union_partial / C09_inter_partial evaluated on the given sets, so
   that the driver can count how much of the evidence lies inside the proved region and treat
   an oracle hit inside it as a contradiction of a theorem. *)
Definition c09_sys_b (S : system) : bool := match S with SDefault | SNPM | SCargo | SGo => true | _ => false end.

Definition union_region (a b : set) : bool :=
  let S := set_sys a in
  c09_sys_b S && Set_proofs.c09_dom_b S (set_span a ++ set_span b)
  && negb (match set_span a with [] => true | _ => false end) && negb (match set_span b with [] => true | _ => false end).

Definition inter_region (a b : set) : bool :=
  let S := set_sys a in
  c09_sys_b S &&
  match set_span a, set_span b with
  | [s], [t] => Inter_proofs.good_span_b S s && Inter_proofs.good_span_b S t && Inter_proofs.no_point_contact_b S s t
  | _, _ => false
  end.

Definition k_setop_d : bytes := [115;101;116;111;112;95;100]%N.
Definition k_setrt_d : bytes := [115;101;116;114;116;95;100]%N.
Definition k_setdiag_d : bytes := [115;101;116;100;105;97;103;95;100]%N.

(* the body of setop once the two sets are known *)
(* the public route of a result: ParseSetConstraint(result.String()).MatchVersionPrerelease *)
Definition pub_of (tbl : table) (sys : system) (o : option set) : res (option (option constraint)) :=
  match o with
  | None => Ok None
  | Some st =>
      str <- set_string st;;
      match parse_set_constraint (pv_of tbl) sys str with
      | Ok c => Ok (Some (Some c))
      | Err _ => Ok (Some None)
      | Panic p => Panic p
      | OutOfFuel => OutOfFuel
      end
  end.

Definition pub_mem (p : option (option constraint)) (v : version) : res sx :=
  match p with
  | None => Ok (SI (-1))
  | Some None => Ok (SI (-2))
  | Some (Some c) => b0 <- match_version_prerelease c v;; Ok (sx_bool b0)
  end.

Definition setop_body (tbl : table) (sys : system) (sa sb : set) (probes : list sx) : res sx :=
  u <- op_result (set_union sa sb);;
  i <- op_result (set_intersect sa sb);;
  u' <- op_result (set_union sb sa);;
  i' <- op_result (set_intersect sb sa);;
  au <- op_result (set_union sa sa);;
  ai <- op_result (set_intersect sa sa);;
  pu <- pub_of tbl sys u;; pi <- pub_of tbl sys i;; pu' <- pub_of tbl sys u';; pi' <- pub_of tbl sys i';;
  ps <- parse_probes tbl sys probes;;
  rows <- map_res (fun o => match o with
                            | None => Ok (SL [SB s_verr])
                            | Some v =>
                                r <- map_res (fun x => e <- mem x v false;; n <- mem x v true;; Ok [e; n])
                                             [Some sa; Some sb; u; i; u'; i'];;
                                p <- map_res (fun x => pub_mem x v) [pu; pi; pu'; pi'];;
                                r2 <- map_res (fun x => e <- mem x v false;; n <- mem x v true;; Ok [e; n]) [au; ai];;
                                Ok (SL (concat r ++ p ++ concat r2))
                            end) ps;;
  ia <- sx_set_info (Some sa);; ib <- sx_set_info (Some sb);;
  iu <- sx_set_info u;; ii <- sx_set_info i;; iu' <- sx_set_info u';; ii' <- sx_set_info i';;
  iau <- sx_set_info au;; iai <- sx_set_info ai;;
  Ok (SL [SB sym_ok; ia; ib; iu; ii; iu'; ii'; SL rows; SL [SI 1; SI 1; SI 1; SI 1]; iau; iai]).

(* the body of setrt once the set is known: only prerelease-inclusive matching is observed *)
Definition setrt_body (tbl : table) (sys : system) (st : set) (probes : list sx) : res sx :=
  s1 <- set_string st;;
  c2 <- (match parse_set_constraint (pv_of tbl) sys s1 with
         | Ok x => Ok (Some x) | Err _ => Ok None | Panic p => Panic p | OutOfFuel => OutOfFuel end);;
  r <- (match c2 with
        | None => Ok (SL [SB sym_err])
        | Some x => s2 <- set_string (c_set x);; Ok (SL [SB sym_ok; SB s2])
        end);;
  ps <- parse_probes tbl sys probes;;
  rows <- map_res (fun o => match o with
                            | None => Ok (SL [SB s_verr])
                            | Some v =>
                                oi <- (if is_wildcard_v v then Ok false else set_match_version st v true);;
                                ri <- (match c2 with None => Ok (SI (-1))
                                                   | Some x => b0 <- match_version_prerelease x v;; Ok (sx_bool b0) end);;
                                Ok (SL [sx_bool oi; ri])
                            end) ps;;
  Ok (SL [SB sym_ok; SB s1; r; SL rows; sx_bool (C11_region.c11_region (pv_of tbl) sys st)]).

(* the region of the C03 composition theorems on a requirement given as alternatives of comparator
   texts: every comparator is one span; along each and-list the side conditions of
   C03_and_partial hold (good_span_b, no_point_contact_b) and the row stays one span; the
   collected spans lie in the domain of C03_or_partial (c09_dom_b).  The shape of the comparators
   themselves (operator + full release version) is checked by the driver on the text. *)
Definition single_span (tbl : table) (sys : system) (t : bytes) : res (option span) :=
  match parse_constraint (pv_of tbl) sys t with
  | Ok c => Ok (match set_span (c_set c) with [s] => Some s | _ => None end)
  | Err _ => Ok None
  | Panic p => Panic p
  | OutOfFuel => OutOfFuel
  end.

Fixpoint conj_region (tbl : table) (sys : system) (cur : span) (texts : list sx) : res (option span) :=
  match texts with
  | [] => Ok (Some cur)
  | SB t :: rest =>
      o <- single_span tbl sys t;;
      match o with
      | None => Ok None
      | Some s0 =>
          if Inter_proofs.good_span_b sys cur && Inter_proofs.good_span_b sys s0 && Inter_proofs.no_point_contact_b sys cur s0 then
            match inter_row cur [s0] with
            | Ok [r] => conj_region tbl sys r rest
            | Ok _ => Ok None
            | Err _ => Ok None
            | Panic p => Panic p
            | OutOfFuel => OutOfFuel
            end
          else Ok None
      end
  | _ :: _ => Ok None
  end.

Fixpoint disj_region (tbl : table) (sys : system) (alts : list sx) : res (option (list span)) :=
  match alts with
  | [] => Ok (Some [])
  | SL (SB t0 :: texts) :: rest =>
      o <- single_span tbl sys t0;;
      match o with
      | None => Ok None
      | Some s0 =>
          r <- conj_region tbl sys s0 texts;;
          r2 <- disj_region tbl sys rest;;
          Ok (match r, r2 with Some x, Some l => Some (x :: l) | _, _ => None end)
      end
  | _ :: _ => Ok None
  end.

Definition c03_region (tbl : table) (sys : system) (alts : list sx) : res bool :=
  r <- disj_region tbl sys alts;;
  Ok (match r with
      | Some [x] => true                 (* one alternative: canon leaves a single span alone *)
      | Some (x :: l) => Set_proofs.c09_dom_b sys (x :: l)
      | _ => false
      end).

Definition k_creqseq : bytes := [99;114;101;113;115;101;113]%N.

(* one resolve.MatchRequirement call: membership of every candidate.  The model has no state:
   every call is answered from its own arguments. *)
Definition req_call (call : sx) : res sx :=
  match call with
  | SL [SI sysi; SB text; SL cands; SL tb] =>
      match sys_of_index sysi, decode_table tb with
      | Some sys, Some tbl =>
          pc <- (match parse_constraint (pv_of tbl) sys text with
                 | Ok c => Ok (Some c) | Err _ => Ok None | Panic p => Panic p | OutOfFuel => OutOfFuel end);;
          bits <- map_res (fun t => match t with
                                    | SB cand =>
                                        match pc with
                                        | None => Ok (sx_bool (bytes_eqb cand text))
                                        | Some c => b0 <- match_string (pv_of tbl) c cand;; Ok (sx_bool b0)
                                        end
                                    | _ => Panic PExplicit end) cands;;
          Ok (SL [SL bits; SL bits])
      | _, _ => Panic PExplicit
      end
  | _ => Panic PExplicit
  end.

Definition k_setdiag : bytes := [115;101;116;100;105;97;103]%N.
Definition k_cdiag : bytes := [99;100;105;97;103]%N.

Definition k_ctok : bytes := [99;116;111;107]%N.
Definition k_pconstraint : bytes := [112;99;111;110;115;116;114;97;105;110;116]%N.
Definition k_cmatch : bytes := [99;109;97;116;99;104]%N.
Definition k_setop : bytes := [115;101;116;111;112]%N.
Definition k_setrt : bytes := [115;101;116;114;116]%N.

Definition oom : sx := SL [SB sym_oom].

Definition run_Constraint (kind : bytes) (a : sx) : option sx :=
  if bytes_eqb kind k_ctok then
    Some (match a with
          | SL [SI sysi; SB text] =>
              match sys_of_index sysi with
              | Some sys => sx_out (r <- tokens 200 sys text;; Ok (SL r))
              | None => badcase
              end
          | _ => badcase end)
  else if bytes_eqb kind k_pconstraint then
    Some (match a with
          | SL [SI sysi; SB text; SL tb] =>
              match sys_of_index sysi, decode_table tb with
              | Some sys, Some tbl =>
                  if negb (is_ascii_edge text) then oom else
                  sx_out (c <- parse_constraint (pv_of tbl) sys text;;
                          str <- set_string (c_set c);;
                          Ok (SL [SB sym_ok; sx_bool (c_simple c); SB str; sx_set (c_set c)]))
              | _, _ => badcase
              end
          | _ => badcase end)
  else if bytes_eqb kind k_cmatch then
    Some (match a with
          | SL [SI sysi; SB text; SL probes; SL tb] =>
              match sys_of_index sysi, decode_table tb with
              | Some sys, Some tbl =>
                  if negb (is_ascii_edge text) then oom else
                  sx_out (c <- parse_constraint (pv_of tbl) sys text;;
                          ps <- parse_probes tbl sys probes;;
                          rows <- map_res (fun ot => let '(o, t) := ot in
                                                    ms <- (match t with
                                                           | SB text =>
                                                               match match_string (pv_of tbl) c text with
                                                               | Ok b0 => Ok (sx_bool b0)
                                                               | Err _ => Ok (SI 0)
                                                               | Panic p => Panic p
                                                               | OutOfFuel => OutOfFuel
                                                               end
                                                           | _ => Panic PExplicit end);;
                                                    let mr := if sys_eqb sys SNPM || sys_eqb sys SMaven || sys_eqb sys SPyPI then ms else SI (-1) in
                                                    match o with
                                                    | None => Ok (SL [SB s_verr; ms; mr])
                                                    | Some v =>
                                                        m <- match_version c v;;
                                                        mp <- match_version_prerelease c v;;
                                                        sm <- set_match_version (c_set c) v false;;
                                                        Ok (SL [sx_bool m; sx_bool mp; sx_bool sm; ms; mr])
                                                    end) (combine ps probes);;
                          Ok (SL [SB sym_ok; SL rows]))
              | _, _ => badcase
              end
          | _ => badcase end)
  else if bytes_eqb kind k_setop then
    Some (match a with
          | SL [SI sysi; SB ta; SB tb_; SL probes; SL tb] =>
              match sys_of_index sysi, decode_table tb with
              | Some sys, Some tbl =>
                  if negb (is_ascii_edge ta && is_ascii_edge tb_) then oom else
                  sx_out (ca <- parse_constraint (pv_of tbl) sys ta;;
                          cb <- parse_constraint (pv_of tbl) sys tb_;;
                          setop_body tbl sys (c_set ca) (c_set cb) probes)
              | _, _ => badcase
              end
          | _ => badcase end)
  else if bytes_eqb kind k_setrt then
    Some (match a with
          | SL [SI sysi; SB text; SL probes; SL tb] =>
              match sys_of_index sysi, decode_table tb with
              | Some sys, Some tbl =>
                  if negb (is_ascii_edge text) then oom else
                  sx_out (c <- parse_constraint (pv_of tbl) sys text;;
                          s1 <- set_string (c_set c);;
                          c2 <- (match parse_set_constraint (pv_of tbl) sys s1 with
                                 | Ok x => Ok (Some x) | Err _ => Ok None | Panic p => Panic p | OutOfFuel => OutOfFuel end);;
                          r <- (match c2 with
                                | None => Ok (SL [SB sym_err])
                                | Some x => s2 <- set_string (c_set x);;
                                            Ok (SL [SB sym_ok; SB s2; sx_bool (c_simple x); sx_set (c_set x)])
                                end);;
                          ps <- parse_probes tbl sys probes;;
                          rows <- map_res (fun o => match o with
                                                    | None => Ok (SL [SB s_verr])
                                                    | Some v =>
                                                        oi <- match_version_prerelease c v;;
                                                        oe <- match_version c v;;
                                                        ri <- (match c2 with None => Ok (SI (-1))
                                                                           | Some x => b <- match_version_prerelease x v;; Ok (sx_bool b) end);;
                                                        re <- (match c2 with None => Ok (SI (-1))
                                                                           | Some x => b <- match_version x v;; Ok (sx_bool b) end);;
                                                        Ok (SL [sx_bool oi; ri; sx_bool oe; re])
                                                    end) ps;;
                          Ok (SL [SB sym_ok; SB s1; r; SL rows]))
              | _, _ => badcase
              end
          | _ => badcase end)
  else if bytes_eqb kind k_creqseq then
    Some (match a with
          | SL calls => sx_out (r <- map_res req_call calls;; Ok (SL [SB sym_ok; SL r]))
          | _ => badcase end)
  else if bytes_eqb kind k_setop_d then
    Some (match a with
          | SL [SI sysi; da; db; SL probes; SL tb] =>
              match sys_of_index sysi, decode_set da, decode_set db, decode_table tb with
              | Some sys, Some sa, Some sb, Some tbl => sx_out (setop_body tbl sys sa sb probes)
              | _, _, _, _ => badcase
              end
          | _ => badcase end)
  else if bytes_eqb kind k_setrt_d then
    Some (match a with
          | SL [SI sysi; da; SL probes; SL tb] =>
              match sys_of_index sysi, decode_set da, decode_table tb with
              | Some sys, Some st, Some tbl => sx_out (setrt_body tbl sys st probes)
              | _, _, _ => badcase
              end
          | _ => badcase end)
  else if bytes_eqb kind k_setdiag_d then
    Some (match a with
          | SL [da; db] =>
              match decode_set da, decode_set db with
              | Some sa, Some sb =>
                  sx_out (eu <- union_events sa sb;; ei <- inter_events sa sb;;
                          eu' <- union_events sb sa;; ei' <- inter_events sb sa;;
                          eau <- union_events sa sa;; eai <- inter_events sa sa;;
                          Ok (SL [SB sym_ok; SL eu; SL ei; SL eu'; SL ei';
                                  sx_bool (union_region sa sb && union_region sb sa);
                                  sx_bool (inter_region sa sb && inter_region sb sa);
                                  SL eau; SL eai]))
              | _, _ => badcase
              end
          | _ => badcase end)
  else if bytes_eqb kind k_setdiag then
    Some (match a with
          | SL [SI sysi; SB ta; SB tb_; SL tb] =>
              match sys_of_index sysi, decode_table tb with
              | Some sys, Some tbl =>
                  if negb (is_ascii_edge ta && is_ascii_edge tb_) then oom else
                  sx_out (ca <- parse_constraint (pv_of tbl) sys ta;;
                          cb <- parse_constraint (pv_of tbl) sys tb_;;
                          eu <- union_events (c_set ca) (c_set cb);;
                          ei <- inter_events (c_set ca) (c_set cb);;
                          eu' <- union_events (c_set cb) (c_set ca);;
                          ei' <- inter_events (c_set cb) (c_set ca);;
                          Ok (SL [SB sym_ok; SL eu; SL ei; SL eu'; SL ei']))
              | _, _ => badcase
              end
          | _ => badcase end)
  else if bytes_eqb kind k_cdiag then
    Some (match a with
          | SL [SI sysi; SL alts; SL tb] =>
              match sys_of_index sysi, decode_table tb with
              | Some sys, Some tbl =>
                  sx_out (r <- disj_events tbl sys alts;;
                          ev <- canon_events (fst r);;
                          reg <- c03_region tbl sys alts;;
                          Ok (SL [SB sym_ok; SL (snd r ++ ev); sx_bool reg]))
              | _, _ => badcase
              end
          | _ => badcase end)
  else None.
