(* Cases for the model of schema.ParseResolve (kind names match harness/go/cmd/implrun/schemaresolve.go).
     parseresolve_model   (system text) -> ("err") | ("ok" nodes edges error), the graph in the syntax of CasesGraph
   The model of ParseResolve (Resolve/SchemaResolve.v) is instantiated with
     trim          := Pep440Parse.trim_space (strings.TrimSpace, Unicode aware),
     parse_deptype := Attr.dep_parse (the model of deptest.ParseString of C19) folded with dtype_add,
   and composed with Graph.canon_current (the model of Graph.Canon of C13), because the Go function
   only returns the canonical graph.  Attr.dep_parse answers "outside the modelled fragment" for
   non-ASCII text: the model is run once taking that answer as an error and once as success, and the
   case is "oom" (skipped and counted) when the two runs differ. *)
From DepsDev Require Import Lib.Base Lib.Sx Resolve.Attr Resolve.Graph Semver.Pep440Parse
  Resolve.SchemaResolve Extract.CasesGraph.

Fixpoint dtype_of_additions (d : dtype) (ps : pairs) : option dtype :=
  match ps with
  | [] => Some d
  | (k, v) :: rest => match dtype_add d k v with Ok d' => dtype_of_additions d' rest | _ => None end
  end.

Definition schema_parse_dep (oom_ok : bool) (s : bytes) : option dtype :=
  match dep_parse s with
  | PVal ps => dtype_of_additions (0, []) ps
  | PErr => None
  | POom => if oom_ok then Some (0, []) else None
  end.

Definition schema_run (oom_ok : bool) (sys : N) (text : bytes) : res graph :=
  g <- parse_resolve_graph Pep440Parse.trim_space (schema_parse_dep oom_ok) sys text ;;
  canon_current g.

Definition run_Schema (kind : bytes) (a : sx) : option sx :=
  if bytes_eqb kind [112;97;114;115;101;114;101;115;111;108;118;101;95;109;111;100;101;108] (* parseresolve_model *) then
    Some (match a with
          | SL [SI sys; SB text] =>
              let r1 := sx_graph_res (schema_run false (Z.to_N sys) text) in
              let r2 := sx_graph_res (schema_run true (Z.to_N sys) text) in
              if sx_eqb r1 r2 then r1 else SB sym_oom
          | _ => badcase
          end)
  else None.
