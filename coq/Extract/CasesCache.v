(* Harness access to the LRU model of Lib/Cache.v (kind lru_ops; Go side: implrun/lru.go through the
   hook pypi.VerifLRU).  Keys and values are integers. *)
From Coq Require Import List ZArith.
From DepsDev Require Import Lib.Base Lib.Sx Lib.Cache.
Import ListNotations.

(* ops: (0 k v) = Add, (1 k) = Get -> value or -1 when absent; the capacity is at least 1 *)
Fixpoint lru_ops (n : nat) (c : list (Z * Z)) (ops : list sx) : list sx :=
  match ops with
  | [] => []
  | SL [SI 0%Z; SI k; SI v] :: rest => lru_ops n (lru_add Z.eqb n c k v) rest
  | SL [SI 1%Z; SI k] :: rest =>
      let '(o, c') := lru_get Z.eqb c k in
      SI (match o with Some v => v | None => (-1)%Z end) :: lru_ops n c' rest
  | _ :: rest => badcase :: lru_ops n c rest
  end.

Definition run_Cache (kind : bytes) (a : sx) : option sx :=
  if bytes_eqb kind [108;114;117;95;111;112;115]%N (* lru_ops *) then
    Some (match a with
          | SL [SI n; SL ops] => if (n <? 1)%Z then badcase else SL (lru_ops (Z.to_nat n) [] ops)
          | _ => badcase end)
  else None.
