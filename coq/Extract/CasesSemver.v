(* Decoding of harness cases for the semver model (kinds match harness/go/cmd/implrun/semver.go). *)
From DepsDev Require Import Lib.Base Lib.Sx Semver.Version Semver.Maven Semver.Gem Semver.Pep440 Semver.Compare Semver.Parse.
Local Open Scope Z_scope.

Fixpoint decode_zs (l : list sx) : option (list Z) :=
  match l with
  | [] => Some []
  | SI z :: t => match decode_zs t with Some r => Some (z :: r) | None => None end
  | _ => None
  end.
Fixpoint decode_bs (l : list sx) : option (list bytes) :=
  match l with
  | [] => Some []
  | SB b :: t => match decode_bs t with Some r => Some (b :: r) | None => None end
  | _ => None
  end.

Fixpoint decode_mvn (l : list sx) : option (list mvn_elem) :=
  match l with
  | [] => Some []
  | SL [SI sep; SB s; SI i] :: t =>
      match decode_mvn t with
      | Some r => Some ({| me_sep := Z.to_N sep; me_str := s; me_int := i |} :: r)
      | None => None end
  | _ => None
  end.
Fixpoint decode_gem (l : list sx) : option (list gem_elem) :=
  match l with
  | [] => Some []
  | SL [SB s; SI i] :: t =>
      match decode_gem t with
      | Some r => Some ({| ge_str := s; ge_int := i |} :: r)
      | None => None end
  | _ => None
  end.

Definition decode_ext (e : sx) : option extension :=
  match e with
  | SL [SI 0] => Some NoExt
  | SL (SI 1 :: l) => match decode_mvn l with Some r => Some (MavenExt r) | None => None end
  | SL [SI 2] => Some (Pep440Ext None)
  | SL [SI 2; SL [SI ep; SB pre; SI pn; SI post; SI postn; SI dev; SI devn; SB loc]] =>
      Some (Pep440Ext (Some {| p_epoch := ep; p_pre := pre; p_prenum := pn; p_post := negb (post =? 0);
                               p_postnum := postn; p_dev := negb (dev =? 0); p_devnum := devn; p_local := loc |}))
  | SL (SI 3 :: l) => match decode_gem l with Some r => Some (GemExt r) | None => None end
  | _ => None
  end.

Definition decode_version (d : sx) : option version :=
  match d with
  | SL [SI sys; SI unc; SI isp; SB str; SL nums; SL pre; SB build; ext] =>
      match sys_of_index sys, decode_zs nums, decode_bs pre, decode_ext ext with
      | Some s, Some ns, Some ps, Some e =>
          Some {| v_sys := s; v_user_num_count := unc; v_is_prerelease := negb (isp =? 0); v_str := str;
                  v_num := ns; v_pre := ps; v_build := build; v_ext := e |}
      | _, _, _, _ => None
      end
  | _ => None
  end.

Definition sx_zres (r : res Z) : sx := sx_res SI r.

(* the shape printed by semver.VerifDump *)
Definition sx_ext (e : extension) : sx :=
  match e with
  | NoExt => SL [SI 0]
  | MavenExt l => SL (SI 1 :: map (fun x => SL [SI (Z.of_N (me_sep x)); SB (me_str x); SI (me_int x)]) l)
  | Pep440Ext None => SL [SI 2]
  | Pep440Ext (Some x) =>
      SL [SI 2; SL [SI (p_epoch x); SB (p_pre x); SI (p_prenum x); sx_bool (p_post x); SI (p_postnum x);
                    sx_bool (p_dev x); SI (p_devnum x); SB (p_local x)]]
  | GemExt l => SL (SI 3 :: map (fun x => SL [SB (ge_str x); SI (ge_int x)]) l)
  end.

Definition sx_version (v : version) : sx :=
  SL [SI (sys_index (v_sys v)); SI (v_user_num_count v); sx_bool (v_is_prerelease v); SB (v_str v);
      SL (map SI (v_num v)); SL (map SB (v_pre v)); SB (v_build v); sx_ext (v_ext v)].

Definition is_family (s : system) : bool :=
  match s with SDefault | SCargo | SGo | SNPM | SNuGet | SComposer => true | _ => false end.

Definition run_Semver (kind : bytes) (a : sx) : option sx :=
  if bytes_eqb kind [115;118;109;95;99;109;112]%N (* svm_cmp *) then
    Some (match a with
          | SL [da; db] =>
              match decode_version da, decode_version db with
              | Some va, Some vb => sx_zres (compare va vb)
              | _, _ => badcase
              end
          | _ => badcase end)
  else if bytes_eqb kind [115;118;109;95;99;97;110;111;110]%N (* svm_canon *) then
    Some (match a with
          | SL [d; SI sb] =>
              match decode_version d with
              | Some v => SB (canon (negb (sb =? 0)) v)
              | None => badcase
              end
          | _ => badcase end)
  else if bytes_eqb kind [115;118;109;95;112;97;114;115;101]%N (* svm_parse *) then
    Some (match a with
          | SL [SI sys; SB str] =>
              match sys_of_index sys with
              | Some s => if is_family s then sx_res sx_version (parse s str) else SB sym_oom
              | None => badcase
              end
          | _ => badcase end)
  else if bytes_eqb kind [115;118;109;95;112;97;114;115;101;105]%N (* svm_parsei: internal parse, infinity allowed *) then
    Some (match a with
          | SL [SI sys; SB str] =>
              match sys_of_index sys with
              | Some s => if is_family s then sx_res sx_version (parse_internal s true str) else SB sym_oom
              | None => badcase
              end
          | _ => badcase end)
  else None.
