(* Decoding of harness cases for the API-client model (kinds match harness/go/cmd/implrun/apiclient.go).

   api : [U table ops] -> one answer per op, one client for the whole history.
     U      = [ [pkg ...] ]
     pkg    = [ name fail [ver ...] ]
     ver    = [ version isdefault deps [bundle ...] ]
     deps   = [ [dep ...] [dep ...] [dep ...] [dep ...] [name ...] ]
     dep    = [ name requirement ]
     bundle = [ path name version deps ]
     table  = [ [name req [version ...]] ... ]    resolve.MatchRequirement tabulated by the Go side
     op     = [0 name version] Version | [1 name] Versions | [2 name version] Requirements | [3 name req] MatchingVersions
   api_tracewf : [ops] -> 1 when the call sequence obeys the trace discipline.
   api_wf : U -> per version, the hypotheses wf_reqs / plain / no > in the version, evaluated by the model.
   (square brackets stand for sx lists) *)
From DepsDev Require Import Lib.Base Lib.Sx Gen.AttrTables Gen.ApiClientTables Resolve.ApiClient.

Fixpoint key_of (tbl : list (bytes * Z)) (name : bytes) : Z :=
  match tbl with
  | [] => 0%Z
  | (n, k) :: t => if bytes_eqb n name then k else key_of t name
  end.

Definition k_dev : Z := key_of dep_keys [68;101;118].
Definition k_opt : Z := key_of dep_keys [79;112;116].
Definition k_scope : Z := key_of dep_keys [83;99;111;112;101].
Definition k_known_as : Z := key_of dep_keys [75;110;111;119;110;65;115].
Definition k_derived_from : Z := key_of ver_keys [68;101;114;105;118;101;100;70;114;111;109].
Definition k_tags : Z := key_of ver_keys [84;97;103;115].

(* ------------------------------------------------------------------ decoding *)

Definition opt_map {A B} (f : A -> option B) (l : list A) : option (list B) :=
  fold_right (fun e acc => match f e, acc with Some x, Some r => Some (x :: r) | _, _ => None end) (Some []) l.

Definition dec_dep (a : sx) : option dependency :=
  match a with SL [SB n; SB r] => Some (Dep n r) | _ => None end.
Definition dec_bytes (a : sx) : option bytes := match a with SB b => Some b | _ => None end.

Definition dec_deps (a : sx) : option dependencies :=
  match a with
  | SL [SL d0; SL d1; SL d2; SL d3; SL bn] =>
      match opt_map dec_dep d0, opt_map dec_dep d1, opt_map dec_dep d2, opt_map dec_dep d3, opt_map dec_bytes bn with
      | Some a0, Some a1, Some a2, Some a3, Some b => Some (Deps a0 a1 a2 a3 b)
      | _, _, _, _, _ => None
      end
  | _ => None
  end.

Definition dec_bundle (a : sx) : option bundle :=
  match a with
  | SL [SB p; SB n; SB v; d] => match dec_deps d with Some ds => Some (Bundle p n v ds) | None => None end
  | _ => None
  end.

Record uver := UVer { uv_version : bytes; uv_default : bool; uv_reqs : npm_reqs }.
Record upkg := UPkg { up_name : bytes; up_fail : Z; up_vers : list uver }.

Definition dec_ver (a : sx) : option uver :=
  match a with
  | SL [SB v; SI d; ds; SL bs] =>
      match dec_deps ds, opt_map dec_bundle bs with
      | Some x, Some y => Some (UVer v (negb (d =? 0)%Z) (NpmReqs x y))
      | _, _ => None
      end
  | _ => None
  end.

Definition dec_pkg (a : sx) : option upkg :=
  match a with
  | SL [SB n; SI f; SL vs] => match opt_map dec_ver vs with Some l => Some (UPkg n f l) | None => None end
  | _ => None
  end.

(* the optional second element (how the service spells keys in its answers) does not concern the
   model: the service record carries no keys, the client uses the key it was asked with *)
Definition dec_universe (a : sx) : option (list upkg) :=
  match a with
  | SL [SL ps] => opt_map dec_pkg ps
  | SL [SL ps; SI _] => opt_map dec_pkg ps
  | _ => None
  end.

(* the hypotheses of the theorems, evaluated on a universe: per version
   [name version wf_reqs plain(name) no->-in-version] *)
Definition wf_report (u : list upkg) : sx :=
  SL (flat_map (fun p =>
        map (fun x => SL [SB (up_name p); SB (uv_version x);
                          sx_bool (wf_reqs (up_name p) (uv_version x) (uv_reqs x));
                          sx_bool (negb (is_npm_bundle (up_name p)));
                          sx_bool (negb (contains_byte c_gt (uv_version x)))])
            (up_vers p)) u).

(* ------------------------------------------------------------------ the fake service as data *)

Fixpoint find_pkg (u : list upkg) (n : bytes) : option upkg :=
  match u with [] => None | p :: r => if bytes_eqb (up_name p) n then Some p else find_pkg r n end.
Fixpoint find_ver (l : list uver) (v : bytes) : option uver :=
  match l with [] => None | x :: r => if bytes_eqb (uv_version x) v then Some x else find_ver r v end.

Definition svc_of (u : list upkg) : service :=
  Service
    (fun n => match find_pkg u n with
              | None => Err ENotFound
              | Some p => if Z.testbit (up_fail p) 0 then Err EOther
                          else Ok (map (fun v => (uv_version v, uv_default v)) (up_vers p))
              end)
    (fun n v => match find_pkg u n with
                | None => Err ENotFound
                | Some p => if Z.testbit (up_fail p) 1 then Err EOther
                            else match find_ver (up_vers p) v with
                                 | None => Err ENotFound
                                 | Some x => Ok (uv_default x)
                                 end
                end)
    (fun n v => match find_pkg u n with
                | None => Err ENotFound
                | Some p => if Z.testbit (up_fail p) 2 then Err EOther
                            else match find_ver (up_vers p) v with
                                 | None => Err ENotFound
                                 | Some x => Ok (uv_reqs x)
                                 end
                end).

(* ------------------------------------------------------------------ the semver oracle as a table *)

Definition mtable := list (bytes * bytes * list bytes).

Definition dec_trow (a : sx) : option (bytes * bytes * list bytes) :=
  match a with
  | SL [SB n; SB r; SL vs] => match opt_map dec_bytes vs with Some l => Some (n, r, l) | None => None end
  | _ => None
  end.

Fixpoint table_get (t : mtable) (n r : bytes) : option (list bytes) :=
  match t with
  | [] => None
  | (n', r', vs) :: rest => if bytes_eqb n n' && bytes_eqb r r' then Some vs else table_get rest n r
  end.

Fixpoint pick_version (vs : list version) (s : bytes) : list version :=
  match vs with
  | [] => []
  | v :: r => if bytes_eqb (vk_version (v_key v)) s then [v] else pick_version r s
  end.

Definition match_of (t : mtable) (vk : vkey) (vs : list version) : list version :=
  match table_get t (vk_name vk) (vk_version vk) with
  | Some strs => flat_map (pick_version vs) strs
  | None => []
  end.

(* ------------------------------------------------------------------ projections *)

Definition sx_vkey (k : vkey) : sx :=
  SL [SI api_system_npm; SB (vk_name k); SI (Z.of_N (vk_type k)); SB (vk_version k)].

(* the harness dumps attributes as: the single-bit flag keys -1 -2 -4 ... that are set, then the
   valued keys in ascending order *)
Definition flag_bits : list Z := [-1; -2; -4; -8; -16; -32; -64; -128]%Z.

Definition insert_pair (p : Z * bytes) (l : list (Z * bytes)) : list (Z * bytes) :=
  (fix ins l := match l with
                | [] => [p]
                | q :: r => if (fst p <? fst q)%Z then p :: l else q :: ins r
                end) l.

Definition sx_attrs (flags : list (Z * bool)) (valued : list (Z * option bytes)) : sx :=
  let fl := flat_map (fun b => if existsb (fun f => (fst f =? b)%Z && snd f) flags then [SL [SI b; SB []]] else []) flag_bits in
  let vs := fold_right (fun kv acc => match snd kv with Some v => insert_pair (fst kv, v) acc | None => acc end) [] valued in
  SL (fl ++ map (fun p => SL [SI (fst p); SB (snd p)]) vs).

Definition sx_deptype (t : deptype) : sx :=
  sx_attrs [(k_dev, dt_dev t); (k_opt, dt_opt t)] [(k_scope, dt_scope t); (k_known_as, dt_known_as t)].

Definition sx_version (v : version) : sx :=
  SL [sx_vkey (v_key v); sx_attrs [] [(k_tags, v_tags v); (k_derived_from, v_derived v)]].

(* a requirement: key, attributes, IsRegular, and "indistinguishable from the same type built from
   the zero value" (always 1 in the model: Properties/C18_deptype.v, C18_dep_type_equal) *)
Definition sx_reqver (r : reqver) : sx :=
  SL [sx_vkey (rv_key r); sx_deptype (rv_type r); sx_bool (is_regular (rv_type r)); sx_bool true].

Definition sym_notfound : bytes := [110;111;116;102;111;117;110;100].

Definition sx_result {A} (f : A -> sx) (r : res A) : sx :=
  match r with
  | Ok a => SL [SB sym_ok; f a]
  | Err e => if (e =? ENotFound)%N then SL [SB sym_notfound] else SL [SB sym_err]
  | Panic _ => SL [SB sym_panic]
  | OutOfFuel => SL [SB sym_fuel]
  end.

Definition sx_answer (a : answer) : sx :=
  match a with
  | AVersion r => sx_result sx_version r
  | AVersions r => sx_result (fun l => SL (map sx_version l)) r
  | ARequirements r => sx_result (fun l => SL (map sx_reqver l)) r
  end.

Definition dec_op (a : sx) : option op :=
  match a with
  | SL [SI 0%Z; SB n; SB v] => Some (OVersion (VK n Concrete v))
  | SL [SI 1%Z; SB n] => Some (OVersions n)
  | SL [SI 2%Z; SB n; SB v] => Some (ORequirements (VK n Concrete v))
  | SL [SI 3%Z; SB n; SB v] => Some (OMatching (VK n Requirement v))
  | _ => None
  end.

(* a MatchingVersions call on a plain name needs the oracle table to hold its row *)
Definition op_in_table (t : mtable) (o : op) : bool :=
  match o with
  | OMatching vk =>
      if is_npm_bundle (vk_name vk) then true
      else match table_get t (vk_name vk) (vk_version vk) with Some _ => true | None => false end
  | _ => true
  end.

Fixpoint run_history (svc : service) (t : mtable) (st : state) (ops : list op) : list sx :=
  match ops with
  | [] => []
  | o :: rest =>
      let '(a, st') := step svc (match_of t) st o in
      (if op_in_table t o then sx_answer a else SB sym_oom) :: run_history svc t st' rest
  end.

Definition run_Api (kind : bytes) (a : sx) : option sx :=
  if bytes_eqb kind [97;112;105] (* api *) then
    Some (match a with
          | SL [u; SL trows; SL ops] =>
              match dec_universe u, opt_map dec_trow trows, opt_map dec_op ops with
              | Some pkgs, Some t, Some os => SL (run_history (svc_of pkgs) t [] os)
              | _, _, _ => badcase
              end
          | _ => badcase
          end)
  else if bytes_eqb kind [97;112;105;95;119;102] (* api_wf *) then
    Some (match dec_universe a with Some pkgs => wf_report pkgs | None => badcase end)
  else if bytes_eqb kind [97;112;105;95;116;114;97;99;101;119;102] (* api_tracewf *) then
    Some (match a with
          | SL ops => match opt_map dec_op ops with
                      | Some os => sx_bool (trace_wf [] os)
                      | None => badcase
                      end
          | _ => badcase
          end)
  else None.
