(* Harness glue for the npm resolver model (kind npm; Go side: harness/go/cmd/implrun/npmres.go).
   A case is the root plus the finite client table recorded during the Go resolution:
     (fuel (name type ver) VERSION-TABLE REQUIREMENTS-TABLE MATCHING-TABLE SEMVER-TABLE)
   A question the table lacks is answered with an error (as the Go table client does).
   The result is the projected observable: install tree in the canonical preorder of the Go
   hook, graph edges and node errors expressed over tree positions, graph-wide error items. *)
From DepsDev Require Import Lib.Base Lib.Sx Resolve.Npm.

(* ---------- decoding ---------- *)
Definition dec_vkey (a : sx) : option vkey :=
  match a with
  | SL [SB n; SI t; SB v] => Some (VK n (Z.to_N t) v)
  | _ => None
  end.

Fixpoint dec_attrs (l : list sx) : option attrs :=
  match l with
  | [] => Some []
  | SL [SI k; SB v] :: l' => match dec_attrs l' with Some r => Some ((k, v) :: r) | None => None end
  | _ => None
  end.

Definition dec_version (a : sx) : option version :=
  match a with
  | SL [k; SL at_] => match dec_vkey k, dec_attrs at_ with Some k', Some a' => Some (V k' a') | _, _ => None end
  | _ => None
  end.

Definition dec_req (a : sx) : option req :=
  match a with
  | SL [k; SL at_] => match dec_vkey k, dec_attrs at_ with Some k', Some a' => Some (R k' a') | _, _ => None end
  | _ => None
  end.

Fixpoint dec_list {A} (f : sx -> option A) (l : list sx) : option (list A) :=
  match l with
  | [] => Some []
  | x :: l' => match f x, dec_list f l' with Some y, Some r => Some (y :: r) | _, _ => None end
  end.

Definition is_sym (s : bytes) (a : sx) : bool := match a with SB b => bytes_eqb b s | _ => false end.
Definition sym_nf : bytes := [110;102].

(* an answer: ("ok" X) | ("nf") | ("err") *)
Definition dec_answer {A} (f : sx -> option A) (a : sx) : option (res A) :=
  match a with
  | SL [tag; x] => if is_sym sym_ok tag then match f x with Some y => Some (Ok y) | None => None end else None
  | SL [tag] => if is_sym sym_nf tag then Some (Err E_NotFound)
                else if is_sym sym_err tag then Some (Err E_Other) else None
  | _ => None
  end.

Definition dec_table {A} (f : sx -> option A) (a : sx) : option (list (vkey * res A)) :=
  match a with
  | SL l => dec_list (fun e => match e with
                               | SL [k; ans] => match dec_vkey k, dec_answer f ans with
                                                | Some k', Some r => Some (k', r)
                                                | _, _ => None
                                                end
                               | _ => None
                               end) l
  | _ => None
  end.

Definition dec_sem (a : sx) : option (list (bytes * bool * list (bytes * bool))) :=
  match a with
  | SL l => dec_list (fun e => match e with
                               | SL [SB c; SI ok; SL vs] =>
                                   match dec_list (fun p => match p with
                                                            | SL [SB v; SI m] => Some (v, negb (m =? 0)%Z)
                                                            | _ => None end) vs with
                                   | Some vs' => Some (c, negb (ok =? 0)%Z, vs')
                                   | None => None
                                   end
                               | _ => None
                               end) l
  | _ => None
  end.

Fixpoint tbl_lookup {A} (t : list (vkey * res A)) (k : vkey) : res A :=
  match t with
  | [] => Err E_Other
  | (k', r) :: t' => if vkey_eqb k k' then r else tbl_lookup t' k
  end.

Fixpoint sem_lookup (t : list (bytes * bool * list (bytes * bool))) (c v : bytes) : res bool :=
  match t with
  | [] => Err E_Other
  | (c', ok, vs) :: t' =>
      if bytes_eqb c c' then
        if ok then match assoc v vs with Some m => Ok m | None => Err E_Other end
        else Err E_Other
      else sem_lookup t' c v
  end.

(* ---------- observables ---------- *)
Definition sx_vkey (k : vkey) : sx := SL [SB (vk_name k); SI (Z.of_N (vk_type k)); SB (vk_ver k)].
Definition sx_attrs (a : attrs) : sx := SL (map (fun p => SL [SI (fst p); SB (snd p)]) a).

(* a total order on sx values (ints < bytes < lists), mirrored by sxCompare in npmres.go *)
Fixpoint sx_cmp (a b : sx) {struct a} : Z :=
  match a, b with
  | SI x, SI y => match Z.compare x y with Lt => (-1)%Z | Eq => 0%Z | Gt => 1%Z end
  | SI _, _ => (-1)%Z
  | SB _, SI _ => 1%Z
  | SB x, SB y => bytes_compare x y
  | SB _, SL _ => (-1)%Z
  | SL x, SL y =>
      (fix go (x y : list sx) {struct x} : Z :=
         match x, y with
         | [], [] => 0%Z
         | [], _ :: _ => (-1)%Z
         | _ :: _, [] => 1%Z
         | a' :: x', b' :: y' => let c := sx_cmp a' b' in if (c =? 0)%Z then go x' y' else c
         end) x y
  | SL _, _ => 1%Z
  end.

Fixpoint sx_insert (x : sx) (l : list sx) : list sx :=
  match l with
  | [] => [x]
  | y :: l' => if (sx_cmp x y <=? 0)%Z then x :: l else y :: sx_insert x l'
  end.
Definition sx_sort (l : list sx) : list sx := fold_right sx_insert [] l.

Fixpoint kv_insert (x : bytes * nat) (l : list (bytes * nat)) : list (bytes * nat) :=
  match l with
  | [] => [x]
  | y :: l' => if (bytes_compare (fst x) (fst y) <=? 0)%Z then x :: l else y :: kv_insert x l'
  end.
Definition kv_sort (l : list (bytes * nat)) : list (bytes * nat) := fold_right kv_insert [] l.

(* directory entries in the order of the Go hook: aliases (a:) then children (c:), each by name *)
Definition entries (n : tnode) : list nat := map snd (kv_sort (t_alias n)) ++ map snd (kv_sort (t_children n)).

(* preorder from the root; the accumulator is reversed, a node's position is its index *)
Fixpoint preorder (fuel : nat) (tree : list tnode) (tid : nat) (pidx : Z) (acc : list (nat * Z)) : list (nat * Z) :=
  match fuel with
  | O => acc
  | S f =>
      match nth_error tree tid with
      | None => acc
      | Some n =>
          let idx := Z.of_nat (length acc) in
          fold_left (fun acc c => preorder f tree c idx acc) (entries n) ((tid, pidx) :: acc)
      end
  end.

Fixpoint index_of_gid (tree : list tnode) (order : list (nat * Z)) (gid : nat) (i : Z) : Z :=
  match order with
  | [] => (-1)%Z
  | (tid, _) :: rest =>
      match nth_error tree tid with
      | Some n => if Nat.eqb (t_id n) gid then i else index_of_gid tree rest gid (i + 1)%Z
      | None => index_of_gid tree rest gid (i + 1)%Z
      end
  end.
Definition gid_index (tree : list tnode) (order : list (nat * Z)) (gid : nat) : Z :=
  match gid with O => 0%Z | _ => index_of_gid tree order gid 0%Z end.

Definition sx_gkey (g : graph) (id : nat) : sx :=
  match nth_error (g_nodes g) id with Some k => sx_vkey k | None => SL [] end.

Definition sx_tnode (tree : list tnode) (e : nat * Z) : sx :=
  match nth_error tree (fst e) with
  | None => SL []
  | Some n =>
      SL [SI (snd e); SB (t_pkg n); sx_vkey (v_key (t_ver n));
          sx_bool (negb (Nat.eqb (t_id n) 0) || match t_parent n with None => true | Some _ => false end);
          sx_bool (match t_bundled n with Some _ => true | None => false end);
          SL (map (fun p => SB (fst p)) (kv_sort (t_children n)));
          SL (map (fun p => SB (fst p)) (kv_sort (t_alias n)))]
  end.

(* diagnostic only (not compared): the reservation bookkeeping of a node *)
Definition sx_tnode_diag (tree : list tnode) (e : nat * Z) : sx :=
  match nth_error tree (fst e) with
  | None => SL []
  | Some n => SL [SL (map SB (sort_bytes (t_prot n))); SL (map SB (sort_bytes (t_aprot n)))]
  end.

(* ---------- the hypotheses of C06_unique_name / C06_lookup_partial as finite checks on a table ---------- *)
Definition no_derived_tbl (mt : list (vkey * res (list version))) : bool :=
  forallb (fun e => match snd e with
                    | Ok vs => forallb (fun v => negb (attr_has K_DerivedFrom (v_attr v))) vs
                    | _ => true end) mt.

Definition no_alias_tbl (rt : list (vkey * res (list req))) : bool :=
  forallb (fun e => match snd e with
                    | Ok ds => forallb (fun d => match r_alias d with [] => true | _ => false end) ds
                    | _ => true end) rt.

Definition names_tbl (mt : list (vkey * res (list version))) : bool :=
  forallb (fun e => match snd e with
                    | Ok vs => forallb (fun v => bytes_eqb (vk_name (v_key v)) (vk_name (fst e))) vs
                    | _ => true end) mt.

Fixpoint nodupb (l : list bytes) : bool :=
  match l with [] => true | x :: l' => negb (memb x l') && nodupb l' end.

Definition distinct_tbl (mt : list (vkey * res (list version))) (rt : list (vkey * res (list req))) : bool :=
  forallb (fun e => match snd e with
                    | Ok ds => nodupb (map r_name (regular_imports (tbl_lookup mt) ds))
                    | _ => true end) rt.

Definition sym_mark : bytes := [124].   (* "|": what follows is diagnostic, not compared *)

Definition sx_result (flags : list bool) (r : result) : sx :=
  let tree := r_tree r in
  let g := r_graph r in
  let order := rev (preorder (S (length tree)) tree O (-1)%Z []) in
  SL [SB sym_ok;
      SL (map (sx_tnode tree) order);
      SL (sx_sort (map (fun e => SL [SI (gid_index tree order (e_from e)); SI (gid_index tree order (e_to e));
                                     sx_gkey g (e_from e); sx_gkey g (e_to e); SB (e_req e); sx_attrs (e_type e)])
                       (g_edges g)));
      (* node errors: the node and the requirement; the error text (kind) is not compared *)
      SL (sx_sort (map (fun e => SL [SI (gid_index tree order (ne_node e)); sx_gkey g (ne_node e);
                                     sx_vkey (ne_req e)])
                       (g_errors g)));
      (* the graph-wide error: set or not (its text is never read) *)
      sx_bool (match r_gerror r with [] => false | _ => true end);
      SB sym_mark;
      SL (map (sx_tnode_diag tree) order);
      SL (map SB (r_gerror r));
      SL (map sx_bool flags)].

Definition run_npm (a : sx) : sx :=
  match a with
  | SL [SI fuel; root; vt; rt; mt; st] =>
      match dec_vkey root, dec_table dec_version vt,
            dec_table (fun x => match x with SL l => dec_list dec_req l | _ => None end) rt,
            dec_table (fun x => match x with SL l => dec_list dec_version l | _ => None end) mt,
            dec_sem st with
      | Some root', Some vt', Some rt', Some mt', Some st' =>
          match resolve (tbl_lookup vt') (tbl_lookup rt') (tbl_lookup mt') (sem_lookup st')
                        (Z.to_nat fuel) root' with
          | Ok r => sx_result [no_derived_tbl mt'; no_alias_tbl rt'; names_tbl mt'; distinct_tbl mt' rt'] r
          | Err _ => SL [SB sym_err]
          | Panic _ => SL [SB sym_panic]
          | OutOfFuel => SL [SB sym_fuel]
          end
      | _, _, _, _, _ => badcase
      end
  | _ => badcase
  end.

Definition run_Npm (kind : bytes) (a : sx) : option sx :=
  if bytes_eqb kind [110;112;109] (* npm *) then Some (run_npm a) else None.
