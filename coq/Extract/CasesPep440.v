(* Harness cases for the PEP 440 work package: the parser model, the canonical form
   round trip and (further down) the declarative specification.
   The dump printed for a parsed version has the shape of semver.VerifDump. *)
From DepsDev Require Import Lib.Base Lib.Sx Lib.Order Semver.Version Semver.Pep440 Semver.Pep440Parse Semver.Compare
  Spec.Pep440Spec Semver.Pep440Abs.
Local Open Scope Z_scope.

Definition enc_ext (e : extension) : sx :=
  match e with
  | NoExt => SL [SI 0]
  | MavenExt l => SL (SI 1 :: map (fun x => SL [SI (Z.of_N (me_sep x)); SB (me_str x); SI (me_int x)]) l)
  | Pep440Ext None => SL [SI 2]
  | Pep440Ext (Some x) =>
      SL [SI 2; SL [SI (p_epoch x); SB (p_pre x); SI (p_prenum x); sx_bool (p_post x); SI (p_postnum x);
                    sx_bool (p_dev x); SI (p_devnum x); SB (p_local x)]]
  | GemExt l => SL (SI 3 :: map (fun x => SL [SB (ge_str x); SI (ge_int x)]) l)
  end.

Definition enc_version (v : version) : sx :=
  SL [SI (sys_index (v_sys v)); SI (v_user_num_count v); sx_bool (v_is_prerelease v); SB (v_str v);
      SL (map SI (v_num v)); SL (map SB (v_pre v)); SB (v_build v); enc_ext (v_ext v)].

Definition enc_parse (r : res version) : sx := sx_res enc_version r.

(* the observable of Go's kind sv_canon, for PyPI *)
Definition canon_case (s : bytes) : sx :=
  match parse_pypi s with
  | Ok v =>
      let c1 := canon true v in
      let c0 := canon false v in
      let re :=
        match parse_pypi c1 with
        | Ok v2 => SL [SB sym_ok; enc_version v2;
                       match compare v v2 with Ok z => SI z | _ => SB sym_panic end;
                       SB (canon true v2)]
        | Err _ => SL [SB sym_err]
        | Panic _ => SL [SB sym_panic]
        | OutOfFuel => SL [SB sym_fuel]
        end in
      SL [SB sym_ok; enc_version v; SB c1; SB c0; re]
  | Err _ => SL [SB sym_err]
  | Panic _ => SL [SB sym_panic]
  | OutOfFuel => SL [SB sym_fuel]
  end.

(* ---------- the reference: packaging's key, normal form, domain flags ---------- *)
Definition sym_rej : bytes := [114;101;106]%N.

Definition enc_lseg (x : lseg) : sx :=
  match x with
  | LNum n => SL [SI n; SB []]
  | LStr t => SL [SI (-1); SB t]
  end.

(* (epoch (release without trailing zeros) (suffix) has_local (local key)) = Version._key *)
Definition enc_key (p : pv) : sx :=
  SL [SI (s_epoch p); SL (map SI (trim0 (s_release p)));
      SL [SI (pre_rank p); SI (pre_n p); SI (post_rank p); SI (post_n p); SI (dev_rank p); SI (dev_n p)];
      sx_bool (match s_local p with Some _ => true | None => false end);
      SL (match local_key p with Some l => map enc_lseg l | None => [] end)].

Definition enc_spec (s : bytes) : sx :=
  match spec_parse s with
  | Some p => SL [SB sym_ok; SB (spec_normal p); sx_bool (c02_pypi_dom p); sx_bool (pv_wfb p); enc_key p; sx_bool (c02_dom_width p)]
  | None => SL [SB sym_rej]
  end.

Definition sgn_sx (z : Z) : sx := SI (Z.sgn z).

(* pool: for every string the reference result and whether the model parser accepts;
   then the matrix of the reference comparison over the strings the reference accepts
   and the matrix of the signs of the model comparison over the strings the model
   accepts (both row-major, in the order of the pool) *)
Definition c02_pool (strs : list bytes) : sx :=
  let specs := flat_map (fun s => match spec_parse s with Some p => [p] | None => [] end) strs in
  let mods := flat_map (fun s => match parse_pypi s with Ok v => [v] | _ => [] end) strs in
  SL [SL (map enc_spec strs);
      SL (map (fun s => match parse_pypi s with Ok _ => SB sym_ok | _ => SB sym_err end) strs);
      SL (flat_map (fun a => map (fun b => SI (spec_compare a b)) specs) specs);
      SL (flat_map (fun a => map (fun b => match compare a b with Ok z => sgn_sx z | _ => SB sym_panic end) mods) mods)].

Fixpoint decode_strs (l : list sx) : option (list bytes) :=
  match l with
  | [] => Some []
  | SB b :: t => match decode_strs t with Some r => Some (b :: r) | None => None end
  | _ => None
  end.

Definition run_Pep440 (kind : bytes) (a : sx) : option sx :=
  if bytes_eqb kind [115;118;109;95;112;97;114;115;101;95;112;121;112;105]%N (* svm_parse_pypi *) then
    Some (match a with
          | SL [SB s] => enc_parse (parse_pypi s)
          | _ => badcase end)
  else if bytes_eqb kind [115;118;109;95;99;97;110;111;110;95;112;121;112;105]%N (* svm_canon_pypi *) then
    Some (match a with
          | SL [SB s] => canon_case s
          | _ => badcase end)
  else if bytes_eqb kind [115;118;109;95;99;97;110;111;110;118;101;114;115;105;111;110]%N (* svm_canonversion *) then
    Some (match a with
          | SL [SB s] => SB (canon_version s)
          | _ => badcase end)
  else if bytes_eqb kind [115;118;109;95;99;48;50;95;112;111;111;108]%N (* svm_c02_pool *) then
    Some (match a with
          | SL [SL l] => match decode_strs l with Some strs => c02_pool strs | None => badcase end
          | _ => badcase end)
  else if bytes_eqb kind [115;118;109;95;115;112;101;99;95;112;121;112;105]%N (* svm_spec_pypi *) then
    Some (match a with
          | SL [SB s] => enc_spec s
          | _ => badcase end)
  else if bytes_eqb kind [115;118;109;95;99;49;48;95;100;111;109]%N (* svm_c10_dom *) then
    Some (match a with
          | SL [SB s] => match parse_pypi s with
                         | Ok v => sx_bool (c10_pypi_dom (v_num v) (match v_ext v with Pep440Ext e => e | _ => None end))
                         | _ => SL [SB sym_err]
                         end
          | _ => badcase end)
  else None.
