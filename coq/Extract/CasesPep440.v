(* Harness cases for the PEP 440 work package: the parser model, the canonical form
   round trip and (further down) the declarative specification.
   The dump printed for a parsed version has the shape of semver.VerifDump. *)
From DepsDev Require Import Lib.Base Lib.Sx Semver.Version Semver.Pep440 Semver.Pep440Parse Semver.Compare.
Local Open Scope Z_scope.

Definition enc_ext (e : extension) : sx :=
  match e with
  | NoExt => SL [SI 0]
  | MavenExt l => SL (SI 1 :: map (fun x => SL [SI (Z.of_N (me_sep x)); SB (me_str x); SI (me_int x)]) l)
  | Pep440Ext None => SL [SI 2]
  | Pep440Ext (Some x) =>
      SL [SI 2; SL [SI (p_epoch x); SB (p_pre x); SI (p_prenum x); sx_bool (p_post x); SI (p_postnum x);
                    sx_bool (p_dev x); SI (p_devnum x); SB (p_local x)]]
  | GemExt l => SL (SI 3 :: map (fun x => SL [SB (ge_str x); SI (ge_int x)]) l)
  end.

Definition enc_version (v : version) : sx :=
  SL [SI (sys_index (v_sys v)); SI (v_user_num_count v); sx_bool (v_is_prerelease v); SB (v_str v);
      SL (map SI (v_num v)); SL (map SB (v_pre v)); SB (v_build v); enc_ext (v_ext v)].

Definition enc_parse (r : res version) : sx := sx_res enc_version r.

(* the observable of Go's kind sv_canon, for PyPI *)
Definition canon_case (s : bytes) : sx :=
  match parse_pypi s with
  | Ok v =>
      let c1 := canon true v in
      let c0 := canon false v in
      let re :=
        match parse_pypi c1 with
        | Ok v2 => SL [SB sym_ok; enc_version v2;
                       match compare v v2 with Ok z => SI z | _ => SB sym_panic end;
                       SB (canon true v2)]
        | Err _ => SL [SB sym_err]
        | Panic _ => SL [SB sym_panic]
        | OutOfFuel => SL [SB sym_fuel]
        end in
      SL [SB sym_ok; enc_version v; SB c1; SB c0; re]
  | Err _ => SL [SB sym_err]
  | Panic _ => SL [SB sym_panic]
  | OutOfFuel => SL [SB sym_fuel]
  end.

Definition run_Pep440 (kind : bytes) (a : sx) : option sx :=
  if bytes_eqb kind [115;118;109;95;112;97;114;115;101;95;112;121;112;105]%N (* svm_parse_pypi *) then
    Some (match a with
          | SL [SB s] => enc_parse (parse_pypi s)
          | _ => badcase end)
  else if bytes_eqb kind [115;118;109;95;99;97;110;111;110;95;112;121;112;105]%N (* svm_canon_pypi *) then
    Some (match a with
          | SL [SB s] => canon_case s
          | _ => badcase end)
  else if bytes_eqb kind [115;118;109;95;99;97;110;111;110;118;101;114;115;105;111;110]%N (* svm_canonversion *) then
    Some (match a with
          | SL [SB s] => SB (canon_version s)
          | _ => badcase end)
  else None.
