(* Decoding of harness cases for the client / matching models
   (kind names match harness/go/cmd/implrun/client.go).

   Each case carries the finite table of answers the Go semver gave for the strings of the
   case; the oracle of the model is a lookup in that table.  Before the model runs, the
   table is checked to cover every string the case mentions (the model never builds a
   version or requirement string of its own), so a lookup cannot miss; an incomplete table
   yields the result (notable), which the driver reports as a divergence. *)
From DepsDev Require Import Lib.Base Lib.Sx Lib.Sort Gen.ResolveTables Resolve.Attr Resolve.MatchReq Resolve.Client.

(* ---------- generic decoding ---------- *)
Fixpoint sx_map {A} (f : sx -> option A) (l : list sx) : option (list A) :=
  match l with
  | [] => Some []
  | e :: t => match f e, sx_map f t with
              | Some x, Some r => Some (x :: r)
              | _, _ => None
              end
  end.
Definition dec_bytes (e : sx) : option bytes := match e with SB b => Some b | _ => None end.
Definition dec_bool (e : sx) : option bool := match e with SI z => Some (negb (z =? 0)%Z) | _ => None end.
Definition dec_Z (e : sx) : option Z := match e with SI z => Some z | _ => None end.
Definition dec_list {A} (f : sx -> option A) (e : sx) : option (list A) :=
  match e with SL l => sx_map f l | _ => None end.
Definition dec_pair (e : sx) : option (Z * bytes) :=
  match e with
  | SL [SI k; SB v] => if (k <? 64)%Z then Some (k, v) else None
  | _ => None
  end.

(* ---------- the oracle table ---------- *)
Record systable := {
  t_sys : N; t_vers : list bytes; t_parses : list bool; t_pre : list bool;
  t_cmp : list (list Z); t_reqs : list bytes; t_sat : list (option (list bool)) }.

Definition s_ok : bytes := sym_ok.
Definition dec_sat (e : sx) : option (option (list bool)) :=
  match e with
  | SL [SB _] => Some None
  | SL (SB _ :: l) => match sx_map dec_bool l with Some r => Some (Some r) | None => None end
  | _ => None
  end.

Definition dec_systable (e : sx) : option systable :=
  match e with
  | SL [SI s; vs; ps; pre; rows; rs; sat] =>
      match dec_list dec_bytes vs, dec_list dec_bool ps, dec_list dec_bool pre,
            dec_list (dec_list dec_Z) rows, dec_list dec_bytes rs, dec_list dec_sat sat with
      | Some vs, Some ps, Some pre, Some rows, Some rs, Some sat =>
          Some {| t_sys := Z.to_N s; t_vers := vs; t_parses := ps; t_pre := pre; t_cmp := rows;
                  t_reqs := rs; t_sat := sat |}
      | _, _, _, _, _, _ => None
      end
  | _ => None
  end.

Fixpoint index_of (s : bytes) (l : list bytes) : option nat :=
  match l with
  | [] => None
  | x :: t => if bytes_eqb x s then Some O else match index_of s t with Some i => Some (S i) | None => None end
  end.

Definition find_sys (T : list systable) (sys : N) : option systable :=
  find (fun t => N.eqb (t_sys t) sys) T.

Definition ver_index (T : list systable) (sys : N) (s : bytes) : option (systable * nat) :=
  match find_sys T sys with
  | Some t => match index_of s (t_vers t) with Some i => Some (t, i) | None => None end
  | None => None
  end.

(* the defaults below are never reached on a case that passed [table_covers] *)
Definition table_oracle (T : list systable) : oracle := {|
  o_parses := fun sys s =>
    match ver_index T sys s with Some (t, i) => nth i (t_parses t) false | None => false end;
  o_prerelease := fun sys s =>
    match ver_index T sys s with Some (t, i) => nth i (t_pre t) false | None => false end;
  o_compare := fun sys a b =>
    match ver_index T sys a, ver_index T sys b with
    | Some (t, i), Some (_, j) => nth j (nth i (t_cmp t) []) 0%Z
    | _, _ => 0%Z
    end;
  o_constraint := fun sys r =>
    match find_sys T sys with
    | Some t => match index_of r (t_reqs t) with
                | Some i => match nth i (t_sat t) None with Some _ => true | None => false end
                | None => false
                end
    | None => false
    end;
  o_match := fun sys r v =>
    match find_sys T sys with
    | Some t => match index_of r (t_reqs t), index_of v (t_vers t) with
                | Some i, Some j => match nth i (t_sat t) None with Some row => nth j row false | None => false end
                | _, _ => false
                end
    | None => false
    end |}.

Definition table_wf (t : systable) : bool :=
  let n := length (t_vers t) in
  Nat.eqb (length (t_parses t)) n && Nat.eqb (length (t_pre t)) n && Nat.eqb (length (t_cmp t)) n &&
  forallb (fun row => Nat.eqb (length row) n) (t_cmp t) &&
  Nat.eqb (length (t_sat t)) (length (t_reqs t)) &&
  forallb (fun o => match o with Some row => Nat.eqb (length row) n | None => true end) (t_sat t).

Definition covers_ver (T : list systable) (sys : N) (s : bytes) : bool :=
  match ver_index T sys s with Some _ => true | None => false end.
Definition covers_req (T : list systable) (sys : N) (r : bytes) : bool :=
  match find_sys T sys with
  | Some t => match index_of r (t_reqs t) with Some _ => true | None => false end
  | None => false
  end.

(* ---------- records ---------- *)
Definition mk_vkey (sys : Z) (name : bytes) (vt : Z) (v : bytes) : vkey :=
  {| vk_pkg := {| pk_sys := Z.to_N sys; pk_name := name |}; vk_type := Z.to_N vt; vk_ver := v |}.

Definition dec_attrs (e : sx) : option vset :=
  match dec_list dec_pair e with Some ps => Some (vset_of_pairs ps) | None => None end.

(* (string vtype attrpairs) as a version of package p in system sys *)
Definition dec_version (sys : Z) (e : sx) : option version :=
  match e with
  | SL [SB v; SI vt; attrs] =>
      match dec_attrs attrs with
      | Some a => Some {| v_key := mk_vkey sys [112] vt v; v_attrs := a |}
      | None => None
      end
  | _ => None
  end.

Definition dec_dep (e : sx) : option reqver :=
  match e with
  | SL [SI sys; SB name; SI vt; SB r; ty] =>
      match dec_attrs ty with
      | Some t => Some {| r_key := mk_vkey sys name vt r; r_type := t |}
      | None => None
      end
  | _ => None
  end.

Definition dec_hop (e : sx) : option hop :=
  match e with
  | SL [SI 0%Z; SI sys; SB name; SI vt; SB v; attrs; deps] =>
      match dec_attrs attrs, dec_list dec_dep deps with
      | Some a, Some ds => Some (HAdd {| v_key := mk_vkey sys name vt v; v_attrs := a |} ds)
      | _, _ => None
      end
  | SL [SI 1%Z; SI sys; SB name; SI vt; SB v] => Some (HVersion (mk_vkey sys name vt v))
  | SL [SI 2%Z; SI sys; SB name] => Some (HVersions {| pk_sys := Z.to_N sys; pk_name := name |})
  | SL [SI 3%Z; SI sys; SB name; SI vt; SB v] => Some (HRequirements (mk_vkey sys name vt v))
  | SL [SI 4%Z; SI sys; SB name; SI vt; SB v] => Some (HMatching (mk_vkey sys name vt v))
  | _ => None
  end.

Definition dec_addvar (e : sx) : option addvar :=
  match e with
  | SI 0%Z => Some Current
  | SI 1%Z => Some FixAssign
  | SI 2%Z => Some FixAssignSort
  | _ => None
  end.

(* (latest_exact match_sorts tie_break) *)
Definition dec_cfg (e : sx) : option mcfg :=
  match e with
  | SL [a; b; c] =>
      match dec_bool a, dec_bool b, dec_bool c with
      | Some a, Some b, Some c => Some {| latest_exact := a; match_sorts := b; tie_break := c |}
      | _, _, _ => None
      end
  | _ => None
  end.

(* (add cfg), or a bare add number with the unrepaired match.go (the recorded witnesses) *)
Definition dec_variant (e : sx) : option variant :=
  match e with
  | SL [a; c] =>
      match dec_addvar a, dec_cfg c with
      | Some a, Some c => Some {| v_add := a; v_cfg := c |}
      | _, _ => None
      end
  | _ => match dec_addvar e with
         | Some a => Some {| v_add := a; v_cfg := cfg_old |}
         | None => None
         end
  end.

(* ---------- printing ---------- *)
Definition sx_pairs (l : list (Z * bytes)) : sx := SL (map (fun p => SL [SI (fst p); SB (snd p)]) l).
Definition sx_version (v : version) : sx :=
  SL [SB (ver v); SI (Z.of_N (vk_type (v_key v))); sx_pairs (vset_dump (v_attrs v));
      SI (Z.of_N (v_sys v)); SB (pk_name (v_pkg v))].
Definition sx_versions (l : list version) : sx := SL (map sx_version l).
Definition sx_req (r : reqver) : sx :=
  SL [SI (Z.of_N (r_sys r)); SB (pk_name (r_pkg r)); SI (Z.of_N (vk_type (r_key r))); SB (vk_ver (r_key r));
      sx_pairs (vset_dump (r_type r))].
Definition sym_notfound : bytes := [110;111;116;102;111;117;110;100].
Definition sym_notable : bytes := [110;111;116;97;98;108;101].

Definition sx_lookup {A} (f : A -> sx) (r : res A) : sx :=
  match r with
  | Ok a => SL [SB sym_ok; f a]
  | Err _ => SL [SB sym_notfound]
  | Panic _ => SL [SB sym_panic]
  | OutOfFuel => SL [SB sym_fuel]
  end.
Definition sx_obs (o : obs) : sx :=
  match o with
  | OVersion r => sx_lookup sx_version r
  | OVersions r => sx_lookup sx_versions r
  | OReqs r => sx_lookup (fun l => SL (map sx_req l)) r
  end.

(* ---------- what the specification-level sort does not determine ----------
   sort.Slice runs insertion sort (the model's algorithm) up to 12 elements.  Beyond that
   the model's answer is the implementation's only if the comparator separates all
   elements (SortUniq.isort_perm_unique); otherwise the case is outside the modelled
   fragment. *)
Definition long {A} (l : list A) : bool := Nat.ltb max_insertion (length l).

Definition versions_ambiguous (C : mcfg) (O : oracle) (vs : list version) : bool :=
  long vs &&
  match vs with
  | [] => false
  | v0 :: _ =>
      if N.eqb (v_sys v0) sys_npm then negb (tie_free (npm_less O) vs)
      else negb (tie_free (gen_less C O (v_sys v0)) vs) ||
           negb (forallb (fun v => o_parses O (v_sys v0) (ver v)) vs)
  end.

(* sortNPMDependencies lower-cases the shown names with strings.ToLower, which the model has on
   ASCII only: an npm requirement list with a non-ASCII shown name is outside the fragment *)
Definition deps_ambiguous (ds : list reqver) : bool :=
  match ds with
  | [] => false
  | d0 :: _ => N.eqb (r_sys d0) sys_npm &&
               ((long ds && negb (tie_free dep_less ds)) || negb (forallb (fun d => is_ascii (dep_name d)) ds))
  end.

Definition hop_covered (T : list systable) (o : hop) : bool :=
  match o with
  | HAdd v _ => covers_ver T (v_sys v) (ver v)
  | HMatching k => covers_req T (pk_sys (vk_pkg k)) (vk_ver k)
  | _ => true
  end.

Definition hop_deps_ambiguous (o : hop) : bool :=
  match o with HAdd _ ds => deps_ambiguous ds | _ => false end.

(* An operation of a case: one of the client operations, or the composite "a caller reuses one
   buffer": buf := deps; AddVersion(v1, buf[:n]); AddVersion(v2, buf[:m]); print buf.
   [inplace] = AddVersion sorts the slice it is given in place, so the caller's buffer is a
   value that changes: b1 after the first call, b2 after the second.  The store of the model
   keeps values.  [alias] = the client keeps the caller's slice itself (F-C14-2): what it
   holds for v1 is then whatever the first n elements of the buffer have become.  Both are
   detected on the Go code by replaying the witness of F-C14-2. *)
Inductive xop :=
| XHop (o : hop)
| XShared (alias inplace : bool) (v1 : version) (n : nat) (v2 : version) (m : nat) (buf : list reqver).

Definition after_add (inplace : bool) (v : version) (n : nat) (buf : list reqver) : list reqver :=
  if deleted v || negb inplace then buf else sort_deps (firstn n buf) ++ skipn n buf.

Definition sx_reqs (l : list reqver) : sx := SL (map sx_req l).

Fixpoint xrun (O : oracle) (var : variant) (c : client) (ops : list xop) : client * list sx :=
  match ops with
  | [] => (c, [])
  | XHop o :: rest =>
      let '(c', r) := step O var c o in
      let '(cf, out) := xrun O var c' rest in
      (cf, match r with Some x => sx_obs x :: out | None => out end)
  | XShared alias inplace v1 n v2 m buf :: rest =>
      let c1 := add_version O var c v1 (firstn n buf) in
      let b1 := after_add inplace v1 n buf in
      let c2 := add_version O var c1 v2 (firstn m b1) in
      let b2 := after_add inplace v2 m b1 in
      let c3 := if alias && negb (deleted v1) && negb (vkey_eqb (v_key v1) (v_key v2))
                then set_imports c2 (v_key v1) (firstn n b2) else c2 in
      let '(cf, out) := xrun O var c3 rest in
      (cf, SL [SB sym_ok; sx_reqs b2] :: out)
  end.

Definition xop_covered (T : list systable) (o : xop) : bool :=
  match o with
  | XHop o => hop_covered T o
  | XShared _ _ v1 _ v2 _ _ => covers_ver T (v_sys v1) (ver v1) && covers_ver T (v_sys v2) (ver v2)
  end.

Definition xop_deps_ambiguous (o : xop) : bool :=
  match o with
  | XHop o => hop_deps_ambiguous o
  | XShared _ inplace v1 n _ m buf => deps_ambiguous (firstn n buf) || deps_ambiguous (firstn m (after_add inplace v1 n buf))
  end.

Definition run_history (var : variant) (T : list systable) (ops : list xop) : sx :=
  if negb (forallb table_wf T && forallb (xop_covered T) ops) then SL [SB sym_notable]
  else
    let O := table_oracle T in
    let '(final, out) := xrun O var empty_client ops in
    if existsb (fun e => versions_ambiguous (v_cfg var) O (snd e)) (c_pkgs final) || existsb xop_deps_ambiguous ops
    then SB sym_oom
    else SL out.

Definition dec_xop (e : sx) : option xop :=
  match e with
  | SL [SI 5%Z; SI flag; SI sys; SB name; SI vt; SB ver1; attrs1; SI n; SB ver2; attrs2; SI m; deps] =>
      match dec_attrs attrs1, dec_attrs attrs2, dec_list dec_dep deps with
      | Some a1, Some a2, Some ds =>
          if (n <? 0)%Z || (m <? 0)%Z then None
          else Some (XShared (Z.odd flag) (2 <=? flag)%Z
                             {| v_key := mk_vkey sys name vt ver1; v_attrs := a1 |} (Z.to_nat n)
                             {| v_key := mk_vkey sys name vt ver2; v_attrs := a2 |} (Z.to_nat m) ds)
      | _, _, _ => None
      end
  | _ => match dec_hop e with Some o => Some (XHop o) | None => None end
  end.

(* apply a permutation given as indices; None when an index is out of range *)
Fixpoint pick {A} (l : list A) (idx : list Z) : option (list A) :=
  match idx with
  | [] => Some []
  | i :: t => match nth_error l (Z.to_nat i), pick l t with
              | Some x, Some r => if (i <? 0)%Z then None else Some (x :: r)
              | _, _ => None
              end
  end.

Definition k_client_history : bytes := [99;108;105;101;110;116;95;104;105;115;116;111;114;121].
Definition k_sortv : bytes := [115;111;114;116;118].
Definition k_matchreq : bytes := [109;97;116;99;104;114;101;113].

Definition run_Client (kind : bytes) (a : sx) : option sx :=
  if bytes_eqb kind k_client_history then
    Some (match a with
          | SL [var; tbl; ops] =>
              match dec_variant var, dec_list dec_systable tbl, dec_list dec_xop ops with
              | Some var, Some T, Some ops => run_history var T ops
              | _, _, _ => badcase
              end
          | _ => badcase
          end)
  else if bytes_eqb kind k_sortv then
    Some (match a with
          | SL [tbl; SI sys; vs; perm; cfg] =>
              match dec_list dec_systable tbl, dec_list (dec_version sys) vs, dec_list dec_Z perm, dec_cfg cfg with
              | Some T, Some vs, Some perm, Some C =>
                  match pick vs perm with
                  | Some l =>
                      if negb (forallb table_wf T && forallb (fun v => covers_ver T (v_sys v) (ver v)) l)
                      then SL [SB sym_notable]
                      else let O := table_oracle T in
                           if versions_ambiguous C O l then SB sym_oom else sx_versions (sort_versions C O l)
                  | None => badcase
                  end
              | _, _, _, _ => badcase
              end
          | _ => badcase
          end)
  else if bytes_eqb kind k_matchreq then
    Some (match a with
          | SL [tbl; SI sys; SB req; vs; perm; cfg] =>
              match dec_list dec_systable tbl, dec_list (dec_version sys) vs, dec_list dec_Z perm, dec_cfg cfg with
              | Some T, Some vs, Some perm, Some C =>
                  match pick vs perm with
                  | Some l =>
                      if negb (forallb table_wf T && forallb (fun v => covers_ver T (v_sys v) (ver v)) l
                               && covers_req T (Z.to_N sys) req)
                      then SL [SB sym_notable]
                      else let O := table_oracle T in
                           if (N.eqb (Z.to_N sys) sys_npm || match_sorts C) && versions_ambiguous C O l then SB sym_oom
                           else SL [sx_versions (match_requirement C O (mk_vkey sys [112] (Z.of_N vt_requirement) req) l); sx_versions l]
                  | None => badcase
                  end
              | _, _, _, _ => badcase
              end
          | _ => badcase
          end)
  else None.
