(* Decoding of harness cases for the PyPI resolver model (kind names match
   harness/go/cmd/implrun/pypires.go). *)
From DepsDev Require Import Lib.Base Lib.Sx Gen.PypiTables Resolve.Pypi.

Definition dec_vk (a : sx) : option vkey :=
  match a with
  | SL (SB n :: SI t :: SB v :: _) => Some {| vk_name := n; vk_type := Z.to_N t; vk_ver := v |}
  | _ => None
  end.

Definition dec_list {A} (f : sx -> option A) (a : sx) : option (list A) :=
  match a with
  | SL l =>
      fold_right (fun e acc => match f e, acc with Some x, Some r => Some (x :: r) | _, _ => None end) (Some []) l
  | _ => None
  end.

Definition dec_pair (a : sx) : option (Z * bytes) :=
  match a with SL [SI k; SB v] => Some (k, v) | _ => None end.

Definition dec_req (a : sx) : option req :=
  match a with
  | SL [SB n; SI t; SB v; ty] =>
      match dec_list dec_pair ty with
      | Some d => Some {| rq_key := {| vk_name := n; vk_type := Z.to_N t; vk_ver := v |}; rq_type := d |}
      | None => None
      end
  | _ => None
  end.

Definition dec_bytes (a : sx) : option bytes := match a with SB b => Some b | _ => None end.
Definition dec_bool (a : sx) : option bool := match a with SI z => Some (negb (Z.eqb z 0)) | _ => None end.

(* an answer: (1 (items...)) or (0) *)
Definition dec_answer {A} (f : sx -> option A) (a : sx) : option (res (list A)) :=
  match a with
  | SL [SI 1%Z; items] => match dec_list f items with Some l => Some (Ok l) | None => None end
  | SL [SI 0%Z] => Some (Err 0)
  | _ => None
  end.

Definition dec_entry {K A} (fk : sx -> option K) (fa : sx -> option A) (a : sx) : option (K * res (list A)) :=
  match a with
  | SL [k; ans] => match fk k, dec_answer fa ans with Some k', Some r => Some (k', r) | _, _ => None end
  | _ => None
  end.

Definition dec_marker (a : sx) : option (bytes * list bytes * res bool) :=
  match a with
  | SL [SB raw; ex; ok; val] =>
      match dec_list dec_bytes ex, dec_bool ok, dec_bool val with
      | Some e, Some o, Some v => Some (raw, e, if o then Ok v else Err 0)
      | _, _, _ => None
      end
  | _ => None
  end.

Definition dec_cons (a : sx) : option (bytes * (bool * bool)) :=
  match a with
  | SL [SB r; ok; pre] =>
      match dec_bool ok, dec_bool pre with Some o, Some p => Some (r, (o, p)) | _, _ => None end
  | _ => None
  end.

Definition dec_triple (a : sx) : option (bytes * bytes * bool) :=
  match a with
  | SL [SB x; SB y; b] => match dec_bool b with Some b' => Some (x, y, b') | None => None end
  | _ => None
  end.

Definition dec_table (tab orc : sx) : option table :=
  match tab, orc with
  | SL [vs; rs; ms], SL [mk; cs; prem; vlt] =>
      match dec_list (dec_entry dec_bytes dec_vk) vs, dec_list (dec_entry dec_vk dec_req) rs,
            dec_list (dec_entry dec_vk dec_vk) ms, dec_list dec_marker mk, dec_list dec_cons cs,
            dec_list dec_triple prem, dec_list dec_triple vlt with
      | Some a, Some b, Some c, Some d, Some e, Some f, Some g =>
          Some {| t_versions := a; t_requirements := b; t_matching := c; t_markers := d;
                  t_cons := e; t_prem := f; t_vlt := g |}
      | _, _, _, _, _, _, _ => None
      end
  | _, _ => None
  end.

Definition enc_vk (v : vkey) : sx := SL [SB (vk_name v); SI (Z.of_N (vk_type v)); SB (vk_ver v)].
Definition enc_type (t : deptype) : sx := SL (map (fun p => SL [SI (fst p); SB (snd p)]) t).

Definition sym_gerr : bytes := [103;101;114;114].
Definition sym_harderr : bytes := [104;97;114;100;101;114;114].
Definition sym_missing : bytes := [109;105;115;115;105;110;103].
Definition sym_impossible : bytes := [105;109;112;111;115;115;105;98;108;101].
Definition sym_toodeep : bytes := [116;111;111;100;101;101;112].

Definition enc_edge (nodes : list vkey) (e : nat * nat * bytes * deptype) : sx :=
  let '(from, to, rq, ty) := e in
  match nth_error nodes from, nth_error nodes to with
  | Some f, Some t => SL [enc_vk f; enc_vk t; SB rq; enc_type ty]
  | _, _ => badcase
  end.

Definition enc_result (r : res graph) : sx :=
  match r with
  | Ok g => SL [SB sym_ok; SL (map enc_vk (g_nodes g)); SL (map (enc_edge (g_nodes g)) (g_edges g)); SI 0; SI 1]
  | Err e =>
      if N.eqb e EImpossible then SL [SB sym_gerr]
      else if N.eqb e ETooDeep then SL [SB sym_gerr]
      else if N.eqb e (EClientBase + EMissing) then SL [SB sym_missing]
      else if N.eqb e (EMarkerBase + EMissing) then SL [SB sym_missing]
      else SL [SB sym_harderr]
  | Panic _ => SL [SB sym_panic]
  | OutOfFuel => SL [SB sym_fuel]
  end.

(* a case is one universe: (oracles ((root table)...)); one result per root *)
Definition per_root {A} (f : table -> vkey -> A) (enc : A -> sx) (orc : sx) (c : sx) : sx :=
  match c with
  | SL [r; tab] =>
      match dec_vk r, dec_table tab orc with
      | Some root, Some t => enc (f t root)
      | _, _ => badcase
      end
  | _ => badcase
  end.

Definition run_Pypi (kind : bytes) (a : sx) : option sx :=
  if bytes_eqb kind [112;121;112;105] (* pypi *) then
    Some (match a with
          | SL [orc; SL cases] => SL (map (per_root tab_resolve enc_result orc) cases)
          | _ => badcase
          end)
  else if bytes_eqb kind [112;121;112;105;95;115;116;97;116;115] (* pypi_stats: number of backtracks, model only *) then
    Some (match a with
          | SL [orc; SL cases] =>
              SL (map (per_root (fun t root => tab_backtracks t root max_rounds_fuel)
                                (fun r => match r with Ok n => SI (Z.of_nat n) | _ => SI (-1) end) orc) cases)
          | _ => badcase
          end)
  else None.
