(* Harness access to the model of pypi.SdistVersion / pypi.ParseWheelName (Pypi/Files.v).
   Kinds: sdist_version (canon filename) -> ("ok" name version) | ("err")
          wheel_name (name) -> ("ok" name version num tag ((py abi plat)...)) | ("err") | "oom" when the build
          tag has a non-ASCII byte (unicode.IsDigit is outside the model). *)
From Coq Require Import List ZArith.
From DepsDev Require Import Lib.Base Lib.Sx Pypi.PyStr Pypi.Dependency Pypi.Files.
Import ListNotations.

Definition k_sdist_version : bytes := [115;100;105;115;116;95;118;101;114;115;105;111;110].
Definition k_wheel_name : bytes := [119;104;101;101;108;95;110;97;109;101].

Definition sx_flat {A} (f : A -> list sx) (r : res A) : sx :=
  match r with
  | Ok a => SL (SB sym_ok :: f a)
  | Err _ => SL [SB sym_err]
  | Panic _ => SL [SB sym_panic]
  | OutOfFuel => SL [SB sym_fuel]
  end.

(* the build tag of a six-part name, when there is one *)
Definition wheel_tag_part (name : bytes) : bytes :=
  let stem := firstn (length name - 4) name in
  let parts := split_on 45 stem in
  if Nat.eqb (length parts) 6 then nth 2 parts [] else [].

Definition run_PypiFiles (kind : bytes) (a : sx) : option sx :=
  if bytes_eqb kind k_sdist_version then
    Some (match a with
          | SL [SB canon; SB fn] => sx_flat (fun p => [SB (fst p); SB (snd p)]) (sdist_version canon fn)
          | _ => badcase end)
  else if bytes_eqb kind k_wheel_name then
    Some (match a with
          | SL [SB name] =>
              if existsb (fun c => 128 <=? c) (wheel_tag_part name) then SB sym_oom else
              sx_flat (fun w => [SB (w_name w); SB (w_version w); SI (w_num w); SB (w_tag w);
                                 SL (map (fun t => SL [SB (fst (fst t)); SB (snd (fst t)); SB (snd t)]) (w_platforms w))])
                      (parse_wheel_name ascii_first_nondigit name)
          | _ => badcase end)
  else None.
