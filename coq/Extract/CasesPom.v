(* Decoding of harness cases for the POM model and the Maven specification
   (kind names match harness/go/cmd/implrun/pom.go). *)
From DepsDev Require Import Lib.Base Lib.Sx Maven.Pom Maven.Interp Maven.Project.
From DepsDev Require Spec.MavenModelSpec.

Definition obind {A B} (o : option A) (f : A -> option B) : option B :=
  match o with Some a => f a | None => None end.

Fixpoint omap {A B} (f : A -> option B) (l : list A) : option (list B) :=
  match l with
  | [] => Some []
  | x :: l' => obind (f x) (fun y => obind (omap f l') (fun ys => Some (y :: ys)))
  end.

Definition dec_pair (a : sx) : option (bytes * bytes) :=
  match a with SL [SB x; SB y] => Some (x, y) | _ => None end.

Definition dec_pairs (a : sx) : option (list (bytes * bytes)) :=
  match a with SL l => omap dec_pair l | _ => None end.

Definition dec_dep (a : sx) : option dependency :=
  match a with
  | SL [SB g; SB ar; SB v; SB t; SB c; SB s; SB o; ex] =>
      obind (dec_pairs ex) (fun e => Some (mkDep g ar v t c s o e))
  | _ => None
  end.

Definition dec_deps (a : sx) : option (list dependency) :=
  match a with SL l => omap dec_dep l | _ => None end.

Definition dec_os (a : sx) : option os_t :=
  match a with SL [SB n; SB f; SB ar; SB v] => Some (mkOS n f ar v) | _ => None end.

Definition dec_profile (a : sx) : option profile :=
  match a with
  | SL [SB id; SL [SB def; SB jdk; o; SL [SB pn; SB pv]]; props; deps; mgmt] =>
      obind (dec_os o) (fun o' =>
      obind (dec_pairs props) (fun pr =>
      obind (dec_deps deps) (fun ds =>
      obind (dec_deps mgmt) (fun ms =>
      Some (mkProfile id (mkAct def jdk o' pn pv) pr ds ms)))))
  | _ => None
  end.

Definition dec_project (a : sx) : option project :=
  match a with
  | SL [SB g; SB ar; SB v; SL [SB pg; SB pa; SB pv]; SB pk; props; deps; mgmt; SL profs] =>
      obind (dec_pairs props) (fun pr =>
      obind (dec_deps deps) (fun ds =>
      obind (dec_deps mgmt) (fun ms =>
      obind (omap dec_profile profs) (fun pfs =>
      Some (mkProject g ar v pg pa pv pk pr ds ms pfs)))))
  | _ => None
  end.

Definition dec_jdk_entry (a : sx) : option (bytes * bytes * Z) :=
  match a with SL [SB spec; SB jdk; SI r] => Some (spec, jdk, r) | _ => None end.

(* the oracle table of the case; an entry that is missing is a failure of the harness and
   shows as a panic of the model *)
Fixpoint jdk_table (t : list (bytes * bytes * Z)) (spec jdk : bytes) : res bool :=
  match t with
  | [] => Panic 99
  | (s, j, r) :: t' =>
      if bytes_eqb s spec && bytes_eqb j jdk then
        (if (r =? 1)%Z then Ok true else if (r =? 0)%Z then Ok false else Err E_profile)
      else jdk_table t' spec jdk
  end.

Record pom_case := mkCase { c_jdk : bytes; c_os : os_t; c_root : project; c_repo : list project;
                            c_table : list (bytes * bytes * Z) }.

Definition dec_case3 (env root : sx) (others tab : list sx) : option pom_case :=
  match env with
  | SL [SB jdk; SB n; SB f; SB ar; SB v] =>
      obind (dec_project root) (fun r =>
      obind (omap dec_project others) (fun rs =>
      obind (omap dec_jdk_entry tab) (fun t =>
      Some (mkCase jdk (mkOS n f ar v) r rs t))))
  | _ => None
  end.

(* an optional fourth element chooses how the Go harness writes the XML text (empty element,
   self-closing, white space, CDATA ...); the decoded record, the input of the model, is the same *)
Definition dec_case (a : sx) : option pom_case :=
  match a with
  | SL [env; SL (root :: others); SL tab] => dec_case3 env root others tab
  | SL [env; SL (root :: others); SL tab; SI _] => dec_case3 env root others tab
  | _ => None
  end.

Definition sx_dep (d : dependency) : sx :=
  SL [SB (d_group d); SB (d_artifact d); SB (d_version d); SB (d_type d); SB (d_classifier d);
      SB (d_scope d); SB (d_optional d); SL (map (fun e => SL [SB (fst e); SB (snd e)]) (d_excl d))].

Definition sx_pairs (l : list (bytes * bytes)) : sx := SL (map (fun e => SL [SB (fst e); SB (snd e)]) l).

Definition sx_profile (pf : profile) : sx :=
  let a := pf_act pf in
  let o := act_os a in
  SL [SB (pf_id pf);
      SL [SB (act_default a); SB (act_jdk a); SL [SB (os_name o); SB (os_family o); SB (os_arch o); SB (os_version o)];
          SL [SB (act_pname a); SB (act_pvalue a)]];
      sx_pairs (pf_props pf); SL (map sx_dep (pf_deps pf)); SL (map sx_dep (pf_mgmt pf))].

Definition sx_project (p : project) : sx :=
  SL [SB (p_group p); SB (p_artifact p); SB (p_version p); SL [SB (par_group p); SB (par_artifact p); SB (par_version p)];
      SB (p_packaging p); sx_pairs (p_props p); SL (map sx_dep (p_deps p)); SL (map sx_dep (p_mgmt p));
      SL (map sx_profile (p_profiles p))].

Definition sx_lists (r : list dependency * list dependency) : sx :=
  SL [SB sym_ok; SL (map sx_dep (fst r)); SL (map sx_dep (snd r))].

Definition sym_unsupported : bytes := [117;110;115;117;112;112;111;114;116;101;100].

Definition run_Pom (kind : bytes) (a : sx) : option sx :=
  if bytes_eqb kind [112;111;109] (* pom *) then
    Some (match dec_case a with
          | Some c =>
              match effective (jdk_table (c_table c)) (c_jdk c) (c_os c) (c_repo c) (c_root c) with
              | Ok r => sx_lists r
              | Err _ => SL [SB sym_err]
              | Panic _ => SL [SB sym_panic]
              | OutOfFuel => SL [SB sym_fuel]
              end
          | None => badcase
          end)
  else if bytes_eqb kind [112;111;109;115;112;101;99] (* pomspec *) then
    Some (match dec_case a with
          | Some c =>
              match MavenModelSpec.effective (jdk_table (c_table c)) (c_jdk c) (c_os c) (c_repo c) (c_root c) with
              | MavenModelSpec.SOk r => sx_lists r
              | MavenModelSpec.SErr => SL [SB sym_err]
              | MavenModelSpec.SUnsupported w => SL [SB sym_unsupported; SI (Z.of_N w)]
              end
          | None => badcase
          end)
  else if bytes_eqb kind [106;100;107;115;112;101;99] (* jdkspec *) then
    (* the specification's own evaluation of the jdk condition: 1 holds, 0 does not, 3 no claim *)
    Some (match a with
          | SL l => SL (map (fun q => match q with
                                      | SL [SB spec; SB jdk] =>
                                          SL [SB spec; SB jdk;
                                              SI (match MavenModelSpec.jdk_expect spec jdk with
                                                  | Some true => 1 | Some false => 0 | None => 3 end)%Z]
                                      | _ => badcase
                                      end) l)
          | _ => badcase
          end)
  else if bytes_eqb kind [112;111;109;97;112;105] (* pomapi *) then
    Some (match dec_case a with
          | Some c =>
              match effective_resolve (jdk_table (c_table c)) (c_repo c) (c_root c) with
              | Ok r => SL [SB sym_ok;
                            SL (map (fun d => let q := requirement_of d in
                                              SL [SB (rq_name q); SB (rq_version q); sx_bool (rq_opt q); sx_bool (rq_test q);
                                                  SB (rq_scope q); SB (rq_type q); SB (rq_classifier q);
                                                  sx_bool (rq_has_excl q); SB (rq_excl q)]) (fst r))]
              | Err e => if (e =? E_fetch) then SL [SB [110;111;116;102;111;117;110;100]] else SL [SB sym_err]
              | Panic _ => SL [SB sym_panic]
              | OutOfFuel => SL [SB sym_fuel]
              end
          | None => badcase
          end)
  else if bytes_eqb kind [112;111;109;100;101;99;111;100;101] (* pomdecode *) then
    (* Decoding is outside the model; what it has to deliver is the record the case describes:
       every text trimmed, a property written without text present with the empty value. *)
    Some (match dec_case a with
          | Some c => SL [SB sym_ok; SL (map sx_project (c_root c :: c_repo c))]
          | None => badcase
          end)
  else if bytes_eqb kind [105;110;116;101;114;112] (* interp *) then
    Some (match a with
          | SL [tab; SB s] =>
              match dec_pairs tab with
              | Some t =>
                  match interpolate_string (property_map t [] [] [] []) s with
                  | Ok (r, ok) => SL [SB r; sx_bool ok]
                  | Err _ => SL [SB sym_err]
                  | Panic _ => SL [SB sym_panic]
                  | OutOfFuel => SL [SB sym_fuel]
                  end
              | None => badcase
              end
          | _ => badcase
          end)
  else None.
