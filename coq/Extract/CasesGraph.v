(* Decoding of harness cases for the graph model (kind names match harness/go/cmd/implrun/graph.go).
     graph   := (nodes edges error [perm])
     node    := (system name versiontype version (nodeerr ...))
     nodeerr := (system name versiontype version text)
     edge    := (from to requirement (attrpair ...))
   The graph is built through add_node / add_error / add_edge, like the Go side. *)
From DepsDev Require Import Lib.Base Lib.Sx Resolve.Attr Resolve.Graph Gen.GraphTables.

Definition sym_adderr : bytes := [97;100;100;101;114;114].

Definition decode_vkey (l : list sx) : option (vkey * list sx) :=
  match l with
  | SI s :: SB n :: SI t :: SB v :: rest =>
      Some ({| vk_sys := Z.to_N s; vk_name := n; vk_type := Z.to_N t; vk_ver := v |}, rest)
  | _ => None
  end.

Fixpoint dtype_of_pairs (d : dtype) (ps : list sx) : option (res dtype) :=
  match ps with
  | [] => Some (Ok d)
  | SL [SI k; SB v] :: rest =>
      match dtype_add d k v with
      | Ok d' => dtype_of_pairs d' rest
      | Err e => Some (Err e)
      | Panic p => Some (Panic p)
      | OutOfFuel => Some OutOfFuel
      end
  | _ => None
  end.

(* what harness dumpDep prints: single-bit flag probes, then the keys in ascending order *)
Definition dtype_dump (d : dtype) : sx :=
  SL (flat_map (fun k => if negb (N.land (fst d) (mask_of_key k) =? 0) then [SL [SI k; SB []]] else []) flag_probe
      ++ map (fun kv => SL [SI (Z.of_N (fst kv)); SB (snd kv)]) (snd d)).

Definition sx_vkey (k : vkey) : list sx :=
  [SI (Z.of_N (vk_sys k)); SB (vk_name k); SI (Z.of_N (vk_type k)); SB (vk_ver k)].

Definition sx_graph (g : graph) : list sx :=
  [SL (map (fun n => SL (sx_vkey (n_ver n) ++
                         [SL (map (fun e => SL (sx_vkey (ne_req e) ++ [SB (ne_text e)])) (n_errs n))]))
           (g_nodes g));
   SL (map (fun e => SL [SI (Z.of_nat (e_from e)); SI (Z.of_nat (e_to e)); SB (e_req e); dtype_dump (e_type e)])
           (g_edges g));
   SB (g_error g)].

(* build outcome: None = malformed case; Some (Err _) = a constructor refused *)
Fixpoint add_errors (g : graph) (id : nat) (errs : list sx) : option (res graph) :=
  match errs with
  | [] => Some (Ok g)
  | SL l :: rest =>
      match decode_vkey l with
      | Some (k, [SB text]) =>
          match add_error g (Z.of_nat id) k text with
          | Ok g' => add_errors g' id rest
          | r => Some r
          end
      | _ => None
      end
  | _ => None
  end.

Fixpoint add_nodes (g : graph) (nodes : list sx) : option (res graph) :=
  match nodes with
  | [] => Some (Ok g)
  | SL l :: rest =>
      match decode_vkey l with
      | Some (k, [SL errs]) =>
          let '(g1, id) := add_node g k in
          match add_errors g1 id errs with
          | Some (Ok g2) => add_nodes g2 rest
          | r => r
          end
      | _ => None
      end
  | _ => None
  end.

Fixpoint add_edges (g : graph) (edges : list sx) : option (res graph) :=
  match edges with
  | [] => Some (Ok g)
  | SL [SI f; SI t; SB req; SL ps] :: rest =>
      match dtype_of_pairs (0, []) ps with
      | Some (Ok d) =>
          match add_edge g f t req d with
          | Ok g' => add_edges g' rest
          | r => Some r
          end
      | Some (Err e) => Some (Err e)
      | Some (Panic p) => Some (Panic p)
      | Some OutOfFuel => Some OutOfFuel
      | None => None
      end
  | _ => None
  end.

Fixpoint decode_perm (l : list sx) : option (list nat) :=
  match l with
  | [] => Some []
  | SI z :: rest => match decode_perm rest with Some r => Some (Z.to_nat z :: r) | None => None end
  | _ => None
  end.

Definition build_graph (a : sx) : option (res graph) :=
  let go nodes edges err perm :=
    match add_nodes {| g_nodes := []; g_edges := []; g_error := err |} nodes with
    | Some (Ok g1) =>
        match add_edges g1 edges with
        | Some (Ok g2) =>
            match perm with
            | [] => Some (Ok g2)
            | _ => match decode_perm perm with Some p => Some (relabel p g2) | None => None end
            end
        | r => r
        end
    | r => r
    end in
  match a with
  | SL [SL nodes; SL edges; SB err] => go nodes edges err []
  | SL [SL nodes; SL edges; SB err; SL perm] => go nodes edges err perm
  | _ => None
  end.

Definition sx_graph_res (r : res graph) : sx :=
  match r with
  | Ok g => SL (SB sym_ok :: sx_graph g)
  | Err _ => SL [SB sym_err]
  | Panic _ => SL [SB sym_panic]
  | OutOfFuel => SL [SB sym_fuel]
  end.

Definition with_graph (a : sx) (f : graph -> sx) : sx :=
  match build_graph a with
  | None => badcase
  | Some (Ok g) => f g
  | Some (Err _) => SL [SB sym_adderr]
  | Some (Panic _) => SL [SB sym_panic]
  | Some OutOfFuel => SL [SB sym_fuel]
  end.

Definition decode_nerr (a : sx) : option nerr :=
  match a with
  | SL l => match decode_vkey l with
            | Some (k, [SB text]) => Some {| ne_req := k; ne_text := text |}
            | _ => None end
  | _ => None
  end.

Fixpoint decode_nerrs (l : list sx) : option (list nerr) :=
  match l with
  | [] => Some []
  | e :: rest => match decode_nerr e, decode_nerrs rest with
                 | Some x, Some r => Some (x :: r)
                 | _, _ => None end
  end.

Definition decode_node (a : sx) : option node :=
  match a with
  | SL l => match decode_vkey l with
            | Some (k, [SL errs]) =>
                match decode_nerrs errs with
                | Some es => Some {| n_ver := k; n_errs := es |}
                | None => None end
            | _ => None end
  | _ => None
  end.

Definition run_Graph (kind : bytes) (a : sx) : option sx :=
  if bytes_eqb kind [99;97;110;111;110;95;103;114;97;112;104] (* canon_graph *) then
    Some (with_graph a (fun g => sx_graph_res (canon_current g)))
  else if bytes_eqb kind [99;97;110;111;110;95;115;99;97;110] (* canon_scan: model only, repaired duplicate test *) then
    Some (with_graph a (fun g => sx_graph_res (canon true g)))
  else if bytes_eqb kind [99;97;110;111;110;95;108;101;115;115] (* canon_less: model only, Dupe inside Less *) then
    Some (with_graph a (fun g => sx_graph_res (canon false g)))
  else if bytes_eqb kind [99;97;110;111;110;95;118;97;114;105;97;110;116] (* canon_variant *) then
    Some (sx_bool canon_dupe_by_scan)
  else if bytes_eqb kind [103;114;97;112;104;95;98;117;105;108;100] (* graph_build *) then
    Some (with_graph a (fun g => SL (SB sym_ok :: sx_graph g)))
  else if bytes_eqb kind [110;111;100;101;95;99;111;109;112;97;114;101] (* node_compare *) then
    Some (match a with
          | SL [x; y] => match decode_node x, decode_node y with
                         | Some n1, Some n2 => SI (Z.sgn (node_compare n1 n2))
                         | _, _ => badcase end
          | _ => badcase end)
  else if bytes_eqb kind [110;111;100;101;101;114;114;95;99;111;109;112;97;114;101] (* nodeerr_compare *) then
    Some (match a with
          | SL [x; y] => match decode_nerr x, decode_nerr y with
                         | Some n1, Some n2 => SI (Z.sgn (nerr_compare n1 n2))
                         | _, _ => badcase end
          | _ => badcase end)
  else if bytes_eqb kind [100;101;112;116;121;112;101;95;99;111;109;112;97;114;101] (* deptype_compare *) then
    Some (match a with
          | SL [SL x; SL y] => match dtype_of_pairs (0, []) x, dtype_of_pairs (0, []) y with
                               | Some (Ok d1), Some (Ok d2) => SI (Z.sgn (dtype_compare d1 d2))
                               | Some _, Some _ => SL [SB sym_panic]
                               | _, _ => badcase end
          | _ => badcase end)
  else None.
