(* Decoding of harness cases for the attribute-set model (kind names match harness/go/cmd/implrun/attr.go). *)
From DepsDev Require Import Lib.Base Lib.Sx Gen.AttrTables Resolve.Attr.

Definition sx_optbytes (o : option bytes) : sx :=
  match o with Some b => SB b | None => SB sym_oom end.

Definition sx_pairs (l : list (Z * bytes)) : sx :=
  SL (map (fun p => SL [SI (fst p); SB (snd p)]) l).

Definition decode_pairs (a : sx) : option pairs :=
  match a with
  | SL l =>
      fold_right (fun e acc =>
                    match e, acc with
                    | SL [SI k; SB v], Some r => Some ((k, v) :: r)
                    | _, _ => None
                    end) (Some []) l
  | _ => None
  end.

(* flavor 0 = dep.Type, 1 = version.AttrSet *)
Fixpoint attr_ops (flavor : Z) (s : state) (ops : list sx) : list sx :=
  match ops with
  | [] => []
  | o :: rest =>
      match o with
      | SL [SI 0%Z; SI v; SI k; SB val] =>
          let '(s', p) := step s (OSet (Z.to_nat v) k val) in
          (if p then [SB sym_panic] else []) ++ attr_ops flavor s' rest
      | SL [SI 1%Z; SI d; SI sr] =>
          attr_ops flavor (fst (step s (OClone (Z.to_nat d) (Z.to_nat sr)))) rest
      | SL [SI 2%Z; SI d; SI sr] =>
          attr_ops flavor (fst (step s (OAssign (Z.to_nat d) (Z.to_nat sr)))) rest
      | SL [SI 3%Z; SI a; SI b] =>
          let c := set_compare s (vars s (Z.to_nat a)) (vars s (Z.to_nat b)) in
          (if (flavor =? 0)%Z then SI c else sx_bool (c =? 0)%Z) :: attr_ops flavor s rest
      | SL [SI 4%Z; SI a; SI k] =>
          let '(v, ok) := get_attr s (vars s (Z.to_nat a)) k in
          SL [SB v; sx_bool ok] :: attr_ops flavor s rest
      | SL [SI 5%Z; SI a] =>
          sx_optbytes (if (flavor =? 0)%Z then dep_string s (vars s (Z.to_nat a))
                       else ver_string s (vars s (Z.to_nat a))) :: attr_ops flavor s rest
      | SL [SI 6%Z; SI a] =>
          sx_bool (is_regular s (vars s (Z.to_nat a))) :: attr_ops flavor s rest
      | SL [SI 7%Z; SI a] =>
          sx_pairs (dump s (vars s (Z.to_nat a))) :: attr_ops flavor s rest
      | _ => [badcase]
      end
  end.

Definition sx_pres (r : pres pairs) : sx :=
  match r with
  | PVal ps => let s := build ps in SL [SB sym_ok; sx_pairs (dump s (vars s 0%nat))]
  | PErr => SL [SB sym_err]
  | POom => SL [SB sym_oom]
  end.

Definition run_Attr (kind : bytes) (a : sx) : option sx :=
  if bytes_eqb kind [97;116;116;114;95;104;105;115;116;111;114;121] (* attr_history *) then
    Some (match a with
          | SL [SI flavor; SL ops] => SL (attr_ops flavor init ops)
          | _ => badcase end)
  else if bytes_eqb kind [100;101;112;95;107;101;121;110;97;109;101] (* dep_keyname *) then
    Some (match a with SI k => SB (key_name dep_keys k) | _ => badcase end)
  else if bytes_eqb kind [118;101;114;95;107;101;121;110;97;109;101] (* ver_keyname *) then
    Some (match a with SI k => SB (key_name ver_keys k) | _ => badcase end)
  else if bytes_eqb kind [100;101;112;95;112;97;114;115;101] (* dep_parse *) then
    Some (match a with SB s => sx_pres (dep_parse s) | _ => badcase end)
  else if bytes_eqb kind [118;101;114;95;112;97;114;115;101] (* ver_parse *) then
    Some (match a with SB s => sx_pres (ver_parse s) | _ => badcase end)
  else if bytes_eqb kind [118;101;114;95;112;97;114;115;101;95;115;105;110;103;108;101] (* ver_parse_single *) then
    Some (match a with SB s => sx_pres (ver_parse_single s) | _ => badcase end)
  else if bytes_eqb kind [118;101;114;95;119;114;105;116;101] (* ver_write *) then
    Some (match decode_pairs a with
          | Some ps => let s := build ps in SB (ver_write s (vars s 0%nat))
          | None => badcase end)
  else if bytes_eqb kind [100;101;112;95;119;114;105;116;101] (* dep_write *) then
    Some (match decode_pairs a with
          | Some ps => let s := build ps in sx_optbytes (dep_write s (vars s 0%nat))
          | None => badcase end)
  else if bytes_eqb kind [100;101;112;95;115;116;114;105;110;103] (* dep_string *) then
    Some (match decode_pairs a with
          | Some ps => let s := build ps in sx_optbytes (dep_string s (vars s 0%nat))
          | None => badcase end)
  else None.
