(* Decoding of harness cases for the Maven resolver model (kind names match
   harness/go/cmd/implrun/mavenres.go).  The client and the semver oracles are the finite
   tables recorded from the Go run; a client call the table lacks yields EMissing. *)
From DepsDev Require Import Lib.Base Lib.Sx Gen.MavenResTables Resolve.MavenRes.

Definition sym_nf : bytes := [110;102].
Definition sym_incompatible : bytes := [105;110;99;111;109;112;97;116;105;98;108;101].
Definition sym_notfound : bytes := [110;111;116;102;111;117;110;100].
Definition sym_other : bytes := [111;116;104;101;114].
Definition sym_missing : bytes := [109;105;115;115;105;110;103].

Definition dec_vk (a : sx) : option vkey :=
  match a with
  | SL [SI s; SB n; SI t; SB v] => Some (mkVK (mkPK (Z.to_N s) n) (Z.to_N t) v)
  | _ => None
  end.
Definition dec_pk (a : sx) : option pkey :=
  match a with
  | SL [SI s; SB n] => Some (mkPK (Z.to_N s) n)
  | _ => None
  end.

Definition opt_map_all {A B} (f : A -> option B) (l : list A) : option (list B) :=
  fold_right (fun x acc => match f x, acc with Some y, Some r => Some (y :: r) | _, _ => None end) (Some []) l.

Definition dec_type (a : sx) : option dtype :=
  match a with
  | SL l =>
      fold_right (fun e acc =>
                    match e, acc with
                    | SL [SI k; SB v], Some (m, ps) =>
                        if (k <? 0)%Z then Some (N.lor m (Z.to_N (- k)), ps) else Some (m, (Z.to_N k, v) :: ps)
                    | _, _ => None
                    end) (Some (0, [])) l
  | _ => None
  end.

Definition dec_version (a : sx) : option version :=
  match a with
  | SL [k; SI r] => match dec_vk k with Some vk => Some (mkV vk (negb (r =? 0)%Z)) | None => None end
  | _ => None
  end.

Definition dec_reqver (a : sx) : option reqver :=
  match a with
  | SL [k; t] => match dec_vk k, dec_type t with Some vk, Some ty => Some (mkRV vk ty) | _, _ => None end
  | _ => None
  end.

Definition dec_ans {A} (f : sx -> option A) (a : sx) : option (res A) :=
  match a with
  | SL [SB tag; body] => if bytes_eqb tag sym_ok then match f body with Some x => Some (Ok x) | None => None end else None
  | SL [SB tag] => if bytes_eqb tag sym_nf then Some (Err ENotFound)
                   else if bytes_eqb tag sym_err then Some (Err EOther) else None
  | _ => None
  end.

Definition dec_list {A} (f : sx -> option A) (a : sx) : option (list A) :=
  match a with SL l => opt_map_all f l | _ => None end.

Definition dec_entry {K A} (fk : sx -> option K) (fa : sx -> option A) (a : sx) : option (K * A) :=
  match a with
  | SL [k; v] => match fk k, fa v with Some k', Some v' => Some (k', v') | _, _ => None end
  | _ => None
  end.

Definition dec_simple (a : sx) : option (bytes * Z) :=
  match a with SL [SB r; SI s] => Some (r, s) | _ => None end.
Definition dec_match (a : sx) : option ((bytes * bytes) * bool) :=
  match a with SL [SB r; SB v; SI b] => Some ((r, v), negb (b =? 0)%Z) | _ => None end.
Definition dec_less (a : sx) : option ((vkey * vkey) * bool) :=
  match a with
  | SL [x; y; SI b] => match dec_vk x, dec_vk y with Some x', Some y' => Some ((x', y'), negb (b =? 0)%Z) | _, _ => None end
  | _ => None
  end.

Definition dec_tables (a : sx) : option tables :=
  match a with
  | SL [v; l; r; s; m; ls] =>
      match dec_list (dec_entry dec_vk (dec_ans dec_version)) v,
            dec_list (dec_entry dec_pk (dec_ans (dec_list dec_version))) l,
            dec_list (dec_entry dec_vk (dec_ans (dec_list dec_reqver))) r,
            dec_list dec_simple s, dec_list dec_match m, dec_list dec_less ls with
      | Some v', Some l', Some r', Some s', Some m', Some ls' => Some (mkT v' l' r' s' m' ls')
      | _, _, _, _, _, _ => None
      end
  | _ => None
  end.

(* ---- observable *)
Definition sx_vk (k : vkey) : sx :=
  SL [SI (Z.of_N (pk_sys (vk_pk k))); SB (pk_name (vk_pk k)); SI (Z.of_N (vk_vt k)); SB (vk_ver k)].

Definition mask_bits : list N := [1; 2; 4; 8; 16; 32; 64; 128].
Definition sx_type (t : dtype) : sx :=
  SL (map (fun b => SL [SI (- Z.of_N b)%Z; SB []]) (filter (fun b => negb (N.land (fst t) b =? 0)) mask_bits)
      ++ map (fun p => SL [SI (Z.of_N (fst p)); SB (snd p)]) (snd t)).

Definition sx_edge (e : edge) : sx := SL [sx_vk (e_from e); sx_vk (e_to e); SB (e_req e); sx_type (e_ty e)].
Definition sx_nerr (e : nerr) : sx := SL [sx_vk (ne_node e); sx_vk (ne_req e); SI 1%Z].

Definition sx_graph (r : res graph) : sx :=
  match r with
  | Ok g => SL [SB sym_ok; SL (map sx_vk (g_nodes g)); SL (map sx_edge (g_edges g)); SL (map sx_nerr (g_errs g))]
  | Err e =>
      if e =? EIncompat then SL [SB sym_err; SB sym_incompatible]
      else if e =? ENotFound then SL [SB sym_err; SB sym_notfound]
      else if e =? EMissing then SL [SB sym_missing]
      else if e =? EOutside then SL [SB sym_oom]
      else SL [SB sym_err; SB sym_other]
  | Panic _ => SL [SB sym_panic]
  | OutOfFuel => SL [SB sym_fuel]
  end.

Definition maven_fuel : nat := 3000.

Definition run_MavenRes (kind : bytes) (a : sx) : option sx :=
  if bytes_eqb kind [109;97;118;101;110] (* maven *) then
    Some (match a with
          | SL [r; t] =>
              match dec_vk r, dec_tables t with
              | Some root, Some tb => sx_graph (table_resolve tb maven_fuel root)
              | _, _ => badcase
              end
          | _ => badcase
          end)
  else if bytes_eqb kind [109;97;118;101;110;95;114;101;113;115] (* maven_reqs *) then
    (* the requirement lists at the end of resolve, for the classification of oracle hits *)
    Some (match a with
          | SL [r; t] =>
              match dec_vk r, dec_tables t with
              | Some root, Some tb =>
                  SL (map (fun kv => SL [SB (pk_name (mk_pk (fst kv))); SB (mk_cls (fst kv)); SB (mk_typ (fst kv));
                                         SL (map (fun v => SB (vk_ver v)) (snd kv))])
                          (fst (resolve_full (tc_version tb) (tc_versions tb) (tc_requirements tb) (tc_simple tb)
                                             (tc_match tb) (tc_less tb) maven_fuel root)))
              | _, _ => badcase
              end
          | _ => badcase
          end)
  else if bytes_eqb kind [109;97;118;101;110;95;104;121;112] (* maven_hyp *) then
    (* the hypotheses of the C07 theorems decided on the recorded table, the explicit fuel bound of
       C07_table_resolve_total, and the resolution run with exactly that fuel *)
    Some (match a with
          | SL [r; t] =>
              match dec_vk r, dec_tables t with
              | Some root, Some tb =>
                  SL [sx_bool (tb_plain tb); sx_bool (tb_faithful tb); sx_bool (tb_lists_faithful tb);
                      SI (Z.of_nat (tb_fuel tb)); sx_graph (table_resolve tb (tb_fuel tb) root)]
              | _, _ => badcase
              end
          | _ => badcase
          end)
  else if bytes_eqb kind [109;97;118;101;110;95;114;101;116;114;121] (* maven_retry *) then
    (* the resolution with a much larger retry bound than the regenerated maven_max_retries (probe: stops early
       when an incompatible pass met nothing new) *)
    Some (match a with
          | SL [r; t] =>
              match dec_vk r, dec_tables t with
              | Some root, Some tb =>
                  sx_graph (resolve_probe (tc_version tb) (tc_versions tb) (tc_requirements tb) (tc_simple tb)
                                            (tc_match tb) (tc_less tb)
                                            (Nat.max (10 * maven_max_retries) 1000) maven_fuel root)
              | _, _ => badcase
              end
          | _ => badcase
          end)
  else None.
