From Coq Require Import Extraction ExtrOcamlBasic.
From DepsDev Require Import Lib.Base Lib.Sx Extract.Cases.
Extraction Language OCaml.
Extraction "model.ml" run_case.
