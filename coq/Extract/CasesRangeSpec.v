(* Decoding of harness cases for the four reference specifications of requirement matching
   (kinds spec_npm, spec_npm_desugar, spec_cargo, spec_pypi, spec_maven).  Only glue. *)
From DepsDev Require Import Lib.Base Lib.Sx Spec.NodeRange Spec.CargoReq.
From DepsDev Require Spec.Pep440Specifier Spec.MavenRange.
Local Open Scope Z_scope.

Fixpoint decode_list {A} (f : sx -> option A) (l : list sx) : option (list A) :=
  match l with
  | [] => Some []
  | x :: t =>
      match f x, decode_list f t with
      | Some a, Some r => Some (a :: r)
      | _, _ => None
      end
  end.

Definition decode_z (x : sx) : option Z := match x with SI z => Some z | _ => None end.
Definition decode_nat_z (x : sx) : option Z :=            (* a non-negative number *)
  match x with SI z => if z <? 0 then None else Some z | _ => None end.
Definition decode_zs (x : sx) : option (list Z) :=
  match x with SL l => decode_list decode_nat_z l | _ => None end.

(* -1 encodes None *)
Definition decode_optz (x : sx) : option (option Z) :=
  match x with
  | SI z => if z =? -1 then Some None else if z <? 0 then None else Some (Some z)
  | _ => None
  end.

Definition decode_bool (x : sx) : option bool :=
  match x with SI 0 => Some false | SI 1 => Some true | _ => None end.

(* ---- npm / cargo versions *)

Definition decode_ident (x : sx) : option ident :=
  match x with
  | SL [SI 0; SI n] => if n <? 0 then None else Some (INum n)
  | SL [SI 1; SB s] => Some (IStr s)
  | _ => None
  end.

Definition decode_sv (x : sx) : option sv :=
  match x with
  | SL [SI M; SI m; SI p; SL pre] =>
      if (M <? 0) || (m <? 0) || (p <? 0) then None else
      match decode_list decode_ident pre with
      | Some ids => Some (mk_sv M m p ids)
      | None => None
      end
  | _ => None
  end.

Definition sx_ident (i : ident) : sx :=
  match i with INum n => SL [SI 0; SI n] | IStr s => SL [SI 1; SB s] end.
Definition sx_sv (v : sv) : sx :=
  SL [SI (sv_major v); SI (sv_minor v); SI (sv_patch v); SL (map sx_ident (sv_pre v))].

Definition sx_bools (l : list bool) : sx := SL (map sx_bool l).

(* ---- npm *)

Definition decode_partial (x : sx) : option partial :=
  match x with
  | SL [M; m; p; SL pre] =>
      match decode_optz M, decode_optz m, decode_optz p, decode_list decode_ident pre with
      | Some M', Some m', Some p', Some ids =>
          Some {| pa_major := M'; pa_minor := m'; pa_patch := p'; pa_pre := ids |}
      | _, _, _, _ => None
      end
  | _ => None
  end.

Definition decode_nop (x : sx) : option nop :=
  match x with
  | SI 0 => Some OpNone | SI 1 => Some OpEq | SI 2 => Some OpGt | SI 3 => Some OpGe
  | SI 4 => Some OpLt | SI 5 => Some OpLe | SI 6 => Some OpTilde | SI 7 => Some OpCaret
  | _ => None
  end.

Definition nop_index (o : nop) : Z :=
  match o with
  | OpNone => 0 | OpEq => 1 | OpGt => 2 | OpGe => 3 | OpLt => 4 | OpLe => 5 | OpTilde => 6 | OpCaret => 7
  end.

Definition decode_simple (x : sx) : option (nop * partial) :=
  match x with
  | SL [o; pa] =>
      match decode_nop o, decode_partial pa with
      | Some o', Some pa' => Some (o', pa')
      | _, _ => None
      end
  | _ => None
  end.

Definition decode_nitem (x : sx) : option nitem :=
  match x with
  | SL [SI 0; a; b] =>
      match decode_partial a, decode_partial b with
      | Some a', Some b' => Some (NHyphen a' b')
      | _, _ => None
      end
  | SL [SI 1; SL l] =>
      match decode_list decode_simple l with
      | Some l' => Some (NSimples l')
      | None => None
      end
  | _ => None
  end.

Definition decode_nrange (x : sx) : option nrange :=
  match x with
  | SL (i :: l) => decode_list decode_nitem (i :: l)      (* at least one alternative *)
  | _ => None
  end.

Definition sx_pcmp (c : pcmp) : sx :=
  match c with
  | PAny => SL [SI 0]
  | PCmp o v => SL [SI (nop_index o); sx_sv v]
  end.

(* ---- cargo *)

Definition decode_cop (x : sx) : option cop :=
  match x with
  | SI 1 => Some CExact | SI 2 => Some CGreater | SI 3 => Some CGreaterEq | SI 4 => Some CLess
  | SI 5 => Some CLessEq | SI 6 => Some CTilde | SI 7 => Some CCaret | SI 8 => Some CWildcard
  | _ => None
  end.

Definition decode_comparator (x : sx) : option comparator :=
  match x with
  | SL [o; SI M; m; p; SL pre] =>
      if M <? 0 then None else
      match decode_cop o, decode_optz m, decode_optz p, decode_list decode_ident pre with
      | Some o', Some m', Some p', Some ids =>
          Some {| c_op := o'; c_major := M; c_minor := m'; c_patch := p'; c_pre := ids |}
      | _, _, _, _ => None
      end
  | _ => None
  end.

(* ---- pypi *)

Definition decode_pre (x : sx) : option (option (Z * Z)) :=
  match x with
  | SL [] => Some None
  | SL [SI l; SI n] => if (l <? 0) || (2 <? l) || (n <? 0) then None else Some (Some (l, n))
  | _ => None
  end.

Definition decode_pver (x : sx) : option Pep440Specifier.pver :=
  match x with
  | SL [rel; pre; post; dev] =>
      match decode_zs rel, decode_pre pre, decode_optz post, decode_optz dev with
      | Some (r0 :: r), Some pre', Some post', Some dev' =>
          Some {| Pep440Specifier.pv_release := r0 :: r; Pep440Specifier.pv_pre := pre';
                  Pep440Specifier.pv_post := post'; Pep440Specifier.pv_dev := dev' |}
      | _, _, _, _ => None
      end
  | _ => None
  end.

Definition decode_pop (x : sx) : option Pep440Specifier.pop :=
  match x with
  | SI 1 => Some Pep440Specifier.PEq | SI 2 => Some Pep440Specifier.PGt | SI 3 => Some Pep440Specifier.PGe
  | SI 4 => Some Pep440Specifier.PLt | SI 5 => Some Pep440Specifier.PLe | SI 8 => Some Pep440Specifier.PNe
  | SI 11 => Some Pep440Specifier.PCompat
  | _ => None
  end.

Definition decode_spec (x : sx) : option Pep440Specifier.spec :=
  match x with
  | SL [o; v; pf] =>
      match decode_pop o, decode_pver v, decode_bool pf with
      | Some o', Some v', Some pf' =>
          Some {| Pep440Specifier.sp_op := o'; Pep440Specifier.sp_ver := v'; Pep440Specifier.sp_prefix := pf' |}
      | _, _, _ => None
      end
  | _ => None
  end.

(* a candidate: a non-empty list of non-negative numbers *)
Definition decode_release (x : sx) : option (list Z) :=
  match decode_zs x with
  | Some (r0 :: r) => Some (r0 :: r)
  | _ => None
  end.

(* ---- maven *)

Definition decode_bound (x : sx) : option (option (list Z)) :=
  match x with
  | SL [] => Some None
  | SL [v] => match decode_release v with Some r => Some (Some r) | None => None end
  | _ => None
  end.

Definition decode_restr (x : sx) : option MavenRange.mrestr :=
  match x with
  | SL [li; l; hi; h] =>
      match decode_bool li, decode_bound l, decode_bool hi, decode_bound h with
      | Some li', Some l', Some hi', Some h' =>
          Some {| MavenRange.lo := l'; MavenRange.lo_incl := li'; MavenRange.hi := h'; MavenRange.hi_incl := hi' |}
      | _, _, _, _ => None
      end
  | _ => None
  end.

Definition decode_mspec (x : sx) : option MavenRange.mspec :=
  match x with
  | SL [SI 0; v] => match decode_release v with Some r => Some (MavenRange.MSoft r) | None => None end
  | SL [SI 1; SL l] =>
      match decode_list decode_restr l with
      | Some l' => Some (MavenRange.MRanges l')
      | None => None
      end
  | _ => None
  end.

(* ---- dispatcher *)

(* ---- Maven with arbitrary version strings *)
Definition dec_ob (x : sx) : option (option bytes) :=
  match x with SL [] => Some None | SL [SB b] => Some (Some b) | _ => None end.
Definition dec_restr_s (x : sx) : option MavenRange.mrestr_s :=
  match x with
  | SL [SI li; lo; SI hi_i; hi] =>
      match dec_ob lo, dec_ob hi with
      | Some l, Some h => Some {| MavenRange.slo := l; MavenRange.slo_incl := negb (li =? 0);
                                  MavenRange.shi := h; MavenRange.shi_incl := negb (hi_i =? 0) |}
      | _, _ => None
      end
  | _ => None
  end.
Definition decode_mspec_s (m : sx) : option MavenRange.mspec_s :=
  match m with
  | SL [SI 0; SB v] => Some (MavenRange.MSoftS v)
  | SL [SI 1; SL rs] => match decode_list dec_restr_s rs with Some l => Some (MavenRange.MRangesS l) | None => None end
  | _ => None
  end.
Definition dec_bytes (x : sx) : option bytes := match x with SB b => Some b | _ => None end.

Definition sx_opt {A} (f : A -> sx) (o : option A) : sx := match o with Some x => SL [SI 1; f x] | None => SL [SI 0] end.
Definition sx_zs (l : list Z) : sx := SL (map SI l).

Definition kind_is (kind : bytes) (name : bytes) : bool := bytes_eqb kind name.

(* further kinds: the string-based Maven specification, witnesses of non-emptiness, and the
   per-comparator verdicts of the crate (matches_impl, pre_is_compatible) *)
Definition run_more (kind : bytes) (a : sx) : option sx :=
  if kind_is kind [115;112;101;99;95;109;97;118;101;110;113]%N (* spec_mavenq *) then
    Some (match a with
          | SL [m; SL vs] =>
              match decode_mspec_s m, decode_list dec_bytes vs with
              | Some m', Some vs' => sx_bools (map (MavenRange.contains_s m') vs')
              | _, _ => badcase
              end
          | _ => badcase end)
  else if kind_is kind [119;105;116;95;110;112;109]%N (* wit_npm *) then
    Some (match decode_nrange a with Some r => sx_opt sx_sv (witness r) | None => badcase end)
  else if kind_is kind [119;105;116;95;99;97;114;103;111]%N (* wit_cargo *) then
    Some (match a with
          | SL cs => match decode_list decode_comparator cs with Some r => sx_opt sx_sv (req_witness r) | None => badcase end
          | _ => badcase end)
  else if kind_is kind [119;105;116;95;112;121;112;105]%N (* wit_pypi *) then
    Some (match a with
          | SL ss => match decode_list decode_spec ss with Some l => sx_opt sx_zs (Pep440Specifier.spec_witness l) | None => badcase end
          | _ => badcase end)
  else if kind_is kind [119;105;116;95;109;97;118;101;110]%N (* wit_maven *) then
    Some (match decode_mspec a with Some m => sx_opt sx_zs (MavenRange.mv_witness m) | None => badcase end)
  else if kind_is kind [119;105;116;95;109;97;118;101;110;113]%N (* wit_mavenq *) then
    Some (match decode_mspec_s a with Some m => sx_opt SB (MavenRange.mv_witness_s m) | None => badcase end)
  else if kind_is kind [99;97;114;103;111;95;100;101;116;97;105;108]%N (* cargo_detail *) then
    Some (match a with
          | SL [SL cs; SL vs] =>
              match decode_list decode_comparator cs, decode_list decode_sv vs with
              | Some cs', Some vs' =>
                  SL (map (fun v => SL (map (fun c => SL [sx_bool (matches_impl c v); sx_bool (pre_is_compatible c v)]) cs')) vs')
              | _, _ => badcase
              end
          | _ => badcase end)
  else None.


Definition run_RangeSpec (kind : bytes) (a : sx) : option sx :=
  if bytes_eqb kind [115;112;101;99;95;110;112;109]%N (* spec_npm *) then
    Some (match a with
          | SL [r; SL vs] =>
              match decode_nrange r, decode_list decode_sv vs with
              | Some r', Some vs' => sx_bools (map (satisfies r') vs')
              | _, _ => badcase
              end
          | _ => badcase end)
  else if bytes_eqb kind [115;112;101;99;95;110;112;109;95;100;101;115;117;103;97;114]%N (* spec_npm_desugar *) then
    Some (match decode_nrange a with
          | Some r => SL (map (fun i => SL (map sx_pcmp (desugar_item i))) r)
          | None => badcase
          end)
  else if bytes_eqb kind [115;112;101;99;95;99;97;114;103;111]%N (* spec_cargo *) then
    Some (match a with
          | SL [SL cs; SL vs] =>
              match decode_list decode_comparator cs, decode_list decode_sv vs with
              | Some cs', Some vs' => sx_bools (map (matches_req cs') vs')
              | _, _ => badcase
              end
          | _ => badcase end)
  else if bytes_eqb kind [115;112;101;99;95;112;121;112;105]%N (* spec_pypi *) then
    Some (match a with
          | SL [SL ss; SL vs] =>
              match decode_list decode_spec ss, decode_list decode_release vs with
              | Some ss', Some vs' => sx_bools (map (Pep440Specifier.contains ss') vs')
              | _, _ => badcase
              end
          | _ => badcase end)
  else if bytes_eqb kind [115;112;101;99;95;109;97;118;101;110]%N (* spec_maven *) then
    Some (match a with
          | SL [m; SL vs] =>
              match decode_mspec m, decode_list decode_release vs with
              | Some m', Some vs' => sx_bools (map (MavenRange.contains m') vs')
              | _, _ => badcase
              end
          | _ => badcase end)
  else run_more kind a.
