(* Driver for the extracted model: reads "kind<TAB>sx" lines, prints one sx per line.
   Only glue: text <-> Coq data (positive/N/Z/list).  No model logic lives here. *)
open Model

let rec pos_of_int (n : int) : positive =
  if n = 1 then XH
  else if n land 1 = 0 then XO (pos_of_int (n lsr 1))
  else XI (pos_of_int (n lsr 1))

let n_of_int (n : int) : n = if n = 0 then N0 else Npos (pos_of_int n)

(* decimal string -> positive, arbitrary size: repeated "times ten plus digit" on Coq positives *)
let n_add = N.add
let n_mul = N.mul
let n_ten = n_of_int 10

let n_of_decimal (s : string) : n =
  let r = ref N0 in
  String.iter (fun c -> r := n_add (n_mul !r n_ten) (n_of_int (Char.code c - 48))) s;
  !r

let z_of_decimal (s : string) : z =
  let neg = String.length s > 0 && s.[0] = '-' in
  let body = if neg then String.sub s 1 (String.length s - 1) else s in
  match n_of_decimal body with
  | N0 -> Z0
  | Npos p -> if neg then Zneg p else Zpos p

let rec int_of_pos (p : positive) : int =
  match p with XH -> 1 | XO q -> 2 * int_of_pos q | XI q -> 2 * int_of_pos q + 1

let int_of_n (n : n) : int = match n with N0 -> 0 | Npos p -> int_of_pos p

(* N -> decimal text, arbitrary size, via div/mod on Coq's N *)
let rec dec_of_n (n : n) : string =
  match n with
  | N0 -> "0"
  | _ ->
    let buf = Buffer.create 20 in
    let rec go n acc =
      match n with
      | N0 -> acc
      | _ ->
        let (q, r) = N.div_eucl n n_ten in
        go q (Char.chr (48 + int_of_n r) :: acc)
    in
    List.iter (Buffer.add_char buf) (go n []);
    Buffer.contents buf

let dec_of_z (z : z) : string =
  match z with
  | Z0 -> "0"
  | Zpos p -> dec_of_n (Npos p)
  | Zneg p -> "-" ^ dec_of_n (Npos p)

let bytes_of_string (s : string) : n list =
  List.init (String.length s) (fun i -> n_of_int (Char.code s.[i]))

exception Bad of string

let unhex c =
  match c with
  | '0' .. '9' -> Char.code c - 48
  | 'a' .. 'f' -> Char.code c - 87
  | _ -> -1

let parse_sx (s : string) : sx =
  let n = String.length s in
  let p = ref 0 in
  let ws () = while !p < n && s.[!p] = ' ' do incr p done in
  let rec parse () : sx =
    ws ();
    if !p >= n then raise (Bad "eof");
    match s.[!p] with
    | '(' ->
      incr p;
      let items = ref [] in
      let fin = ref false in
      while not !fin do
        ws ();
        if !p >= n then raise (Bad "unterminated list");
        if s.[!p] = ')' then (incr p; fin := true)
        else items := parse () :: !items
      done;
      SL (List.rev !items)
    | '"' ->
      incr p;
      let st = !p in
      while !p < n && s.[!p] <> '"' do incr p done;
      if !p >= n then raise (Bad "unterminated string");
      let v = String.sub s st (!p - st) in
      incr p;
      SB (bytes_of_string v)
    | 'x' ->
      incr p;
      let out = ref [] in
      while !p + 1 < n && unhex s.[!p] >= 0 && unhex s.[!p + 1] >= 0 do
        out := n_of_int ((unhex s.[!p] lsl 4) lor unhex s.[!p + 1]) :: !out;
        p := !p + 2
      done;
      SB (List.rev !out)
    | '-' | '0' .. '9' ->
      let st = !p in
      incr p;
      while !p < n && s.[!p] >= '0' && s.[!p] <= '9' do incr p done;
      SI (z_of_decimal (String.sub s st (!p - st)))
    | c -> raise (Bad (Printf.sprintf "unexpected %c" c))
  in
  let v = parse () in
  ws ();
  if !p <> n then raise (Bad "trailing");
  v

let hexd = "0123456789abcdef"

let rec print_sx (b : Buffer.t) (v : sx) : unit =
  match v with
  | SI z -> Buffer.add_string b (dec_of_z z)
  | SB l ->
    let ints = List.map int_of_n l in
    let plain = List.for_all (fun c -> c >= 0x20 && c <= 0x7e && c <> 34 && c <> 92) ints in
    if plain then begin
      Buffer.add_char b '"';
      List.iter (fun c -> Buffer.add_char b (Char.chr c)) ints;
      Buffer.add_char b '"'
    end else begin
      Buffer.add_char b 'x';
      List.iter (fun c ->
          Buffer.add_char b hexd.[(c lsr 4) land 15];
          Buffer.add_char b hexd.[c land 15]) ints
    end
  | SL l ->
    Buffer.add_char b '(';
    List.iteri (fun i e -> if i > 0 then Buffer.add_char b ' '; print_sx b e) l;
    Buffer.add_char b ')'

let () =
  let buf = Buffer.create 65536 in
  (try
     while true do
       let line = input_line stdin in
       if line <> "" then begin
         match String.index_opt line '\t' with
         | None -> prerr_endline ("bad case line: " ^ line); exit 3
         | Some i ->
           let kind = String.sub line 0 i in
           let rest = String.sub line (i + 1) (String.length line - i - 1) in
           let arg = (try parse_sx rest with Bad m -> prerr_endline ("bad sx: " ^ m); exit 3) in
           let res = (try run_case (bytes_of_string kind) arg
                      with Stack_overflow -> SL [SB (bytes_of_string "stackoverflow")]) in
           Buffer.clear buf;
           print_sx buf res;
           print_endline (Buffer.contents buf)
       end
     done
   with End_of_file -> ())
