(* C10, PyPI part: the canonical string of a parsed version parses back to a version
   that compares equal, canonicalising again gives the same string, and versions with the
   same canonical string compare equal.  Statements only; proofs in
   Semver/Pep440Print_proofs.v.

   The three clauses are false for the code as it is (known findings F-C10-21: release
   segments after a wildcard, F-C10-22: numbers >= 2^63 stored as negative ints,
   F-C10-23: the infinity sign as first release number); the _refuted theorems exhibit
   the witnesses, which the check replays on the Go code.  The _partial theorems are the
   clauses, for ALL accepted strings, on the domain c10_pypi_dom (a wildcard only in
   last position, no negative pre/post/dev number, first release number not infinity). *)
From Coq Require Import List ZArith Lia.
From DepsDev Require Import Lib.Base Lib.Order Semver.Version Semver.Pep440 Semver.Pep440Parse Semver.Compare
  Semver.Pep440Abs Semver.Pep440_proofs Semver.Pep440Parse_proofs Semver.Pep440Print_proofs.
Import ListNotations.
Local Open Scope Z_scope.

Definition C10_pypi_reparse_full : Prop :=
  forall s v, parse_pypi s = Ok v ->
  exists v', parse_pypi (canon true v) = Ok v' /\ vcmp v v' = 0.

Definition C10_pypi_idem_full : Prop :=
  forall s v v', parse_pypi s = Ok v -> parse_pypi (canon true v) = Ok v' ->
  canon true v' = canon true v.

Definition C10_pypi_inj_full : Prop :=
  forall s1 s2 v1 v2, parse_pypi s1 = Ok v1 -> parse_pypi s2 = Ok v2 ->
  canon true v1 = canon true v2 -> vcmp v1 v2 = 0.

(* 1.*.2 -> 1.* , which compares 1 with the original *)
Lemma C10_pypi_witness_wildcard :
  round_trip [49;46;42;46;50]%N = Some ([49;46;42]%N, 1, [49;46;42]%N).
Proof. vm_compute. reflexivity. Qed.

(* 1a18446744073709551615 -> 1.0.0a-1 -> 1.0.0a1 *)
Lemma C10_pypi_witness_negative :
  round_trip [49;97;49;56;52;52;54;55;52;52;48;55;51;55;48;57;53;53;49;54;49;53]%N = Some ([49;46;48;46;48;97;45;49]%N, -1, [49;46;48;46;48;97;49]%N).
Proof. vm_compute. reflexivity. Qed.

Theorem C10_pypi_reparse_refuted_wildcard : ~ C10_pypi_reparse_full.
Proof.
  intros H. destruct (round_trip_inv _ _ _ _ C10_pypi_witness_wildcard) as (v & v' & P & P' & _ & Z1 & _).
  destruct (H _ _ P) as (w & Pw & Zw). rewrite P' in Pw. inversion Pw; subst w. lia.
Qed.
Print Assumptions C10_pypi_reparse_refuted_wildcard.

Theorem C10_pypi_reparse_refuted_negative : ~ C10_pypi_reparse_full.
Proof.
  intros H. destruct (round_trip_inv _ _ _ _ C10_pypi_witness_negative) as (v & v' & P & P' & _ & Z1 & _).
  destruct (H _ _ P) as (w & Pw & Zw). rewrite P' in Pw. inversion Pw; subst w. lia.
Qed.
Print Assumptions C10_pypi_reparse_refuted_negative.

Theorem C10_pypi_idem_refuted_negative : ~ C10_pypi_idem_full.
Proof.
  intros H. destruct (round_trip_inv _ _ _ _ C10_pypi_witness_negative) as (v & v' & P & P' & C1 & _ & C2).
  specialize (H _ _ _ P P'). rewrite <- C1, <- C2 in H. discriminate.
Qed.
Print Assumptions C10_pypi_idem_refuted_negative.

(* 1.*.2 and 1.*.3 share the canonical string 1.* and compare -1 *)
Lemma C10_pypi_witness_inj :
  exists v1 v2, parse_pypi [49;46;42;46;50]%N = Ok v1 /\ parse_pypi [49;46;42;46;51]%N = Ok v2 /\
                canon true v1 = canon true v2 /\ vcmp v1 v2 = -1.
Proof. eexists; eexists. repeat split; vm_compute; reflexivity. Qed.

Theorem C10_pypi_inj_refuted_wildcard : ~ C10_pypi_inj_full.
Proof.
  intros H. destruct C10_pypi_witness_inj as (v1 & v2 & P1 & P2 & C & Z1).
  specialize (H _ _ _ _ P1 P2 C). lia.
Qed.
Print Assumptions C10_pypi_inj_refuted_wildcard.

(* 01!<inf>: accepted, canonical string 1!<inf>.0.0 is rejected (possibleVersionString) *)
Lemma C10_pypi_witness_infinity :
  exists v, parse_pypi [48;49;33;226;136;158]%N = Ok v /\ canon true v = [49;33;226;136;158;46;48;46;48]%N /\ parse_pypi (canon true v) = Err E_syntax.
Proof. eexists. split; [vm_compute; reflexivity|]. split; vm_compute; reflexivity. Qed.

Theorem C10_pypi_reparse_refuted_infinity : ~ C10_pypi_reparse_full.
Proof.
  intros H. destruct C10_pypi_witness_infinity as (v & P & _ & E).
  destruct (H _ _ P) as (w & Pw & _). rewrite E in Pw. discriminate.
Qed.
Print Assumptions C10_pypi_reparse_refuted_infinity.

(* ---------- the clauses on the domain c10_pypi_dom, for every accepted string ---------- *)
Theorem C10_pypi_reparse_partial s v : parse_pypi s = Ok v -> dom_v v = true ->
  exists v', parse_pypi (canon true v) = Ok v' /\ vcmp v v' = 0.
Proof. intros P D. destruct (c10_reparse s v P D) as (v' & A & B & _). exists v'; auto. Qed.
Print Assumptions C10_pypi_reparse_partial.

Theorem C10_pypi_idem_partial s v v' : parse_pypi s = Ok v -> dom_v v = true ->
  parse_pypi (canon true v) = Ok v' -> canon true v' = canon true v.
Proof. exact (c10_idem s v v'). Qed.
Print Assumptions C10_pypi_idem_partial.

Theorem C10_pypi_inj_partial s1 s2 v1 v2 : parse_pypi s1 = Ok v1 -> parse_pypi s2 = Ok v2 ->
  dom_v v1 = true -> dom_v v2 = true ->
  canon true v1 = canon true v2 -> vcmp v1 v2 = 0.
Proof. exact (c10_inj s1 s2 v1 v2). Qed.
Print Assumptions C10_pypi_inj_partial.

(* the domain is inhabited: 1!2.0rc1.post2.dev3+a.1, 1.* and 1.<inf>a0 are accepted and in it *)
Example C10_pypi_dom_inhabited :
  forallb (fun s => match parse_pypi s with Ok v => dom_v v | _ => false end)
    [[49;33;50;46;48;114;99;49;46;112;111;115;116;50;46;100;101;118;51;43;97;46;49]%N; [49;46;42]%N; [49;46;226;136;158;97;48]%N] = true.
Proof. vm_compute. reflexivity. Qed.

(* pypi.CanonVersion (util/pypi/metadata.go) is Canon(true) of the parsed version, and the
   string itself when it does not parse. *)
Theorem C10_pypi_canonversion s :
  (forall v, parse_pypi s = Ok v -> canon_version s = canon true v) /\
  ((forall v, parse_pypi s <> Ok v) -> canon_version s = s).
Proof.
  unfold canon_version, canon. split.
  - intros v H. rewrite H. destruct (parse_pypi_shape s v H) as (_ & _ & _ & e & E). rewrite E. reflexivity.
  - intros H. destruct (parse_pypi s) as [v| | |]; auto. exfalso; apply (H v); reflexivity.
Qed.
Print Assumptions C10_pypi_canonversion.
