(* placeholder while the model is being tied to the code *)
From DepsDev Require Import Lib.Base Resolve.ApiClient.
Example C18_placeholder : is_npm_bundle [97;62;98] = true.
Proof. reflexivity. Qed.
