(* C18 — The API-backed client maps bundles and aliases consistently, race-free.
   Statements only; each is closed by [exact] of a lemma proved in Resolve/ApiClient_proofs.v.

   Everything is stated for an arbitrary service [svc] (the three tables standing for GetPackage,
   GetVersion, GetRequirements) and an arbitrary semver oracle [mr] (resolve.MatchRequirement).
   [wf_reqs n v r] says that the bundle tree of the response is one a file system can produce: no
   two entries at one path, and the enclosing bundle of a nested entry is listed.  [plain n] says
   that n is not itself a mangled name; [svc_plain] that the versions the service describes hold
   no > byte.

   Outside the model: the mutex-protected critical sections are atomic steps.  Physical data
   races and the Go memory model cannot be expressed here; the harness runs the Go code with 16
   goroutines under the race detector as supporting evidence for that part. *)
From Coq Require Import Permutation.
From DepsDev Require Import Lib.Base Resolve.ApiClient Resolve.ApiClient_proofs.

Section C18.
  Variable svc : service.
  Variable mr : vkey -> list version -> list version.

  (* Every bundled package a response lists becomes, after Requirements of the root, a package
     with a single concrete version that records the package it derives from. *)
  Theorem C18_bundle_single : forall st n t v r b,
    plain n -> get_requirements svc n v = Ok r -> wf_reqs n v r = true -> In b (nr_bundled r) ->
    api_versions svc (snd (api_requirements svc st (VK n t v))) (bundle_name n v b)
    = Ok [V (VK (bundle_name n v b) Concrete (b_version b)) None (Some (b_name b))].
  Proof. exact (bundle_single svc mr). Qed.

  (* It is required by its bundling parent (the root, or the enclosing bundle found by path
     prefix) with a regular requirement on the mangled name whose version string is the bundled
     version, and MatchingVersions on that requirement returns exactly that version. *)
  Theorem C18_parent_req : forall st n t v r b,
    plain n -> get_requirements svc n v = Ok r -> wf_reqs n v r = true -> In b (nr_bundled r) ->
    let st' := snd (api_requirements svc st (VK n t v)) in
    ((bundle_parent n v b = n /\
      exists reqs, fst (api_requirements svc st (VK n t v)) = Ok reqs /\ In (bundle_req n v b) reqs)
     \/
     (exists p, In p (nr_bundled r) /\ bundle_parent n v b = bundle_name n v p /\
        exists reqs, (forall t' ver, api_requirements svc st' (VK (bundle_name n v p) t' ver) = (Ok reqs, st')) /\
                     In (bundle_req n v b) reqs))
    /\ api_matching svc mr st' (rv_key (bundle_req n v b)) = Ok [derived_version n v b].
  Proof. exact (parent_req svc mr). Qed.

  (* The four calls agree on a mangled name (same version, same requirements) in every state
     reachable after the Requirements call of its root: whatever calls came before (ops0) and
     whatever calls any client makes afterwards (ops). *)
  Theorem C18_four_calls : forall ops0 n t v r b ops,
    svc_plain svc -> plain n -> get_requirements svc n v = Ok r -> wf_reqs n v r = true -> In b (nr_bundled r) ->
    let st0 := snd (run_ops svc mr [] ops0) in
    let st1 := snd (api_requirements svc st0 (VK n t v)) in
    let st2 := snd (run_ops svc mr st1 ops) in
    let m := bundle_name n v b in
    (forall t' ver, api_version svc st2 (VK m t' ver) = Ok (derived_version n v b)) /\
    api_versions svc st2 m = Ok [derived_version n v b] /\
    (forall t' ver, api_requirements svc st2 (VK m t' ver) = (Ok (bv_reqs (bundle_entry n v r b)), st2)) /\
    (forall t', api_matching svc mr st2 (VK m t' (b_version b)) = Ok [derived_version n v b]).
  Proof. exact (four_calls_stable svc mr). Qed.

  (* An aliased dependency declared as n : npm:x@r (r without @, so the split is at the last @
     and a scoped x = @s/p works) becomes a requirement on the real name x with version r
     carrying the alias n in KnownAs, with the type of its section otherwise. *)
  Theorem C18_alias : forall ds t l n x r,
    In (t, l) (sections ds) -> In (Dep n (s_npm_colon ++ x ++ c_at :: r)) l -> ~ In c_at r ->
    In (RV (VK x Requirement r) (with_known_as t n)) (flatten ds).
  Proof. exact alias_requirement. Qed.

  (* ... and flattening neither loses nor invents requirements. *)
  Theorem C18_flatten_complete : forall ds,
    Permutation (flatten ds)
      (map (add_dep dt_regular) (ds_deps ds) ++ map (add_dep dt_devtype) (ds_dev ds) ++
       map (add_dep dt_opttype) (ds_opt ds) ++ map (add_dep dt_peer) (ds_peer ds) ++
       map (fun n => RV (VK n Requirement s_star) dt_bundle) (ds_bundle ds)).
  Proof. exact flatten_complete. Qed.

  (* bundledVersions updates of two Requirements calls commute: same answers, same map. *)
  Theorem C18_commute : forall st vk1 vk2, svc_plain svc -> plain (vk_name vk1) -> plain (vk_name vk2) ->
    let s1 := snd (api_requirements svc st vk1) in
    let s2 := snd (api_requirements svc st vk2) in
    fst (api_requirements svc st vk1) = fst (api_requirements svc s2 vk1) /\
    fst (api_requirements svc st vk2) = fst (api_requirements svc s1 vk2) /\
    forall k, al_get k (snd (api_requirements svc s1 vk2)) = al_get k (snd (api_requirements svc s2 vk1)).
  Proof. exact (requirements_commute svc). Qed.

  (* ... because different roots write disjoint keys (their mangled names start with different
     name>version> prefixes) and the same root writes equal values. *)
  Theorem C18_commute_disjoint : forall n1 v1 n2 v2 k x, svc_plain svc -> plain n1 -> plain n2 ->
    (n1, v1) <> (n2, v2) -> al_get k (root_writes svc n1 v1) = Some x -> al_get k (root_writes svc n2 v2) = None.
  Proof. exact (writes_disjoint svc). Qed.

  Theorem C18_commute_same_root : forall st vk, plain (vk_name vk) ->
    forall k, al_get k (snd (api_requirements svc (snd (api_requirements svc st vk)) vk))
            = al_get k (snd (api_requirements svc st vk)).
  Proof. exact (requirements_idempotent svc). Qed.

  (* Schedules.  A schedule is any list of (client, call); it is an interleaving of its
     projections.  Each call is one atomic step on the shared map.  Every client whose own call
     sequence obeys the trace discipline (a mangled name is only used after Requirements of its
     root was requested in the same sequence) is answered under EVERY interleaving with ANY
     other clients exactly as when it runs alone. *)
  Theorem C18_interleaving : forall sched c, svc_plain svc -> trace_wf [] (proj c sched) = true ->
    proj c (fst (run_sched svc mr [] sched)) = fst (run_ops svc mr [] (proj c sched)).
  Proof. exact (interleaving svc mr). Qed.

  (* The same for adaptive clients (programs whose next call depends on earlier answers, such as
     a resolver): whatever batches of foreign calls [env] run between its calls, the program
     returns what it returns alone and makes the same calls. *)
  Theorem C18_interleaving_programs : forall {A} (p : clientM A) env, svc_plain svc ->
    trace_wf [] (trace_ops (interp (api_handler svc mr) [] p)) = true ->
    fst (interp_env svc mr [] env p) = fst (interp (api_handler svc mr) [] p).
  Proof. intros A. exact (interleaving_programs svc mr (A:=A)). Qed.

  (* The trace discipline is needed: a client that asks for a mangled name without having asked
     for its root can observe another client's Requirements call. *)
  Theorem C18_interleaving_needs_discipline : exists (svc0 : service) sched c,
    proj c (fst (run_sched svc0 mr [] sched)) <> fst (run_ops svc0 mr [] (proj c sched)).
  Proof.
    set (reqs := NpmReqs (Deps [] [] [] [] []) [Bundle (s_node_modules_slash ++ [98]) [98] [49] (Deps [] [] [] [] [])]).
    exists (Service (fun _ => Err ENotFound) (fun _ _ => Err ENotFound) (fun _ _ => Ok reqs)).
    exists [(0%nat, ORequirements (VK [97] Concrete [49])); (1%nat, OVersions [97;62;49;62;98])].
    exists 1%nat. vm_compute. discriminate.
  Qed.

End C18.

(* Same graph.  For ANY function that observes its client only through the four calls (a
   program in clientM; the npm resolver is one), on ANY two clients (handlers over any state
   types): if the clients answer alike on the calls the function makes, it returns the same
   result and makes the same calls. *)
Theorem C18_same_graph : forall {S1 S2 A} (h1 : handler S1) (h2 : handler S2) (p : clientM A) s1 s2,
  agree_on h1 h2 s1 s2 p -> fst (interp h1 s1 p) = fst (interp h2 s2 p).
Proof. intros S1 S2 A. exact (@same_result S1 S2 A). Qed.

(* The trace invariant that makes it applicable to the API client: a program that passes a
   mangled name to the client only after an earlier Requirements of its root cannot tell the
   API client, which learns bundles lazily, from the eager client that holds all the data up
   front (what a LocalClient loaded with the same data is). *)
Theorem C18_same_graph_lazy_eager : forall svc mr {A} (p : clientM A), svc_plain svc ->
  trace_wf [] (trace_ops (interp (api_handler svc mr) [] p)) = true ->
  fst (interp (api_handler svc mr) [] p) = fst (interp (eager_handler svc mr) tt p).
Proof. intros svc mr A. exact (lazy_eq_eager svc mr (A:=A)). Qed.

(* _partial: the equality graph(APIClient) = graph(LocalClient) for the real npm resolver needs
   two facts that are not theorems of this package: (1) the npm resolver obeys the trace
   discipline (its model belongs to C06; the harness checks trace_wf on every recorded Go trace),
   (2) LocalClient loaded with the same data answers as the eager client (its model belongs to
   C14; it differs on packages unknown to the service, which is finding F-C18-1).  Both are
   decided by the direct oracle on the Go outputs. *)

Print Assumptions C18_bundle_single.
Print Assumptions C18_parent_req.
Print Assumptions C18_four_calls.
Print Assumptions C18_alias.
Print Assumptions C18_flatten_complete.
Print Assumptions C18_commute.
Print Assumptions C18_commute_disjoint.
Print Assumptions C18_commute_same_root.
Print Assumptions C18_interleaving.
Print Assumptions C18_interleaving_programs.
Print Assumptions C18_interleaving_needs_discipline.
Print Assumptions C18_same_graph.
Print Assumptions C18_same_graph_lazy_eager.

(* ------------------------------------------------------------------ examples (vm_compute) *)

Module Example.
  Definition a : bytes := [97].
  Definition b : bytes := [98].
  Definition s_n : bytes := [64;115;47;110].          (* @s/n *)
  Definition s_c : bytes := [64;115;47;99].           (* @s/c *)
  Definition al : bytes := [97;108].                  (* al *)
  Definition v100 : bytes := [49;46;48;46;48].        (* 1.0.0 *)
  Definition v123 : bytes := [49;46;50;46;51].
  Definition v200 : bytes := [50;46;48;46;48].
  Definition caret1 : bytes := [94;49;46;48;46;48].   (* ^1.0.0 *)
  Definition tilde2 : bytes := [126;50].              (* ~2 *)
  Definition nodeps : dependencies := Deps [] [] [] [] [].

  (* a@1.0.0: dependencies { al: npm:@s/n@^1.0.0, b: ^1.0.0 }, bundleDependencies [b],
     bundled: node_modules/b/node_modules/@s/c (listed first), node_modules/b with a peer alias *)
  Definition reqs : npm_reqs :=
    NpmReqs (Deps [Dep al (s_npm_colon ++ s_n ++ c_at :: caret1); Dep b caret1] [] [] [] [b])
            [Bundle (s_node_modules_slash ++ b ++ s_slash_node_modules_slash ++ s_c) s_c v200 nodeps;
             Bundle (s_node_modules_slash ++ b) b v123
                    (Deps [] [] [] [Dep s_c (s_npm_colon ++ s_c ++ c_at :: tilde2)] [s_c])].

  Definition svc : service :=
    Service (fun _ => Err ENotFound) (fun _ _ => Err ENotFound)
            (fun n v => if bytes_eqb n a && bytes_eqb v v100 then Ok reqs else Err ENotFound).
  Definition mr (vk : vkey) (vs : list version) : list version := vs.

  Definition m_b : bytes := a ++ c_gt :: v100 ++ c_gt :: b.                       (* a>1.0.0>b *)
  Definition m_bc : bytes := a ++ c_gt :: v100 ++ c_gt :: b ++ c_gt :: s_c.       (* a>1.0.0>b>@s/c *)

  (* the hypotheses of the theorems are satisfiable *)
  Example wf : wf_reqs a v100 reqs = true. Proof. vm_compute. reflexivity. Qed.
  Example a_plain : plain a. Proof. vm_compute. reflexivity. Qed.
  Example svc_is_plain : svc_plain svc.
  Proof.
    intros n v r H. unfold svc in H. simpl in H.
    destruct (bytes_eqb n a && bytes_eqb v v100) eqn:E; try discriminate.
    apply andb_true_iff in E. destruct E as [_ E]. apply bytes_eqb_eq in E. subst v.
    vm_compute. intuition discriminate.
  Qed.

  (* Requirements of the root: the scoped alias became a requirement on @s/n carrying KnownAs al,
     and the direct bundle b is required by its mangled name at exactly its version *)
  Example root_requirements :
    fst (api_requirements svc [] (VK a Concrete v100)) =
    Ok [RV (VK s_n Requirement caret1) (DT false false None (Some al));
        RV (VK b Requirement caret1) dt_regular;
        RV (VK b Requirement s_star) dt_bundle;
        RV (VK m_b Requirement v123) dt_regular].
  Proof. vm_compute. reflexivity. Qed.

  (* the nested bundle tree: two derived packages, the inner one required by the outer one *)
  Example state_after :
    snd (api_requirements svc [] (VK a Concrete v100)) =
    [(m_b, BV (V (VK m_b Concrete v123) None (Some b))
              [RV (VK s_c Requirement tilde2) (DT false false (Some s_peer) (Some s_c));
               RV (VK s_c Requirement s_star) dt_bundle;
               RV (VK m_bc Requirement v200) dt_regular]);
     (m_bc, BV (V (VK m_bc Concrete v200) None (Some s_c)) [])].
  Proof. vm_compute. reflexivity. Qed.

  (* a resolver-like call sequence obeys the trace discipline, and an interleaving with a second
     client returns to it what it gets alone *)
  Definition seq1 : list op :=
    [OVersion (VK a Concrete v100); ORequirements (VK a Concrete v100); OMatching (VK m_b Requirement v123);
     ORequirements (VK m_b Concrete v123); OMatching (VK m_bc Requirement v200); OVersions m_bc].
  Example seq1_wf : trace_wf [] seq1 = true. Proof. vm_compute. reflexivity. Qed.
  Example seq1_interleaved :
    let sched := [(1%nat, OVersions m_b); (0%nat, OVersion (VK a Concrete v100)); (1%nat, ORequirements (VK a Concrete v100));
                  (0%nat, ORequirements (VK a Concrete v100)); (0%nat, OMatching (VK m_b Requirement v123));
                  (1%nat, ORequirements (VK a Concrete v100)); (0%nat, ORequirements (VK m_b Concrete v123));
                  (0%nat, OMatching (VK m_bc Requirement v200)); (1%nat, OVersions m_b); (0%nat, OVersions m_bc)] in
    proj 0 sched = seq1 /\
    proj 0 (fst (run_sched svc mr [] sched)) = fst (run_ops svc mr [] seq1).
  Proof. vm_compute. split; reflexivity. Qed.
End Example.
