(* C10, Maven part: a version's canonical string denotes the same version.  Statements only. *)
From DepsDev Require Import Lib.Base Semver.Version Semver.Compare Semver.Maven Semver.MavenParse Semver.MavenDomain
  Semver.Maven_proofs Semver.Canon_mg_proofs.
Local Open Scope Z_scope.

(* The full statement, over all accepted strings (mvn_roundtrip s = the canonical string, and
   for its re-parse the comparison with the original and the second canonical string). *)
Definition C10_maven_full : Prop := forall s c r,
  mvn_roundtrip s = Some (c, r) -> r = Some (0, c).

(* It is false on the code as it stands (F-C10-2): a version that starts with a separator keeps
   the separator on its first element, which mavenExtension.canon never prints: -1 prints as 1,
   and 1 compares 45 against -1. *)
Theorem C10_maven_reparse_refuted : ~ C10_maven_full.
Proof.
  intros F. destruct maven_leadsep_witness as [W _]. specialize (F _ _ _ W). discriminate.
Qed.
Print Assumptions C10_maven_reparse_refuted.

(* Consequently two versions with the same canonical string may compare different. *)
Theorem C10_maven_inj_refuted :
  mvn_roundtrip s_m1 = Some (s_one, Some (45, s_one)) /\ mvn_roundtrip s_one = Some (s_one, Some (0, s_one)) /\
  mvn_cmp_str s_m1 s_one = Some 45.
Proof. exact (conj (proj1 maven_leadsep_witness) (conj (proj2 maven_leadsep_witness) maven_inj_witness)). Qed.

(* The root cause, for all element lists: the printer does not depend on the separator of the
   first element ... *)
Theorem C10_maven_canon_head : forall l, maven_canon (head_sep0 l) = maven_canon l.
Proof. exact maven_canon_head. Qed.
Print Assumptions C10_maven_canon_head.

(* ... while on the domain of C01 a list whose first separator is 0 compares equal to itself:
   when the canonical string re-parses to the same elements (which the harness checks on every
   generated string by kinds sv_canon / svm_canon_maven) the three clauses hold exactly for
   the versions that do not start with a separator.  The print/parse inversion itself
   (re-parsing the printed elements gives the same elements: tokenisation, the a/b/m shortcut
   and the trimming loop are fixed points on parser outputs) is NOT a theorem here. *)
Theorem C10_maven_same_elements_partial : forall l, d_mvn_wide (head_sep0 l) = true -> l = head_sep0 l ->
  maven_compare l (head_sep0 l) = Ok 0.
Proof. exact maven_reparse_same. Qed.
Print Assumptions C10_maven_same_elements_partial.
