(* C10, Maven part: a version's canonical string denotes the same version.  Statements only.
   The model follows the tree through two booleans read by gotables from maven.go: h = a non-zero
   separator of the first element is printed (false: never, as found, F-C10-2; true: the repair),
   z = the variant of the zero test of the trimming loop.  maven_canon, mvn_parse, printable_b and
   mvn_roundtrip are the tree's variants. *)
From DepsDev Require Import Lib.Base Semver.Version Semver.Compare Semver.Maven Semver.MavenParse Semver.MavenDomain
  Semver.MavenPrintable Semver.Maven_proofs Semver.Canon_mg_proofs Semver.MavenCanon_proofs Gen.MavenVariants.
Local Open Scope Z_scope.

(* The full statement, over all accepted strings (mvn_roundtrip_with h z s = the canonical string,
   and for its re-parse the comparison with the original and the second canonical string). *)
Definition C10_maven_full_with (h z : bool) : Prop := forall s c r,
  mvn_roundtrip_with h z s = Some (c, r) -> r = Some (0, c).

(* With the printer as found it is false (F-C10-2): a version that starts with a separator keeps
   the separator on its first element, which canon never prints: -1 prints as 1, and 1 compares
   45 against -1. *)
Theorem C10_maven_reparse_refuted : forall z, ~ C10_maven_full_with false z.
Proof.
  intros z F. destruct (maven_leadsep_witness z) as [W _]. specialize (F _ _ _ W). discriminate.
Qed.
Print Assumptions C10_maven_reparse_refuted.

(* Consequently two versions with the same canonical string compare different; with the first
   separator printed the same strings go round (third and fourth clause). *)
Theorem C10_maven_witnesses : forall z,
  (mvn_roundtrip_with false z s_m1 = Some (s_one, Some (45, s_one)) /\
   mvn_roundtrip_with false z s_one = Some (s_one, Some (0, s_one)) /\
   mvn_roundtrip_with true z s_m1 = Some (s_m1, Some (0, s_m1)) /\
   mvn_roundtrip_with true z s_one = Some (s_one, Some (0, s_one))) /\
  mvn_cmp_str z s_m1 s_one = Some 45.
Proof. intros z. exact (conj (maven_leadsep_witness z) (maven_inj_witness z)). Qed.

(* What the tree does with the witness. *)
Theorem C10_maven_tree :
  mvn_roundtrip s_m1 = if go_mvn_canon_head_sep then Some (s_m1, Some (0, s_m1)) else Some (s_one, Some (45, s_one)).
Proof. exact maven_leadsep_tree. Qed.
Print Assumptions C10_maven_tree.

(* The root cause, for all element lists: the printer as found does not depend on the separator
   of the first element. *)
Theorem C10_maven_canon_head : forall l, maven_canon_with false (head_sep0 l) = maven_canon_with false l.
Proof. exact maven_canon_head. Qed.
Print Assumptions C10_maven_canon_head.

(* What holds under every variant, for ALL element lists of printable_with h z (texts homogeneous
   and lower-case, separators '.' or '-', inside the modelled fragment, fixed points of the
   trimming loop and of the integer pass -- the harness checks on every generated string that the
   parsed list is one, kind svm_maven_printable): the canonical string parses, to the same list
   (h = true) or to the same list with the first separator set to 0 (h = false) ... *)
Theorem C10_maven_roundtrip_partial : forall h z l, printable_with h z l = true ->
  exists b, mvn_parse_with z (maven_canon_with h l) =
            Some (Ok (mk_version (maven_canon_with h l) (head_with h l) b)).
Proof. exact maven_roundtrip_with. Qed.
Print Assumptions C10_maven_roundtrip_partial.

(* ... for the tree: *)
Theorem C10_maven_roundtrip_tree : forall l, printable_b l = true ->
  exists b, mvn_parse (maven_canon l) = Some (Ok (mk_version (maven_canon l) (head_with go_mvn_canon_head_sep l) b)).
Proof. exact maven_roundtrip. Qed.
Print Assumptions C10_maven_roundtrip_tree.

(* ... hence the clauses (re-parse to the same list, compare 0 -- and then the same canonical
   string again): with the repaired printer for EVERY printable list (head_with true l = l),
   with the printer as found for the lists whose first separator is 0 ... *)
Theorem C10_maven_clauses_partial : forall h z l, printable_with h z l = true -> head_with h l = l ->
  exists b, mvn_parse_with z (maven_canon_with h l) = Some (Ok (mk_version (maven_canon_with h l) l b)) /\
            maven_compare l l = Ok 0.
Proof. exact maven_roundtrip_clauses. Qed.
Print Assumptions C10_maven_clauses_partial.

Theorem C10_maven_clauses_repaired : forall z l, printable_with true z l = true ->
  exists b, mvn_parse_with z (maven_canon_with true l) = Some (Ok (mk_version (maven_canon_with true l) l b)) /\
            maven_compare l l = Ok 0.
Proof. intros z l P. exact (maven_roundtrip_clauses true z l P (head_with_true l)). Qed.
Print Assumptions C10_maven_clauses_repaired.

(* ... and two such lists with the same canonical string are the same list (so compare 0). *)
Theorem C10_maven_inj_partial : forall h z l1 l2, printable_with h z l1 = true -> printable_with h z l2 = true ->
  head_with h l1 = l1 -> head_with h l2 = l2 -> maven_canon_with h l1 = maven_canon_with h l2 -> l1 = l2.
Proof. exact maven_canon_inj. Qed.
Print Assumptions C10_maven_inj_partial.

Theorem C10_maven_compare_refl : forall l, maven_compare l l = Ok 0.
Proof. exact maven_compare_refl. Qed.
