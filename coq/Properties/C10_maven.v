(* C10, Maven part: a version's canonical string denotes the same version.  Statements only. *)
From DepsDev Require Import Lib.Base Semver.Version Semver.Compare Semver.Maven Semver.MavenParse Semver.MavenDomain
  Semver.MavenPrintable Semver.Maven_proofs Semver.Canon_mg_proofs Semver.MavenCanon_proofs.
Local Open Scope Z_scope.

(* The full statement, over all accepted strings (mvn_roundtrip s = the canonical string, and
   for its re-parse the comparison with the original and the second canonical string). *)
Definition C10_maven_full : Prop := forall s c r,
  mvn_roundtrip s = Some (c, r) -> r = Some (0, c).

(* It is false on the code as it stands (F-C10-2): a version that starts with a separator keeps
   the separator on its first element, which mavenExtension.canon never prints: -1 prints as 1,
   and 1 compares 45 against -1. *)
Theorem C10_maven_reparse_refuted : ~ C10_maven_full.
Proof.
  intros F. destruct maven_leadsep_witness as [W _]. specialize (F _ _ _ W). discriminate.
Qed.
Print Assumptions C10_maven_reparse_refuted.

(* Consequently two versions with the same canonical string may compare different. *)
Theorem C10_maven_inj_refuted :
  mvn_roundtrip s_m1 = Some (s_one, Some (45, s_one)) /\ mvn_roundtrip s_one = Some (s_one, Some (0, s_one)) /\
  mvn_cmp_str s_m1 s_one = Some 45.
Proof. exact (conj (proj1 maven_leadsep_witness) (conj (proj2 maven_leadsep_witness) maven_inj_witness)). Qed.

(* The root cause, for all element lists: the printer does not depend on the separator of the
   first element ... *)
Theorem C10_maven_canon_head : forall l, maven_canon (head_sep0 l) = maven_canon l.
Proof. exact maven_canon_head. Qed.
Print Assumptions C10_maven_canon_head.

(* What holds, for ALL element lists of MavenPrintable.printable_b (texts homogeneous and
   lower-case, separators '.' or '-', inside the modelled fragment, fixed points of the trimming
   loop and of the integer pass -- the harness checks on every generated string that the parsed
   list is one, kind svm_maven_printable): the canonical string parses, to the same list with the
   first separator set to 0 ... *)
Theorem C10_maven_roundtrip_partial : forall l, printable_b l = true ->
  exists b, mvn_parse (maven_canon l) = Some (Ok (mk_version (maven_canon l) (head_sep0 l) b)).
Proof. exact maven_roundtrip. Qed.
Print Assumptions C10_maven_roundtrip_partial.

(* ... hence the three clauses (re-parse, compare 0, same canonical string) for the lists whose
   first separator is 0, i.e. the versions that do not start with a separator ... *)
Theorem C10_maven_clauses_partial : forall l, printable_b l = true -> head_sep0 l = l ->
  exists b, mvn_parse (maven_canon l) = Some (Ok (mk_version (maven_canon l) l b)) /\
            maven_compare l l = Ok 0 /\ maven_canon l = maven_canon l.
Proof. exact maven_roundtrip_clauses. Qed.
Print Assumptions C10_maven_clauses_partial.

(* ... and two such lists with the same canonical string are the same list (so compare 0). *)
Theorem C10_maven_inj_partial : forall l1 l2, printable_b l1 = true -> printable_b l2 = true ->
  head_sep0 l1 = l1 -> head_sep0 l2 = l2 -> maven_canon l1 = maven_canon l2 -> l1 = l2.
Proof. exact maven_canon_inj. Qed.
Print Assumptions C10_maven_inj_partial.

Theorem C10_maven_compare_refl : forall l, maven_compare l l = Ok 0.
Proof. exact maven_compare_refl. Qed.
