(* C10_maven -- statements are being written. *)
From DepsDev Require Import Lib.Base.
