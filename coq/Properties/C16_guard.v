(* C16, third clause: "a dependency guarded by a marker is followed during resolution exactly
   when packaging evaluates the marker to true ... with the requested extras".

   In the resolver model (Resolve/Pypi.v, property C08) the only place where a marker decides
   anything is [keep], the predicate with which getDependencies filters the requirements of a
   version; it is parametric in the marker oracle.  Instantiated with the marker model of C16
   it agrees with packaging on the domain of C16_marker_partial: the requirement is kept when
   packaging says true, dropped when it says false, and getDependencies fails (so does the
   resolution) exactly when packaging cannot evaluate the marker.  Which extras reach [keep]
   for a given version, and that kept requirements become edges, is C08
   (C08_edges_complete_sat, C08_false_marker_nothing_partial); on the Go code the clause is
   tied by the marker_edge / marker_multi correspondence. *)
From DepsDev Require Import Lib.Base Gen.PypiEnvTables Gen.PypiTables Pypi.PyStr Resolve.Markers Resolve.Markers_proofs
  Resolve.Markers_spec_proofs Resolve.Pypi Spec.Pep508Spec Spec.Pep508Domain.

Definition keep_outcome (r : res bool) (o : option bool) : Prop :=
  match r, o with
  | Ok b, Some b' => b = b'
  | Err _, None => True
  | _, _ => False
  end.

Lemma keep_of_marker : forall (mt : bytes -> list bytes -> res bool) extras d env o,
  dt_get (rq_type d) dep_key_environment = Some env ->
  same_outcome (mt env extras) o -> keep_outcome (keep mt extras d) o.
Proof.
  intros mt extras d env o E H. unfold keep. rewrite E.
  destruct (mt env extras) as [b|e|p|]; destruct o; cbn in *; auto.
Qed.

Theorem C16_guard :
  forall valid sat spec_sat,
  (forall o rhs lhs b, is_word_op o = false -> valid lhs = true -> valid rhs = true ->
     spec_sat (cop_num o) rhs lhs = Some b -> sat (cop_num o) rhs lhs = Ok b) ->
  (forall o a b, sat o a b <> OutOfFuel) ->
  forall m wt extras d, wf_tree m = true ->
  in_domain target_env valid spec_sat extras m = true ->
  dt_get (rq_type d) dep_key_environment = Some (print_marker m wt) ->
  keep_outcome (keep (marker_result valid sat) extras d) (Pep508Spec.eval target_env spec_sat extras m).
Proof.
  intros valid sat spec_sat SA NF m wt extras d W D E.
  exact (keep_of_marker _ _ _ _ _ E (marker_agrees valid sat spec_sat SA NF m wt extras W D)).
Qed.
Print Assumptions C16_guard.

(* a requirement without a marker is always kept *)
Theorem C16_guard_no_marker : forall mt extras d,
  dt_get (rq_type d) dep_key_environment = None -> keep mt extras d = Ok true.
Proof. intros mt extras d E. unfold keep. rewrite E. reflexivity. Qed.
