(* C05 — resolution is a pure function of the package universe and the root.
   Statements only.

   Model-level reading.  A resolver reaches the client only through the four lookups of
   the Client interface (the three resolver models are functions of the lookup answers;
   here a resolver is ANY program over client queries).  The client is the LocalClient
   model of Client.v (validated against Go by C14's correspondence). *)
From Coq Require Import List.
From Coq Require Import ZArith NArith.
From DepsDev Require Import Lib.Base Lib.Order Lib.Interleave Gen.ResolveTables Resolve.Attr Resolve.MatchReq
  Resolve.MatchReq_proofs Resolve.Client Resolve.Client_proofs Resolve.Purity_proofs.
From DepsDev Require Properties.C12.
Import ListNotations.

(* Resolving never changes what the client subsequently reports: no lookup writes. *)
Theorem C05_lookups_read_only : forall O var, read_only (after O var).
Proof. exact client_read_only. Qed.
Print Assumptions C05_lookups_read_only.

Theorem C05_resolve_leaves_store : forall O var G (r : resolver G) c,
  snd (run_alone (answer O var) (after O var) r c) = c.
Proof. exact resolve_leaves_store. Qed.
Print Assumptions C05_resolve_leaves_store.

(* The same graph however many times it is asked and whatever was resolved before. *)
Theorem C05_history_independent : forall O var G (r other : resolver G) c,
  fst (run_alone (answer O var) (after O var) r (snd (run_alone (answer O var) (after O var) other c))) =
  fst (run_alone (answer O var) (after O var) r c).
Proof. exact resolve_again. Qed.
Print Assumptions C05_history_independent.

(* Any number of resolutions, their client calls interleaved in any order (schedule):
   each one that finishes returns what it returns when run alone, and the store is as
   before.  (Atomicity of one client call is the modelling assumption; torn reads are
   outside the model and are looked for with the race detector.) *)
Theorem C05_concurrent : forall O var G sched (rs : list (resolver G)) c j r g,
  nth_error rs j = Some r ->
  nth_error (fst (run_schedule (answer O var) (after O var) sched (rs, c))) j = Some (Ret g) ->
  g = fst (run_alone (answer O var) (after O var) r c).
Proof. exact resolutions_interleave. Qed.
Print Assumptions C05_concurrent.

Theorem C05_concurrent_store : forall O var G sched (rs : list (resolver G)) c,
  snd (run_schedule (answer O var) (after O var) sched (rs, c)) = c.
Proof. exact interleaving_leaves_store. Qed.
Print Assumptions C05_concurrent_store.

(* Insertion order: two histories of additions that leave the same live versions in a
   package (for instance the same additions in another order) make the client report the
   same Versions and the same MatchingVersions for every requirement, hence give every
   resolver the same answers.  Stated for the tree with the C12/C14 repairs in (the variant
   tied to the tree is detected on every run by replaying the recorded witnesses);
   Properties/C12.v has the general form with its side conditions and the refuted forms
   for the earlier variants. *)
Theorem C05_insertion_order : forall O ops1 ops2 k vs1 vs2,
  laws_ok O ->
  Forall (add_parses O) ops1 -> Forall (add_parses O) ops2 ->
  Forall add_concrete ops1 -> Forall add_concrete ops2 ->
  (forall k', vk_pkg k' = vk_pkg k -> option_map fst (last_add ops1 k') = option_map fst (last_add ops2 k')) ->
  versions_of (run O var_repaired ops1) (vk_pkg k) = Ok vs1 ->
  versions_of (run O var_repaired ops2) (vk_pkg k) = Ok vs2 ->
  vs1 = vs2 /\
  matching_versions O var_repaired (run O var_repaired ops1) k = matching_versions O var_repaired (run O var_repaired ops2) k.
Proof. exact Properties.C12.C12_perm_repaired. Qed.
Print Assumptions C05_insertion_order.

(* Caches kept on a resolver (the PyPI resolver's parsed markers, parsed constraints and prerelease matches:
   three instances of one LRU) do not change any answer: for a cache whose entries are answers of the cached
   function, under any policy that only drops entries or adds the answer just computed, every cached call
   returns what the function returns and the invariant is kept -- over any sequence of calls. *)
From DepsDev Require Lib.Cache.
Theorem C05_cache_sound : forall (K V : Type) (keq : K -> K -> bool), (forall a b, keq a b = true <-> a = b) ->
  forall (f : K -> V) touch ins,
  (forall c k, Lib.Cache.sub_step f c (touch c k) k) -> (forall c k, Lib.Cache.sub_step f c (ins c k (f k)) k) ->
  forall ks c, Lib.Cache.Inv f c ->
  fst (Lib.Cache.run_cached keq f touch ins c ks) = map f ks /\ Lib.Cache.Inv f (snd (Lib.Cache.run_cached keq f touch ins c ks)).
Proof. intros K V keq Hk f touch ins Ht Hi ks c. exact (Lib.Cache.run_cached_sound keq Hk f touch ins Ht Hi ks c). Qed.
Print Assumptions C05_cache_sound.

(* The LRU of lru.go (modelled in Lib/Cache.v and run against the Go code on operation sequences) is such a
   policy: Get-then-Add-on-miss returns the function's answers over any sequence of keys, for every capacity,
   and the cache never grows beyond its capacity. *)
Theorem C05_lru_sound : forall (K V : Type) (keq : K -> K -> bool), (forall a b, keq a b = true <-> a = b) ->
  forall (f : K -> V) n ks c, Lib.Cache.Inv f c ->
  fst (Lib.Cache.lru_run keq f n c ks) = map f ks /\ Lib.Cache.Inv f (snd (Lib.Cache.lru_run keq f n c ks)).
Proof. intros K V keq Hk f n ks c. exact (Lib.Cache.lru_run_sound keq Hk f n ks c). Qed.
Print Assumptions C05_lru_sound.

Theorem C05_lru_bounded : forall (K V : Type) (keq : K -> K -> bool) n (c : list (K * V)) k v,
  (0 < n)%nat -> (length c <= n)%nat -> (length (Lib.Cache.lru_add keq n c k v) <= n)%nat.
Proof. intros K V keq n c k v. exact (Lib.Cache.lru_add_bounded keq n c k v). Qed.
