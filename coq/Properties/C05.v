(* C05 — placeholder while the proofs are being written. *)
From DepsDev Require Import Lib.Base.
