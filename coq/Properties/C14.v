(* C14 — The in-memory client reports exactly what was last added.
   Statements only; each is closed by [exact] of a lemma proved in Resolve/Client_proofs.v.

   The model (Resolve/Client.v) is parametric in the semver layer (an [oracle] of the
   answers of Parse, IsPrerelease, Compare, ParseConstraint, Match) and in the [variant] of
   the code: [v_add] is the replace branch of AddVersion (Current = the code before commit
   3f7cc9a, FixAssign = the one-token repair versions[i] = v, FixAssignSort = that repair
   plus SortVersions after a replacement, which is what the tree has now), [v_cfg] the state
   of match.go (see Properties/C12.v).  The check selects the variant by replaying the
   recorded witnesses on the Go tree.  The specification is read off the history itself: [last_add ops k] is the
   most recent effective (not deleted-flagged) addition with key k, [mentions o p] says that
   operation o names package p as the package of an added version or of a requirement.
   Histories are arbitrary lists of operations: additions interleaved with the four
   lookups (which leave the store unchanged: C14_lookups_pure).  There is no bound on
   their length. *)
From Coq Require Import List ZArith NArith Bool Sorting.Sorted Sorting.Permutation.
From DepsDev Require Import Lib.Base Lib.Order Lib.Sort Gen.ResolveTables Resolve.Attr
  Resolve.MatchReq Resolve.MatchReq_proofs Resolve.Client Resolve.Client_proofs.
Import ListNotations.

(* ---------- one addition refines "insert into the map" (repaired replace branch) ---------- *)
Definition C14_add_full (var : variant) : Prop :=
  forall O c v deps k, wf c ->
    ver_lookup (add_version O var c v deps) k =
      if deleted v then ver_lookup c k else if vkey_eqb (v_key v) k then Some v else ver_lookup c k.

Theorem C14_add : forall var, v_add var <> Current -> C14_add_full var.
Proof. intros var Hv O c v deps k W. exact (ver_lookup_add O var c v deps k Hv W). Qed.
Print Assumptions C14_add.

(* the code before the repair (3f7cc9a) did not (F-C14-1): the attributes of a repeated key
   were not replaced *)
Theorem C14_add_refuted : forall C, ~ C14_add_full (mkvar Current C).
Proof. exact add_current_refuted. Qed.
Print Assumptions C14_add_refuted.

Theorem C14_add_requirements : forall O var c v deps k,
  req_lookup (add_version O var c v deps) k =
    if deleted v then req_lookup c k else if vkey_eqb (v_key v) k then Some (sort_deps deps) else req_lookup c k.
Proof. exact req_lookup_add. Qed.
Print Assumptions C14_add_requirements.

Theorem C14_add_known : forall O var c v deps p,
  known (add_version O var c v deps) p =
    if deleted v then known c p
    else known c p || pkey_eqb (v_pkg v) p || existsb (fun d => pkey_eqb (r_pkg d) p) deps.
Proof. exact known_add. Qed.
Print Assumptions C14_add_known.

(* ---------- over all histories ---------- *)
(* looking up a version returns the attributes of the most recent addition with that key;
   a key never (effectively) added is not found *)
Theorem C14_version : forall O var ops k, v_add var <> Current ->
  version_of (run O var ops) k =
    match last_add ops k with Some (v, _) => Ok v | None => Err ENotFound end.
Proof. exact run_version_of. Qed.
Print Assumptions C14_version.

(* false of the code before the repair: a Maven version added twice with different attributes *)
Theorem C14_version_refuted : forall O C, exists ops k v,
  option_map fst (last_add ops k) = Some v /\ exists w, version_of (run O (mkvar Current C) ops) k = Ok w /\ w <> v.
Proof.
  intros O C. exists w_stale, (v_key w_stale_v2), w_stale_v2.
  destruct (stale_witness O C) as (H1 & H2 & H3). split; [exact H1|]. exists w_stale_v1. split; [exact H2 | exact H3].
Qed.
Print Assumptions C14_version_refuted.

(* the requirements of a version are those given in its most recent addition, in npm
   resolution order (every variant, the code in the tree included) *)
Theorem C14_requirements : forall O var ops k,
  requirements_of (run O var ops) k =
    match last_add ops k with Some (_, d) => Ok (sort_deps d) | None => Err ENotFound end.
Proof. exact run_requirements_of. Qed.
Print Assumptions C14_requirements.

Theorem C14_requirements_order : forall ds,
  Permutation (sort_deps ds) ds /\
  match ds with
  | [] => sort_deps ds = []
  | d0 :: _ => if N.eqb (r_sys d0) sys_npm then StronglySorted dep_le (sort_deps ds) else sort_deps ds = ds
  end.
Proof. exact sort_deps_order. Qed.
Print Assumptions C14_requirements_order.

(* dep_le is the order the property calls npm resolution order: a total preorder that puts
   development-only requirements last and otherwise compares names case-insensitively,
   lower case first *)
Theorem C14_dep_order_laws : cmp_laws (fun _ => True) dep_cmp.
Proof. exact (core_laws _ _ dep_cmp_core). Qed.
Print Assumptions C14_dep_order_laws.

(* the npm resolution order is determined by the requirements themselves when no two of them
   are shown under one name with the same development-only status: the list that comes back
   does not depend on the order in which the requirements were given, and any ascending
   permutation (whatever sort.Slice does beyond 12 elements) is the model's *)
Theorem C14_requirements_order_unique : forall ds ds',
  Forall (fun d => r_sys d = sys_npm) ds -> deps_separated ds -> Permutation ds ds' ->
  sort_deps ds = sort_deps ds'.
Proof. exact sort_deps_perm_unique. Qed.
Print Assumptions C14_requirements_order_unique.

Theorem C14_requirements_any_sort : forall d0 t s,
  r_sys d0 = sys_npm -> deps_separated (d0 :: t) ->
  Permutation s (d0 :: t) -> StronglySorted dep_le s -> s = sort_deps (d0 :: t).
Proof. exact sort_deps_any_sort. Qed.
Print Assumptions C14_requirements_any_sort.

Theorem C14_requirements_order_insensitive : forall O var ops1 ops2 k v1 d1 v2 d2,
  last_add ops1 k = Some (v1, d1) -> last_add ops2 k = Some (v2, d2) ->
  Forall (fun d => r_sys d = sys_npm) d1 -> deps_separated d1 -> Permutation d1 d2 ->
  requirements_of (run O var ops1) k = requirements_of (run O var ops2) k.
Proof. exact requirements_order_insensitive. Qed.
Print Assumptions C14_requirements_order_insensitive.

(* requirements shown under one name (x, and b known as x) are not separated: they come back in
   the order given (the situation of F-C18-2) *)
Theorem C14_requirements_ties_refuted :
  dep_cmp e_t1 e_t2 = 0%Z /\ e_t1 <> e_t2 /\
  sort_deps [e_t1; e_t2] = [e_t1; e_t2] /\ sort_deps [e_t2; e_t1] = [e_t2; e_t1].
Proof. exact deps_ties_witness. Qed.
Print Assumptions C14_requirements_ties_refuted.

(* foo_bar before foobar (the underscore sorts before the letters once lower-cased), the
   development-only requirement last, from both orders *)
Example C14_requirements_order_example :
  deps_separated [e_d3; e_d2; e_d1] /\
  sort_deps [e_d3; e_d2; e_d1] = [e_d1; e_d2; e_d3] /\ sort_deps [e_d2; e_d1; e_d3] = [e_d1; e_d2; e_d3].
Proof. exact deps_order_example. Qed.

(* listing a package returns each added (non-deleted) version once ... *)
Theorem C14_versions_once : forall O var ops p vs, v_add var <> Current ->
  versions_of (run O var ops) p = Ok vs ->
  NoDup (map v_key vs) /\
  forall v, In v vs <-> (v_pkg v = p /\ option_map fst (last_add ops (v_key v)) = Some v).
Proof. exact versions_members. Qed.
Print Assumptions C14_versions_once.

(* ... in ascending ecosystem order, for every semver layer whose Compare is lawful on
   parsable strings and every history whose Maven/PyPI versions parse: for npm with the
   full repair, for the other systems with every variant *)
Theorem C14_versions_sorted : forall O var ops p vs,
  laws_ok O -> Forall (add_parses O) ops ->
  v_add var = FixAssignSort \/ N.eqb (pk_sys p) sys_npm = false ->
  versions_of (run O var ops) p = Ok vs -> eco_sorted O var (pk_sys p) vs.
Proof. exact versions_sorted. Qed.
Print Assumptions C14_versions_sorted.

(* with the one-token repair alone the npm slice is not re-sorted when a repeated key
   changes its tags: the order is then the one computed for the old tags *)
Theorem C14_versions_sorted_onetoken_refuted :
  exists vs, versions_of (run demo_oracle (mkvar FixAssign cfg_repaired) w_resort) w_resort_pkg = Ok vs /\
             sort_versions cfg_repaired demo_oracle vs <> vs /\
             versions_of (run demo_oracle var_repaired w_resort) w_resort_pkg = Ok (sort_versions cfg_repaired demo_oracle vs).
Proof. exact resort_witness. Qed.
Print Assumptions C14_versions_sorted_onetoken_refuted.

(* every package mentioned by an effective addition, as the package of the version or of
   one of its requirements, is known (possibly with no versions) *)
Theorem C14_packages_known : forall O var ops o v d,
  In o ops -> live_add o = Some (v, d) ->
  (exists vs, versions_of (run O var ops) (v_pkg v) = Ok vs) /\
  (forall r, In r d -> exists vs, versions_of (run O var ops) (r_pkg r) = Ok vs).
Proof. exact run_packages_known. Qed.
Print Assumptions C14_packages_known.

(* anything never added is reported as not found *)
Theorem C14_not_found : forall O var ops,
  (forall k, v_add var <> Current -> last_add ops k = None -> version_of (run O var ops) k = Err ENotFound) /\
  (forall k, last_add ops k = None -> requirements_of (run O var ops) k = Err ENotFound) /\
  (forall p, versions_of (run O var ops) p = Err ENotFound <-> existsb (fun o => mentions o p) ops = false) /\
  (forall k, versions_of (run O var ops) (vk_pkg k) = Err ENotFound ->
             matching_versions O var (run O var ops) k = Err ENotFound).
Proof.
  intros O var ops. repeat split.
  - intros k Hv H. rewrite run_version_of, H by auto. reflexivity.
  - intros k H. rewrite run_requirements_of, H. reflexivity.
  - apply versions_not_found.
  - apply versions_not_found.
  - intros k H. rewrite matching_spec. unfold versions_of in H.
    destruct (pkg_list (run O var ops) (vk_pkg k)); [discriminate | reflexivity].
Qed.
Print Assumptions C14_not_found.

(* MatchingVersions is MatchRequirement over the package slice (C12 says what that is) *)
Theorem C14_matching : forall O var c k,
  matching_versions O var c k =
    match pkg_list c (vk_pkg k) with
    | None => Err ENotFound
    | Some vs => Ok (match_requirement (v_cfg var) O k vs)
    end.
Proof. exact matching_spec. Qed.
Print Assumptions C14_matching.

(* npm: where the version tagged latest stands is decided on the PACKAGE, not on the match.
   [isort (npm_less O) vs] is the package's slice in ascending npm order (C12_sorted_npm); y is
   the last version in it whose tags hold latest (when exactly one live version carries the
   tag: that one).  MatchingVersions is then the selection, by the requirement, from the list
   in which y stands last - unless y is a prerelease while the package, that is vs and not the
   versions that match, has a version that is not a prerelease. *)
Theorem C14_matching_latest_on_package : forall O var c k vs pre y post,
  N.eqb (pk_sys (vk_pkg k)) sys_npm = true ->
  pkg_list c (vk_pkg k) = Some vs ->
  isort (npm_less O) vs = pre ++ y :: post ->
  has_latest (v_cfg var) y = true -> forallb (fun v => negb (has_latest (v_cfg var) v)) post = true ->
  let ordered := if is_pre O y && existsb (fun v => negb (is_pre O v)) vs
                 then pre ++ y :: post else pre ++ post ++ [y] in
  matching_versions O var c k =
    Ok (if o_constraint O sys_npm (vk_ver k)
        then filter (satisfies O sys_npm (vk_ver k)) ordered
        else firstn 1 (filter (satisfies O sys_npm (vk_ver k)) ordered)).
Proof. exact matching_latest_on_package. Qed.
Print Assumptions C14_matching_latest_on_package.

(* the hypotheses are met by a package {1.0.0, 2.0.0-a [latest], 2.0.0-b} and a requirement that
   matches the two prereleases only: match and package disagree about "has a release".  The
   answer keeps 2.0.0-a in place; decided on the match alone it would have been moved last. *)
Example C14_matching_latest_on_package_example :
  laws_ok pre_oracle /\
  isort (npm_less pre_oracle) [e_100; e_200a; e_200b] = [e_100] ++ e_200a :: [e_200b] /\
  has_latest cfg_repaired e_200a = true /\
  is_pre pre_oracle e_200a && existsb (fun v => negb (is_pre pre_oracle v)) [e_100; e_200a; e_200b] = true /\
  existsb (fun v => negb (is_pre pre_oracle v)) [e_200a; e_200b] = false /\
  versions_of (run pre_oracle var_repaired e_hist) (vk_pkg e_req) = Ok [e_100; e_200a; e_200b] /\
  matching_versions pre_oracle var_repaired (run pre_oracle var_repaired e_hist) e_req = Ok [e_200a; e_200b] /\
  sort_npm cfg_repaired pre_oracle [e_200a; e_200b] = [e_200b; e_200a].
Proof. split; [exact pre_oracle_laws | repeat split]. Qed.

(* Over all histories, for the client as repaired in the tree: MatchingVersions is the
   selection, by the requirement, from the very list that Versions returns (which is in npm
   order with the latest rule applied to the whole package: C14_versions_sorted).  Sorting a
   copy of the stored slice again changes nothing.  For a constraint the selection is filter;
   for an npm requirement that is not a range, its first element. *)
Theorem C14_matching_selects_from_versions_npm : forall O var ops k vs,
  laws_ok O -> v_add var = FixAssignSort -> N.eqb (pk_sys (vk_pkg k)) sys_npm = true ->
  Forall (add_parses O) ops -> Forall add_concrete ops ->
  versions_of (run O var ops) (vk_pkg k) = Ok vs ->
  matching_versions O var (run O var ops) k =
    Ok (if o_constraint O sys_npm (vk_ver k)
        then filter (satisfies O sys_npm (vk_ver k)) vs
        else firstn 1 (filter (satisfies O sys_npm (vk_ver k)) vs)).
Proof. exact matching_selects_from_versions. Qed.
Print Assumptions C14_matching_selects_from_versions_npm.

(* Maven, PyPI: the same, whether or not matchRequirement sorts a copy; [separated] holds
   always once SortVersions breaks ties by spelling (C12_separated_when_repaired) *)
Theorem C14_matching_selects_from_versions : forall O var ops k vs,
  laws_ok O -> N.eqb (pk_sys (vk_pkg k)) sys_npm = false ->
  Forall (add_parses O) ops -> Forall add_concrete ops ->
  separated (v_cfg var) O (pk_sys (vk_pkg k)) vs ->
  versions_of (run O var ops) (vk_pkg k) = Ok vs ->
  matching_versions O var (run O var ops) k =
    Ok (filter (satisfies O (pk_sys (vk_pkg k)) (vk_ver k)) vs).
Proof. exact matching_selects_from_versions_gen. Qed.
Print Assumptions C14_matching_selects_from_versions.

(* the slice Versions returns is a fixed point of SortVersions (npm, repaired client) *)
Theorem C14_versions_npm_fixpoint : forall O var ops p vs,
  laws_ok O -> v_add var = FixAssignSort -> N.eqb (pk_sys p) sys_npm = true ->
  Forall (add_parses O) ops -> Forall add_concrete ops ->
  versions_of (run O var ops) p = Ok vs -> sort_npm (v_cfg var) O vs = vs.
Proof. exact versions_npm_fixpoint. Qed.
Print Assumptions C14_versions_npm_fixpoint.

(* ... and in that list the version tagged latest (the last one so tagged in ascending order)
   stands last unless it is a prerelease while the package has a version that is not *)
Theorem C14_versions_latest_position : forall O var ops p vs pre y post,
  laws_ok O -> v_add var = FixAssignSort -> N.eqb (pk_sys p) sys_npm = true ->
  Forall (add_parses O) ops -> Forall add_concrete ops ->
  versions_of (run O var ops) p = Ok vs ->
  isort (npm_less O) vs = pre ++ y :: post ->
  has_latest (v_cfg var) y = true -> forallb (fun v => negb (has_latest (v_cfg var) v)) post = true ->
  vs = if is_pre O y && existsb (fun v => negb (is_pre O v)) vs then pre ++ y :: post else pre ++ post ++ [y].
Proof. exact versions_latest_position. Qed.
Print Assumptions C14_versions_latest_position.

(* a re-addition WITHOUT requirements leaves the version without requirements: the earlier ones
   do not survive (corollary of C14_requirements) *)
Theorem C14_readd_empty_requirements : forall O var,
  (forall ops v, deleted v = false ->
     requirements_of (run O var (ops ++ [HAdd v []])) (v_key v) = Ok []) /\
  (forall ops k v, last_add ops k = Some (v, []) -> requirements_of (run O var ops) k = Ok []).
Proof. intros O var. split; [exact (readd_empty_requirements O var) | exact (last_add_empty_requirements O var)]. Qed.
Print Assumptions C14_readd_empty_requirements.

Example C14_readd_empty_requirements_example :
  requirements_of (run pre_oracle var_repaired [HAdd e_100 [e_dep]]) (v_key e_100) = Ok [e_dep] /\
  requirements_of (run pre_oracle var_repaired [HAdd e_100 [e_dep]; HVersions (v_pkg e_100); HAdd e_100 []]) (v_key e_100) = Ok [].
Proof. exact readd_empty_example. Qed.

(* only AddVersion writes to the store: every lookup, MatchingVersions included (it sorts
   a copy of the slice), leaves it as it was *)
Theorem C14_lookups_pure : forall O var c o, (forall v d, o <> HAdd v d) -> fst (step O var c o) = c.
Proof. exact step_lookup_state. Qed.
Print Assumptions C14_lookups_pure.

(* the store invariant behind all of the above holds after every history *)
Theorem C14_wf : forall O var ops, wf (run O var ops).
Proof. exact run_wf. Qed.
Print Assumptions C14_wf.

(* Non-vacuity: the hypotheses are satisfiable (a lawful oracle, a history with a repeated
   key whose attributes change), and the conclusion distinguishes the variants. *)
Example C14_nonvacuous :
  laws_ok demo_oracle /\ Forall (add_parses demo_oracle) w_stale /\
  version_of (run demo_oracle var_repaired w_stale) (v_key w_stale_v2) = Ok w_stale_v2 /\
  version_of (run demo_oracle (mkvar FixAssign cfg_old) w_stale) (v_key w_stale_v2) = Ok w_stale_v2 /\
  version_of (run demo_oracle var_old w_stale) (v_key w_stale_v2) = Ok w_stale_v1.
Proof. split; [exact demo_laws|]. split; [repeat constructor|]. repeat split. Qed.
