(* C02, PyPI part: the place of the local label in the ordering, and how two local labels are
   compared.  Statements about the model pep_compare on what semver.PyPI.Parse stores;
   proofs in Semver/Pep440Local_proofs.v.

   PEP 440 compares the local label last (after pre, post and dev).  The Go comparator
   reads it after the pre-release number and BEFORE the post and dev numbers when a
   pre-release tag is present, and does not read it at all for post- and dev-releases
   without pre-release tag (known finding F-C02-2).  Hence the _partial statements below
   carry the exact hypotheses under which the reference behaviour holds. *)
From Coq Require Import List ZArith.
From DepsDev Require Import Lib.Base Lib.Order Semver.Version Semver.Pep440 Semver.Pep440Parse Semver.Compare
  Spec.Pep440Spec Semver.Pep440_proofs Semver.Pep440Parse_proofs Semver.Pep440Local_proofs Properties.C02_pypi.
Import ListNotations.
Local Open Scope Z_scope.

(* the extension record Parse stored (all zero when there is none) *)
Definition ext_rec (v : version) : pep440 := make_ext (ext_of v).

(* Go's Compare on two accepted strings is pypi_cmp on the stored numbers and records. *)
Theorem C02_pypi_local_compare_is a b va vb : parse_pypi a = Ok va -> parse_pypi b = Ok vb ->
  vcmp va vb = pypi_cmp (v_num va, Some (ext_rec va)) (v_num vb, Some (ext_rec vb)).
Proof.
  intros Pa Pb. destruct (parse_pypi_is_pypi _ _ Pa) as [Ia _], (parse_pypi_is_pypi _ _ Pb) as [Ib _].
  rewrite (vcmp_pypi va vb Ia Ib). apply pypi_cmp_make_ext.
Qed.
Print Assumptions C02_pypi_local_compare_is.

(* (1a) Two parsed versions equal in epoch, release, pre, post and dev that carry a
   pre-release tag: the result is the comparison of the local labels. *)
Theorem C02_pypi_local_decides_pre_partial a b va vb :
  parse_pypi a = Ok va -> parse_pypi b = Ok vb ->
  compare_nums (v_num va) (v_num vb) = 0 -> same_but_local (ext_rec va) (ext_rec vb) ->
  is_pre_rank (pep_rank (ext_rec va)) = true ->
  vcmp va vb = local_compare (p_local (ext_rec va)) (p_local (ext_rec vb)).
Proof.
  intros Pa Pb Hn Hs Hr. rewrite (C02_pypi_local_compare_is a b va vb Pa Pb).
  exact (cmp_local_pre _ _ _ _ Hn Hs Hr).
Qed.
Print Assumptions C02_pypi_local_decides_pre_partial.

(* (1b) ... that are plain releases (no pre, post, dev): the result is the comparison of the
   local labels, a version without label before a version with one. *)
Theorem C02_pypi_local_decides_plain_partial a b va vb :
  parse_pypi a = Ok va -> parse_pypi b = Ok vb ->
  compare_nums (v_num va) (v_num vb) = 0 -> same_but_local (ext_rec va) (ext_rec vb) ->
  is_pre_rank (pep_rank (ext_rec va)) = false -> p_post (ext_rec va) = false -> p_dev (ext_rec va) = false ->
  vcmp va vb =
  match p_local (ext_rec va), p_local (ext_rec vb) with
  | [], _ :: _ => -1
  | _ :: _, [] => 1
  | _, _ => local_compare (p_local (ext_rec va)) (p_local (ext_rec vb))
  end.
Proof.
  intros Pa Pb Hn Hs Hr Hq Hd. rewrite (C02_pypi_local_compare_is a b va vb Pa Pb).
  exact (cmp_local_plain _ _ _ _ Hn Hs Hr Hq Hd).
Qed.
Print Assumptions C02_pypi_local_decides_plain_partial.

(* The remaining case of (1) is F-C02-2: for post- and dev-releases without pre-release tag the
   labels are not read, so equal attachments give 0 whatever the labels
   (witnesses C02_pypi_witness_post_local, C02_pypi_witness_dev_local in C02_pypi.v). *)

(* How two local labels are compared (PEP 440: segment by segment; numeric segments by value
   and above alphanumeric ones; more segments win on a common prefix).  The labels stored by
   Parse have '-' and '_' already replaced by '.'. *)
Theorem C02_pypi_local_segmentwise pl ql :
  local_compare pl ql = list_lex local_elem_compare (-1) (split_dots pl) (split_dots ql).
Proof. exact (local_compare_list_lex pl ql). Qed.
Print Assumptions C02_pypi_local_segmentwise.

Theorem C02_pypi_local_fewer_segments_first pl ql y r :
  split_dots ql = split_dots pl ++ y :: r -> local_compare pl ql = -1.
Proof. exact (local_fewer_segments pl ql y r). Qed.
Print Assumptions C02_pypi_local_fewer_segments_first.

Theorem C02_pypi_local_numeric_by_value a b : all_digits a = true -> all_digits b = true ->
  local_elem_compare a b = cmpZ (parse_uint_sat a) (parse_uint_sat b).
Proof. exact (elem_numeric_by_value a b). Qed.
Print Assumptions C02_pypi_local_numeric_by_value.

Theorem C02_pypi_local_numeric_above_text a b : all_digits a = true -> all_digits b = false ->
  local_elem_compare a b = 1 /\ local_elem_compare b a = -1.
Proof. exact (elem_numeric_above a b). Qed.
Print Assumptions C02_pypi_local_numeric_above_text.

Theorem C02_pypi_local_text_bytewise a b : all_digits a = false -> all_digits b = false ->
  local_elem_compare a b = bytes_compare a b.
Proof. exact (elem_text a b). Qed.
Print Assumptions C02_pypi_local_text_bytewise.

(* Parse stores the label with '-' and '_' normalised to '.' *)
Lemma C02_pypi_local_normalised_example :
  exists v, parse_pypi [49;46;48;43;97;98;99;45;49;95;120]%N = Ok v /\ p_local (ext_rec v) = [97;98;99;46;49;46;120]%N.
Proof. eexists. split; vm_compute; reflexivity. Qed.

(* (2) When post or dev numbers differ the local label does not matter.  Exact domain: no
   pre-release tag on either side (with a tag the Go comparator reads the label first:
   C02_pypi_local_before_post_witness).  Post-releases: the result is post number, then dev. *)
Theorem C02_pypi_post_before_local_partial a b va vb :
  parse_pypi a = Ok va -> parse_pypi b = Ok vb ->
  p_epoch (ext_rec va) = p_epoch (ext_rec vb) -> compare_nums (v_num va) (v_num vb) = 0 ->
  is_pre_rank (pep_rank (ext_rec va)) = false -> is_pre_rank (pep_rank (ext_rec vb)) = false ->
  p_post (ext_rec va) = true -> p_post (ext_rec vb) = true ->
  vcmp va vb = nz (cmpZ (p_postnum (ext_rec va)) (p_postnum (ext_rec vb)))
                  (opt_cmp cmpZ 1 (k_dev (ext_rec va)) (k_dev (ext_rec vb))).
Proof.
  intros Pa Pb He Hn Hx Hy Px Py. rewrite (C02_pypi_local_compare_is a b va vb Pa Pb).
  exact (cmp_post_rank _ _ _ _ He Hn Hx Hy Px Py).
Qed.
Print Assumptions C02_pypi_post_before_local_partial.

(* dev-releases (no pre-release tag, no post): the dev number alone *)
Theorem C02_pypi_dev_before_local_partial a b va vb :
  parse_pypi a = Ok va -> parse_pypi b = Ok vb ->
  p_epoch (ext_rec va) = p_epoch (ext_rec vb) -> compare_nums (v_num va) (v_num vb) = 0 ->
  is_pre_rank (pep_rank (ext_rec va)) = false -> is_pre_rank (pep_rank (ext_rec vb)) = false ->
  p_post (ext_rec va) = false -> p_post (ext_rec vb) = false ->
  p_dev (ext_rec va) = true -> p_dev (ext_rec vb) = true ->
  vcmp va vb = cmpZ (p_devnum (ext_rec va)) (p_devnum (ext_rec vb)).
Proof.
  intros Pa Pb He Hn Hx Hy Px Py Dx Dy. rewrite (C02_pypi_local_compare_is a b va vb Pa Pb).
  exact (cmp_dev_rank _ _ _ _ He Hn Hx Hy Px Py Dx Dy).
Qed.
Print Assumptions C02_pypi_dev_before_local_partial.

(* in both cases replacing the labels by any others leaves the result unchanged *)
Theorem C02_pypi_local_irrelevant_partial na nb x y la lb :
  is_pre_rank (pep_rank x) = false -> is_pre_rank (pep_rank y) = false ->
  (p_post x = true /\ p_post y = true) \/
  (p_post x = false /\ p_post y = false /\ p_dev x = true /\ p_dev y = true) ->
  pypi_cmp (na, Some (set_local x la)) (nb, Some (set_local y lb)) = pypi_cmp (na, Some x) (nb, Some y).
Proof. exact (cmp_local_ignored na nb x y la lb). Qed.
Print Assumptions C02_pypi_local_irrelevant_partial.

(* with a pre-release tag the label is read before the post number (F-C02-2):
   1.0a1.post2+a vs 1.0a1.post1+b is -1 here, 1 for the reference *)
Lemma C02_pypi_local_before_post_witness :
  go_cmp [49;46;48;97;49;46;112;111;115;116;50;43;97]%N [49;46;48;97;49;46;112;111;115;116;49;43;98]%N = Some (-1) /\ ref_cmp [49;46;48;97;49;46;112;111;115;116;50;43;97]%N [49;46;48;97;49;46;112;111;115;116;49;43;98]%N = Some 1.
Proof. split; vm_compute; reflexivity. Qed.

(* ---------- inhabited examples, Go and the reference agree ---------- *)
(* 1.0+abc-1 < 1.0+abc.2 : same label up to the separator, numeric segments by value *)
Example C02_pypi_local_example :
  go_cmp [49;46;48;43;97;98;99;45;49]%N [49;46;48;43;97;98;99;46;50]%N = Some (-1) /\ ref_cmp [49;46;48;43;97;98;99;45;49]%N [49;46;48;43;97;98;99;46;50]%N = Some (-1).
Proof. split; vm_compute; reflexivity. Qed.

(* ... and it is an instance of C02_pypi_local_decides_plain_partial *)
Example C02_pypi_local_example_hyps :
  exists va vb, parse_pypi [49;46;48;43;97;98;99;45;49]%N = Ok va /\ parse_pypi [49;46;48;43;97;98;99;46;50]%N = Ok vb /\
    compare_nums (v_num va) (v_num vb) = 0 /\ same_but_local (ext_rec va) (ext_rec vb) /\
    is_pre_rank (pep_rank (ext_rec va)) = false /\ p_post (ext_rec va) = false /\ p_dev (ext_rec va) = false /\
    local_compare (p_local (ext_rec va)) (p_local (ext_rec vb)) = -1.
Proof.
  eexists; eexists. split; [vm_compute; reflexivity|]. split; [vm_compute; reflexivity|].
  split; [vm_compute; reflexivity|]. split; [repeat split|]. repeat split; vm_compute; reflexivity.
Qed.

(* 1.0.post1+zzz < 1.0.post2 : the post number decides, the label does not matter *)
Example C02_pypi_post_example :
  go_cmp [49;46;48;46;112;111;115;116;49;43;122;122;122]%N [49;46;48;46;112;111;115;116;50]%N = Some (-1) /\ ref_cmp [49;46;48;46;112;111;115;116;49;43;122;122;122]%N [49;46;48;46;112;111;115;116;50]%N = Some (-1).
Proof. split; vm_compute; reflexivity. Qed.

Example C02_pypi_post_example_hyps :
  exists va vb, parse_pypi [49;46;48;46;112;111;115;116;49;43;122;122;122]%N = Ok va /\ parse_pypi [49;46;48;46;112;111;115;116;50]%N = Ok vb /\
    p_epoch (ext_rec va) = p_epoch (ext_rec vb) /\ compare_nums (v_num va) (v_num vb) = 0 /\
    is_pre_rank (pep_rank (ext_rec va)) = false /\ is_pre_rank (pep_rank (ext_rec vb)) = false /\
    p_post (ext_rec va) = true /\ p_post (ext_rec vb) = true /\
    p_postnum (ext_rec va) = 1 /\ p_postnum (ext_rec vb) = 2.
Proof.
  eexists; eexists. split; [vm_compute; reflexivity|]. split; [vm_compute; reflexivity|].
  repeat split; vm_compute; reflexivity.
Qed.
