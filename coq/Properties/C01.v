(* C01 — version comparison is a total preorder (SemVer family: Default, Cargo, Go, NPM,
   NuGet, Composer).  PyPI, RubyGems and Maven are in C01_pypi.v, C01_gem.v, C01_maven.v.
   Statements only. *)
From DepsDev Require Import Lib.Base Lib.Order Semver.Version Semver.Compare
  Semver.Generic_proofs Semver.Compare_proofs.

(* For every system S, on ALL version structures without extension (whatever their numbers,
   prerelease elements, build string: no well-formedness is needed), compare never fails
   and coincides with a function that is reflexive, sign-antisymmetric, transitive and
   congruent. *)
Theorem C01_family : forall S, exists c : version -> version -> Z,
  (forall a b, fam_version S a -> fam_version S b -> compare a b = Ok (c a b)) /\
  cmp_laws (fam_version S) c.
Proof. exact family_laws. Qed.
Print Assumptions C01_family.

(* Build metadata never changes the result. *)
Theorem C01_family_build : forall S v b, fam_version S v -> compare v (with_build v b) = Ok 0%Z.
Proof. exact family_build. Qed.
Print Assumptions C01_family_build.

(* The comparison is a function of the numbers and prerelease elements only (it cannot
   depend on the original string, on userNumCount, on the isPrerelease flag, nor on any
   earlier call: it is a Gallina function). *)
Theorem C01_family_fields : forall S a a' b b',
  v_num a = v_num a' -> v_pre a = v_pre a' -> v_num b = v_num b' -> v_pre b = v_pre b' ->
  generic_compare S a b = generic_compare S a' b'.
Proof. exact generic_compare_fields. Qed.
Print Assumptions C01_family_fields.

(* Non-vacuity: three concrete NPM structures (1.2.3-alpha.1, 1.2.3-alpha.01, 1.2.3+b)
   satisfy the hypotheses and are ordered as SemVer says. *)
Example C01_family_nonvacuous :
  let mk pre build := {| v_sys := SNPM; v_user_num_count := 3; v_is_prerelease := false; v_str := [];
                         v_num := [1; 2; 3]%Z; v_pre := pre; v_build := build; v_ext := NoExt |} in
  let a := mk [[97; 108; 112; 104; 97]; [49]]%N [] in
  let b := mk [[97; 108; 112; 104; 97]; [48; 49]]%N [] in
  let c := mk [] [43; 98]%N in
  fam_version SNPM a /\ fam_version SNPM b /\ fam_version SNPM c /\
  compare a b = Ok 0%Z /\ compare a c = Ok (-1)%Z /\ compare c a = Ok 1%Z.
Proof. vm_compute. repeat split; reflexivity. Qed.

(* Consequently sorting a list of versions yields the same sequence of equivalence classes
   whatever the input order (and whatever correct sorting algorithm is used): two sorted
   lists that are permutations of each other compare equal position by position.
   (Lib/SortClasses.v proves this for every comparator satisfying the four laws; it is
   instantiated here for the SemVer family and applies verbatim to the comparators of
   C01_pypi, C01_gem and C01_maven.) *)
From Coq Require Import Permutation.
From DepsDev Require Import Lib.SortClasses.
Theorem C01_sort_classes : forall S (l1 l2 : list version),
  Forall (fam_version S) l1 -> Forall (fam_version S) l2 -> Permutation l1 l2 ->
  sorted (generic_compare S) l1 -> sorted (generic_compare S) l2 ->
  Forall2 (fun a b => generic_compare S a b = 0%Z) l1 l2.
Proof.
  intros S l1 l2 P1 P2 HP S1 S2.
  assert (L : cmp_laws (fam_version S) (generic_compare S)).
  { apply core_laws. apply (core_weaken (fun _ => True) (fam_version S)); [auto | apply generic_compare_core]. }
  exact (sorted_perm_classes (fam_version S) (generic_compare S) L l1 l2 P1 P2 HP S1 S2).
Qed.
Print Assumptions C01_sort_classes.
