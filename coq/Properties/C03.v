(* C03 - constraint matching agrees with each ecosystem's own implementation.

   Statements only; proofs are in Semver/C03_proofs.v, Semver/C03_witness.v and the C09 files.
   The property is FALSE on the current code in many ways (known/C03.jsonl lists fourteen classes
   with witnesses that every run replays on Go).  What is proved, for npm:
     - the model's comparison IS SemVer precedence (so intervals of the model are intervals of node);
     - per operator, the span produced by opVersionToSpan for a full release version denotes,
       on release candidates, exactly what node's desugaring of that comparator accepts;
     - the prerelease admission rule of span.contains is node's rule for a comparator pair;
     - sound spans compose by Intersect when they do not meet in an excluded point, and by
       canon/Union on the release domain of C09;
     - the recorded counterexamples, evaluated in the model and in the reference specification.
   Not proved: the composition from requirement TEXT (tokenizer + recursive descent) to spans,
   partial versions, prerelease bounds in and-lists, PyPI / Maven operator lemmas (the Cargo
   operators are in Properties/C03_cargo.v); those
   are decided on every run by the oracle (Go against the extracted specifications, which are
   re-validated against the real tools) and by the correspondence check.                      *)
From Coq Require Import String.
From DepsDev Require Import Lib.Base Semver.Version Semver.Compare Semver.Compare_proofs Semver.Span Semver.Interval
     Semver.Set Semver.Constraint Semver.Span_proofs Semver.Inc_proofs Semver.Set_proofs Semver.Inter_proofs
     Semver.Witness Semver.C03_proofs Semver.C03_more_proofs Semver.C03_witness Gen.SemverTables Spec.NodeRange.
Local Open Scope Z_scope.

(* (a0) order *)
Theorem C03_npm_order : forall x y a b c d e f, v_num x = [a; b; c] -> v_num y = [d; e; f] ->
  generic_compare SNPM x y = sv_compare (sv_of x) (sv_of y).
Proof. exact npm_compare_is_semver. Qed.
Print Assumptions C03_npm_order.

(* (a) operators on a full release version M.m.p, release candidates.  npm_sound r op says: r is
   a span s, and for every release candidate u, u in s (under either matching mode) iff u
   satisfies node's desugaring of (op M.m.p). *)
Theorem C03_op_ge_sound : forall pv str M m p, fin M -> fin m -> fin p ->
  npm_sound M m p (op_version_to_span pv go_tokGreaterEqual (mk3 str M m p)) OpGe.
Proof. exact op_ge_sound. Qed.
Print Assumptions C03_op_ge_sound.

Theorem C03_op_lt_sound : forall pv str M m p, fin M -> fin m -> fin p -> (M <> 0 \/ m <> 0 \/ p <> 0) ->
  npm_sound M m p (op_version_to_span pv go_tokLess (mk3 str M m p)) OpLt.
Proof. exact op_lt_sound. Qed.
Print Assumptions C03_op_lt_sound.

Theorem C03_op_caret_sound : forall pv str M m p, fin M -> fin m -> fin p -> 0 < M ->
  npm_sound M m p (op_version_to_span pv go_tokCaret (mk3 str M m p)) OpCaret.
Proof. exact op_caret_sound. Qed.
Print Assumptions C03_op_caret_sound.

Theorem C03_op_tilde_sound : forall pv str M m p, fin M -> fin m -> fin p ->
  npm_sound M m p (op_version_to_span pv go_tokTilde (mk3 str M m p)) OpTilde.
Proof. exact op_tilde_sound. Qed.
Print Assumptions C03_op_tilde_sound.

Theorem C03_op_eq_sound : forall pv str M m p, fin M -> fin m -> fin p ->
  npm_sound M m p (op_version_to_span pv go_tokEqual (mk3 str M m p)) OpEq.
Proof. exact op_eq_sound. Qed.
Print Assumptions C03_op_eq_sound.

(* <=, > and the caret on a major 0 (added after the first round of review) *)
Theorem C03_op_le_sound : forall pv str M m p, fin M -> fin m -> fin p ->
  npm_sound M m p (op_version_to_span pv go_tokLessEqual (mk3 str M m p)) OpLe.
Proof. exact op_le_sound. Qed.
Print Assumptions C03_op_le_sound.

Theorem C03_op_gt_sound : forall pv str M m p, fin M -> fin m -> fin p -> p < infinity - 1 ->
  npm_sound M m p (op_version_to_span pv go_tokGreater (mk3 str M m p)) OpGt.
Proof. exact op_gt_sound. Qed.
Print Assumptions C03_op_gt_sound.

Theorem C03_op_caret0_sound : forall pv str M m p, fin M -> fin m -> fin p -> M = 0 ->
  npm_sound M m p (op_version_to_span pv go_tokCaret (mk3 str M m p)) OpCaret.
Proof. exact op_caret0_sound. Qed.
Print Assumptions C03_op_caret0_sound.

(* (b) the prerelease rule *)
Theorem C03_prerelease_rule : forall mn mx u a b c d e f x y z (op : nop),
  v_num mn = [a; b; c] -> v_num mx = [d; e; f] -> v_num u = [x; y; z] ->
  flag_ok mn -> flag_ok mx -> flag_ok u -> generic_compare SNPM mn u <= 0 ->
  admits SNPM mn mx u = prerelease_ok [PCmp OpGe (sv_of mn); PCmp op (sv_of mx)] (sv_of u).
Proof. exact admission_is_node_rule. Qed.
Print Assumptions C03_prerelease_rule.

(* (c)/(d) composition at the level of spans *)
Theorem C03_and_partial : forall s t l1 l2, good_span_b SNPM s = true -> good_span_b SNPM t = true ->
  no_point_contact_b SNPM s t = true ->
  (forall u x y z, cand u x y z -> in_span SNPM true s u = set_test l1 (sv_of u)) ->
  (forall u x y z, cand u x y z -> in_span SNPM true t u = set_test l2 (sv_of u)) ->
  exists r, inter_row s [t] = Ok r /\
    forall u x y z, cand u x y z -> in_spans SNPM true r u = set_test (l1 ++ l2) (sv_of u).
Proof. exact and_sound. Qed.
Print Assumptions C03_and_partial.

(* the side conditions are met by, for instance, the two spans of >=1.2.0 <2.0.0 *)
Example C03_and_domain_inhabited :
  match parse_set_of SNPM ">=1.2.0", parse_set_of SNPM "<2.0.0" with
  | Ok A, Ok B =>
      match set_span A, set_span B with
      | [s], [t] => good_span_b SNPM s && good_span_b SNPM t && no_point_contact_b SNPM s t
      | _, _ => false
      end
  | _, _ => false
  end = true.
Proof. vm_compute. reflexivity. Qed.

(* the || level is canon on the collected spans: C09_canon_partial *)
Theorem C03_or_partial : forall l, c09_dom_b SNPM l = true ->
  exists r, canon_spans l = Ok r /\ forall v, in_spans SNPM true r v = in_spans SNPM true l v.
Proof.
  intros l H. destruct (canon_spans_dom SNPM eq_refl l H) as (r & E & _ & _ & D). exists r. split; auto.
Qed.
Print Assumptions C03_or_partial.

(* ------------------------------------------------------------------ refuted: the recorded witnesses *)
(* each says: on this requirement and candidate the model (with Go's parser answers) and
   node-semver's specification give different answers *)
Theorem C03_npm_point_refuted :
  c03_npm_check "<0.2 ^0.2" ast_point (mkv SNPM "0.2.0" [0;2;0] []) = Some false /\
  c03_npm_check ">=1.2.0 <2.0.0 >=2.0.0 <3.0.0" ast_point2 (mkv SNPM "2.0.0" [2;0;0] []) = Some false /\
  c03_npm_check "<0.x 0.0" ast_point3 (mkv SNPM "0.0.0" [0;0;0] []) = Some false.
Proof. exact (conj npm_point_witness (conj npm_point_witness2 npm_point_witness3)). Qed.

Theorem C03_npm_adjacent_refuted :
  c03_npm_check ">=0.1.1 <1 || ~>2" ast_adjacent (mkv SNPM "1.3.3" [1;3;3] []) = Some false.
Proof. exact npm_adjacent_witness. Qed.

Theorem C03_npm_drop_refuted :
  c03_npm_check "1.0 - 10.2.0-1 || 1 ~1.2 || ~1" ast_drop (mkv SNPM "3.1.10" [3;1;10] []) = Some false.
Proof. exact npm_drop_witness. Qed.

(* a requirement the reference accepts as non-empty is rejected *)
Theorem C03_not_rejected_refuted :
  (exists e, parse_constraint pv_w SNPM (b "2 - 1 || 3") = Err e) /\
  satisfies ast_reversed (sv_of (mkv SNPM "3.0.0" [3;0;0] [])) = true.
Proof. exact npm_rejected_witness. Qed.
Print Assumptions C03_not_rejected_refuted.
