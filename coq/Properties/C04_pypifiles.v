(* C04 — the file-name parsers of util/pypi: pypi.SdistVersion (sdist.go) and pypi.ParseWheelName with
   expandPEP425Tag (wheel.go).  Model: Pypi/Files.v (byte level; every Go slice and index expression is
   a panicking primitive go_slice / idx).  Statements only; proofs in Pypi/Files_proofs.v.

   External: strings.IndexFunc(tag, !unicode.IsDigit) needs Unicode tables; it is the parameter
   [first_nondigit], of which the totality theorem assumes only that an index it returns lies within
   the string (oracle_wf).  For ASCII tags it is [ascii_first_nondigit], which satisfies that.
   Tie: case kinds sdist_version / wheel_name (harness/props/C04.py), Go vs the extracted model on
   generated and mutated file names. *)
From Coq Require Import List ZArith.
From DepsDev Require Import Lib.Base Pypi.PyStr Pypi.Dependency Pypi.Files Pypi.Files_proofs.
Import ListNotations.

(* SdistVersion returns a value or an error for EVERY canonical name and file name: neither
   nameVersion[:i] nor nameVersion[i+1:] can be out of range ([returns r]: r is neither Panic nor OutOfFuel) *)
Theorem C04_sdist_version_total : forall canon filename, returns (sdist_version canon filename).
Proof. exact sdist_version_total. Qed.
Print Assumptions C04_sdist_version_total.

(* what it returns: the stem (extension and a further ".tar" removed) split at its FIRST dash whose prefix
   canonicalises to the name asked for; the dash itself belongs to neither part *)
Theorem C04_sdist_version_ok : forall canon filename nm ver,
  sdist_version canon filename = Ok (nm, ver) ->
  sdist_stem filename = nm ++ 45%N :: ver /\ canon_name nm = canon /\
  forall m1 m2, nm = m1 ++ 45%N :: m2 -> canon_name m1 <> canon.
Proof. exact sdist_version_ok. Qed.
Print Assumptions C04_sdist_version_ok.

(* and it fails only when no dash of the stem has such a prefix *)
Theorem C04_sdist_version_err : forall canon filename e,
  sdist_version canon filename = Err e ->
  forall m1 m2, sdist_stem filename = m1 ++ 45%N :: m2 -> canon_name m1 <> canon.
Proof. exact sdist_version_err. Qed.
Print Assumptions C04_sdist_version_err.

(* ParseWheelName returns a value or an error for every name and every well-formed answer of IndexFunc:
   name[:len(name)-4] follows the suffix test, parts[0..2] and parts[len-3..len-1] follow the count test,
   buildTag[:split] and buildTag[split:] are within the tag *)
Theorem C04_wheel_name_total : forall o name, oracle_wf o -> returns (parse_wheel_name o name).
Proof. exact parse_wheel_name_total. Qed.
Print Assumptions C04_wheel_name_total.

Theorem C04_wheel_name_total_ascii : forall name, returns (parse_wheel_name ascii_first_nondigit name).
Proof. intros name. apply parse_wheel_name_total. exact ascii_oracle_wf. Qed.
Print Assumptions C04_wheel_name_total_ascii.

(* an accepted name is stem.whl with 5 or 6 dash-separated parts, the first two of which are reported *)
Theorem C04_wheel_name_ok : forall o name w,
  parse_wheel_name o name = Ok w ->
  exists stem, name = stem ++ s_whl /\
    let parts := split_on 45 stem in
    (length parts = 5 \/ length parts = 6)%nat /\
    nth_error parts 0 = Some (w_name w) /\ nth_error parts 1 = Some (w_version w).
Proof. exact parse_wheel_name_ok. Qed.
Print Assumptions C04_wheel_name_ok.

(* the hypotheses are met and the parsers do something: "my_pkg-1.0.tar.gz" for my-pkg, a name that ends
   in a dash (the shape of seed C04-l), a six-part wheel name with a compressed tag set *)
Example C04_pypifiles_examples :
  sdist_version [109;121;45;112;107;103] [109;121;95;112;107;103;45;49;46;48;46;116;97;114;46;103;122]
    = Ok ([109;121;95;112;107;103], [49;46;48]) /\
  sdist_version [102;111;111] [102;111;111;45;46;116;97;114;46;103;122] = Ok ([102;111;111], []) /\
  (exists w, parse_wheel_name ascii_first_nondigit
      [112;45;49;46;48;45;49;50;97;45;112;121;50;46;112;121;51;45;110;111;110;101;45;97;110;121;46;119;104;108] = Ok w
      /\ w_num w = 12%Z /\ w_tag w = [97] /\ length (w_platforms w) = 2%nat).
Proof.
  split; [vm_compute; reflexivity|]. split; [vm_compute; reflexivity|].
  eexists. split; [vm_compute; reflexivity|]. vm_compute. auto.
Qed.

(* expandPEP425Tag: exactly the product of the three dot-separated tag sets *)
Theorem C04_wheel_tags_spec : forall py abi plat p a l,
  In (p, a, l) (expand_tags py abi plat) <->
  In p (split_on 46 py) /\ In a (split_on 46 abi) /\ In l (split_on 46 plat).
Proof. exact expand_tags_in. Qed.
Print Assumptions C04_wheel_tags_spec.

Theorem C04_wheel_tags_count : forall py abi plat,
  length (expand_tags py abi plat) =
  (length (split_on 46 py) * (length (split_on 46 abi) * length (split_on 46 plat)))%nat.
Proof. exact expand_tags_length. Qed.
Print Assumptions C04_wheel_tags_count.
