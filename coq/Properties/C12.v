(* placeholder while the harness is brought up *)
From DepsDev Require Import Lib.Base Resolve.Client.
