(* C12 — Requirement matching over a version list is exact, ordered and order-insensitive.
   Statements only; each is closed by [exact] of a lemma proved in Resolve/MatchReq_proofs.v
   or Resolve/Client_proofs.v.

   The semver layer is an [oracle] (MatchReq.v): what it means for a version string to
   satisfy a requirement string is the oracle's ParseConstraint/Match answer, the order of
   two version strings is its Parse/Compare answer.  Every theorem holds for ALL oracles
   meeting the hypothesis it names (the comparator laws of Lib/Order.v on parsable strings:
   that hypothesis is what property C01 establishes or refutes for the real semver).

   [C : mcfg] says which of the three repairs of match.go the tree has (latest_exact:
   F-C12-2, match_sorts: F-C12-1b, tie_break: F-C12-1; cfg_old = none, cfg_repaired = all).
   The check detects C on every run by replaying the recorded witnesses on the Go code and
   runs the correspondence with that C, so the model follows the tree; the theorems below
   are for every C, the full statements under the hypothesis that the repair is in, the
   refuted ones for cfg_old. *)
From Coq Require Import List ZArith NArith Bool Sorting.Sorted Sorting.Permutation.
From DepsDev Require Import Lib.Base Lib.Order Lib.Sort Lib.SortUniq Gen.ResolveTables Resolve.Attr
  Resolve.MatchReq Resolve.MatchReq_proofs Resolve.Client Resolve.Client_proofs.
Import ListNotations.

(* ---------- sorting in general (DESIGN 3.5) ---------- *)
(* any two ascending permutations of a list are equal when the comparator is lawful and
   separates the elements of the list *)
Theorem C12_sorted_perm_unique : forall (A : Type) (P : A -> Prop) (c : A -> A -> Z),
  cmp_laws P c -> forall l1 l2, Forall P l1 ->
  (forall a b, In a l1 -> In b l1 -> c a b = 0%Z -> a = b) ->
  StronglySorted (cle c) l1 -> StronglySorted (cle c) l2 -> Permutation l1 l2 -> l1 = l2.
Proof. intros A P c HL l1 l2. exact (sorted_perm_unique P c HL l1 l2). Qed.
Print Assumptions C12_sorted_perm_unique.

(* ---------- exactness ---------- *)
(* [satisfies O sys r v]: the constraint r matches v; or, r not being a constraint, v's
   string equals r (for npm: its string or one of its tags).  The result of
   MatchRequirement holds exactly the versions of the list that satisfy the requirement,
   for constraints in every system and for string requirements outside npm. *)
Theorem C12_exact : forall C O rk l v,
  (N.eqb (pk_sys (vk_pkg rk)) sys_npm = true -> o_constraint O sys_npm (vk_ver rk) = true) ->
  In v (match_requirement C O rk l) <->
  In v l /\ satisfies O (pk_sys (vk_pkg rk)) (vk_ver rk) v = true.
Proof. exact match_requirement_exact. Qed.
Print Assumptions C12_exact.

(* an npm requirement that is not a range selects the first version, in npm order, whose
   string or one of whose tags equals it; the result is empty when there is none *)
Theorem C12_npm_tag : forall C O req l,
  o_constraint O sys_npm req = false ->
  match_npm C O req l = firstn 1 (filter (npm_exact req) (sort_npm C O l)).
Proof. exact match_npm_exact_string. Qed.
Print Assumptions C12_npm_tag.

(* in both npm cases the result is a sublist of the list in npm order *)
Theorem C12_npm_result : forall C O req l,
  match_npm C O req l =
    if o_constraint O sys_npm req then filter (satisfies O sys_npm req) (sort_npm C O l)
    else firstn 1 (filter (satisfies O sys_npm req) (sort_npm C O l)).
Proof. exact match_npm_spec. Qed.
Print Assumptions C12_npm_result.

(* ---------- order ---------- *)
(* npm: ascending by semver then spelling with unparsable versions after parsable ones
   ([base]), then the last version tagged latest ([has_latest C]) moved to the end unless it
   is a prerelease while some version is not ([reposition]) *)
Theorem C12_sorted_npm : forall C O l,
  cmp_laws (npm_parses O) (o_compare O sys_npm) ->
  exists base,
    Permutation base l /\ StronglySorted (npm_le O) base /\
    (forall a b, npm_le O a b -> o_parses O sys_npm (ver b) = true -> o_parses O sys_npm (ver a) = true) /\
    sort_npm C O l = reposition C O base.
Proof. exact sort_npm_spec. Qed.
Print Assumptions C12_sorted_npm.

Theorem C12_reposition_none : forall C O base,
  forallb (fun v => negb (has_latest C v)) base = true -> reposition C O base = base.
Proof. exact reposition_no_latest. Qed.
Print Assumptions C12_reposition_none.

Theorem C12_reposition_latest : forall C O base pre y post,
  base = pre ++ y :: post -> has_latest C y = true ->
  forallb (fun v => negb (has_latest C v)) post = true ->
  reposition C O base =
    if is_pre O y && existsb (fun v => negb (is_pre O v)) base then base else pre ++ post ++ [y].
Proof. exact reposition_latest. Qed.
Print Assumptions C12_reposition_latest.

(* with repair 1 the version that is repositioned carries the tag latest among its comma
   separated tags ... *)
Theorem C12_latest_exact : forall C v,
  latest_exact C = true -> has_latest C v = existsb (bytes_eqb s_latest) (split_on 44 (tags v)).
Proof. exact has_latest_exact. Qed.
Print Assumptions C12_latest_exact.

(* ... before it, has_latest was a substring test on the tag text: a version whose tag list
   does not hold the tag latest was repositioned all the same (F-C12-2); the repaired
   variant leaves the same list in ascending order *)
Theorem C12_latest_tag_refuted :
  existsb (bytes_eqb s_latest) (split_on 44 (tags w_n1)) = false /\
  npm_cmp all_oracle w_n1 w_n2 = (-1)%Z /\
  sort_npm cfg_old all_oracle [w_n1; w_n2] = [w_n2; w_n1] /\
  sort_npm cfg_repaired all_oracle [w_n1; w_n2] = [w_n1; w_n2].
Proof.
  destruct latest_substring_witness as (H1 & H2 & H3).
  exact (conj H1 (conj H2 (conj H3 latest_exact_repaired))).
Qed.
Print Assumptions C12_latest_tag_refuted.

(* Maven, PyPI: SortVersions returns an ascending permutation of parsable versions.  [gen_le]
   is ascending by Compare and, with repair 3, among versions that compare equal ascending
   by spelling; in both cases it implies ascending by Compare (C12_order_is_semver). *)
Theorem C12_sorted_generic : forall C O sys v0 t,
  v_sys v0 = sys -> N.eqb sys sys_npm = false ->
  cmp_laws (fun s => o_parses O sys s = true) (o_compare O sys) ->
  Forall (gen_parses O sys) (v0 :: t) ->
  Permutation (sort_versions C O (v0 :: t)) (v0 :: t) /\ StronglySorted (gen_le C O sys) (sort_versions C O (v0 :: t)).
Proof. exact sort_versions_gen_spec. Qed.
Print Assumptions C12_sorted_generic.

Theorem C12_order_is_semver : forall C O sys a b,
  gen_le C O sys a b -> (o_compare O sys (ver a) (ver b) <= 0)%Z.
Proof. exact gen_le_semver. Qed.
Print Assumptions C12_order_is_semver.

(* raw MatchRequirement outside npm, with repair 2 (it sorts a copy of the list): the result
   is ascending whatever the order of the input *)
Theorem C12_sorted_match : forall C O sys req l,
  match_sorts C = true -> N.eqb sys sys_npm = false ->
  cmp_laws (fun s => o_parses O sys s = true) (o_compare O sys) ->
  Forall (fun v => v_sys v = sys) l -> Forall (gen_parses O sys) l ->
  StronglySorted (gen_le C O sys) (match_generic C O sys req l).
Proof. exact match_generic_sorts. Qed.
Print Assumptions C12_sorted_match.

(* before repair 2: a match over an ascending slice (what LocalClient.MatchingVersions hands
   over) is ascending *)
Theorem C12_match_keeps_order : forall C O sys req l,
  match_sorts C = false ->
  StronglySorted (gen_le C O sys) l -> StronglySorted (gen_le C O sys) (match_generic C O sys req l).
Proof. exact match_generic_sorted. Qed.
Print Assumptions C12_match_keeps_order.

(* the comparator of sortNPMVersions over the mixture of parsable and unparsable strings is
   lawful as soon as the semver Compare is lawful on the parsable ones: nothing is assumed
   about unparsable strings *)
Theorem C12_npm_comparator_laws : forall O,
  cmp_laws (npm_parses O) (o_compare O sys_npm) ->
  cmp_laws (fun _ : version => True) (npm_cmp O) /\
  (forall a b, npm_less O a b = (npm_cmp O a b <? 0)%Z) /\
  (forall a b, npm_cmp O a b = 0%Z -> ver a = ver b).
Proof.
  intros O HL. split; [exact (npm_cmp_laws O HL)|]. split; [exact (npm_less_cmp O) | exact (npm_cmp_eq0 O)].
Qed.
Print Assumptions C12_npm_comparator_laws.

(* ---------- permutation invariance ---------- *)
(* npm: the comparator (semver, then spelling) separates distinct strings *)
Theorem C12_perm_npm : forall C O rk l l',
  N.eqb (pk_sys (vk_pkg rk)) sys_npm = true ->
  cmp_laws (npm_parses O) (o_compare O sys_npm) ->
  NoDup (map ver l) -> Permutation l l' ->
  match_requirement C O rk l = match_requirement C O rk l'.
Proof. exact match_requirement_npm_perm. Qed.
Print Assumptions C12_perm_npm.

Theorem C12_perm_sort_npm : forall C O l l',
  cmp_laws (npm_parses O) (o_compare O sys_npm) ->
  NoDup (map ver l) -> Permutation l l' -> sort_npm C O l = sort_npm C O l'.
Proof. intros C O l l' HL. exact (sort_npm_perm_unique C O HL l l'). Qed.
Print Assumptions C12_perm_sort_npm.

(* the model sorts by insertion; whatever ascending permutation sort.Slice returns on a
   slice of distinct npm strings is that same list *)
Theorem C12_npm_any_sort : forall O l s,
  cmp_laws (npm_parses O) (o_compare O sys_npm) ->
  NoDup (map ver l) -> Permutation s l -> StronglySorted (npm_le O) s -> s = isort (npm_less O) l.
Proof. intros O l s HL. exact (isort_npm_is_the_sorted_perm O HL l s). Qed.
Print Assumptions C12_npm_any_sort.

(* Maven, PyPI.  [separated C O sys l]: the comparator of SortVersions separates the
   versions of l, which is the case always with repair 3 (tie-break by spelling) and
   otherwise under the side condition that no two different spellings compare equal. *)
Theorem C12_separated_when_repaired : forall C O sys l, tie_break C = true -> separated C O sys l.
Proof. intros C O sys l H. left. exact H. Qed.
Print Assumptions C12_separated_when_repaired.

Theorem C12_perm_sort_generic : forall C O sys l l',
  N.eqb sys sys_npm = false ->
  cmp_laws (fun s => o_parses O sys s = true) (o_compare O sys) ->
  Forall (fun v => v_sys v = sys) l ->
  Forall (gen_parses O sys) l -> NoDup (map ver l) -> separated C O sys l ->
  Permutation l l' -> sort_versions C O l = sort_versions C O l'.
Proof. exact sort_versions_gen_perm_unique. Qed.
Print Assumptions C12_perm_sort_generic.

(* raw MatchRequirement outside npm with repair 2: order-insensitive *)
Theorem C12_perm_match : forall C O sys req l l',
  match_sorts C = true -> N.eqb sys sys_npm = false ->
  cmp_laws (fun s => o_parses O sys s = true) (o_compare O sys) ->
  Forall (fun v => v_sys v = sys) l -> Forall (gen_parses O sys) l ->
  NoDup (map ver l) -> separated C O sys l -> Permutation l l' ->
  match_generic C O sys req l = match_generic C O sys req l'.
Proof. exact match_generic_perm. Qed.
Print Assumptions C12_perm_match.

(* with all three repairs (and lawful Compare) the clause holds for Maven and PyPI as the
   property states it: no side condition *)
Theorem C12_perm_generic_repaired : forall O sys req l l',
  N.eqb sys sys_npm = false ->
  cmp_laws (fun s => o_parses O sys s = true) (o_compare O sys) ->
  Forall (fun v => v_sys v = sys) l -> Forall (gen_parses O sys) l ->
  NoDup (map ver l) -> Permutation l l' ->
  match_generic cfg_repaired O sys req l = match_generic cfg_repaired O sys req l' /\
  StronglySorted (gen_le cfg_repaired O sys) (match_generic cfg_repaired O sys req l).
Proof.
  intros O sys req l l' Hn HL Hs HP ND Hp. split.
  - apply (match_generic_perm cfg_repaired O sys req l l'); auto. left; reflexivity.
  - apply (match_generic_sorts cfg_repaired O sys req l); auto.
Qed.
Print Assumptions C12_perm_generic_repaired.

(* LocalClient.Versions and LocalClient.MatchingVersions: two histories that leave the same
   live versions in a package (for instance the same additions in another order) return
   the same slice and the same matches *)
Theorem C12_perm : forall O var ops1 ops2 k vs1 vs2,
  laws_ok O -> v_add var <> Current ->
  v_add var = FixAssignSort \/ N.eqb (pk_sys (vk_pkg k)) sys_npm = false ->
  Forall (add_parses O) ops1 -> Forall (add_parses O) ops2 ->
  Forall add_concrete ops1 -> Forall add_concrete ops2 ->
  (forall k', vk_pkg k' = vk_pkg k -> option_map fst (last_add ops1 k') = option_map fst (last_add ops2 k')) ->
  (N.eqb (pk_sys (vk_pkg k)) sys_npm = false -> separated (v_cfg var) O (pk_sys (vk_pkg k)) vs1) ->
  versions_of (run O var ops1) (vk_pkg k) = Ok vs1 ->
  versions_of (run O var ops2) (vk_pkg k) = Ok vs2 ->
  vs1 = vs2 /\
  matching_versions O var (run O var ops1) k = matching_versions O var (run O var ops2) k.
Proof.
  intros O var ops1 ops2 k vs1 vs2 HL Hv Hc P1 P2 C1 C2 Hs NE H1 H2.
  pose proof (versions_canonical O var HL ops1 ops2 (vk_pkg k) vs1 vs2 Hv Hc P1 P2 C1 C2 Hs NE H1 H2) as E.
  split; [exact E | exact (matching_canonical O var ops1 ops2 k vs1 vs2 H1 H2 E)].
Qed.
Print Assumptions C12_perm.

(* the same for the tree with every repair in: no side condition, every system *)
Theorem C12_perm_repaired : forall O ops1 ops2 k vs1 vs2,
  laws_ok O ->
  Forall (add_parses O) ops1 -> Forall (add_parses O) ops2 ->
  Forall add_concrete ops1 -> Forall add_concrete ops2 ->
  (forall k', vk_pkg k' = vk_pkg k -> option_map fst (last_add ops1 k') = option_map fst (last_add ops2 k')) ->
  versions_of (run O var_repaired ops1) (vk_pkg k) = Ok vs1 ->
  versions_of (run O var_repaired ops2) (vk_pkg k) = Ok vs2 ->
  vs1 = vs2 /\
  matching_versions O var_repaired (run O var_repaired ops1) k = matching_versions O var_repaired (run O var_repaired ops2) k.
Proof.
  intros O ops1 ops2 k vs1 vs2 HL P1 P2 C1 C2 Hs H1 H2.
  apply (C12_perm O var_repaired ops1 ops2 k vs1 vs2); auto.
  - discriminate.
  - intros _. left. reflexivity.
Qed.
Print Assumptions C12_perm_repaired.

(* before repair 3 and without the side condition: a lawful comparator that does not
   separate 1.0 from 1.0.0 (F-C12-1), at SortVersions and at the client; with the repair
   both orders give the same result *)
Theorem C12_perm_refuted :
  (forall sys, cmp_laws (fun s => o_parses tie_oracle sys s = true) (o_compare tie_oracle sys)) /\
  Permutation [w_a; w_b] [w_b; w_a] /\ NoDup (map ver [w_a; w_b]) /\
  sort_versions cfg_old tie_oracle [w_a; w_b] <> sort_versions cfg_old tie_oracle [w_b; w_a] /\
  sort_versions cfg_repaired tie_oracle [w_a; w_b] = sort_versions cfg_repaired tie_oracle [w_b; w_a].
Proof.
  destruct sort_tie_witness as (H1 & H2 & H3). destruct sort_tie_repaired as (R1 & R2).
  split; [exact tie_oracle_laws|]. split; [exact H1|]. split; [exact H2|]. split; [exact H3|].
  rewrite R1, R2. reflexivity.
Qed.
Print Assumptions C12_perm_refuted.

Theorem C12_perm_client_refuted :
  (forall k, option_map fst (last_add w_tie_1 k) = option_map fst (last_add w_tie_2 k)) /\
  Forall add_concrete w_tie_1 /\ Forall add_concrete w_tie_2 /\
  matching_versions tie_oracle (mkvar FixAssignSort cfg_old) (run tie_oracle (mkvar FixAssignSort cfg_old) w_tie_1) w_tie_req = Ok [w_a; w_b] /\
  matching_versions tie_oracle (mkvar FixAssignSort cfg_old) (run tie_oracle (mkvar FixAssignSort cfg_old) w_tie_2) w_tie_req = Ok [w_b; w_a].
Proof. exact client_tie_witness. Qed.
Print Assumptions C12_perm_client_refuted.

(* raw MatchRequirement outside npm before repair 2: the matches came back in input order,
   here descending, and differed between the two orders of the list (F-C12-1b), although
   the list has distinct strings that the lawful comparator separates; the repaired variant
   returns the ascending list for both *)
Theorem C12_perm_raw_refuted :
  (forall sys, cmp_laws (fun s => o_parses all_oracle sys s = true) (o_compare all_oracle sys)) /\
  Permutation [w_m1; w_m2] [w_m2; w_m1] /\ NoDup (map ver [w_m1; w_m2]) /\
  no_equal_distinct all_oracle sys_maven [w_m1; w_m2] /\
  match_requirement cfg_old all_oracle w_req [w_m1; w_m2] = [w_m1; w_m2] /\
  match_requirement cfg_old all_oracle w_req [w_m2; w_m1] = [w_m2; w_m1] /\
  gen_cmp cfg_old all_oracle sys_maven w_m2 w_m1 = (-1)%Z.
Proof. split; [exact all_oracle_laws | exact match_raw_witness]. Qed.
Print Assumptions C12_perm_raw_refuted.

Theorem C12_perm_raw_repaired_example :
  match_requirement cfg_repaired all_oracle w_req [w_m1; w_m2] = [w_m2; w_m1] /\
  match_requirement cfg_repaired all_oracle w_req [w_m2; w_m1] = [w_m2; w_m1].
Proof. exact match_raw_repaired. Qed.
Print Assumptions C12_perm_raw_repaired_example.

(* the hypothesis NoDup (map ver l) of the permutation theorems cannot be dropped: a list that
   holds one version string twice with different attributes comes back in its input order
   even from the repaired code (F-C12-3, open) *)
Theorem C12_perm_repeated_string_refuted :
  Permutation [w_r1; w_r2] [w_r2; w_r1] /\ ver w_r1 = ver w_r2 /\ w_r1 <> w_r2 /\
  sort_versions cfg_repaired all_oracle [w_r1; w_r2] = [w_r1; w_r2] /\
  sort_versions cfg_repaired all_oracle [w_r2; w_r1] = [w_r2; w_r1].
Proof. exact repeated_string_witness. Qed.
Print Assumptions C12_perm_repeated_string_refuted.

(* Non-vacuity: hypotheses satisfiable by non-trivial inputs *)
Example C12_nonvacuous_npm : forall C,
  NoDup (map ver [w_n3; w_l1; w_n2]) /\ sort_npm C all_oracle [w_n3; w_l1; w_n2] = [w_n2; w_n3; w_l1] /\
  sort_npm C all_oracle [w_l1; w_n2; w_n3] = [w_n2; w_n3; w_l1].
Proof. exact npm_example. Qed.

Example C12_nonvacuous_client :
  let p := {| pk_sys := sys_maven; pk_name := [97%N] |} in
  let h1 := [HAdd w_c1 []; HAdd w_c2 []] in
  let h2 := [HAdd w_c2 []; HAdd w_c1 []] in
  Forall (add_parses demo_oracle) h1 /\ Forall (add_parses demo_oracle) h2 /\
  Forall add_concrete h1 /\ Forall add_concrete h2 /\
  (forall k, vk_pkg k = p -> option_map fst (last_add h1 k) = option_map fst (last_add h2 k)) /\
  versions_of (run demo_oracle var_repaired h1) p = Ok [w_c1; w_c2] /\
  versions_of (run demo_oracle var_repaired h2) p = Ok [w_c1; w_c2] /\
  separated cfg_repaired demo_oracle sys_maven [w_c1; w_c2].
Proof. exact canonical_example. Qed.
