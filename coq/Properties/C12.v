(* C12 — Requirement matching over a version list is exact, ordered and order-insensitive.
   Statements only; each is closed by [exact] of a lemma proved in Resolve/MatchReq_proofs.v
   or Resolve/Client_proofs.v.

   The semver layer is an [oracle] (MatchReq.v): what it means for a version string to
   satisfy a requirement string is the oracle's ParseConstraint/Match answer, the order of
   two version strings is its Parse/Compare answer.  Every theorem holds for ALL oracles
   meeting the hypothesis it names (the comparator laws of Lib/Order.v on parsable strings:
   that hypothesis is what property C01 establishes or refutes for the real semver). *)
From Coq Require Import List ZArith NArith Bool Sorting.Sorted Sorting.Permutation.
From DepsDev Require Import Lib.Base Lib.Order Lib.Sort Lib.SortUniq Gen.ResolveTables Resolve.Attr
  Resolve.MatchReq Resolve.MatchReq_proofs Resolve.Client Resolve.Client_proofs.
Import ListNotations.

(* ---------- sorting in general (DESIGN 3.5) ---------- *)
(* any two ascending permutations of a list are equal when the comparator is lawful and
   separates the elements of the list *)
Theorem C12_sorted_perm_unique : forall (A : Type) (P : A -> Prop) (c : A -> A -> Z),
  cmp_laws P c -> forall l1 l2, Forall P l1 ->
  (forall a b, In a l1 -> In b l1 -> c a b = 0%Z -> a = b) ->
  StronglySorted (cle c) l1 -> StronglySorted (cle c) l2 -> Permutation l1 l2 -> l1 = l2.
Proof. intros A P c HL l1 l2. exact (sorted_perm_unique P c HL l1 l2). Qed.
Print Assumptions C12_sorted_perm_unique.

(* ---------- exactness ---------- *)
(* [satisfies O sys r v]: the constraint r matches v; or, r not being a constraint, v's
   string equals r (for npm: its string or one of its tags).  The result of
   MatchRequirement holds exactly the versions of the list that satisfy the requirement,
   for constraints in every system and for string requirements outside npm. *)
Theorem C12_exact : forall O rk l v,
  (N.eqb (pk_sys (vk_pkg rk)) sys_npm = true -> o_constraint O sys_npm (vk_ver rk) = true) ->
  In v (match_requirement O rk l) <->
  In v l /\ satisfies O (pk_sys (vk_pkg rk)) (vk_ver rk) v = true.
Proof. exact match_requirement_exact. Qed.
Print Assumptions C12_exact.

(* an npm requirement that is not a range selects the first version, in npm order, whose
   string or one of whose tags equals it; the result is empty when there is none *)
Theorem C12_npm_tag : forall O req l,
  o_constraint O sys_npm req = false ->
  match_npm O req l = firstn 1 (filter (npm_exact req) (sort_npm O l)).
Proof. exact match_npm_exact_string. Qed.
Print Assumptions C12_npm_tag.

(* in both npm cases the result is a sublist of the list in npm order *)
Theorem C12_npm_result : forall O req l,
  match_npm O req l =
    if o_constraint O sys_npm req then filter (satisfies O sys_npm req) (sort_npm O l)
    else firstn 1 (filter (satisfies O sys_npm req) (sort_npm O l)).
Proof. exact match_npm_spec. Qed.
Print Assumptions C12_npm_result.

(* ---------- order ---------- *)
(* npm: ascending by semver then spelling with unparsable versions after parsable ones
   ([base]), then the last version whose tags contain the text latest moved to the end
   unless it is a prerelease while some version is not ([reposition]) *)
Theorem C12_sorted_npm : forall O l,
  cmp_laws (npm_parses O) (o_compare O sys_npm) ->
  exists base,
    Permutation base l /\ StronglySorted (npm_le O) base /\
    (forall a b, npm_le O a b -> o_parses O sys_npm (ver b) = true -> o_parses O sys_npm (ver a) = true) /\
    sort_npm O l = reposition O base.
Proof. exact sort_npm_spec. Qed.
Print Assumptions C12_sorted_npm.

Theorem C12_reposition_none : forall O base,
  forallb (fun v => negb (has_latest v)) base = true -> reposition O base = base.
Proof. exact reposition_no_latest. Qed.
Print Assumptions C12_reposition_none.

Theorem C12_reposition_latest : forall O base pre y post,
  base = pre ++ y :: post -> has_latest y = true ->
  forallb (fun v => negb (has_latest v)) post = true ->
  reposition O base =
    if is_pre O y && existsb (fun v => negb (is_pre O v)) base then base else pre ++ post ++ [y].
Proof. exact reposition_latest. Qed.
Print Assumptions C12_reposition_latest.

(* has_latest is a substring test on the tag text: a version whose tag list does not hold
   the tag latest is repositioned all the same (F-C12-2) *)
Theorem C12_latest_tag_refuted :
  existsb (bytes_eqb s_latest) (split_on 44 (tags w_n1)) = false /\
  npm_cmp all_oracle w_n1 w_n2 = (-1)%Z /\
  sort_npm all_oracle [w_n1; w_n2] = [w_n2; w_n1].
Proof. exact latest_substring_witness. Qed.
Print Assumptions C12_latest_tag_refuted.

(* Maven, PyPI: SortVersions returns an ascending permutation of parsable versions, and a
   match over an ascending slice (what LocalClient.MatchingVersions does) is ascending *)
Theorem C12_sorted_generic : forall O sys v0 t,
  v_sys v0 = sys -> N.eqb sys sys_npm = false ->
  cmp_laws (fun s => o_parses O sys s = true) (o_compare O sys) ->
  Forall (gen_parses O sys) (v0 :: t) ->
  Permutation (sort_versions O (v0 :: t)) (v0 :: t) /\ StronglySorted (gen_le O sys) (sort_versions O (v0 :: t)).
Proof. exact sort_versions_gen_spec. Qed.
Print Assumptions C12_sorted_generic.

Theorem C12_match_keeps_order : forall O sys req l,
  StronglySorted (gen_le O sys) l -> StronglySorted (gen_le O sys) (match_generic O sys req l).
Proof. exact match_generic_sorted. Qed.
Print Assumptions C12_match_keeps_order.

(* ---------- permutation invariance ---------- *)
(* npm: the comparator (semver, then spelling) separates distinct strings *)
Theorem C12_perm_npm : forall O rk l l',
  N.eqb (pk_sys (vk_pkg rk)) sys_npm = true ->
  cmp_laws (npm_parses O) (o_compare O sys_npm) ->
  NoDup (map ver l) -> Permutation l l' ->
  match_requirement O rk l = match_requirement O rk l'.
Proof. exact match_requirement_npm_perm. Qed.
Print Assumptions C12_perm_npm.

Theorem C12_perm_sort_npm : forall O l l',
  cmp_laws (npm_parses O) (o_compare O sys_npm) ->
  NoDup (map ver l) -> Permutation l l' -> sort_npm O l = sort_npm O l'.
Proof. intros O l l' HL. exact (sort_npm_perm_unique O HL l l'). Qed.
Print Assumptions C12_perm_sort_npm.

(* the model sorts by insertion; whatever ascending permutation sort.Slice returns on a
   slice of distinct npm strings is that same list *)
Theorem C12_npm_any_sort : forall O l s,
  cmp_laws (npm_parses O) (o_compare O sys_npm) ->
  NoDup (map ver l) -> Permutation s l -> StronglySorted (npm_le O) s -> s = isort (npm_less O) l.
Proof. intros O l s HL. exact (isort_npm_is_the_sorted_perm O HL l s). Qed.
Print Assumptions C12_npm_any_sort.

(* Maven, PyPI: SortVersions is order-insensitive under the side condition that no two
   different spellings compare equal *)
Theorem C12_perm_sort_generic : forall O sys l l',
  N.eqb sys sys_npm = false ->
  cmp_laws (fun s => o_parses O sys s = true) (o_compare O sys) ->
  Forall (fun v => v_sys v = sys) l ->
  Forall (gen_parses O sys) l -> NoDup (map ver l) -> no_equal_distinct O sys l ->
  Permutation l l' -> sort_versions O l = sort_versions O l'.
Proof. exact sort_versions_gen_perm_unique. Qed.
Print Assumptions C12_perm_sort_generic.

(* ... and so are LocalClient.Versions and LocalClient.MatchingVersions: two histories that
   leave the same live versions in a package (for instance the same additions in another
   order) return the same slice and the same matches *)
Theorem C12_perm : forall O var ops1 ops2 k vs1 vs2,
  laws_ok O -> var <> Current ->
  var = FixAssignSort \/ N.eqb (pk_sys (vk_pkg k)) sys_npm = false ->
  Forall (add_parses O) ops1 -> Forall (add_parses O) ops2 ->
  Forall add_concrete ops1 -> Forall add_concrete ops2 ->
  (forall k', vk_pkg k' = vk_pkg k -> option_map fst (last_add ops1 k') = option_map fst (last_add ops2 k')) ->
  (N.eqb (pk_sys (vk_pkg k)) sys_npm = false -> no_equal_distinct O (pk_sys (vk_pkg k)) vs1) ->
  versions_of (run O var ops1) (vk_pkg k) = Ok vs1 ->
  versions_of (run O var ops2) (vk_pkg k) = Ok vs2 ->
  vs1 = vs2 /\
  matching_versions O (run O var ops1) k = matching_versions O (run O var ops2) k.
Proof.
  intros O var ops1 ops2 k vs1 vs2 HL Hv Hc P1 P2 C1 C2 Hs NE H1 H2.
  pose proof (versions_canonical O var HL ops1 ops2 (vk_pkg k) vs1 vs2 Hv Hc P1 P2 C1 C2 Hs NE H1 H2) as E.
  split; [exact E | exact (matching_canonical O var ops1 ops2 k vs1 vs2 H1 H2 E)].
Qed.
Print Assumptions C12_perm.

(* without the side condition: a lawful comparator that does not separate 1.0 from 1.0.0
   (F-C12-1), at SortVersions and at the client *)
Theorem C12_perm_refuted :
  (forall sys, cmp_laws (fun s => o_parses tie_oracle sys s = true) (o_compare tie_oracle sys)) /\
  Permutation [w_a; w_b] [w_b; w_a] /\ NoDup (map ver [w_a; w_b]) /\
  sort_versions tie_oracle [w_a; w_b] <> sort_versions tie_oracle [w_b; w_a].
Proof. split; [exact tie_oracle_laws | exact sort_tie_witness]. Qed.
Print Assumptions C12_perm_refuted.

Theorem C12_perm_client_refuted :
  (forall k, option_map fst (last_add w_tie_1 k) = option_map fst (last_add w_tie_2 k)) /\
  Forall add_concrete w_tie_1 /\ Forall add_concrete w_tie_2 /\
  matching_versions tie_oracle (run tie_oracle FixAssignSort w_tie_1) w_tie_req = Ok [w_a; w_b] /\
  matching_versions tie_oracle (run tie_oracle FixAssignSort w_tie_2) w_tie_req = Ok [w_b; w_a].
Proof. exact client_tie_witness. Qed.
Print Assumptions C12_perm_client_refuted.

(* raw MatchRequirement outside npm does not sort: the matches come back in input order,
   here descending, and differ between the two orders of the list (F-C12-1b), although the
   list has distinct strings that the lawful comparator separates *)
Theorem C12_perm_raw_refuted :
  (forall sys, cmp_laws (fun s => o_parses all_oracle sys s = true) (o_compare all_oracle sys)) /\
  Permutation [w_m1; w_m2] [w_m2; w_m1] /\ NoDup (map ver [w_m1; w_m2]) /\
  no_equal_distinct all_oracle sys_maven [w_m1; w_m2] /\
  match_requirement all_oracle w_req [w_m1; w_m2] = [w_m1; w_m2] /\
  match_requirement all_oracle w_req [w_m2; w_m1] = [w_m2; w_m1] /\
  gen_cmp all_oracle sys_maven w_m2 w_m1 = (-1)%Z.
Proof. split; [exact all_oracle_laws | exact match_raw_witness]. Qed.
Print Assumptions C12_perm_raw_refuted.

(* Non-vacuity: hypotheses satisfiable by non-trivial inputs *)
Example C12_nonvacuous_npm :
  NoDup (map ver [w_n3; w_l1; w_n2]) /\ sort_npm all_oracle [w_n3; w_l1; w_n2] = [w_n2; w_n3; w_l1] /\
  sort_npm all_oracle [w_l1; w_n2; w_n3] = [w_n2; w_n3; w_l1].
Proof. exact npm_example. Qed.

Example C12_nonvacuous_client :
  let p := {| pk_sys := sys_maven; pk_name := [97%N] |} in
  let h1 := [HAdd w_c1 []; HAdd w_c2 []] in
  let h2 := [HAdd w_c2 []; HAdd w_c1 []] in
  Forall (add_parses demo_oracle) h1 /\ Forall (add_parses demo_oracle) h2 /\
  Forall add_concrete h1 /\ Forall add_concrete h2 /\
  (forall k, vk_pkg k = p -> option_map fst (last_add h1 k) = option_map fst (last_add h2 k)) /\
  versions_of (run demo_oracle FixAssign h1) p = Ok [w_c1; w_c2] /\
  versions_of (run demo_oracle FixAssign h2) p = Ok [w_c1; w_c2] /\
  no_equal_distinct demo_oracle sys_maven [w_c1; w_c2].
Proof. exact canonical_example. Qed.
