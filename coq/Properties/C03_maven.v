(* C03, Maven: the spans the constraint parser builds for Maven requirements against
   Spec/MavenRange.v (VersionRange / Restriction of maven-artifact on dotted-integer versions).
   Statements only; proofs in Semver/C03_maven_proofs.v.

   The version parser is outside the model.  mdot v l says: v is what the Maven parser delivers
   for the dotted integers l (system Maven; element list = the first number followed by the
   others without trailing zeros, all attached by '.', in the domain d_mvn_wide of C01/C02; no
   generic numbers, no prerelease part) - the shape VerifDump shows for such texts, exhibited
   below for 0, 1.2.0 and 2.  Candidates are dotted-integer versions, hence >= 0, as the
   property says.  The comparison of two such versions is Spec.MavenRange.mv_compare
   (C03_maven_order, built on the C02 theorem for the element-list comparison).
   Not proved: the step from requirement TEXT to these calls (tokenizer + setRange), except for
   the bare version; bounds with qualifiers (oracle, kind spec_mavenq). *)
From DepsDev Require Import Lib.Base Semver.Version Semver.Maven Semver.MavenDomain Semver.Compare Semver.Span Semver.Interval
     Semver.Set Semver.Constraint Semver.Token Semver.C03_maven_proofs Gen.SemverTables Spec.MavenRange.
Local Open Scope Z_scope.

(* (0) order: deps.dev's comparison of two dotted-integer versions is ComparableVersion's *)
Theorem C03_maven_order : forall a b A B, mdot a A -> mdot b B -> compare a b = Ok (mv_compare A B).
Proof. exact compare_mdot. Qed.
Print Assumptions C03_maven_order.

(* (a) a bare version is a soft requirement that accepts everything.  setRange builds the span
   of >= applied to a fresh 0.0.0 whatever the token is ... *)
Theorem C03_maven_soft_span : forall pv tok,
  exists s, op_version_to_span pv go_tokGreaterEqual (new_version SMaven tok 0) = Ok s /\
    forall u U pre, mdot u U -> match_span u pre s = Ok true.
Proof. exact soft_span. Qed.
Print Assumptions C03_maven_soft_span.

(* ... and, for every text whose first token is a version that the parser accepts, the set of
   the requirement is that one span and matches every candidate under either matching mode *)
Theorem C03_maven_soft : forall pv st tok i po v,
  token SMaven (ps_rest st) = Ok (go_tokVersion, tok, i) ->
  parse_public pv SMaven tok = Ok po -> po_err po = false -> po_v po = Some v ->
  exists s st', set_range pv SMaven st = Ok ({| set_sys := SMaven; set_span := [s] |}, true, st') /\
    forall u U pre, mdot u U -> set_match_version {| set_sys := SMaven; set_span := [s] |} u pre = Ok true.
Proof. exact set_range_soft. Qed.
Print Assumptions C03_maven_soft.

(* (b) one bracketed restriction.  restr_of A mo B xo is Maven's Restriction with the bounds A, B
   (None = absent) and the brackets as written (mo / xo: ( and ) ).
   [a,b] (a,b) [a,b) (a,b] with a below b: newSpan(min, minOpen, max, maxOpen) *)
Theorem C03_maven_range_sound : forall mn mx A B mo xo, mdot mn A -> mdot mx B -> mv_compare A B < 0 ->
  exists s, new_span mn mo mx xo = Ok s /\
    forall u U pre, mdot u U -> match_span u pre s = Ok (restr_contains (restr_of (Some A) mo (Some B) xo) U).
Proof. exact range_two. Qed.
Print Assumptions C03_maven_range_sound.

(* equal bounds give a unit span, which is [a,a] whatever the brackets (partial: the agreement
   with Maven needs both brackets closed; see C03_maven_point_refuted) *)
Theorem C03_maven_range_equal_partial : forall mn mx A B mo xo, mdot mn A -> mdot mx B -> mv_compare A B = 0 ->
  exists s, new_span mn mo mx xo = Ok s /\
    forall u U pre, mdot u U -> match_span u pre s = Ok (restr_contains (restr_of (Some A) false (Some A) false) U).
Proof. exact range_equal. Qed.
Print Assumptions C03_maven_range_equal_partial.

(* [a] *)
Theorem C03_maven_range_point : forall mn A, mdot mn A ->
  exists s, new_span_same mn false false = Ok s /\
    forall u U pre, mdot u U -> match_span u pre s = Ok (restr_contains (restr_of (Some A) false (Some A) false) U).
Proof. exact range_point. Qed.
Print Assumptions C03_maven_range_point.

(* [a,) and (a,) : the parser supplies an upper bound without extension whose numbers are infinity *)
Theorem C03_maven_range_lower_only : forall mn A mo, mdot mn A ->
  exists s, new_span mn mo inf_maven false = Ok s /\
    forall u U pre, mdot u U -> match_span u pre s = Ok (restr_contains (restr_of (Some A) mo None false) U).
Proof. exact range_lower_only. Qed.
Print Assumptions C03_maven_range_lower_only.

(* (,b] and (,b) with b above 0: the parser asks for the version 0 as a closed lower bound, which
   on candidates >= 0 is Maven's absent lower bound *)
Theorem C03_maven_range_upper_only : forall mz mx B xo, mdot mz [0] -> mdot mx B -> mv_compare [0] B < 0 ->
  exists s, new_span mz false mx xo = Ok s /\
    forall u U pre, mdot u U -> match_span u pre s = Ok (restr_contains (restr_of None false (Some B) xo) U).
Proof. exact range_upper_only. Qed.
Print Assumptions C03_maven_range_upper_only.

(* the upper bound below the lower bound is rejected, as by Maven *)
Theorem C03_maven_range_reversed : forall mn mx A B mo xo, mdot mn A -> mdot mx B -> 0 < mv_compare A B ->
  new_span mn mo mx xo = Err E_max_less_min.
Proof. exact range_reversed. Qed.
Print Assumptions C03_maven_range_reversed.

(* (c) the comma list: Maven sets are left as they are by canon, and a candidate is in the set
   iff some span contains it, which is VersionRange.containsVersion *)
Theorem C03_maven_not_canonicalised : forall l, sys_of_span l = SMaven -> canon_spans l = Ok l.
Proof. exact canon_maven. Qed.
Print Assumptions C03_maven_not_canonicalised.

Theorem C03_maven_union_sound : forall l rs, Forall2 span_is l rs -> l <> [] ->
  forall u U pre, mdot u U ->
    set_match_version {| set_sys := SMaven; set_span := l |} u pre = Ok (contains (MRanges rs) U).
Proof. exact union_sound. Qed.
Print Assumptions C03_maven_union_sound.

(* refuted: (,0) - the exclusive upper bound meets the implicit lower bound 0, the unit span
   ignores its open end, and 0 is matched; Maven's (,0) contains nothing (class F-C03-1a) *)
Theorem C03_maven_point_refuted : forall mz mx u pre, mdot mz [0] -> mdot mx [0] -> mdot u [0] ->
  exists s, new_span mz false mx true = Ok s /\ match_span u pre s = Ok true /\
            restr_contains (restr_of None false (Some [0]) true) [0] = false.
Proof. exact point_refuted. Qed.
Print Assumptions C03_maven_point_refuted.

(* the hypotheses are inhabited: the versions 0, 1.2 (= 1.2.0) and 2 as the Go parser delivers
   them, and the span of [1.2.0,2) *)
Example C03_maven_mdot_inhabited : mdot v_0 [0] /\ mdot v_1_2 [1; 2; 0] /\ mdot v_2 [2].
Proof. exact (conj mdot_v_0 (conj mdot_v_1_2 mdot_v_2)). Qed.

Example C03_maven_range_inhabited :
  exists s, new_span v_1_2 false v_2 true = Ok s /\ match_span v_1_2 false s = Ok true /\ match_span v_2 false s = Ok false.
Proof. eexists. split; [vm_compute; reflexivity|]. split; vm_compute; reflexivity. Qed.
