(* C01, Maven part: version comparison is a total preorder on the domain D_mvn of DESIGN 6.4.
   Statements only. *)
From Coq Require Import Lia.
From DepsDev Require Import Lib.Base Lib.Order Lib.PadLex Semver.Version Semver.Compare Semver.Maven Semver.MavenParse
  Semver.MavenDomain Semver.Maven_proofs Semver.MavenParse_proofs.
Local Open Scope Z_scope.

(* On every Maven version whose element list is in D_mvn (dotted numeric prefix, optionally one
   qualifier token attached by '-', one number, -SNAPSHOT; d_mvn is the boolean the generator
   and the harness use), compare never fails (the panic of mavenUnknownQualifierCompare is not
   reached) and is reflexive, sign-antisymmetric, transitive and congruent. *)
Theorem C01_maven : exists c : version -> version -> Z,
  (forall a b, mvn_in d_mvn a -> mvn_in d_mvn b -> compare a b = Ok (c a b)) /\
  cmp_laws (mvn_in d_mvn) c.
Proof. exact maven_laws. Qed.
Print Assumptions C01_maven.

(* The same holds on a LARGER domain than DESIGN 6.4 states: any number of qualifiers and
   numbers after the numeric prefix, as long as they are attached by '-' (or, for numbers not
   spelled "0", by '.'), the list being trimmed as the parser leaves it. *)
Theorem C01_maven_wide : exists c : version -> version -> Z,
  (forall a b, mvn_in d_mvn_wide a -> mvn_in d_mvn_wide b -> compare a b = Ok (c a b)) /\
  cmp_laws (mvn_in d_mvn_wide) c.
Proof. exact maven_laws_wide. Qed.
Print Assumptions C01_maven_wide.

Theorem C01_maven_domains : forall l, d_mvn l = true -> d_mvn_wide l = true.
Proof. exact d_mvn_sub. Qed.

(* The order is that of an explicit key: the values of the numeric prefix compared
   lexicographically (a proper prefix first: the parser has trimmed trailing zeros), then the
   tail compared element by element, the shorter one padded with the release class, where a
   qualifier is keyed by its class alpha < beta < milestone < rc = cr < snapshot <
   release ("" = ga = final = release) < sp < unknown (by text), and every number sorts above
   every qualifier, '.'-attached above '-'-attached, then by value. *)
Theorem C01_maven_key : forall l1 l2, d_mvn_wide l1 = true -> d_mvn_wide l2 = true ->
  maven_compare l1 l2 = Ok (mkey_cmp (mvn_key l1) (mvn_key l2)).
Proof. exact maven_compare_key. Qed.
Print Assumptions C01_maven_key.

(* C04 obligation: on element lists whose texts have category numeric or qualifier (every
   non-empty text that does not start with a separator), compare returns a value: the
   explicit panic(bCategory) is unreachable, and so is every other failure. *)
Theorem C01_maven_no_panic : forall xs ys, Forall okcat xs -> Forall okcat ys ->
  exists r, maven_compare xs ys = Ok r.
Proof. exact maven_compare_no_panic. Qed.
Print Assumptions C01_maven_no_panic.

(* ... and every element the parser produces is of that kind, so for ALL accepted strings (inside
   D_mvn or not) compare returns a value. *)
Theorem C01_maven_parser_elements : forall s v, mvn_parse s = Some (Ok v) -> Forall okcat (mvn_elems v).
Proof. exact mvn_parse_okcat. Qed.
Print Assumptions C01_maven_parser_elements.

Theorem C01_maven_compare_total : forall sa sb a b,
  mvn_parse sa = Some (Ok a) -> mvn_parse sb = Some (Ok b) -> exists r, compare a b = Ok r.
Proof. exact maven_compare_total. Qed.
Print Assumptions C01_maven_compare_total.

(* Why the domain is needed: over all accepted strings the order is not transitive
   (2..milestone < 2 < 2.m-foo < 2..milestone). *)
Definition C01_maven_unrestricted : Prop := exists c : version -> version -> Z,
  (forall a b sa sb, mvn_parse sa = Some (Ok a) -> mvn_parse sb = Some (Ok b) -> compare a b = Ok (c a b)) /\
  cmp_laws (fun v => exists s, mvn_parse s = Some (Ok v)) c.

Theorem C01_maven_outside_refuted : ~ C01_maven_unrestricted.
Proof.
  intros [c [Hc L]]. pose proof maven_cycle_c as W.
  destruct (mvn_parse s_2_milestone) as [[a| | |]|] eqn:Pa; try contradiction.
  destruct (mvn_parse s_2) as [[b| | |]|] eqn:Pb; try contradiction.
  destruct (mvn_parse s_2_m_foo) as [[x| | |]|] eqn:Px; try contradiction.
  destruct W as [C1 [C2 C3]].
  pose proof (Hc a b _ _ Pa Pb) as E1. pose proof (Hc b x _ _ Pb Px) as E2. pose proof (Hc a x _ _ Pa Px) as E3.
  rewrite C1 in E1. rewrite C2 in E2. rewrite C3 in E3. inversion E1 as [E1']. inversion E2 as [E2']. inversion E3 as [E3'].
  pose proof (cl_trans _ _ L a b x (ex_intro _ _ Pa) (ex_intro _ _ Pb) (ex_intro _ _ Px)) as T.
  rewrite <- E1', <- E2', <- E3' in T. specialize (T ltac:(lia) ltac:(lia)). lia.
Qed.
Print Assumptions C01_maven_outside_refuted.

(* Non-vacuity: 1.0-alpha-1 < 1.0-SNAPSHOT < 1.1 are accepted, lie in D_mvn and are ordered. *)
Example C01_maven_nonvacuous :
  match mvn_parse s_1_0_alpha_1, mvn_parse s_1_0_snapshot, mvn_parse s_1_1 with
  | Some (Ok a), Some (Ok b), Some (Ok c) =>
      d_mvn (mvn_elems a) = true /\ d_mvn (mvn_elems b) = true /\ d_mvn (mvn_elems c) = true /\
      d_mvn_str s_1_0_alpha_1 = true /\
      compare a b = Ok (-1) /\ compare b c = Ok (-1) /\ compare a c = Ok (-1)
  | _, _, _ => False
  end.
Proof. exact maven_domain_nonvacuous_c. Qed.
