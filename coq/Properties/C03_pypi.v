(* C03, PyPI: the spans opVersionToSpan builds for the PEP 440 operators applied to a final
   release M.m.p (written with three numbers), against packaging's Specifier.contains
   (Spec/Pep440Specifier.v) on the property's domain: candidates are FINAL releases with a
   non-zero release segment (pcand u U: extension object without details, numbers U finite, not
   all zero, any length).  Statements only; proofs in Semver/C03_pypi_proofs.v.

   span_sound r sp: r is a span s and, for every candidate of the domain and either matching mode,
   matchVersion's test of the candidate against s (match_span: all PyPI special cases included)
   is Specifier.contains for sp.
   Where the special cases enter: match_span consults the candidate's prerelease / dev / post /
   local marks before it tests the interval (set_match_version); a final release has none of
   them (C03_pypi_special_cases_vacuous), which is why the domain keeps them out.
   The version parser is consulted by these operators in one place only: < and <= take
   MinVersion = 0.0.0.dev0 as lower end and rebuild its extension object from its canonical text
   (hypothesis min_reread: the parser reads that text back as the same version).
   Not proved: versions written with fewer or more than three numbers, bounds that are pre-, post-
   or dev-releases - so ~=M.m and the star form with one number are not covered, only the three-number forms
   ~=M.m.p, ==M.m.star, !=M.m.star - the comma list, the step from requirement text to these calls.
   Partial statements: C03_pypi_ne_partial needs M.m.p <> 0.0.0 and C03_pypi_prefix_ne_partial
   needs M.m <> 0.0; what is missing is exactly the case refuted next to each of them (the
   first span of the exclusion collapses to a unit span whose open end is ignored, F-C03-1a),
   which no candidate of the domain (non-zero release segment) can observe. *)
From DepsDev Require Import Lib.Base Semver.Version Semver.Compare Semver.Span Semver.Interval Semver.Set
     Semver.C03_pypi_proofs Gen.SemverTables.
From DepsDev Require Spec.Pep440Specifier.
From Coq Require Import Lia.
Local Open Scope Z_scope.

(* (0) order: the comparison of a candidate with M.m.p is PEP 440's (trailing zeros do not count) *)
Theorem C03_pypi_order : forall u U s M m p, pcand u U -> fin M -> fin m -> fin p ->
  compare u (mk3p s M m p) = Ok (Spec.Pep440Specifier.pver_compare (Spec.Pep440Specifier.final U) (Spec.Pep440Specifier.final [M; m; p])).
Proof. exact compare_cand_l. Qed.
Print Assumptions C03_pypi_order.

(* the PyPI special cases of matchVersion do not apply to a final release *)
Theorem C03_pypi_special_cases_vacuous : forall u U pre s, pcand u U -> match_span u pre s = span_contains s u pre.
Proof. exact match_span_final. Qed.
Print Assumptions C03_pypi_special_cases_vacuous.

Theorem C03_pypi_ge_sound : forall pv str M m p, fin M -> fin m -> fin p ->
  span_sound (op_version_to_span pv go_tokGreaterEqual (mk3p str M m p)) (spec_of Spec.Pep440Specifier.PGe M m p false [M; m; p]).
Proof. exact ge_sound. Qed.
Print Assumptions C03_pypi_ge_sound.

Theorem C03_pypi_gt_sound : forall pv str M m p, fin M -> fin m -> fin p ->
  span_sound (op_version_to_span pv go_tokGreater (mk3p str M m p)) (spec_of Spec.Pep440Specifier.PGt M m p false [M; m; p]).
Proof. exact gt_sound. Qed.
Print Assumptions C03_pypi_gt_sound.

Theorem C03_pypi_eq_sound : forall pv str M m p, fin M -> fin m -> fin p ->
  span_sound (op_version_to_span pv go_tokEqual (mk3p str M m p)) (spec_of Spec.Pep440Specifier.PEq M m p false [M; m; p]).
Proof. exact eq_sound. Qed.
Print Assumptions C03_pypi_eq_sound.

(* <= and < : the version must not be 0.0.0 (the code answers <0.0.0 with the empty span and
   <=0.0.0 with a span from 0.0.0.dev0; no candidate of the domain is concerned) *)
Theorem C03_pypi_le_sound : forall pv str M m p, fin M -> fin m -> fin p -> min_reread pv -> (M <> 0 \/ m <> 0 \/ p <> 0) ->
  span_sound (op_version_to_span pv go_tokLessEqual (mk3p str M m p)) (spec_of Spec.Pep440Specifier.PLe M m p false [M; m; p]).
Proof. exact le_sound. Qed.
Print Assumptions C03_pypi_le_sound.

Theorem C03_pypi_lt_sound : forall pv str M m p, fin M -> fin m -> fin p -> min_reread pv -> (M <> 0 \/ m <> 0 \/ p <> 0) ->
  span_sound (op_version_to_span pv go_tokLess (mk3p str M m p)) (spec_of Spec.Pep440Specifier.PLt M m p false [M; m; p]).
Proof. exact lt_sound. Qed.
Print Assumptions C03_pypi_lt_sound.

(* !=M.m.p : excludeToSpans yields [0.0.0, M.m.p) and (M.m.p, inf.inf.inf]; a candidate is matched
   by one of the two iff packaging says it is not equal.  Partial: M.m.p must not be 0.0.0 ... *)
Theorem C03_pypi_ne_partial : forall pv str M m p, fin M -> fin m -> fin p -> (M <> 0 \/ m <> 0 \/ p <> 0) ->
  exists s1 s2, exclude_to_spans pv (mk3p str M m p) = Ok (s1, s2) /\
    forall u U pre, pcand u U ->
      match_spans u pre [s1; s2] = Ok (Spec.Pep440Specifier.contains1 (spec_of Spec.Pep440Specifier.PNe M m p false [M; m; p]) U).
Proof. exact ne_sound. Qed.
Print Assumptions C03_pypi_ne_partial.

(* ... because for 0.0.0 the first span is a unit span with an open end, which contains() does
   not look at: `!=0.0` matches 0.0 (class F-C03-1a; outside the domain of non-zero candidates) *)
Theorem C03_pypi_ne_zero_refuted : forall str,
  new_span (zero_version SPyPI) false (mk3p str 0 0 0) true =
  Ok {| sp_rank := RUnit; sp_min_open := false; sp_max_open := true;
        sp_min := Some (zero_version SPyPI); sp_max := Some (zero_version SPyPI) |}.
Proof. exact ne_zero_unit. Qed.
Print Assumptions C03_pypi_ne_zero_refuted.

(* ~=M.m.p : the span [M.m.p, M.m.inf] against packaging's PCompat: >=M.m.p together with the prefix match on M.m *)
Theorem C03_pypi_compatible_sound : forall pv str M m p, fin M -> fin m -> fin p ->
  span_sound (op_version_to_span pv go_tokBacon (mk3p str M m p)) (spec_of Spec.Pep440Specifier.PCompat M m p false [M; m; p]).
Proof. exact compat_sound. Qed.
Print Assumptions C03_pypi_compatible_sound.

(* ==M.m.star : mk3w is M.m.star as the parser delivers it (numbers M, m, wildcard); the span is
   [M.m.0, M.m.inf]; packaging: the candidate, padded with zeros, starts with M.m *)
Theorem C03_pypi_prefix_eq_sound : forall pv str M m, fin M -> fin m ->
  span_sound (op_version_to_span pv go_tokEqual (mk3w str M m)) (spec_of Spec.Pep440Specifier.PEq M m 0 true [M; m]).
Proof. exact prefix_eq_sound. Qed.
Print Assumptions C03_pypi_prefix_eq_sound.

(* the arithmetic behind both: U starts with M.m iff it lies between M.m.0 and M.m.inf *)
Theorem C03_pypi_prefix_between : forall M m U, fin M -> fin m -> Forall fin U ->
  Spec.Pep440Specifier.prefix_match [M; m] U = (0 <=? compare_nums U [M; m; 0]) && (0 <=? compare_nums [M; m; infinity] U).
Proof. exact prefix_between. Qed.
Print Assumptions C03_pypi_prefix_between.

(* !=M.m.star : excludeToSpans yields [0.0.0, M.m.0) and (M.m.inf, inf.inf.inf].  Partial: M.m <> 0.0 *)
Theorem C03_pypi_prefix_ne_partial : forall pv str M m, fin M -> fin m -> (M <> 0 \/ m <> 0) ->
  exists s1 s2, exclude_to_spans pv (mk3w str M m) = Ok (s1, s2) /\
    forall u U pre, pcand u U ->
      match_spans u pre [s1; s2] = Ok (Spec.Pep440Specifier.contains1 (spec_of Spec.Pep440Specifier.PNe M m 0 true [M; m]) U).
Proof. exact prefix_ne_sound. Qed.
Print Assumptions C03_pypi_prefix_ne_partial.

(* ... because for 0.0.star the first span is the unit span {0.0.0} with an ignored open end *)
Theorem C03_pypi_prefix_ne_zero_refuted : forall s,
  new_span (zero_version SPyPI) false (mk3p s 0 0 0) true =
  Ok {| sp_rank := RUnit; sp_min_open := false; sp_max_open := true;
        sp_min := Some (zero_version SPyPI); sp_max := Some (zero_version SPyPI) |}.
Proof. exact prefix_ne_zero_unit. Qed.
Print Assumptions C03_pypi_prefix_ne_zero_refuted.

(* the hypotheses are inhabited: 1.2.0 is a candidate; a parser that re-reads 0.0.0.dev0 exists;
   and the span of >=1.2.0 matches 1.2.0 and not 1.1.9 *)
Example C03_pypi_candidate_inhabited : pcand (mk3p nil 1 2 0) [1; 2; 0].
Proof.
  split; try reflexivity.
  - repeat constructor; unfold infinity; lia.
  - exists 1. split; [left; reflexivity | discriminate].
Qed.

Example C03_pypi_min_reread_inhabited :
  min_reread (fun _ _ _ => Ok {| po_v := Some pypi_min_version; po_err := false |}).
Proof. reflexivity. Qed.

Example C03_pypi_ge_inhabited :
  match op_version_to_span (fun _ _ _ => Err E_parse) go_tokGreaterEqual (mk3p nil 1 2 0) with
  | Ok s => match match_span (mk3p nil 1 2 0) false s, match_span (mk3p nil 1 1 9) false s with
            | Ok true, Ok false => true | _, _ => false end
  | _ => false
  end = true.
Proof. vm_compute. reflexivity. Qed.

(* ~=1.2.3 matches 1.2.3 and 1.2.9 but not 1.3.0 nor 1.2.2; ==1.2.star matches 1.2.0 and 1.2.7, not
   1.3.0; !=1.2.star matches 1.3.0 and 1.1.9, not 1.2.5 (evaluated in the model) *)
Definition never_pv : system -> bool -> bytes -> res parse_out := fun _ _ _ => Err E_parse.
Definition yes (r : res bool) : bool := match r with Ok true => true | _ => false end.
Definition no (r : res bool) : bool := match r with Ok false => true | _ => false end.

Example C03_pypi_compatible_inhabited :
  match op_version_to_span never_pv go_tokBacon (mk3p nil 1 2 3) with
  | Ok s => yes (match_span (mk3p nil 1 2 3) false s) && yes (match_span (mk3p nil 1 2 9) false s)
            && no (match_span (mk3p nil 1 3 0) false s) && no (match_span (mk3p nil 1 2 2) false s)
  | _ => false
  end = true.
Proof. vm_compute. reflexivity. Qed.

Example C03_pypi_prefix_eq_inhabited :
  match op_version_to_span never_pv go_tokEqual (mk3w nil 1 2) with
  | Ok s => yes (match_span (mk3p nil 1 2 0) false s) && yes (match_span (mk3p nil 1 2 7) false s)
            && no (match_span (mk3p nil 1 3 0) false s)
  | _ => false
  end = true.
Proof. vm_compute. reflexivity. Qed.

Example C03_pypi_prefix_ne_inhabited :
  match exclude_to_spans never_pv (mk3w nil 1 2) with
  | Ok (s1, s2) => yes (match_spans (mk3p nil 1 3 0) false [s1; s2]) && yes (match_spans (mk3p nil 1 1 9) false [s1; s2])
                   && no (match_spans (mk3p nil 1 2 5) false [s1; s2])
  | _ => false
  end = true.
Proof. vm_compute. reflexivity. Qed.
