(* C16 - Python requirement strings and environment markers follow PEP 508.
   Statements only; each is closed by [exact] of a lemma proved elsewhere.

   Model: Pypi/Dependency.v (ParseDependency, CanonPackageName), Resolve/Markers.v
   (parseMarker, Eval) over the regenerated Gen/PypiEnvTables.v.  Reference:
   Spec/Pep508Spec.v (PEP 508 syntax trees with their white space, printer, evaluation as
   packaging 26.3 and pip define it).  PEP 440 is an oracle on both sides. *)
From Coq Require Import Permutation.
From DepsDev Require Import Lib.Base Gen.PypiEnvTables Pypi.PyStr Pypi.Dependency Pypi.Dependency_proofs
  Pypi.Split_proofs Pypi.Total_proofs Resolve.Markers Resolve.Markers_proofs Resolve.Markers_spec_proofs
  Spec.Pep508Spec Spec.Pep508Domain Spec.Pep508Domain_proofs.

(* ------------------------------------------------------------------ regenerated tables *)
(* The model's operator numbers carry the spellings of markerop_string.go, the spec's
   operators are those, the Go constant names have the numbers Eval's switch assumes, every entry of
   the table parseMarkerOp walks is a fixed-spelling operator given to accept() under its own String()
   (the adequacy of the ORDER is proved, not pinned: C16_marker_roundtrip), every spec variable is a key of
   environmentVariables bound to the platform value of the same name, and the delimiter
   and white-space sets of ParseDependency are the modelled ones. *)
Theorem C16_tables :
  (forall o, op_string (cop_num o) = cop_text o []) /\
  map snd marker_op_names = [0; 1; 2; 3; 4; 5; 6; 7; 8; 9; 10]%N /\
  forallb (fun p => existsb (N.eqb (fst p)) fixed_ops && bytes_eqb (snd p) (op_string (fst p))) marker_op_trial = true /\
  forallb (fun kv => bytes_eqb (fst kv) (fst (snd kv))) marker_env_vars = true /\
  dep_whitespace = [32; 9]%N /\ dep_name_delims = [32;9;91;40;59;60;61;33;126;62]%N.
Proof.
  exact (conj cop_text_ok (conj (proj1 op_names_ok) (conj op_trial_ok
          (conj (proj1 (proj2 env_vars_keys_ok)) dep_tables_ok)))).
Qed.
Print Assumptions C16_tables.

(* ------------------------------------------------------------------ names *)
(* name normalisation equals packaging's canonicalize_name on every name of the grammar *)
Theorem C16_name_spec : forall n, valid_name n = true -> canon_name n = canonicalize_name n.
Proof. intros n H. exact (canon_name_spec n (valid_name_chars n H)). Qed.
Print Assumptions C16_name_spec.

(* ... and is idempotent there *)
Theorem C16_name_idem : forall n, valid_name n = true -> canon_name (canon_name n) = canon_name n.
Proof. intros n H. exact (canon_name_idem n (valid_name_chars n H)). Qed.
Print Assumptions C16_name_idem.

(* outside the grammar both fail (a byte that is not a name character is dropped by the Go
   code and kept by packaging): a-!-b *)
Theorem C16_name_idem_unrestricted_refuted : exists n, canon_name (canon_name n) <> canon_name n.
Proof. exact canon_name_idem_unrestricted_refuted. Qed.
Theorem C16_name_spec_unrestricted_refuted : exists n, canon_name n <> canonicalize_name n.
Proof. exact canon_name_spec_unrestricted_refuted. Qed.

(* ------------------------------------------------------------------ requirement strings *)
(* Every well-formed requirement tree, printed with any white space in any slot, bare or
   parenthesised specifier list, is split into: the normalised name; an extras field whose
   normalisation (white space dropped, cut at commas) is the list of extras; a constraint
   field whose normalisation is the list of op-version clauses; and the marker text. *)
Theorem C16_split : forall r, wf_req r = true ->
  exists d, parse_dependency (print_req r) = Ok d /\
    d_name d = canon_name (r_name r) /\
    d_name d = req_name r /\
    obs_extras (d_extras d) = req_extras r /\
    obs_clauses (d_constraint d) = req_clauses r /\
    d_env d = req_marker_text r.
Proof. exact split_printed. Qed.
Print Assumptions C16_split.

(* ------------------------------------------------------------------ totality (C04) *)
(* ParseDependency never panics: on EVERY byte string the model, in which each Go index and
   slice expression is a panicking primitive (idx, go_slice), returns a value or an error.
   parse_dependency takes no fuel. [returns r] is: r is neither Panic nor OutOfFuel. *)
Theorem C16_parse_dependency_total : forall s,
  match parse_dependency s with Panic _ => False | OutOfFuel => False | _ => True end.
Proof. exact parse_dependency_total. Qed.
Print Assumptions C16_parse_dependency_total.

(* CanonPackageName is modelled by the plain total function [canon_name : bytes -> bytes]
   (the Go loop only reads name[i] for i < len(name) and writes to a buffer): there is no
   failure outcome to exclude. The statement below records the type. *)
Theorem C16_canon_name_total : forall s, exists out : bytes, canon_name s = out.
Proof. intros s. exists (canon_name s). reflexivity. Qed.

(* the splitting helpers: the extras step is total on every non-empty remainder (its s[0]
   DOES panic on the empty one; the both-ends trim of the input is what keeps the remainder
   after the name non-empty: parse_tail_total), the constraint and environment steps are
   total on everything *)
Theorem C16_extras_step_total : forall s1, s1 <> [] -> returns (extras_step s1).
Proof. exact extras_step_returns. Qed.
Theorem C16_extras_step_empty_panics : extras_step [] = Panic PIndex.
Proof. exact extras_step_empty. Qed.
Theorem C16_constraint_step_total : forall s2, returns (constraint_step s2).
Proof. exact constraint_step_returns. Qed.
Theorem C16_env_step_total : forall n e c s3, returns (env_step n e c s3).
Proof. exact env_step_returns. Qed.
Theorem C16_parse_tail_total : forall name rest,
  (exists c r, rev rest = c :: r /\ is_space c = false) -> returns (parse_tail name rest).
Proof. exact parse_tail_returns. Qed.
Print Assumptions C16_parse_tail_total.

(* ------------------------------------------------------------------ markers: parsing *)
(* the parser reads back every printed marker tree: parenthesisation, and/or nesting, all
   white-space placements, both quote styles, every operator. [compile m] is the
   parser's tree for m (right-nested, parentheses dropped) after the checks of
   parseMarkerExpr. *)
Theorem C16_marker_roundtrip :
  forall valid sat, (forall o a b, sat o a b <> OutOfFuel) ->
  forall m wt, wf_tree m = true ->
  parse_marker valid sat (print_marker m wt) = compile valid sat m.
Proof. exact parse_marker_printed. Qed.
Print Assumptions C16_marker_roundtrip.

(* the marker text ParseDependency hands on (C16_split: d_env = req_marker_text) parses to the
   same tree as the printed marker *)
Theorem C16_requirement_marker :
  forall valid sat, (forall o a b, sat o a b <> OutOfFuel) ->
  forall m wt, wf_tree m = true ->
  parse_marker valid sat (trim (print_marker m wt)) = compile valid sat m.
Proof. exact parse_marker_of_requirement. Qed.
Print Assumptions C16_requirement_marker.

(* the order in which Go ranges over the map of variable names cannot influence the result *)
Theorem C16_var_order_irrelevant : forall valid vars vars' s,
  environment_variables valid = Ok vars -> Permutation vars vars' ->
  parse_marker_var_in valid vars' s = parse_marker_var_in valid vars s.
Proof. exact parse_marker_var_order_irrelevant. Qed.
Print Assumptions C16_var_order_irrelevant.

(* recursion depth is bounded by the input length: the fuel of parse_marker is enough *)
Theorem C16_fuel_bound : forall valid sat, (forall o a b, sat o a b <> OutOfFuel) ->
  forall s, parse_marker valid sat s <> OutOfFuel.
Proof. exact parse_marker_no_fuel. Qed.
Print Assumptions C16_fuel_bound.

(* C04 obligation: the explicit panic in Eval's default branch is unreachable from parser
   outputs; Eval returns a value on whatever the parser accepted, for every input text,
   every requested extras and every oracle *)
Theorem C16_eval_no_panic : forall valid sat s g extras,
  parse_marker valid sat s = Ok g -> exists b, geval sat extras g = Ok b.
Proof. exact eval_total_on_parsed. Qed.
Print Assumptions C16_eval_no_panic.

(* ... and the parser panics only if the PEP 440 code does (package initialisation included:
   every platform variable has a value in the regenerated environment) *)
Theorem C16_parse_no_panic : forall valid sat, (forall o a b p, sat o a b <> Panic p) ->
  forall s p, parse_marker valid sat s <> Panic p.
Proof. exact parse_marker_no_panic. Qed.
Print Assumptions C16_parse_no_panic.

(* ------------------------------------------------------------------ markers: evaluation *)
(* The interface to C03: on two valid versions the Go constraint match equals packaging's
   Specifier.contains whenever packaging accepts the specifier. *)
Definition sat_agree (valid : bytes -> bool) (sat : N -> bytes -> bytes -> res bool)
    (spec_sat : N -> bytes -> bytes -> option bool) : Prop :=
  forall o rhs lhs b, is_word_op o = false -> valid lhs = true -> valid rhs = true ->
    spec_sat (cop_num o) rhs lhs = Some b -> sat (cop_num o) rhs lhs = Ok b.

(* the full statement of the property's second sentence *)
Definition C16_marker_full : Prop :=
  forall valid sat spec_sat, sat_agree valid sat spec_sat -> (forall o a b, sat o a b <> OutOfFuel) ->
  forall m wt extras, wf_tree m = true ->
  same_outcome (marker_result valid sat (print_marker m wt) extras)
               (Pep508Spec.eval target_env spec_sat extras m).

(* proved on the domain of Spec/Pep508Domain.v *)
Theorem C16_marker_partial :
  forall valid sat spec_sat, sat_agree valid sat spec_sat -> (forall o a b, sat o a b <> OutOfFuel) ->
  forall m wt extras, wf_tree m = true ->
  in_domain target_env valid spec_sat extras m = true ->
  same_outcome (marker_result valid sat (print_marker m wt) extras)
               (Pep508Spec.eval target_env spec_sat extras m).
Proof. exact marker_agrees. Qed.
Print Assumptions C16_marker_partial.

(* the class number the direct oracle attaches to a disagreement (extracted domain_class: the n of
   the known finding F-C16-n of the first atom outside) is 0 exactly on that domain *)
Theorem C16_domain_class : forall valid spec_sat extras m,
  in_domain target_env valid spec_sat extras m = (domain_class target_env valid spec_sat extras m =? 0)%N.
Proof. exact (in_domain_class target_env). Qed.
Print Assumptions C16_domain_class.

(* the domain contains ordinary markers and the theorem is not vacuous on them *)
Example C16_domain_nonvacuous :
  let valid := fun _ : bytes => true in
  let sat := fun (o : N) (rhs lhs : bytes) => Ok true in
  let spec := fun (o : N) (rhs lhs : bytes) => Some true in
  let m := TAnd (atom1 (AVarLit VPythonVersion CGe (dq [51;46;56]))) [false]
                (atom1 (AVarLit VExtra CEq (dq [116;101;115;116]))) in
  in_domain target_env valid spec [[116;101;115;116]; [100;101;118]] m = true /\
  marker_result valid sat (print_marker m []) [[116;101;115;116]; [100;101;118]] = Ok true /\
  Pep508Spec.eval target_env spec [[116;101;115;116]; [100;101;118]] m = Some true.
Proof. exact domain_nonvacuous. Qed.

(* the domain asks that at most one of the names the marker compares extra with is requested
   (F-C16-7 narrowed: Go and pip differ only when two different names of the marker are both
   requested): extra == "a-b" or extra == "x" with x and dev requested is inside, and so is the
   conjunction, which is false on both sides *)
Example C16_domain_two_names :
  let valid := fun _ : bytes => false in
  let sat := fun (o : N) (rhs lhs : bytes) => Err 0%N in
  let spec := fun (o : N) (rhs lhs : bytes) => @None bool in
  let a := atom1 (AVarLit VExtra CEq (dq [97;45;98])) in
  let x := atom1 (AVarLit VExtra CEq (dq [120])) in
  let E := [[120]; [100;101;118]] in
  in_domain target_env valid spec E (TOr a [false] x) = true /\
  marker_result valid sat (print_marker (TOr a [false] x) []) E = Ok true /\
  Pep508Spec.eval target_env spec E (TOr a [false] x) = Some true /\
  in_domain target_env valid spec E (TAnd a [false] x) = true /\
  marker_result valid sat (print_marker (TAnd a [false] x) []) E = Ok false /\
  Pep508Spec.eval target_env spec E (TAnd a [false] x) = Some false /\
  in_domain target_env valid spec [[97;45;98]; [120]] (TAnd a [false] x) = false.
Proof. vm_compute. repeat split; reflexivity. Qed.

(* outside the domain the full statement is false: one witness per class (known findings
   F-C16-1 .. F-C16-7, each replayed on the Go code by the check) *)
Theorem C16_marker_refuted : ~ C16_marker_full.
Proof.
  intros F. destruct refuted_extra_operator as [SA [NF [W N]]]. apply N. exact (F _ _ _ SA NF _ _ _ W).
Qed.
Print Assumptions C16_marker_refuted.

Theorem C16_marker_refuted_word_op_on_versions :
  disagreement (fun _ => true) sat_rejects spec_rejects
    (atom1 (AVarLit VPythonVersion CIn (dq [51;46;57]))) [].
Proof. exact refuted_word_op_on_versions. Qed.
Theorem C16_marker_refuted_extra_operator :
  disagreement no_version sat_rejects spec_rejects (atom1 (AVarLit VExtra CNe (dq [120]))) [].
Proof. exact refuted_extra_operator. Qed.
Theorem C16_marker_refuted_extra_normalisation :
  disagreement no_version sat_rejects spec_rejects
    (atom1 (AVarLit VExtra CEq (dq [70;111;111;95;66;97;114]))) [[102;111;111;45;98;97;114]].
Proof. exact refuted_extra_normalisation. Qed.
Theorem C16_marker_refuted_ordered_strings :
  disagreement no_version sat_rejects spec_rejects (atom1 (AVarLit VOsName CLt (dq [126]))) [].
Proof. exact refuted_ordered_strings. Qed.
Theorem C16_marker_refuted_arbitrary_equality :
  disagreement no_version sat_rejects spec_rejects
    (atom1 (AVarLit VOsName CEq3 (dq [112;111;115;105;120]))) [].
Proof. exact refuted_arbitrary_equality. Qed.
Theorem C16_marker_refuted_version_decision :
  disagreement no_version sat_rejects
    (fun _ rhs _ => if bytes_eqb rhs [53;46;48] then Some false else None)
    (atom1 (AVarLit VPlatformRelease CNe (dq [53;46;48]))) [].
Proof. exact refuted_version_decision. Qed.
Theorem C16_marker_refuted_two_extras :
  disagreement no_version sat_rejects spec_rejects
    (TAnd (atom1 (AVarLit VExtra CEq (dq [97;45;98]))) [false] (atom1 (AVarLit VExtra CEq (dq [120]))))
    [[97;45;98]; [120]].
Proof. exact refuted_two_extras. Qed.
