(* C13, additions -- statements only.
   (1) The order Canon sorts keys, node errors and nodes by (VersionKey.Compare,
       NodeError.Compare, Node.Compare as modelled: byte-wise on every string) is a strict
       total order on ALL keys: irreflexive, transitive, trichotomous, and it satisfies
       cmp_laws with equality as its equivalence.  This is the hypothesis under which
       C13_invariant holds (the sorted arrangement of a set of keys is unique).  A rule that
       mixes version precedence with string order (seeded change C13-l) is refuted by the
       triple 1.10.0, 1.1x, 1.9.0.
   (2) C13_invariant quantifies over iso, which contains every permutation of the edge list
       (take the identity renumbering): the canonical form depends on the multiset of edges
       only.  Stated here exactly in that form (seeded change C13-k broke it). *)
From Coq Require Import Permutation.
From DepsDev Require Import Lib.Base Lib.Order Lib.Sort Lib.SortSpec Resolve.Attr Resolve.Graph Resolve.Graph_spec
  Resolve.Graph_cmp_proofs Resolve.Graph_proofs Resolve.Graph_order_proofs.

(* ---- (1) ---- *)
Theorem C13_key_order_laws :
  cmp_laws (fun _ => True) vkey_compare /\ forall a b, vkey_compare a b = 0%Z <-> a = b.
Proof. exact (conj vkey_laws vkey_compare_eq). Qed.
Print Assumptions C13_key_order_laws.

(* lt_of c a b := c a b < 0;  strict_total_order c := irreflexive /\ transitive /\ for all a b
   exactly one of  a < b,  a = b,  b < a *)
Theorem C13_key_order_strict_total : strict_total_order vkey_compare.
Proof. exact vkey_strict_total. Qed.
Print Assumptions C13_key_order_strict_total.

Theorem C13_nodeerr_order_strict_total : strict_total_order nerr_compare.
Proof. exact nerr_strict_total. Qed.
Print Assumptions C13_nodeerr_order_strict_total.

Theorem C13_node_order_strict_total : strict_total_order node_compare.
Proof. exact node_strict_total. Qed.
Print Assumptions C13_node_order_strict_total.

(* hence a set of keys has one sorted arrangement, whatever algorithm sorts it *)
Theorem C13_sorted_keys_unique : forall l1 l2 : list vkey,
  Permutation l1 l2 -> sorted vkey_compare l1 -> sorted vkey_compare l2 -> l1 = l2.
Proof. exact sorted_keys_unique. Qed.
Print Assumptions C13_sorted_keys_unique.

(* precedence of dotted numerals where both versions parse and differ, byte order otherwise:
   1.10.0 < 1.1x < 1.9.0 < 1.10.0 *)
Theorem C13_mixed_order_refuted :
  (mixed_vkey_compare (k_of v_1_10_0) (k_of v_1_1x) < 0 /\
   mixed_vkey_compare (k_of v_1_1x) (k_of v_1_9_0) < 0 /\
   mixed_vkey_compare (k_of v_1_9_0) (k_of v_1_10_0) < 0)%Z /\
  ~ cmp_laws (fun _ => True) mixed_vkey_compare.
Proof. exact (conj mixed_cycle mixed_not_transitive). Qed.
Print Assumptions C13_mixed_order_refuted.

(* the model's byte-wise order on the same three keys is a chain *)
Example C13_bytewise_chain :
  (vkey_compare (k_of v_1_10_0) (k_of v_1_1x) < 0 /\
   vkey_compare (k_of v_1_1x) (k_of v_1_9_0) < 0 /\
   vkey_compare (k_of v_1_10_0) (k_of v_1_9_0) < 0)%Z.
Proof. exact bytewise_chain. Qed.

(* ---- (2) ---- *)
Theorem C13_edge_order_irrelevant : forall nodes es es' err,
  graph_wf {| g_nodes := nodes; g_edges := es; g_error := err |} -> Permutation es es' ->
  canon true {| g_nodes := nodes; g_edges := es; g_error := err |} =
  canon true {| g_nodes := nodes; g_edges := es'; g_error := err |}.
Proof. exact canon_edge_order. Qed.
Print Assumptions C13_edge_order_irrelevant.

(* a graph in which b@1 occurs twice, its edge list reversed: same canonical form, obtained on
   the breadth-first path (the node order of the result differs from the input's) *)
Example C13_edge_order_example :
  let g := w_g in
  let g' := {| g_nodes := g_nodes w_g; g_edges := rev (g_edges w_g); g_error := g_error w_g |} in
  g_edges g' <> g_edges g /\ canon true g = canon true g' /\
  exists h, canon true g' = Ok h /\ g_nodes h <> g_nodes g.
Proof. exact canon_edge_order_example. Qed.
Print Assumptions C13_edge_order_example.
