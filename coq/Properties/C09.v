(* C09 - set union and intersection mean union and intersection of the versions matched.

   Statements only; proofs are in Semver/*_proofs.v.  The laws are stated as checks over the
   executable model (Semver/Token.v ... Constraint.v) for ANY version parser pv (a parameter of
   the model).  On the current code the union, intersection and operand-order laws are FALSE:
   each has a _refuted theorem whose witness is the one recorded in known/C09.jsonl and replayed
   on the Go code by every run.  The _partial theorems are the laws on the domains the proofs
   force, each with an Example showing that the domain contains non-trivial sets.             *)
From Coq Require Import String.
From DepsDev Require Import Lib.Base Semver.Version Semver.Compare Semver.Compare_proofs Semver.Span Semver.Interval
     Semver.Set Semver.Constraint Semver.Span_proofs Semver.Inc_proofs Semver.Set_proofs Semver.Inter_proofs
     Semver.Witness Semver.C09_proofs.
Local Open Scope Z_scope.

(* ------------------------------------------------------------------ the laws as stated, refuted *)
(* v is matched by A u B exactly when matched by A or by B (MatchVersion) *)
Theorem C09_union_refuted : ~ C09_union_full.
Proof. exact union_refuted. Qed.
Print Assumptions C09_union_refuted.

(* second mechanism: a span is dropped by the skip of the merge loop *)
Theorem C09_union_drop_refuted : ~ C09_union_full.
Proof. exact union_drop_refuted. Qed.
Print Assumptions C09_union_drop_refuted.

(* third mechanism: a merge at a prerelease bound loses the admission of its prereleases *)
Theorem C09_union_prerelease_refuted : ~ C09_union_full.
Proof. exact union_prerelease_refuted. Qed.
Print Assumptions C09_union_prerelease_refuted.

(* a release version is matched by A n B exactly when matched by both *)
Theorem C09_inter_release_refuted : ~ C09_inter_release_full.
Proof. exact inter_release_refuted. Qed.
Print Assumptions C09_inter_release_refuted.

(* under interval matching the intersection law holds for every version *)
Theorem C09_inter_incl_refuted : ~ C09_inter_incl_full.
Proof. exact inter_incl_refuted. Qed.
Print Assumptions C09_inter_incl_refuted.

(* neither operation depends on the order of its operands *)
Theorem C09_comm_refuted : ~ C09_comm_full.
Proof. exact comm_refuted. Qed.
Print Assumptions C09_comm_refuted.

Theorem C09_comm_flag_refuted : ~ C09_comm_full.
Proof. exact comm_flag_refuted. Qed.
Print Assumptions C09_comm_flag_refuted.

(* ------------------------------------------------------------------ Empty: holds in full *)
(* a set reported as empty matches no version, in every system and under both matching modes
   (a Set value without any span is not produced by the parser or by the two operations) *)
Theorem C09_empty : forall st v incl, set_span st <> [] -> set_empty st = true ->
  set_match_version st v incl = Ok false.
Proof. exact empty_matches_nothing. Qed.
Print Assumptions C09_empty.

(* ------------------------------------------------------------------ canon on the release domain *)
(* Domain c09_dom_b: every span has both bounds, three non-negative components without
   prerelease, a finite closed lower bound, min <= max, closed ends when it is a single version;
   and no span ends exactly one step before another begins.  There canon (sort + merge loop)
   terminates without error, stays in the domain and matches the same versions. *)
Theorem C09_canon_partial : forall S, sys_eqb S SMaven = false -> forall l, c09_dom_b S l = true ->
  exists r, canon_spans l = Ok r /\ Forall (fun s => dom_span_b S s = true) r /\ (l <> [] -> r <> []) /\
    forall v, in_spans S true r v = in_spans S true l v.
Proof. exact canon_spans_dom. Qed.
Print Assumptions C09_canon_partial.

(* one round of the merge loop never takes a path that continues without merging *)
Theorem C09_canon_step_partial : forall S this next,
  dom_span_b S this = true -> dom_span_b S next = true -> le_min S this next -> adj_b S this next = false ->
  canon_step this next = Ok IBreak \/
  exists this', canon_step this next = Ok (IContinue this' true) /\ dom_span_b S this' = true /\
    sp_min this' = sp_min this /\ (sp_max this' = sp_max this \/ sp_max this' = sp_max next) /\
    forall v, in_span S true this' v = in_span S true this v || in_span S true next v.
Proof. exact canon_step_dom. Qed.
Print Assumptions C09_canon_step_partial.

(* ------------------------------------------------------------------ Union on the release domain *)
(* for the four systems of the property: v in A u B iff v in A or v in B, for EVERY version under
   interval matching and for every release version under MatchVersion.
   Missing for the full law: bounds with a prerelease (among them the minimum 0.0.0-0 that every
   < and <= comparator produces), bounds with fewer than three components, open lower ends,
   spans that are exactly adjacent, empty spans - the paths on which the refuted witnesses live. *)
Theorem C09_union_partial : forall S, c09_sys S = true -> forall A B,
  c09_dom_b S (set_span A ++ set_span B) = true -> set_span A <> [] -> set_span B <> [] ->
  exists U, set_union A B = Ok U /\
    forall v, fam_version S v -> exists a b',
      set_match_version A v true = Ok a /\ set_match_version B v true = Ok b' /\ set_match_version U v true = Ok (a || b') /\
      (release v -> set_match_version A v false = Ok a /\ set_match_version B v false = Ok b' /\
                    set_match_version U v false = Ok (a || b')).
Proof. exact union_partial. Qed.
Print Assumptions C09_union_partial.

Theorem C09_union_comm_partial : forall S, c09_sys S = true -> forall A B,
  c09_dom_b S (set_span A ++ set_span B) = true -> c09_dom_b S (set_span B ++ set_span A) = true ->
  set_span A <> [] -> set_span B <> [] ->
  exists U U', set_union A B = Ok U /\ set_union B A = Ok U' /\
    forall v, fam_version S v -> forall incl, (incl = true \/ release v) ->
      exists x, set_match_version U v incl = Ok x /\ set_match_version U' v incl = Ok x.
Proof. exact union_comm_partial. Qed.
Print Assumptions C09_union_comm_partial.

(* the side condition is inhabited by sets that really merge: (1.0.0 - 1.5.0 || >=3.0.0) u ^1.2.0
   = {[1.0.0:1.inf.inf],[3.0.0:inf.inf.inf]} *)
Example C09_union_domain_inhabited :
  match parse_set_of SNPM "1.0.0 - 1.5.0 || >=3.0.0", parse_set_of SNPM "^1.2.0", probe SNPM "1.9.9" with
  | Ok A, Ok B, Ok v =>
      c09_dom_b SNPM (set_span A ++ set_span B) && Nat.eqb (List.length (set_span A)) 2
      && match set_union A B, set_match_version A v false with
         | Ok U, Ok false => Nat.eqb (List.length (set_span U)) 2
                             && match set_match_version U v false with Ok true => true | _ => false end
         | _, _ => false
         end
  | _, _, _ => false
  end = true.
Proof. vm_compute. reflexivity. Qed.

(* ------------------------------------------------------------------ Intersect of two spans *)
(* two one-span sets (what Cargo, Go and every npm and-list produce) whose spans are in
   good_span_b (bounds present, no wildcard left, min <= max; ends may be open and bounds may be
   prereleases) and do not meet in exactly one point that one of them excludes.
   Missing for the full law: multi-span operands (the scan over t stops at the first span beyond
   selem.max, which needs t sorted, and canon must preserve the pieces) and point contact. *)
Theorem C09_inter_partial : forall S, c09_sys S = true -> forall A B s t,
  set_span A = [s] -> set_span B = [t] -> good_span_b S s = true -> good_span_b S t = true ->
  no_point_contact_b S s t = true ->
  exists J, set_intersect A B = Ok J /\
    forall v, fam_version S v -> exists a b',
      set_match_version A v true = Ok a /\ set_match_version B v true = Ok b' /\ set_match_version J v true = Ok (a && b') /\
      (release v -> set_match_version A v false = Ok a /\ set_match_version B v false = Ok b' /\
                    set_match_version J v false = Ok (a && b')).
Proof. exact inter_partial. Qed.
Print Assumptions C09_inter_partial.

Example C09_inter_domain_inhabited :
  match parse_set_of SNPM ">=1.2.0 <2.0.0", parse_set_of SNPM "1.4.0 - 2.5.0" with
  | Ok A, Ok B =>
      match set_span A, set_span B with
      | [s], [t] => good_span_b SNPM s && good_span_b SNPM t && no_point_contact_b SNPM s t
                    && match set_intersect A B with Ok J => negb (set_empty J) | _ => false end
      | _, _ => false
      end
  | _, _ => false
  end = true.
Proof. vm_compute. reflexivity. Qed.

(* the excluded configuration is exactly the one of the refuted witness *)
Example C09_point_contact_is_excluded :
  match parse_set_of SNPM ">=1.2.0 <2.0.0", parse_set_of SNPM ">=2.0.0 <3.0.0" with
  | Ok A, Ok B =>
      match set_span A, set_span B with
      | [s], [t] => good_span_b SNPM s && good_span_b SNPM t && negb (no_point_contact_b SNPM s t)
      | _, _ => false
      end
  | _, _ => false
  end = true.
Proof. vm_compute. reflexivity. Qed.

(* value.inc wraps instead of saturating *)
Theorem C09_value_inc_wraps : value_inc infinity = -9223372036854775808.
Proof. exact value_inc_wraps. Qed.
