(* C06 — An npm resolution graph is a valid, loadable node_modules installation.
   Statements only; each is closed by [exact] of a lemma proved in Resolve/Npm_*.v.

   The model (Resolve/Npm.v) is parametric in the client: c_version, c_requirements,
   c_matching are the answers of resolve.Client, sem_match is semver.NPM ParseConstraint+Match
   as the resolver calls it directly for aliased and bundled copies.  Every theorem is for
   EVERY client and every root; termination of the install loop is not proved, the theorems
   carry  resolve fuel root = Ok r.  A result r holds the graph, the final install tree and a
   ghost log with one entry (dependent tree node, requirement, target tree node, fresh?) per
   edge of the graph. *)
From DepsDev Require Import Lib.Base Resolve.Npm Resolve.Npm_lemmas Resolve.Npm_inv Resolve.Npm_loop
  Resolve.Npm_proofs Resolve.Npm_tree Resolve.Npm_lookup Resolve.Npm_nopanic Resolve.Npm_witness_proofs Resolve.Npm_kept_proofs Resolve.Npm_fresh_proofs Extract.CasesNpm.

Section C06.
  Variable c_version : vkey -> res version.
  Variable c_requirements : vkey -> res (list req).
  Variable c_matching : vkey -> res (list version).
  Variable sem_match : bytes -> bytes -> res bool.
  Notation resolve := (resolve c_version c_requirements c_matching sem_match).

  (* 1. Each edge leads to a version that satisfies the edge's requirement.  [edge_explained]
     names the two tree nodes behind the edge, the requirement d of the dependent it resolves
     (d is one of the dependent's regular imports, the edge carries d's version string and
     type, possibly with Selector), the graph key of the target, and the reason
     ([satisfies]): the target is in the client's MatchingVersions answer for d (range or
     dist-tag), or d is `*` and a copy was installed under its name, or the copy installed
     under the name d is loaded by (alias, bundled copy) matches d's range. *)
  Theorem C06_edge_sat : forall fuel root r, resolve fuel root = Ok r ->
    forall e, In e (g_edges (r_graph r)) -> edge_explained c_matching sem_match r e.
  Proof. exact (edge_sat c_version c_requirements c_matching sem_match). Qed.

  (* 2. Every requirement kept by regularImports (not dev, not peer, not overridden, not the
     content of a bundle) of every graph node is resolved by an edge or reported as an error
     on that node.  The root node stands for the version the client returned for the root. *)
  Theorem C06_complete : forall fuel root r, resolve fuel root = Ok r ->
    forall k key, nth_error (g_nodes (r_graph r)) k = Some key ->
    exists key' reqs,
      (k <> 0%nat -> key' = key) /\ (k = 0%nat -> exists v, c_version root = Ok v /\ key' = v_key v) /\
      c_requirements key' = Ok reqs /\
      forall d, In d (regular_imports c_matching reqs) -> handled (r_graph r) k d.
  Proof. exact (complete c_version c_requirements c_matching sem_match). Qed.

  (* 2a. What "kept by regularImports" means, against the property text ("every non-dev,
     non-peer requirement"): a requirement of the version is kept iff it is not dev, not
     peer-scoped, is optional or has no optional sibling on the same package, does not point to
     the content of a bundle, and is not bundle-scoped next to a plain requirement on the same
     package.  These exceptions are the resolver's; they are part of the statement. *)
  Theorem C06_requirements_kept : forall reqs d,
    In d (regular_imports c_matching reqs) <-> kept c_matching reqs d.
  Proof. exact (regular_imports_spec c_matching). Qed.

  (* 2b. ... hence: every requirement of every graph node that is kept in that sense has an
     edge or a node error. *)
  Theorem C06_complete_by_text : forall fuel root r, resolve fuel root = Ok r ->
    forall k key, nth_error (g_nodes (r_graph r)) k = Some key ->
    exists key' reqs,
      (k <> 0%nat -> key' = key) /\ (k = 0%nat -> exists v, c_version root = Ok v /\ key' = v_key v) /\
      c_requirements key' = Ok reqs /\
      forall d, kept c_matching reqs d -> handled (r_graph r) k d.
  Proof.
    intros fuel root r H k key Hk.
    destruct (complete c_version c_requirements c_matching sem_match fuel root r H k key Hk) as [key' [reqs [H1 [H2 [H3 H4]]]]].
    exists key', reqs. repeat split; auto. intros d Hd. apply H4. apply regular_imports_spec. exact Hd.
  Qed.

  (* 3. Every node is reachable from the root (node 0) along edges. *)
  Theorem C06_reachable : forall fuel root r, resolve fuel root = Ok r ->
    forall k, (k < length (g_nodes (r_graph r)))%nat -> reach (r_graph r) k.
  Proof. exact (reachable c_version c_requirements c_matching sem_match). Qed.

  (* 4. A dependency installed afresh is chosen by [pick_rule]: going down from the last
     (highest) element of the client's MatchingVersions answer, the first version that is the
     one answered for "latest" or is not deprecated; the last element if there is none. *)
  Theorem C06_pick : forall fuel root r, resolve fuel root = Ok r ->
    forall l, In l (r_log r) -> l_fresh l = true ->
    exists t dvers wp,
      nth_error (r_tree r) (l_to l) = Some t /\ t_bundled t = None /\
      c_matching (r_key (l_req l)) = Ok dvers /\ last_opt dvers = Some wp /\
      pick_rule (concrete_for_latest c_matching wp) dvers wp (t_ver t).
  Proof. exact (pick c_version c_requirements c_matching sem_match). Qed.

  (* 4a. Which installs are fresh is read off the install tree, not off a label: every
     installed copy (a tree node that has a parent and is not a bundled copy) is the target of
     a log entry marked fresh, so C06_pick applies to it; and the edge of every fresh entry
     carries the Selector attribute. *)
  Theorem C06_fresh_from_tree : forall fuel root r, resolve fuel root = Ok r ->
    Forall2 sel_pair (r_log r) (g_edges (r_graph r)) /\
    forall i n, nth_error (r_tree r) i = Some n -> installed n ->
      exists l, In l (r_log r) /\ l_to l = i /\ l_fresh l = true.
  Proof. exact (selected c_version c_requirements c_matching sem_match). Qed.

  Theorem C06_selector_edge : forall fuel root r, resolve fuel root = Ok r ->
    forall i n, nth_error (r_tree r) i = Some n -> installed n ->
      exists e d, In e (g_edges (r_graph r)) /\ e_to e = t_id n /\ e_req e = r_ver d /\ e_type e = selector (r_type d).
  Proof. exact (selector_edge c_version c_requirements c_matching sem_match). Qed.

  (* ... which is the version tagged latest whenever the client lists it last among the
     matching versions (the in-memory client does, unless latest is a prerelease next to
     releases) ... *)
  Theorem C06_pick_latest_partial : forall dvers wp,
    last_opt dvers = Some wp -> v_equal wp (concrete_for_latest c_matching wp) = true ->
    pick_version c_matching wp dvers = wp.
  Proof. exact (pick_latest_last c_matching). Qed.

  (* Totality: the nil dereferences of resolve.go are unreachable. *)
  Theorem C06_no_panic :
    (forall k p, c_version k <> Panic p) -> (forall k p, c_requirements k <> Panic p) ->
    (forall a b p, sem_match a b <> Panic p) -> (forall k p, c_matching k <> Panic p) ->
    forall fuel root p, resolve fuel root <> Panic p.
  Proof. exact (resolve_np c_version c_requirements c_matching sem_match). Qed.

  (* 5. For clients without derived (bundled) packages: no directory of the install tree
     holds two entries of one name (children and aliases together). *)
  Theorem C06_unique_name : no_derived c_matching ->
    forall fuel root r, resolve fuel root = Ok r ->
    forall i n, nth_error (r_tree r) i = Some n ->
      t_bundled n = None /\ NoDup (map fst (t_children n) ++ map fst (t_alias n)).
  Proof.
    intro ND. exact (unique_name c_version c_requirements c_matching sem_match (no_derived_get_bundled _ ND)).
  Qed.

  (* 5a. ... and a package sits in its directory under its own name, below the node that is
     its parent (clients without derived packages; aliases allowed, they live in t_alias). *)
  Theorem C06_child_key : no_derived c_matching ->
    forall fuel root r, resolve fuel root = Ok r ->
    forall i n k c, nth_error (r_tree r) i = Some n -> assoc k (t_children n) = Some c ->
      exists cn, nth_error (r_tree r) c = Some cn /\ t_pkg cn = k /\ t_parent cn = Some i.
  Proof.
    intro ND. exact (child_keys c_version c_requirements c_matching sem_match (no_derived_get_bundled _ ND)).
  Qed.

  (* 6. Node's lookup (walk up from the dependent until a directory holds an entry of the
     name the requirement is loaded by) lands exactly on the node the edge points to:
     for clients without derived packages, WITHOUT ALIASES, whose MatchingVersions answers
     are versions of the package asked for and whose versions do not keep two requirements
     of one name.  Missing for the full clause: aliased requirements, for which it is false
     (C06_lookup_refuted_alias below, finding F-C06-1). *)
  Theorem C06_lookup_partial : no_derived c_matching ->
    (forall k reqs d, c_requirements k = Ok reqs -> In d reqs -> r_alias d = []) ->
    (forall k vs v, c_matching k = Ok vs -> In v vs -> vk_name (v_key v) = vk_name k) ->
    (forall k reqs, c_requirements k = Ok reqs -> NoDup (map r_name (regular_imports c_matching reqs))) ->
    forall fuel root r, resolve fuel root = Ok r ->
    forall l, In l (r_log r) -> node_lookup (r_tree r) (l_from l) (lname (l_req l)) = Some (l_to l).
  Proof.
    intro ND. exact (lookup_ok c_version c_requirements c_matching sem_match (no_derived_get_bundled _ ND)).
  Qed.

  (* every edge has its log entry and conversely, so 4 and 6 speak about all edges *)
  Theorem C06_log_edges : forall fuel root r, resolve fuel root = Ok r ->
    Forall2 (ent_ok c_matching sem_match (r_tree r)) (r_log r) (g_edges (r_graph r)).
  Proof. exact (log_edges c_version c_requirements c_matching sem_match). Qed.
End C06.

Print Assumptions C06_edge_sat.
Print Assumptions C06_complete.
Print Assumptions C06_reachable.
Print Assumptions C06_pick.
Print Assumptions C06_pick_latest_partial.
Print Assumptions C06_no_panic.
Print Assumptions C06_unique_name.
Print Assumptions C06_lookup_partial.
Print Assumptions C06_log_edges.
Print Assumptions C06_requirements_kept.
Print Assumptions C06_complete_by_text.
Print Assumptions C06_child_key.
Print Assumptions C06_fresh_from_tree.
Print Assumptions C06_selector_edge.

(* The lookup clause is false when aliases are allowed (F-C06-1): a client without derived
   packages, with name-faithful MatchingVersions answers and distinct requirement names, on
   which some edge's Node lookup does not land on its target.  The hoisting loop reserves
   protected[package] instead of the alias in the directories it climbs through. *)
Theorem C06_lookup_refuted_alias :
  exists t r, t_alias_shadow = Some t /\ no_derived_tbl (tb_m t) = true /\ names_tbl (tb_m t) = true /\
    distinct_tbl (tb_m t) (tb_r t) = true /\ run t = Ok r /\
    exists l, In l (r_log r) /\ node_lookup (r_tree r) (l_from l) (lname (l_req l)) <> Some (l_to l).
Proof. exact lookup_refuted_alias. Qed.
Print Assumptions C06_lookup_refuted_alias.

(* Each remaining hypothesis of C06_lookup_partial is needed: with two requirements of one
   version under one name (all other hypotheses hold) the copy installed for the second shadows
   the one the first resolved to ... *)
Theorem C06_lookup_refuted_dup_name :
  exists t r, t_dup_name = Some t /\ no_derived_tbl (tb_m t) = true /\ no_alias_tbl (tb_r t) = true /\
    names_tbl (tb_m t) = true /\ distinct_tbl (tb_m t) (tb_r t) = false /\ run t = Ok r /\
    exists l, In l (r_log r) /\ node_lookup (r_tree r) (l_from l) (lname (l_req l)) <> Some (l_to l).
Proof. exact lookup_refuted_dup_name. Qed.
Print Assumptions C06_lookup_refuted_dup_name.

(* ... and with a client that answers a requirement on one package with a version of another
   (all other hypotheses hold) the copy is filed under the other name. *)
Theorem C06_lookup_refuted_foreign_name :
  exists t r, t_foreign_name = Some t /\ no_derived_tbl (tb_m t) = true /\ no_alias_tbl (tb_r t) = true /\
    names_tbl (tb_m t) = false /\ distinct_tbl (tb_m t) (tb_r t) = true /\ run t = Ok r /\
    exists l, In l (r_log r) /\ node_lookup (r_tree r) (l_from l) (lname (l_req l)) <> Some (l_to l).
Proof. exact lookup_refuted_foreign_name. Qed.
Print Assumptions C06_lookup_refuted_foreign_name.

(* The hypothesis of C06_unique_name is needed: with derived packages one directory can hold a
   child and an alias of the same name (two bundled copies, one installed under the name of the
   package the other is derived from).  The property text leaves these trees out. *)
Theorem C06_unique_name_refuted_derived :
  exists t r n, t_derived_clash = Some t /\ no_derived_tbl (tb_m t) = false /\ run t = Ok r /\
    In n (r_tree r) /\ ~ NoDup (map fst (t_children n) ++ map fst (t_alias n)).
Proof.
  destruct unique_name_refuted_derived as [t [r [n [H1 [H2 [H3 [H4 H5]]]]]]].
  exists t, r, n. repeat split; auto. apply clash_not_nodup. exact H5.
Qed.
Print Assumptions C06_unique_name_refuted_derived.

(* "The version tagged latest when that satisfies the requirement" is false without the
   side condition of C06_pick_latest_partial (F-C06-2): latest is in the matching list, is the
   unique answer for "latest", and another version is installed. *)
Theorem C06_pick_latest_refuted :
  exists t r l, t_latest_prerelease = Some t /\ run t = Ok r /\ In l (r_log r) /\ latest_not_picked t r l = true.
Proof. exact pick_latest_refuted. Qed.
Print Assumptions C06_pick_latest_refuted.

(* Non-vacuity: a concrete client (recorded from the Go resolution of a small universe with a
   conflict forcing a nested install, a deprecated and a latest-tagged version, a `*` reuse and
   an unsatisfiable requirement) meets the hypotheses of every theorem above, resolves to a
   graph with 5 nodes, 5 edges (4 fresh installs), 1 node error, and every lookup lands. *)
Example C06_nonvacuous :
  exists t r, t_example = Some t /\ run t = Ok r /\
    no_derived_tbl (tb_m t) = true /\ no_alias_tbl (tb_r t) = true /\ names_tbl (tb_m t) = true /\
    distinct_tbl (tb_m t) (tb_r t) = true /\
    no_panic_tbl (tb_v t) = true /\ no_panic_tbl (tb_r t) = true /\ no_panic_tbl (tb_m t) = true /\
    length (g_nodes (r_graph r)) = 5%nat /\ length (g_edges (r_graph r)) = 5%nat /\
    length (g_errors (r_graph r)) = 1%nat /\ length (filter l_fresh (r_log r)) = 4%nat /\ bad_lookups r = [] /\
    existsb (fun n => match t_parent n with Some (S _) => true | _ => false end) (r_tree r) = true.
Proof. exact example_ok. Qed.

(* C06_requirements_kept is not vacuous: the root of the example has three requirements, the
   dev one is dropped. *)
Example C06_kept_example :
  exists t reqs, t_example = Some t /\ tbl_lookup (tb_r t) (tb_root t) = Ok reqs /\ length reqs = 3%nat /\
    length (regular_imports (tbl_lookup (tb_m t)) reqs) = 2%nat.
Proof. exact example_kept. Qed.

(* the finite checks above give the hypotheses in the form the theorems take them *)
Example C06_hypotheses_from_tables : forall t,
  no_derived_tbl (tb_m t) = true -> no_alias_tbl (tb_r t) = true -> names_tbl (tb_m t) = true ->
  distinct_tbl (tb_m t) (tb_r t) = true ->
  (forall d, get_bundled (tbl_lookup (tb_m t)) d = None) /\
  (forall k reqs d, tbl_lookup (tb_r t) k = Ok reqs -> In d reqs -> r_alias d = []) /\
  (forall k vs v, tbl_lookup (tb_m t) k = Ok vs -> In v vs -> vk_name (v_key v) = vk_name k) /\
  (forall k reqs, tbl_lookup (tb_r t) k = Ok reqs -> NoDup (map r_name (regular_imports (tbl_lookup (tb_m t)) reqs))).
Proof.
  intros t H1 H2 H3 H4. split; [apply no_derived_ok; exact H1|]. split; [apply no_alias_ok; exact H2|].
  split; [apply names_ok; exact H3 | apply distinct_ok; exact H4].
Qed.

(* the attribute keys the model uses exist in the tables regenerated from the Go sources *)
Example C06_keys_present : keys_present = true.
Proof. vm_compute. reflexivity. Qed.
