(* C06 placeholder while the pipeline is brought up. *)
From DepsDev Require Import Lib.Base Resolve.Npm.
Example C06_keys_present : keys_present = true.
Proof. vm_compute. reflexivity. Qed.
