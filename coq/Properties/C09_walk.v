(* C09, additions: matchVersion looks at EVERY span of a set, whether canon has unified the spans
   or not (the observation the laws of C09 are stated in), and Union with a single version keeps
   that version.  Statements only; proofs in Semver/C09_walk_proofs.v.

   span_says v pre s is the answer of one span (match_span, all special cases included) read as
   a boolean; eff_pre is the mode matchVersion really uses (RubyGems candidates are always
   matched prerelease-inclusive).  The hypothesis "every span gives an answer" excludes only
   panics of the model (a failed type assertion on a foreign extension object). *)
From Coq Require Import List.
From DepsDev Require Import Lib.Base Semver.Version Semver.Span Semver.Set Semver.C09_walk_proofs.
Import ListNotations.

(* the walk is the disjunction over all spans, for every set, canonical or not *)
Theorem C09_match_walks_all_spans : forall st v pre, set_span st <> [] ->
  (forall s, In s (set_span st) -> exists b0, match_span v (eff_pre v pre) s = Ok b0) ->
  set_match_version st v pre = Ok (existsb (span_says v (eff_pre v pre)) (set_span st)).
Proof. exact set_match_all. Qed.
Print Assumptions C09_match_walks_all_spans.

(* true iff SOME span of the set contains v under the mode *)
Theorem C09_match_iff_some_span : forall st v pre, set_span st <> [] ->
  (forall s, In s (set_span st) -> exists b0, match_span v (eff_pre v pre) s = Ok b0) ->
  exists b0, set_match_version st v pre = Ok b0 /\
    (b0 = true <-> exists s, In s (set_span st) /\ match_span v (eff_pre v pre) s = Ok true).
Proof. exact set_match_iff. Qed.
Print Assumptions C09_match_iff_some_span.

(* in particular a span in the LAST position is found, whatever precedes it (no search that
   relies on the spans being sorted or disjoint) *)
Theorem C09_match_last_span : forall st v pre l s, set_span st = l ++ [s] ->
  (forall s0, In s0 (l ++ [s]) -> exists b0, match_span v (eff_pre v pre) s0 = Ok b0) ->
  match_span v (eff_pre v pre) s = Ok true -> set_match_version st v pre = Ok true.
Proof. exact set_match_last. Qed.
Print Assumptions C09_match_last_span.

(* evaluated on the model: sets of three spans (one of them a prerelease unit span that canon
   does not merge) in which only the last, respectively only the first span contains 3.5.0 *)
Example C09_walk_finds_any_position : walk_check = Ok (true, true).
Proof. exact walk_finds_any_position. Qed.

(* Union with a single version keeps it: npm >=1.0.0 <2.0.0 does not match 1.5.0-beta under
   MatchVersion (false) although the version lies inside the span under prerelease-inclusive
   containment (true); after Union with the unit set of 1.5.0-beta the result matches it (true) *)
Example C09_union_unit_keeps_version : union_unit_check = Ok (false, true, true).
Proof. exact union_unit_keeps. Qed.

(* the same with the unit set as receiver *)
Example C09_union_unit_keeps_version_receiver : union_unit_check' = Ok true.
Proof. exact union_unit_keeps'. Qed.
