(* C02 — ordering agrees with each ecosystem (npm, Cargo, Go part: SemVer 2.0.0 precedence).
   PyPI, Maven, RubyGems, NuGet are in C02_*.v.  Statements only. *)
From DepsDev Require Import Lib.Base Semver.Version Semver.Compare Semver.Compare_proofs
  Semver.Parse Spec.SemverSpec Semver.SemverSpec_proofs Semver.ParseRender_proofs Semver.StrictParse_proofs.

(* On every pair of parsed structures that are strict SemVer (three numbers, prerelease
   identifiers of the strict grammar) and whose numeric identifiers fit int64, the library's
   comparison IS SemVer 2.0.0 precedence (section 11), for every system except NuGet
   (whose text identifiers are case-insensitive).  Build metadata plays no role. *)
Theorem C02_semver : forall S a b sa sb, not_nuget S ->
  abs_version a = Some sa -> abs_version b = Some sb -> in_range a -> in_range b ->
  generic_compare S a b = precedence sa sb.
Proof. exact generic_compare_semver. Qed.
Print Assumptions C02_semver.

(* The range hypothesis is necessary: beyond int64 numeric identifiers are compared as text
   (known finding F-C02-4). *)
Theorem C02_semver_bigint_refuted : exists a b sa sb,
  parse SNPM a = Ok sa /\ parse SNPM b = Ok sb /\
  spec_compare_strings a b = Some (-1)%Z /\ compare sa sb = Ok 1%Z.
Proof.
  exists [49;46;48;46;48;45;57;57;57;57;57;57;57;57;57;57;57;57;57;57;57;57;57;57;57;57]%N,
         [49;46;48;46;48;45;49;48;48;48;48;48;48;48;48;48;48;48;48;48;48;48;48;48;48;48;48]%N.
  eexists. eexists.
  split; [vm_compute; reflexivity|].
  split; [vm_compute; reflexivity|].
  split; vm_compute; reflexivity.
Qed.

(* Acceptance of normal forms: a strict SemVer string whose number is 2^63-1 (the value the library
   reserves for infinity) is rejected although the specification (and x/mod/semver, the Rust semver
   crate) accept it: known finding F-C02-23.  Below that bound strict strings are accepted
   (C02_strict_parses, when proved; decided by the oracle on every generated strict string). *)
Theorem C02_accepts_refuted : exists s e,
  (exists sv, parse_strict s = Some sv) /\ parse SCargo s = Err e /\ parse SGo (118%N :: s) = Err e.
Proof.
  exists [57;50;50;51;51;55;50;48;51;54;56;53;52;55;55;53;56;48;55;46;48;46;48]%N. eexists. split; [eexists; vm_compute; reflexivity|].
  split; vm_compute; reflexivity.
Qed.

(* Non-vacuity, through the model's own parser: 1.0.0-alpha.1 < 1.0.0-alpha.beta < 1.0.0-rc.1 < 1.0.0. *)
Example C02_semver_example :
  let p s := match parse SNPM s with Ok v => Some v | _ => None end in
  let a := [49;46;48;46;48;45;97;108;112;104;97;46;49]%N in
  let b := [49;46;48;46;48;45;97;108;112;104;97;46;98;101;116;97]%N in
  match p a, p b with
  | Some va, Some vb =>
      (exists sa, abs_version va = Some sa) /\ (exists sb, abs_version vb = Some sb) /\
      generic_compare SNPM va vb = (-1)%Z /\ spec_compare_strings a b = Some (-1)%Z
  | _, _ => False
  end.
Proof. vm_compute. repeat split; try (eexists; reflexivity); reflexivity. Qed.

(* ---------------------------------------------------------------- the string level *)
(* Every string of the strict SemVer 2.0.0 grammar (Spec/SemverSpec.v parse_strict) whose three
   numbers are below 2^63-1 is accepted by the model parser of Default, Cargo, NPM, and with the
   mandatory v prefix by Go (pfx S is that prefix, empty for the others); the parsed structure
   abstracts to the spec's value.  All byte strings, no length bound. *)
Theorem C02_strict_parses : forall S s sv, semver_sys S -> parse_strict s = Some sv ->
  Forall (fun n => (n < infinity)%Z) (sv_nums sv) ->
  exists v, parse S (pfx S ++ s) = Ok v /\
            abs_version v = Some {| sv_nums := sv_nums sv; sv_pre := sv_pre sv; sv_build := [] |}.
Proof. exact strict_parses. Qed.
Print Assumptions C02_strict_parses.

(* Hence, on strict strings whose numeric identifiers fit int64, parsing and comparing in the
   library IS SemVer 2.0.0 precedence of the two strings. *)
Theorem C02_semver_strings : forall S a b sa sb, semver_sys S ->
  parse_strict a = Some sa -> parse_strict b = Some sb -> fits_int64 sa -> fits_int64 sb ->
  exists va vb, parse S (pfx S ++ a) = Ok va /\ parse S (pfx S ++ b) = Ok vb /\
                generic_compare S va vb = precedence sa sb.
Proof. exact semver_strings. Qed.
Print Assumptions C02_semver_strings.

Example C02_semver_strings_example :
  exists sa sb, parse_strict [49;46;48;46;48;45;97;108;112;104;97;46;49]%N = Some sa /\
                parse_strict [49;46;48;46;48;45;97;108;112;104;97;46;98;101;116;97;43;98]%N = Some sb /\
                fits_int64 sa /\ fits_int64 sb /\ semver_sys SGo /\ precedence sa sb = (-1)%Z.
Proof.
  eexists. eexists. split; [vm_compute; reflexivity|]. split; [vm_compute; reflexivity|].
  split; [split; [repeat constructor | intros n [H|[H|[]]]; inversion H; subst; vm_compute; discriminate]|].
  split; [split; [repeat constructor | intros n [H|[H|[]]]; inversion H]|].
  split; [unfold semver_sys; auto | reflexivity].
Qed.
