(* C04, Maven and RubyGems parsers: semver.Maven.Parse and semver.RubyGems.Parse are total -- a
   value or an error for every input, never a panic, never non-termination.  Statements only.

   The models (Semver/MavenParse.v, Semver/GemParse.v) carry every way the Go code can fail as an
   explicit outcome: Panic for the index expressions (Maven: str[0] of a separator element and
   elements[len-1] in the a/b/m shortcut of the first loop of init, elements[i] / elements[i+1] in
   the trimming loops; RubyGems: elements[i] in the zero-trimming loop), OutOfFuel for the loops
   the model runs on fuel (Maven: element scan, both trimming loops; RubyGems: the number loop and
   the metadata loop of versionParser.version, the element scan of init).  The theorems say that
   none of these outcomes is reachable, for both variants of each repair switch (zero test of the
   Maven trimming loop; RubyGems zero-trimming loop).

   RubyGems: the statement is for ALL byte strings (every byte goes through lexer.next, which
   rejects what is not a version-string byte of byteType; the proof uses the regenerated table:
   digits, letters and '-' have type tVS, lemma alnumh_vs_table).

   Maven: mvn_parse answers None outside mvn_fragment, i.e. for exactly the strings that contain
   a byte >= 0x80 that is not part of the three-byte infinity sign E2 88 9E (any other non-ASCII
   rune, and any invalid UTF-8).  The reason is strings.ToLower at the head of init: outside ASCII
   it folds letters (sometimes to a different byte length, the Kelvin sign to k) and replaces
   invalid bytes by U+FFFD, and nextMavenElem then advances by rune width; the model works on
   bytes with one category per byte, which coincides with the rune category only inside the
   fragment.  For those strings the theorem below is therefore about the model function only
   (C04_maven_init_total_all_bytes: the modelled loops are total on every byte string, in
   particular the arguments that discharge the two index panics -- a separator element is never
   empty, the shortcut is reached only after a first element -- do not depend on the input);
   whether Go's Maven.Parse can panic on non-ASCII input is observed by the C04 driver, which
   runs the implementation on such strings, not proved here. *)
From DepsDev Require Import Lib.Base Semver.Version Semver.Compare Semver.MavenParse Semver.GemParse
  Semver.MavenTotal_proofs Semver.GemTotal_proofs.

(* ------------------------------------------------------------------ Maven *)
Theorem C04_maven_parse_total_with : forall zfix s r, mvn_parse_with zfix s = Some r ->
  match r with Panic _ => False | OutOfFuel => False | _ => True end.
Proof. exact mvn_parse_total. Qed.
Print Assumptions C04_maven_parse_total_with.

(* the variant of the tree *)
Theorem C04_maven_parse_total : forall s r, mvn_parse s = Some r ->
  match r with Panic _ => False | OutOfFuel => False | _ => True end.
Proof. exact (mvn_parse_total mvn_fix_zero_spelling). Qed.
Print Assumptions C04_maven_parse_total.

(* mavenExtension.init as modelled, on every byte string (inside mvn_fragment or not) *)
Theorem C04_maven_init_total_all_bytes : forall zfix s,
  match mvn_init_with zfix s with Panic _ => False | OutOfFuel => False | _ => True end.
Proof. exact mvn_init_total. Qed.
Print Assumptions C04_maven_init_total_all_bytes.

(* compare of two parser outputs returns a value (no panic(bCategory), no other failure) *)
Theorem C04_maven_compare_total_with : forall zfix sa sb a b,
  mvn_parse_with zfix sa = Some (Ok a) -> mvn_parse_with zfix sb = Some (Ok b) -> exists r, compare a b = Ok r.
Proof. exact maven_compare_total_with. Qed.
Print Assumptions C04_maven_compare_total_with.

(* ------------------------------------------------------------------ RubyGems *)
Theorem C04_gem_parse_total_with : forall fixed s,
  match gem_parse_with fixed s with Panic _ => False | OutOfFuel => False | _ => True end.
Proof. exact gem_parse_total. Qed.
Print Assumptions C04_gem_parse_total_with.

(* the variant of the tree *)
Theorem C04_gem_parse_total : forall s,
  match gem_parse s with Panic _ => False | OutOfFuel => False | _ => True end.
Proof. exact (gem_parse_total gem_fix_zero_trim). Qed.
Print Assumptions C04_gem_parse_total.

Theorem C04_gem_compare_total_with : forall fixed sa sb a b,
  gem_parse_with fixed sa = Ok a -> gem_parse_with fixed sb = Ok b -> exists r, compare a b = Ok r.
Proof. exact gem_compare_total. Qed.
Print Assumptions C04_gem_compare_total_with.
