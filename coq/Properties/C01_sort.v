(* C01, sorting clause for the systems with an extension: two sorted lists that are permutations of
   each other are position-wise equivalent, whatever (correct) sorting algorithm produced them and
   whatever the input order.  Instances of Lib/SortClasses.sorted_perm_classes for the comparators
   of C01_pypi, C01_gem and C01_maven (the SemVer family instance is C01_sort_classes in C01.v). *)
From Coq Require Import List ZArith Permutation.
From DepsDev Require Import Lib.Base Lib.Order Lib.SortClasses Semver.Version Semver.Compare.
From DepsDev Require Semver.Gem_proofs Semver.Maven_proofs Semver.MavenDomain Semver.Pep440Parse_proofs Properties.C01_pypi Properties.C01_gem Properties.C01_maven.

(* generic form: any comparator obeying the four laws on a domain P *)
Theorem C01_sort_classes_any : forall (A : Type) (P : A -> Prop) (c : A -> A -> Z), cmp_laws P c ->
  forall l1 l2, Forall P l1 -> Forall P l2 -> Permutation l1 l2 -> sorted c l1 -> sorted c l2 ->
  Forall2 (fun a b => c a b = 0%Z) l1 l2.
Proof. intros A P c L l1 l2. exact (sorted_perm_classes P c L l1 l2). Qed.
Print Assumptions C01_sort_classes_any.

(* PyPI: on all structures the PyPI parser can return *)
Theorem C01_sort_classes_pypi : forall l1 l2,
  Forall Semver.Pep440Parse_proofs.is_pypi l1 -> Forall Semver.Pep440Parse_proofs.is_pypi l2 -> Permutation l1 l2 ->
  sorted Semver.Pep440Parse_proofs.vcmp l1 -> sorted Semver.Pep440Parse_proofs.vcmp l2 ->
  Forall2 (fun a b => Semver.Pep440Parse_proofs.vcmp a b = 0%Z) l1 l2.
Proof. exact (C01_sort_classes_any _ _ _ Properties.C01_pypi.C01_pypi_version_laws). Qed.
Print Assumptions C01_sort_classes_pypi.

(* RubyGems and Maven: the comparators whose existence C01_gem / C01_maven / C01_maven_wide state *)
Theorem C01_sort_classes_gem : exists c : version -> version -> Z,
  (forall a b, Semver.Gem_proofs.gem_dom a -> Semver.Gem_proofs.gem_dom b -> compare a b = Ok (c a b)) /\
  forall l1 l2, Forall Semver.Gem_proofs.gem_dom l1 -> Forall Semver.Gem_proofs.gem_dom l2 -> Permutation l1 l2 ->
  sorted c l1 -> sorted c l2 -> Forall2 (fun a b => c a b = 0%Z) l1 l2.
Proof.
  destruct Properties.C01_gem.C01_gem as (c & Hc & L). exists c. split; [exact Hc|].
  exact (C01_sort_classes_any _ _ _ L).
Qed.
Print Assumptions C01_sort_classes_gem.

Theorem C01_sort_classes_maven : exists c : version -> version -> Z,
  (forall a b, Semver.Maven_proofs.mvn_in Semver.MavenDomain.d_mvn_wide a -> Semver.Maven_proofs.mvn_in Semver.MavenDomain.d_mvn_wide b ->
               compare a b = Ok (c a b)) /\
  forall l1 l2, Forall (Semver.Maven_proofs.mvn_in Semver.MavenDomain.d_mvn_wide) l1 ->
                Forall (Semver.Maven_proofs.mvn_in Semver.MavenDomain.d_mvn_wide) l2 -> Permutation l1 l2 ->
  sorted c l1 -> sorted c l2 -> Forall2 (fun a b => c a b = 0%Z) l1 l2.
Proof.
  destruct Properties.C01_maven.C01_maven_wide as (c & Hc & L). exists c. split; [exact Hc|].
  exact (C01_sort_classes_any _ _ _ L).
Qed.
Print Assumptions C01_sort_classes_maven.
