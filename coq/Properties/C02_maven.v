(* C02, Maven part: ordering agrees with ComparableVersion (maven-artifact 3.8.x, Spec/MavenSpec.v; on D_mvn the same
   as the 3.6 algorithm maven.go names).
   Statements only.  The model follows the tree through two booleans read by gotables from
   maven.go; z below is the variant of the zero test of the trimming loop (false:
   isEmptyMavenElem tests the spelling "0", as found; true: every all-zero numeral is empty,
   the repair of F-C02-11); mvn_parse = mvn_parse_with mvn_fix_zero_spelling is the tree's. *)
From DepsDev Require Import Lib.Base Semver.Version Semver.Compare Semver.Maven Semver.MavenParse Semver.MavenDomain
  Semver.MavenItems Semver.Maven_proofs Semver.MavenSpec_proofs Semver.MavenDotted_proofs Spec.MavenSpec Gen.MavenVariants.
Local Open Scope Z_scope.

(* The full statement on the property's domain (D_mvn minus a release-equivalent qualifier
   followed by a number, as a predicate on strings), for a variant z of the parser. *)
Definition C02_maven_full_with (z : bool) : Prop := forall sa sb a b,
  d_mvn_c02_str sa = true -> d_mvn_c02_str sb = true ->
  mvn_parse_with z sa = Some (Ok a) -> mvn_parse_with z sb = Some (Ok b) ->
  compare a b = Ok (mspec_compare sa sb).
Definition C02_maven_full : Prop := C02_maven_full_with mvn_fix_zero_spelling.

(* It is false under both variants.  F-C02-15: a release-equivalent qualifier right before
   -SNAPSHOT is trimmed away here, ComparableVersion keeps its (emptied) nesting level:
   1-final-SNAPSHOT = 1-SNAPSHOT here, > in ComparableVersion; both strings are in the domain. *)
Theorem C02_maven_refuted : forall z, ~ C02_maven_full_with z.
Proof.
  intros z F. destruct (maven_nulldash_witness z) as [W1 [D1 [D2 W2]]]. unfold mvn_cmp_strings in W1.
  destruct (mvn_parse_with z s_1_final_snapshot) as [[a| | |]|] eqn:Pa; try discriminate.
  destruct (mvn_parse_with z s_1_snapshot) as [[b| | |]|] eqn:Pb; try discriminate.
  rewrite (F _ _ a b D1 D2 Pa Pb), W2 in W1. discriminate.
Qed.
Print Assumptions C02_maven_refuted.

(* F-C02-11: with the zero test as found 1.00 > 1, ComparableVersion says equal; with the
   repaired test the pair agrees.  Second theorem: what the tree does. *)
Theorem C02_maven_zero_variants :
  mvn_cmp_strings false s_1_00 s_1 = Some 1 /\ mspec_compare s_1_00 s_1 = 0 /\ mvn_cmp_strings true s_1_00 s_1 = Some 0.
Proof. exact maven_zero_witness. Qed.

Theorem C02_maven_zero_tree :
  mvn_cmp_strings mvn_fix_zero_spelling s_1_00 s_1 = (if go_mvn_zero_spelling_fixed then Some 0 else Some 1) /\
  mspec_compare s_1_00 s_1 = 0.
Proof. exact maven_zero_tree. Qed.
Print Assumptions C02_maven_zero_tree.

(* F-C02-24: a qualifier attached by '.' (JBoss/Spring style 1.0.0.RC1, 1.SP, 2.0.jre2) is inside
   the grammar of the property but outside D_mvn.  ComparableVersion (3.8.x) opens a sub-list for
   such a qualifier exactly as for '-', so zeros before it are trimmed and 1.SP = 1.0-SP; the
   library keeps the '.' on the element, does not trim before it and orders '.'-attached and
   '-'-attached qualifiers apart.  The model of the library's comparison (both variants of the
   zero test) differs from the specification on: 1.SP vs 1.0-SP (-1 / 0), 2.0.jre2 vs 2.0.0-jre2
   (1 / 0), 10.0.0.0.Beta7 vs 10-CR (1 / -1). *)
Theorem C02_maven_dotted_refuted : forall z,
  (mvn_cmp_strings z s_1_SP s_1_0_SP = Some (-1) /\ mspec_compare s_1_SP s_1_0_SP = 0) /\
  (mvn_cmp_strings z s_2_0_jre2 s_2_0_0_jre2 = Some 1 /\ mspec_compare s_2_0_jre2 s_2_0_0_jre2 = 0) /\
  (mvn_cmp_strings z s_10_Beta7 s_10_CR = Some 1 /\ mspec_compare s_10_Beta7 s_10_CR = -1).
Proof. exact maven_dotted_witness. Qed.
Print Assumptions C02_maven_dotted_refuted.

(* What holds for '.'-attached qualifiers: among element lists that are numbers only or carry
   their first qualifier after a '.', the last number before it not spelled 0 (boolean d_dot_b:
   1.1.RC1, 2.5.SP, 3.2.jre8, 1.2.3; not 1.0.RC1, where ComparableVersion trims the zero and the
   library does not -- that is F-C02-24), the library orders exactly as it orders the same lists
   with that qualifier attached by '-' (dashify), hence, when those are in the domain of
   C02_maven_partial, as ComparableVersion orders their item trees.  Pairs that mix a '.'-attached
   with a '-'-attached qualifier are outside: the library orders 1.1.RC1 below 1.1-RC1,
   ComparableVersion reads them alike (F-C02-24 again).  The tie between strings and trees
   (comparable_version s = items_of (dashify (parse s))) is checked by the harness on generated
   dotted strings, kind svm_maven_dot_tie, for strings whose dotted qualifier is last or directly
   followed by a digit (1.1.RC1, 1.1.RC1-SNAPSHOT); when a '-' or '.' follows it (1.SP-SNAPSHOT,
   1.rc-1) ComparableVersion 3.8.x does not open a sub-list for the qualifier, which the element
   list cannot tell from the former spelling: those strings are decided by the oracle only. *)
Theorem C02_maven_dotted_partial : forall l1 l2, d_dot_b l1 = true -> d_dot_b l2 = true ->
  c02_wide_b (dashify l1) = true -> c02_wide_b (dashify l2) = true ->
  maven_compare l1 l2 = Ok (item_cmp (items_of (dashify l1)) (items_of (dashify l2))).
Proof. exact dotted_spec_agree_b. Qed.
Print Assumptions C02_maven_dotted_partial.

Example C02_maven_dotted_nonvacuous :
  match mvn_parse_with false s_1_1_RC1, mvn_parse_with false s_1_1_SP with
  | Some (Ok a), Some (Ok b) =>
      d_dot_b (mvn_elems a) = true /\ d_dot_b (mvn_elems b) = true /\
      c02_wide_b (dashify (mvn_elems a)) = true /\ c02_wide_b (dashify (mvn_elems b)) = true /\
      items_of (dashify (mvn_elems a)) = comparable_version s_1_1_RC1 /\
      items_of (dashify (mvn_elems b)) = comparable_version s_1_1_SP /\
      compare a b = Ok (-1) /\ mspec_compare s_1_1_RC1 s_1_1_SP = -1
  | _, _ => False
  end.
Proof. exact dotted_nonvacuous. Qed.

(* What holds, for ALL element lists of the domain c02_wide_b (the proved domain d_mvn_wide of
   C01 -- which contains D_mvn -- with numerals not negative, the last prefix numeral not 0 by
   value, and no null item in the tail: no number 0, no release-equivalent qualifier): compare
   is ComparableVersion's comparison of the item trees the lists stand for (a '-'-attached
   element opens a sub-list, qualifiers through ALIASES).  The qualifier table regenerated
   from maven.go is related to QUALIFIERS inside the proof (rank = order + 7 on every key).
   The theorem does not depend on the variant.  Missing for the full statement: that the parser
   with the repaired zero test maps a string of the domain to the element list whose tree is the
   normalised ComparableVersion of the string; the harness checks this on every generated
   string (kind svm_maven_tie), leaving out the class of F-C02-15 and versions 0 / 0-qualifier
   (leading zero dropped by ComparableVersion).  With the test as found, the last prefix
   numeral can be a 00 (value 0): those lists are outside c02_wide_b, which is F-C02-11. *)
Theorem C02_maven_partial : forall l1 l2, c02_wide_b l1 = true -> c02_wide_b l2 = true ->
  maven_compare l1 l2 = Ok (item_cmp (items_of l1) (items_of l2)).
Proof. intros l1 l2 H1 H2. apply maven_spec_agree; apply c02_wide_b_hyp; auto. Qed.
Print Assumptions C02_maven_partial.

(* The table tie used by the proof, stated on its own: for every qualifier text, ComparableVersion's
   rank of its stored value is the deps.dev table's order plus 7. *)
Theorem C02_maven_table : forall q, mrank q = qualifier_order q + 7.
Proof. exact mrank_order. Qed.
Print Assumptions C02_maven_table.

(* Non-vacuity: 1.0-alpha-1 and 1.0-SNAPSHOT parse into the domain, their lists stand for the
   normalised ComparableVersion trees of the strings, and both sides say -1. *)
Example C02_maven_nonvacuous :
  match mvn_parse_with false s_1_0_alpha_1, mvn_parse_with false s_1_0_snapshot with
  | Some (Ok a), Some (Ok b) =>
      c02_wide_b (mvn_elems a) = true /\ c02_wide_b (mvn_elems b) = true /\
      items_of (mvn_elems a) = comparable_version s_1_0_alpha_1 /\
      items_of (mvn_elems b) = comparable_version s_1_0_snapshot /\
      compare a b = Ok (-1) /\ mspec_compare s_1_0_alpha_1 s_1_0_snapshot = -1
  | _, _ => False
  end.
Proof. exact maven_c02_nonvacuous. Qed.
